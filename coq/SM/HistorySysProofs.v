(** Proofs for C19, part 3: committed config history ids are unique and strictly increasing in
    log order, for every history of the system model that satisfies marks_committed and
    issuer_caught_up; refuted without marks_committed. *)
From RN Require Import SM.Sequence SM.HistorySys.
From Coq Require Import ZifyBool ZifyNat ZifyN.
Local Open Scope N_scope.

Definition mstep (a : N) (e : hentry) : N := match snd e with Some m => N.max a m | None => a end.
Definition maxmark (l : list hentry) : N := fold_left mstep l 0.

Lemma fold_max_ge l a : a <= fold_left mstep l a.
Proof.
  revert a. induction l as [|[id [m|]] l IH]; intros a; cbn [fold_left mstep snd]; [lia| |apply IH].
  specialize (IH (N.max a m)). lia.
Qed.

Lemma maxmark_app l e : maxmark (l ++ [e]) = match snd e with Some m => N.max (maxmark l) m | None => maxmark l end.
Proof. unfold maxmark. rewrite fold_left_app. reflexivity. Qed.

Lemma fold_in l a id m : In (id, Some m) l -> m <= fold_left mstep l a.
Proof.
  revert a. induction l as [|e l IH]; intros a I; [contradiction|]. cbn [fold_left].
  destruct I as [E|I]; [|apply IH; exact I]. subst e.
  pose proof (fold_max_ge l (mstep a (id, Some m))) as G.
  assert (m <= mstep a (id, Some m)) by (unfold mstep; cbn [snd]; lia). lia.
Qed.

Lemma maxmark_in l id m : In (id, Some m) l -> m <= maxmark l.
Proof. apply fold_in. Qed.

Lemma firstn_S_nth {A} (l : list A) n x : nth_error l n = Some x -> firstn (S n) l = firstn n l ++ [x].
Proof.
  revert n. induction l as [|y l IH]; intros n E; [destruct n; discriminate|].
  destruct n as [|n]; cbn [nth_error firstn] in *.
  - inversion E. reflexivity.
  - cbn [app]. f_equal. apply IH. exact E.
Qed.

Lemma firstn_app_le {A} (l : list A) x n : (n <= length l)%nat -> firstn n (l ++ [x]) = firstn n l.
Proof. intros L. rewrite firstn_app. replace (n - length l)%nat with 0%nat by lia. cbn. apply app_nil_r. Qed.

Definition lst (n : hnode) : N := sq_last (hn_seq n).
Definition cch (n : hnode) : N := sq_cache (hn_seq n).
Definition ceil (n : hnode) : N := lst n + cch n.

Inductive strictly_inc : list N -> Prop :=
| si_nil : strictly_inc []
| si_snoc : forall l x, strictly_inc l -> (forall y, In y l -> y < x) -> strictly_inc (l ++ [x]).

Record hinv (s : hsys) : Prop := mkHinv {
  hi_batch : forall i, sq_batch (hn_seq (hs_nodes s i)) = 100;
  hi_applied : forall i, (hn_applied (hs_nodes s i) <= length (hs_log s))%nat;
  hi_ids : forall id, In id (log_ids s) -> id <= maxmark (hs_log s);
  hi_floor : forall i, maxmark (firstn (hn_applied (hs_nodes s i)) (hs_log s)) <= ceil (hs_nodes s i);
  hi_ceil : forall i, ceil (hs_nodes s i) <= maxmark (hs_log s);
  hi_disj : forall i j, i <> j -> 0 < cch (hs_nodes s i) -> 0 < cch (hs_nodes s j) ->
            ceil (hs_nodes s i) <= lst (hs_nodes s j) \/ ceil (hs_nodes s j) <= lst (hs_nodes s i);
  hi_fresh : forall i id, In id (log_ids s) -> ~ (lst (hs_nodes s i) < id <= ceil (hs_nodes s i));
  hi_sorted : strictly_inc (log_ids s);
}.

Lemma hinv_new : hinv hsys_new.
Proof.
  constructor; cbn; intros; try lia; try contradiction; auto.
  - unfold ceil, lst, cch. cbn. lia.
  - constructor.
Qed.

Lemma upd_same f i x : upd f i x i = x.
Proof. unfold upd. rewrite Nat.eqb_refl. reflexivity. Qed.
Lemma upd_other f i x j : j <> i -> upd f i x j = f j.
Proof. intros N. unfold upd. apply Nat.eqb_neq in N. rewrite N. reflexivity. Qed.

Lemma next_state_100 q : sq_batch q = 100 ->
  exists q' id mk, next_state q = Some (q', (id, mk)) /\ sq_batch q' = 100 /\ id = sq_last q + 1 /\ sq_last q' = sq_last q + 1 /\
    ((0 < sq_cache q /\ mk = None /\ sq_cache q' = sq_cache q - 1) \/
     (sq_cache q = 0 /\ mk = Some (sq_last q + 100) /\ sq_cache q' = 99)).
Proof.
  intros B. unfold next_state. rewrite B. destruct (sq_cache q =? 0) eqn:E.
  - cbn. eexists _, _, _. split; [reflexivity|]. cbn. repeat split; auto. right. repeat split; auto. lia.
  - destruct (sq_cache q =? 0) eqn:E2; [discriminate|]. eexists _, _, _. split; [reflexivity|]. cbn.
    repeat split; auto. left. repeat split; auto. lia.
Qed.

Lemma log_ids_app s e : map fst (hs_log s ++ [e]) = log_ids s ++ [fst e].
Proof. unfold log_ids. rewrite map_app. reflexivity. Qed.

Ltac ar := unfold ceil, lst, cch in *; cbn [hn_seq hn_applied] in *; lia.

Lemma hstep_inv s e : hinv s -> ev_ok s e -> hinv (hstep s e).
Proof.
  intros I OK. pose proof I as [Bt Ap Ids Fl Ce Dj Fr So].
  destruct e as [i c|i|i j|j]; cbn [hstep ev_ok] in *.
  - (* allocation *)
    destruct (next_state_100 (hn_seq (hs_nodes s i)) (Bt i)) as [q' [id [mk [E [B' [Eid [El Cases]]]]]]].
    rewrite E in *. destruct OK as [H1 H2].
    assert (Li : lst (mkHN q' (hn_applied (hs_nodes s i))) = lst (hs_nodes s i) + 1) by (unfold lst; cbn; exact El).
    destruct Cases as [[Cpos [Mk Cc]]|[Czero [Mk Cc]]]; subst mk.
    + (* inside a block *)
      assert (Ci : ceil (mkHN q' (hn_applied (hs_nodes s i))) = ceil (hs_nodes s i)) by (unfold ceil, lst, cch; cbn; rewrite El, Cc; ar).
      assert (IdIn : lst (hs_nodes s i) < id <= ceil (hs_nodes s i)) by (unfold ceil, lst, cch; ar).
      assert (Others : forall j, j <> i -> 0 < cch (hs_nodes s j) -> ~ (lst (hs_nodes s j) < id <= ceil (hs_nodes s j))).
      { intros j Nj Cj. assert (P1 : 0 < cch (hs_nodes s i)) by (unfold cch; ar).
        destruct (Dj i j (not_eq_sym Nj) P1 Cj) as [D|D]; unfold ceil, lst, cch in *; ar. }
      assert (NodeFacts : forall L', (forall k, maxmark (firstn (hn_applied (hs_nodes s k)) L') <= ceil (hs_nodes s k)) ->
                 forall k, maxmark (firstn (hn_applied (upd (hs_nodes s) i (mkHN q' (hn_applied (hs_nodes s i))) k)) L')
                           <= ceil (upd (hs_nodes s) i (mkHN q' (hn_applied (hs_nodes s i))) k)).
      { intros L' F k. destruct (Nat.eq_dec k i) as [->|Nk]; [rewrite upd_same, Ci; cbn; apply F|rewrite upd_other by exact Nk; apply F]. }
      destruct c.
      * (* committed *)
        specialize (H2 eq_refl).
        assert (AllLe : forall y, In y (log_ids s) -> y <= lst (hs_nodes s i)).
        { intros y Iy. pose proof (Ids y Iy) as Y1. pose proof (Fl i) as Y2.
          rewrite H2, firstn_all in Y2. pose proof (Fr i y Iy) as Y3. ar. }
        constructor; cbn [hs_nodes hs_log].
        -- intros k. destruct (Nat.eq_dec k i) as [->|Nk]; [rewrite upd_same; exact B'|rewrite upd_other by exact Nk; apply Bt].
        -- intros k. rewrite app_length. cbn [length]. destruct (Nat.eq_dec k i) as [->|Nk];
             [rewrite upd_same; cbn; specialize (Ap i); ar|rewrite upd_other by exact Nk; specialize (Ap k); ar].
        -- intros y. unfold log_ids. cbn [hs_log]. rewrite log_ids_app, maxmark_app. cbn [fst snd]. intros Iy.
           apply in_app_or in Iy. destruct Iy as [Iy|[<-|[]]]; [apply Ids; exact Iy|].
           pose proof (Ce i). ar.
        -- apply NodeFacts. intros k. rewrite firstn_app_le by apply Ap. apply Fl.
        -- intros k. rewrite maxmark_app. cbn [snd]. destruct (Nat.eq_dec k i) as [->|Nk];
             [rewrite upd_same, Ci; apply Ce|rewrite upd_other by exact Nk; apply Ce].
        -- intros a b Nab Ca Cb.
           destruct (Nat.eq_dec a i) as [->|Na]; destruct (Nat.eq_dec b i) as [->|Nb]; try contradiction;
             rewrite ?upd_same, ?(upd_other _ _ _ _ Na), ?(upd_other _ _ _ _ Nb) in *.
           ++ rewrite Ci, Li. assert (P1 : 0 < cch (hs_nodes s i)) by (unfold cch; ar).
              destruct (Dj i b Nab P1 Cb) as [D|D]; ar.
           ++ rewrite Ci, Li. assert (P1 : 0 < cch (hs_nodes s i)) by (unfold cch; ar).
              destruct (Dj a i Nab Ca P1) as [D|D]; ar.
           ++ apply Dj; auto.
        -- intros k y. unfold log_ids. cbn [hs_log]. rewrite log_ids_app. cbn [fst]. intros Iy.
           apply in_app_or in Iy. destruct (Nat.eq_dec k i) as [->|Nk].
           ++ rewrite upd_same, Ci, Li. destruct Iy as [Iy|[<-|[]]]; [pose proof (Fr i y Iy) as F; ar|ar].
           ++ rewrite upd_other by exact Nk. destruct Iy as [Iy|[<-|[]]]; [apply Fr; exact Iy|].
              destruct (N.eq_dec (cch (hs_nodes s k)) 0) as [Z|NZ]; [unfold ceil; ar|apply Others; auto; ar].
        -- unfold log_ids. cbn [hs_log]. rewrite log_ids_app. cbn [fst]. constructor; auto.
           intros y Iy. specialize (AllLe y Iy). ar.
      * (* lost write inside a block: the id is consumed, the log is unchanged *)
        constructor; cbn [hs_nodes hs_log].
        -- intros k. destruct (Nat.eq_dec k i) as [->|Nk]; [rewrite upd_same; exact B'|rewrite upd_other by exact Nk; apply Bt].
        -- intros k. destruct (Nat.eq_dec k i) as [->|Nk]; [rewrite upd_same; cbn; apply Ap|rewrite upd_other by exact Nk; apply Ap].
        -- exact Ids.
        -- apply NodeFacts. exact Fl.
        -- intros k. destruct (Nat.eq_dec k i) as [->|Nk]; [rewrite upd_same, Ci; apply Ce|rewrite upd_other by exact Nk; apply Ce].
        -- intros a b Nab Ca Cb.
           destruct (Nat.eq_dec a i) as [->|Na]; destruct (Nat.eq_dec b i) as [->|Nb]; try contradiction;
             rewrite ?upd_same, ?(upd_other _ _ _ _ Na), ?(upd_other _ _ _ _ Nb) in *.
           ++ rewrite Ci, Li. assert (P1 : 0 < cch (hs_nodes s i)) by (unfold cch; ar).
              destruct (Dj i b Nab P1 Cb) as [D|D]; ar.
           ++ rewrite Ci, Li. assert (P1 : 0 < cch (hs_nodes s i)) by (unfold cch; ar).
              destruct (Dj a i Nab Ca P1) as [D|D]; ar.
           ++ apply Dj; auto.
        -- intros k y Iy. destruct (Nat.eq_dec k i) as [->|Nk].
           ++ rewrite upd_same, Ci, Li. pose proof (Fr i y Iy) as F. ar.
           ++ rewrite upd_other by exact Nk. apply Fr. exact Iy.
        -- exact So.
    + (* a new block: committed (marks_committed) by a caught-up node (issuer_caught_up) *)
      assert (Cm : c = true) by (apply H1; discriminate). subst c. specialize (H2 eq_refl).
      assert (LG : lst (hs_nodes s i) = maxmark (hs_log s)).
      { pose proof (Fl i) as Y2. rewrite H2, firstn_all in Y2. pose proof (Ce i) as Y3.
        unfold ceil, cch in *. ar. }
      assert (Ci : ceil (mkHN q' (hn_applied (hs_nodes s i))) = lst (hs_nodes s i) + 100) by (unfold ceil, lst, cch; cbn; rewrite El, Cc; ar).
      assert (G' : maxmark (hs_log s ++ [(id, Some (sq_last (hn_seq (hs_nodes s i)) + 100))]) = lst (hs_nodes s i) + 100).
      { rewrite maxmark_app. cbn [snd]. unfold lst in *. ar. }
      constructor; cbn [hs_nodes hs_log].
      * intros k. destruct (Nat.eq_dec k i) as [->|Nk]; [rewrite upd_same; exact B'|rewrite upd_other by exact Nk; apply Bt].
      * intros k. rewrite app_length. cbn [length]. destruct (Nat.eq_dec k i) as [->|Nk];
          [rewrite upd_same; cbn; specialize (Ap i); ar|rewrite upd_other by exact Nk; specialize (Ap k); ar].
      * intros y. unfold log_ids. cbn [hs_log]. rewrite log_ids_app, G'. cbn [fst]. intros Iy.
        apply in_app_or in Iy. destruct Iy as [Iy|[<-|[]]]; [pose proof (Ids y Iy); ar|unfold lst in *; ar].
      * intros k. destruct (Nat.eq_dec k i) as [->|Nk].
        -- rewrite upd_same, Ci. cbn [hn_applied]. rewrite firstn_app_le by ar.
           pose proof (Fl i) as F. unfold ceil in F. unfold cch in *. ar.
        -- rewrite upd_other by exact Nk. rewrite firstn_app_le by apply Ap. apply Fl.
      * intros k. rewrite G'. destruct (Nat.eq_dec k i) as [->|Nk]; [rewrite upd_same, Ci; ar|].
        rewrite upd_other by exact Nk. pose proof (Ce k). ar.
      * intros a b Nab Ca Cb.
        destruct (Nat.eq_dec a i) as [->|Na]; destruct (Nat.eq_dec b i) as [->|Nb]; try contradiction;
          rewrite ?upd_same, ?(upd_other _ _ _ _ Na), ?(upd_other _ _ _ _ Nb) in *.
        -- right. rewrite Li. pose proof (Ce b). ar.
        -- left. rewrite Li. pose proof (Ce a). ar.
        -- apply Dj; auto.
      * intros k y. unfold log_ids. cbn [hs_log]. rewrite log_ids_app. cbn [fst]. intros Iy.
        apply in_app_or in Iy. destruct (Nat.eq_dec k i) as [->|Nk].
        -- rewrite upd_same, Ci, Li. destruct Iy as [Iy|[<-|[]]]; [pose proof (Ids y Iy); ar|unfold lst in *; ar].
        -- rewrite upd_other by exact Nk. destruct Iy as [Iy|[<-|[]]]; [apply Fr; exact Iy|].
           pose proof (Ce k). unfold lst in *. ar.
      * unfold log_ids. cbn [hs_log]. rewrite log_ids_app. cbn [fst]. constructor; auto.
        intros y Iy. pose proof (Ids y Iy). unfold lst in *. ar.
  - (* a node applies the next committed entry *)
    destruct (nth_error (hs_log s) (hn_applied (hs_nodes s i))) as [[id mk]|] eqn:E; [|exact I].
    assert (Lt : (hn_applied (hs_nodes s i) < length (hs_log s))%nat) by (apply nth_error_Some; congruence).
    assert (Fs : maxmark (firstn (S (hn_applied (hs_nodes s i))) (hs_log s)) =
                 match mk with Some m => N.max (maxmark (firstn (hn_applied (hs_nodes s i)) (hs_log s))) m
                          | None => maxmark (firstn (hn_applied (hs_nodes s i)) (hs_log s)) end).
    { rewrite (firstn_S_nth _ _ _ E), maxmark_app. reflexivity. }
    assert (MkLe : forall m, mk = Some m -> m <= maxmark (hs_log s)).
    { intros m ->. apply (maxmark_in _ id). eapply nth_error_In. exact E. }
    set (q' := apply_entry (hn_seq (hs_nodes s i)) (id, mk)).
    assert (Q : (sq_batch q' = 100) /\
                ((q' = hn_seq (hs_nodes s i) /\ (forall m, mk = Some m -> m <= ceil (hs_nodes s i))) \/
                 (exists m, mk = Some m /\ ceil (hs_nodes s i) < m /\ sq_last q' = m /\ sq_cache q' = 0))).
    { unfold q', apply_entry. cbn [snd]. destruct mk as [m|]; [|split; [apply Bt|left; split; [reflexivity|discriminate]]].
      unfold set_valid_last_id. fold (ceil (hs_nodes s i)). unfold ceil, lst, cch.
      destruct (sq_last (hn_seq (hs_nodes s i)) + sq_cache (hn_seq (hs_nodes s i)) <? m) eqn:C.
      - split; [cbn; apply Bt|]. right. exists m. cbn. repeat split; auto. ar.
      - split; [apply Bt|]. left. split; [reflexivity|]. intros m' [= <-]. ar. }
    destruct Q as [Bq Q].
    constructor; cbn [hs_nodes hs_log]; [| |exact Ids| | | | |exact So].
    + intros k. destruct (Nat.eq_dec k i) as [->|Nk]; [rewrite upd_same; exact Bq|rewrite upd_other by exact Nk; apply Bt].
    + intros k. destruct (Nat.eq_dec k i) as [->|Nk]; [rewrite upd_same; cbn; ar|rewrite upd_other by exact Nk; apply Ap].
    + intros k. destruct (Nat.eq_dec k i) as [->|Nk]; [|rewrite upd_other by exact Nk; apply Fl].
      rewrite upd_same. cbn [hn_applied]. rewrite Fs. pose proof (Fl i) as F.
      destruct Q as [[Eq Le]|[m [-> [Lm [Lq Cq]]]]].
      * unfold ceil, lst, cch. cbn [hn_seq]. rewrite Eq. fold (ceil (hs_nodes s i)). destruct mk as [m|]; [specialize (Le m eq_refl); ar|ar].
      * unfold ceil, lst, cch. cbn [hn_seq]. rewrite Lq, Cq. ar.
    + intros k. destruct (Nat.eq_dec k i) as [->|Nk]; [|rewrite upd_other by exact Nk; apply Ce].
      rewrite upd_same. destruct Q as [[Eq Le]|[m [Em [Lm [Lq Cq]]]]].
      * unfold ceil, lst, cch. cbn [hn_seq]. rewrite Eq. apply Ce.
      * unfold ceil, lst, cch. cbn [hn_seq]. rewrite Lq, Cq. specialize (MkLe m Em). ar.
    + intros a b Nab Ca Cb.
      destruct Q as [[Eq Le]|[m [Em [Lm [Lq Cq]]]]].
      * destruct (Nat.eq_dec a i) as [->|Na]; destruct (Nat.eq_dec b i) as [->|Nb]; try contradiction;
          rewrite ?upd_same, ?(upd_other _ _ _ _ Na), ?(upd_other _ _ _ _ Nb) in *;
          unfold ceil, lst, cch in *; cbn [hn_seq] in *; rewrite ?Eq in *; apply Dj; auto.
      * destruct (Nat.eq_dec a i) as [->|Na]; [rewrite upd_same in Ca; unfold cch in Ca; cbn in Ca; ar|].
        destruct (Nat.eq_dec b i) as [->|Nb]; [rewrite upd_same in Cb; unfold cch in Cb; cbn in Cb; ar|].
        rewrite !upd_other by assumption. rewrite !upd_other in Ca, Cb by assumption. apply Dj; auto.
    + intros k y Iy. destruct (Nat.eq_dec k i) as [->|Nk]; [|rewrite upd_other by exact Nk; apply Fr; exact Iy].
      rewrite upd_same. destruct Q as [[Eq Le]|[m [Em [Lm [Lq Cq]]]]].
      * unfold ceil, lst, cch. cbn [hn_seq]. rewrite Eq. apply (Fr i y Iy).
      * unfold ceil, lst, cch. cbn [hn_seq]. rewrite Lq, Cq. ar.
  - (* restart / install from a snapshot of node i taken now *)
    set (nj := mkHN (set_last_id (sseq_new 0 100) (get_end_id (hn_seq (hs_nodes s i)))) (hn_applied (hs_nodes s i))).
    assert (Lj : lst nj = ceil (hs_nodes s i)) by reflexivity.
    assert (Cj : cch nj = 0) by reflexivity.
    assert (Ej : ceil nj = ceil (hs_nodes s i)) by (unfold ceil in *; rewrite Lj, Cj; lia).
    constructor; cbn [hs_nodes hs_log]; [| |exact Ids| | | | |exact So].
    + intros k. destruct (Nat.eq_dec k j) as [->|Nk]; [rewrite upd_same; reflexivity|rewrite upd_other by exact Nk; apply Bt].
    + intros k. destruct (Nat.eq_dec k j) as [->|Nk]; [rewrite upd_same; cbn; apply Ap|rewrite upd_other by exact Nk; apply Ap].
    + intros k. destruct (Nat.eq_dec k j) as [->|Nk]; [rewrite upd_same, Ej; cbn; apply Fl|rewrite upd_other by exact Nk; apply Fl].
    + intros k. destruct (Nat.eq_dec k j) as [->|Nk]; [rewrite upd_same, Ej; apply Ce|rewrite upd_other by exact Nk; apply Ce].
    + intros a b Nab Ca Cb.
      destruct (Nat.eq_dec a j) as [->|Na]; [rewrite upd_same, Cj in Ca; ar|].
      destruct (Nat.eq_dec b j) as [->|Nb]; [rewrite upd_same, Cj in Cb; ar|].
      rewrite !upd_other by assumption. rewrite !upd_other in Ca, Cb by assumption. apply Dj; auto.
    + intros k y Iy. destruct (Nat.eq_dec k j) as [->|Nk]; [rewrite upd_same, Ej, Lj; ar|rewrite upd_other by exact Nk; apply Fr; exact Iy].
  - (* an empty node *)
    constructor; cbn [hs_nodes hs_log]; [| |exact Ids| | | | |exact So].
    + intros k. destruct (Nat.eq_dec k j) as [->|Nk]; [rewrite upd_same; reflexivity|rewrite upd_other by exact Nk; apply Bt].
    + intros k. destruct (Nat.eq_dec k j) as [->|Nk]; [rewrite upd_same; cbn; ar|rewrite upd_other by exact Nk; apply Ap].
    + intros k. destruct (Nat.eq_dec k j) as [->|Nk]; [rewrite upd_same; cbn; unfold ceil, lst, cch; cbn; ar|rewrite upd_other by exact Nk; apply Fl].
    + intros k. destruct (Nat.eq_dec k j) as [->|Nk]; [rewrite upd_same; unfold ceil, lst, cch; cbn; ar|rewrite upd_other by exact Nk; apply Ce].
    + intros a b Nab Ca Cb.
      destruct (Nat.eq_dec a j) as [->|Na]; [rewrite upd_same in Ca; unfold cch in Ca; cbn in Ca; ar|].
      destruct (Nat.eq_dec b j) as [->|Nb]; [rewrite upd_same in Cb; unfold cch in Cb; cbn in Cb; ar|].
      rewrite !upd_other by assumption. rewrite !upd_other in Ca, Cb by assumption. apply Dj; auto.
    + intros k y Iy. destruct (Nat.eq_dec k j) as [->|Nk]; [rewrite upd_same; unfold ceil, lst, cch; cbn; ar|rewrite upd_other by exact Nk; apply Fr; exact Iy].
Qed.

Lemma hrun_inv evs : forall s, hinv s -> run_ok ev_ok s evs -> hinv (hrun s evs).
Proof.
  induction evs as [|e evs IH]; intros s I R; cbn [hrun fold_left]; auto.
  destruct R as [R1 R2]. apply IH; [apply hstep_inv; auto|exact R2].
Qed.

Lemma strictly_inc_sorted l : strictly_inc l ->
  forall i j x y, (i < j)%nat -> nth_error l i = Some x -> nth_error l j = Some y -> x < y.
Proof.
  induction 1 as [|l z S IH A]; intros i j x y Lt Ni Nj.
  - destruct i; discriminate.
  - destruct (Nat.lt_ge_cases j (length l)) as [Lj|Lj].
    + rewrite nth_error_app1 in Ni by lia. rewrite nth_error_app1 in Nj by lia. apply (IH i j x y Lt Ni Nj).
    + assert (j = length l).
      { assert (nth_error (l ++ [z]) j <> None) by congruence. apply nth_error_Some in H. rewrite app_length in H. cbn in H. lia. }
      subst j. rewrite nth_error_app2 in Nj by lia. rewrite Nat.sub_diag in Nj. cbn in Nj. inversion Nj; subst.
      rewrite nth_error_app1 in Ni by lia. apply A. eapply nth_error_In. exact Ni.
Qed.

(** THEOREM: under marks_committed and issuer_caught_up the committed history ids are pairwise
    different and strictly increasing in log order, for every history of allocations (committed
    or lost), applies, snapshot restarts / installs, empty restarts and leader changes *)
Theorem history_ids_unique evs : run_ok ev_ok hsys_new evs ->
  forall i j x y, (i < j)%nat ->
    nth_error (log_ids (hrun hsys_new evs)) i = Some x -> nth_error (log_ids (hrun hsys_new evs)) j = Some y -> x < y.
Proof.
  intros R. apply strictly_inc_sorted. apply (hi_sorted _ (hrun_inv evs hsys_new hinv_new R)).
Qed.

(** REFUTED without marks_committed (known finding history-mark-lost): the first allocation
    opens a block (mark 100) and is lost; ids 2,3,4 are committed without a mark; the node
    restarts empty and replays: ids 1 and 2 are issued again *)
Definition lost_mark_witness : list hev :=
  [HIssue 0 false; HIssue 0 true; HApply 0; HIssue 0 true; HApply 0; HIssue 0 true; HApply 0;
   HFresh 0; HApply 0; HApply 0; HApply 0; HIssue 0 true; HApply 0; HIssue 0 true].

Lemma history_ids_unique_refuted :
  run_ok ev_caught_up hsys_new lost_mark_witness /\
  log_ids (hrun hsys_new lost_mark_witness) = [2; 3; 4; 1; 2].
Proof. split; [vm_compute; repeat split; auto|vm_compute; reflexivity]. Qed.

(** the hypotheses are satisfiable by a non-trivial history: two nodes, a lost write inside a
    block, a snapshot restart, a leader change *)
Example history_ok_example :
  let evs := [HIssue 0 true; HApply 0; HIssue 0 false; HIssue 0 true; HApply 1; HApply 1;
              HFork 0 0; HApply 0; HIssue 0 true; HApply 1; HIssue 1 true] in
  run_ok ev_ok hsys_new evs /\ log_ids (hrun hsys_new evs) = [1; 3; 101; 201].
Proof.
  split; [|vm_compute; reflexivity].
  vm_compute. repeat split; intros; try reflexivity; try congruence.
Qed.
