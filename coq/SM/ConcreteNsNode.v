(** C01 for the NAMESPACE component without component premises: the node of SM/Replay.v instantiated
    with the literal NamespaceActor model (SM/ConcreteNs.v) for KNamespace (the other six components carry
    no state here; config / sequence / table are treated in SM/ConcreteProofs.v).  The component laws of
    the generic restart theorem are discharged by the namespace round-trip law. *)
From RN Require Import SM.ConcreteNs SM.ConcreteNsProofs SM.Replay SM.ReplayProofs SM.SnapCodecProofs Codec.BufReaderProofs Base.SMapProofs
     RaftLog.SnapFileProofs.
From Coq Require Import Lia.
Local Open Scope N_scope.
Local Notation length := List.length.

Definition nn_apply (c : comp) (s : nsstate) (r : nsreq) : nsstate :=
  match c with KNamespace => ns_apply s r | _ => s end.
Definition nn_snap (c : comp) (s : nsstate) : list record :=
  match c with KNamespace => ns_snapshot s | _ => [] end.
Definition nn_load (c : comp) (_ : load_msg) (s : nsstate) (r : record) : nsstate :=
  match c with KNamespace => ns_load s r | _ => s end.
Definition nn_init (_ : comp) : nsstate := ns_init.

(** what NamespaceQueryReq::List can tell apart (as a set) plus the already_sync flag *)
Definition ns_eqw (a b : nsstate) : Prop := ns_data a = ns_data b /\ ns_already a = ns_already b.
Definition nn_eq (c : comp) (a b : nsstate) : Prop :=
  match c with KNamespace => ns_eqw a b | _ => True end.
Definition nn_inv (c : comp) (s : nsstate) : Prop :=
  match c with KNamespace => ns_inv s | _ => True end.
Definition nn_mok (c : comp) (r : nsreq) : Prop :=
  match c with KNamespace => ns_mok r | _ => False end.
(** encodable and inside the law's domain at the compaction point: InitFromOldValue not yet applied,
    the marker id is not a namespace, byte-string ids / names, records below 2^64 *)
Definition nn_ok (c : comp) (s : nsstate) : Prop :=
  match c with
  | KNamespace => ns_already s = false /\ sm_get str_cmp (ns_data s) NS_MARK = None /\
                  Forall wf_ns_entry (ns_data s) /\ Forall wf_record (ns_snapshot s)
  | _ => True
  end.

Lemma ns_set_cong a b p oa ou : ns_eqw a b -> ns_eqw (ns_set a p oa ou) (ns_set b p oa ou).
Proof.
  intros [D A]. unfold ns_set. rewrite D, A.
  destruct (str_eqb (np_id p) NS_PUBLIC); [split; assumption |].
  destruct (sm_get str_cmp (ns_data b) (np_id p)) as [v |].
  - destruct (oa && (N.lor (ns_flag v) F_USER =? ns_flag v))%bool; split; cbn [ns_data ns_already]; congruence.
  - destruct ou; split; cbn [ns_data ns_already]; congruence.
Qed.

Lemma ns_remove_cong a b id f : ns_eqw a b -> ns_eqw (ns_remove a id f) (ns_remove b id f).
Proof.
  intros [D A]. unfold ns_remove. rewrite D.
  destruct (str_is_empty id); [split; assumption |].
  destruct (sm_get str_cmp (ns_data b) id) as [v |]; [| split; assumption].
  destruct (N.ldiff (ns_flag v) f =? ns_flag v); [split; assumption |].
  destruct (0 <? N.ldiff (ns_flag v) f); split; cbn [ns_data ns_already]; congruence.
Qed.

Lemma ns_init_old_cong items : forall a b, ns_eqw a b -> ns_eqw (ns_init_old a items) (ns_init_old b items).
Proof.
  induction items as [| p items IH]; intros a b E; [exact E |]. cbn [ns_init_old fold_left].
  apply IH. destruct (str_is_empty (np_id p)); [exact E | now apply ns_set_cong].
Qed.

Lemma ns_apply_cong a b r : ns_eqw a b -> ns_eqw (ns_apply a r) (ns_apply b r).
Proof.
  intros E. destruct r; cbn [ns_apply]; try (now apply ns_set_cong); [now apply ns_remove_cong |].
  destruct (ns_init_old_cong items a b E) as [D _]. split; cbn [ns_data ns_already]; [exact D | reflexivity].
Qed.

Lemma nn_eq_trans c s1 s2 s3 : nn_eq c s1 s2 -> nn_eq c s2 s3 -> nn_eq c s1 s3.
Proof. destruct c; cbn; auto. intros [D1 A1] [D2 A2]. split; congruence. Qed.

Lemma nn_apply_cong c s1 s2 m : nn_eq c s1 s2 -> nn_eq c (nn_apply c s1 m) (nn_apply c s2 m).
Proof. destruct c; cbn; auto. apply ns_apply_cong. Qed.

Lemma nn_eq_refl c s : nn_inv c s -> nn_eq c s s.
Proof. destruct c; cbn; auto. intros _. split; reflexivity. Qed.

Lemma nn_inv_init c : nn_inv c (nn_init c).
Proof. destruct c; cbn; auto. apply ns_init_inv. Qed.

Lemma nn_inv_apply c s m : nn_inv c s -> nn_mok c m -> nn_inv c (nn_apply c s m).
Proof. destruct c; cbn; auto. apply ns_apply_inv. Qed.

Lemma route_namespace key : route load_arms T_NAMESPACE_B key = Some (KNamespace, LLoadRecord).
Proof. reflexivity. Qed.

Lemma ns_snapshot_tree s r : In r (ns_snapshot s) -> rtree r = T_NAMESPACE_B.
Proof.
  unfold ns_snapshot. rewrite in_app_iff. intros [Hin | Hin].
  - apply in_map_iff in Hin. destruct Hin as [kv [<- _]]. reflexivity.
  - destruct (ns_already s); [destruct Hin as [<- | []]; reflexivity | destruct Hin].
Qed.

Lemma nn_snap_routed c s r : nn_inv c s -> nn_ok c s -> In r (nn_snap c s) -> routed_to c (rtree r) (rkey r).
Proof.
  destruct c; cbn [nn_snap]; try (intros _ _ []).
  intros _ _ Hin. rewrite (ns_snapshot_tree _ _ Hin). eexists. apply route_namespace.
Qed.

Lemma ns_load_routed l : forall acc,
  (forall r, In r l -> rtree r = T_NAMESPACE_B) ->
  fold_left (cload_routed nsstate nn_load KNamespace) l acc = fold_left ns_load l acc.
Proof.
  induction l as [| r l IH]; intros acc HP; [reflexivity |]. cbn [fold_left].
  unfold cload_routed at 2. rewrite (HP r (or_introl eq_refl)), route_namespace. cbn [comp_eqb nn_load].
  apply IH. intros r' Hr'. apply HP. now right.
Qed.

Theorem nn_roundtrip c s : nn_inv c s -> nn_ok c s ->
  nn_eq c (fold_left (cload_routed nsstate nn_load c) (nn_snap c s) (nn_init c)) s.
Proof.
  destruct c; cbn [nn_eq]; auto.
  intros I (AF & NM & WB & _). cbn [nn_snap nn_init].
  rewrite ns_load_routed by (intros r Hin; now apply (ns_snapshot_tree s)).
  destruct (ns_snapshot_roundtrip s I AF NM WB) as [D A]. unfold ns_reload in D, A.
  split; [exact D | rewrite AF; exact A].
Qed.

Lemma nn_codec_ok (st : node nsstate) hdr :
  rec_ok hdr -> (length (frame hdr) <= 1024)%nat -> (forall c, nn_ok c (st c)) ->
  codec_ok enc_item dec_item_frame hdr (build_snapshot nsstate nn_snap st).
Proof.
  intros Hh Hl K. split; [exact Hh | split; [exact Hl |]].
  unfold build_snapshot. apply Forall_forall. intros r Hin. apply in_flat_map in Hin.
  destruct Hin as [c [_ Hin]]. destruct c; cbn [nn_snap] in Hin; try destruct Hin.
  destruct (K KNamespace) as (_ & _ & _ & F). cbn in F. rewrite Forall_forall in F. specialize (F r Hin).
  split; [now apply item_roundtrip | now apply item_rec_ok].
Qed.

(** C01 for histories of namespace requests, WITHOUT component, framing or codec premises *)
Theorem restart_reproduces_namespace :
  forall (hist : list (entry nsreq)) (k : nat) (leftover hdr : list N),
    (k <= length hist)%nat ->
    Forall (entry_ok nsreq nn_mok) hist ->
    (forall c, nn_ok c (run nsstate nsreq nn_apply (firstn k hist) (init_node nsstate nn_init) c)) ->
    rec_ok hdr -> (length (frame hdr) <= 1024)%nat ->
    exists nd,
      restart nsstate nsreq nn_apply nn_snap nn_load nn_init enc_item dec_item_frame
              write_truncate leftover hdr hist k = Ok nd /\
      forall c, nn_eq c (nd c) (run nsstate nsreq nn_apply hist (init_node nsstate nn_init) c).
Proof.
  intros hist k leftover hdr Hk OK NK Hh Hl.
  apply (restart_reproduces nsstate nsreq nn_apply nn_snap nn_load nn_init nn_eq nn_eq_trans nn_apply_cong
                            nn_inv nn_mok nn_ok nn_eq_refl nn_inv_init nn_inv_apply nn_snap_routed nn_roundtrip
                            enc_item dec_item_frame hist k leftover hdr Hk OK NK).
  now apply nn_codec_ok.
Qed.

(** the hypotheses are satisfiable: six namespace requests, compaction after the fourth *)
Definition nn_hist : list (entry nsreq) :=
  map (fun r => Some (KNamespace, r))
    [NsSet (mkNsP (nsb "dev") (Some (nsb "Development")) (Some TY_USER));
     NsSet (mkNsP (nsb "prod") (Some (nsb "Production")) None);
     NsUpdate (mkNsP (nsb "dev") (Some (nsb "Dev 2")) None);
     NsDelete (nsb "prod");
     NsSet (mkNsP (nsb "qa") None None);
     NsUpdate (mkNsP (nsb "qa") (Some (nsb "QA")) None)].

Definition nn_hdr : list N := [8; 5]%N.

Example nn_satisfiable :
  Forall (entry_ok nsreq nn_mok) nn_hist /\
  (forall c, nn_ok c (run nsstate nsreq nn_apply (firstn 4 nn_hist) (init_node nsstate nn_init) c)) /\
  rec_ok nn_hdr /\ (length (frame nn_hdr) <= 1024)%nat /\
  ns_data (run nsstate nsreq nn_apply nn_hist (init_node nsstate nn_init) KNamespace) =
    [([], mkNs NS_PUBLIC F_SYSTEM); (nsb "dev", mkNs (nsb "Dev 2") F_USER); (nsb "qa", mkNs (nsb "QA") F_USER)].
Proof.
  split.
  { unfold nn_hist. repeat constructor; cbn; discriminate. }
  split.
  { intros c. destruct c; cbn [nn_ok]; try exact I.
    split; [reflexivity |]. split; [reflexivity |]. split.
    - match goal with |- Forall _ ?l => let l' := eval vm_compute in l in change (Forall wf_ns_entry l') end.
      repeat first [ reflexivity | split | constructor ].
    - match goal with |- Forall _ ?l => let l' := eval vm_compute in l in change (Forall wf_record l') end.
      repeat first [ reflexivity | discriminate | split | constructor ]. }
  split; [split; [discriminate | split; [repeat constructor | reflexivity]] |].
  split; [vm_compute; lia | vm_compute; reflexivity].
Qed.
