(** Proofs about SM/Concrete.v: the component laws of the generic restart theorems
    (SM/ReplayProofs.v) hold for the concrete Config / Sequence / Table components, so that
    C01_restart_reproduces has a corollary without component premises. *)
From RN Require Import SM.Concrete SM.ReplayProofs SM.SnapCodecProofs Codec.PbWireProofs Codec.BufReaderProofs
     Base.SMapProofs SM.ConfigKeyProofs SM.ConfigIndexProofs SM.ConfigProofs SM.ConfigSpec SM.SequenceProofs
     RaftLog.SnapFileProofs.
From Coq Require Import Lia ZifyBool ZifyNat ZifyN.
Local Open Scope N_scope.
Local Notation length := List.length.
Local Notation SOK := str_cmp_ok.
Local Notation KOK := key_cmp_ok.

(** * helpers *)
Lemma bytes_eqb_refl a : bytes_eqb a a = true.
Proof. induction a as [| x a IH]; simpl; [reflexivity |]. now rewrite N.eqb_refl, IH. Qed.

Lemma bytes_eqb_eq a b : bytes_eqb a b = true <-> a = b.
Proof.
  split; [| intros ->; apply bytes_eqb_refl].
  revert b. induction a as [| x a IH]; intros [| y b]; simpl; try discriminate; [reflexivity |].
  intros E. apply andb_true_iff in E. destruct E as [E1 E2]. apply N.eqb_eq in E1. f_equal; auto.
Qed.

Lemma bytes_eqb_neq a b : a <> b -> bytes_eqb a b = false.
Proof. intros NE. destruct (bytes_eqb a b) eqn:E; [apply bytes_eqb_eq in E; contradiction | reflexivity]. Qed.

Lemma fold_left_map {A B C} (g : A -> B -> A) (f : C -> B) l a :
  fold_left g (map f l) a = fold_left (fun a x => g a (f x)) l a.
Proof. revert a. induction l as [| x l IH]; intros a; simpl; [reflexivity | apply IH]. Qed.

Lemma fold_left_ext_in {A B} (f g : A -> B -> A) l :
  (forall a x, In x l -> f a x = g a x) -> forall a, fold_left f l a = fold_left g l a.
Proof.
  induction l as [| x l IH]; intros E a; simpl; [reflexivity |].
  rewrite E by now left. apply IH. intros a' x' Hx. apply E. now right.
Qed.

(** routing of the trees used by the concrete components *)
Lemma route_config key : route load_arms T_CONFIG_B key = Some (KConfig, LSetFullValue).
Proof. reflexivity. Qed.

Lemma route_seq_config : route load_arms T_SEQUENCE_B SEQ_CONFIG_B = Some (KConfig, LInnerSetLastId).
Proof. reflexivity. Qed.

Lemma route_seq_other key : key <> SEQ_CONFIG_B -> route load_arms T_SEQUENCE_B key = Some (KSequence, LLoadRecord).
Proof.
  intros NE. change T_SEQUENCE_B with (bytes_of_lit "T_SEQUENCE"). rewrite route_sequence.
  change SEQ_CONFIG_KEY with SEQ_CONFIG_B. rewrite bytes_eqb_neq by congruence. reflexivity.
Qed.

Lemma route_user key : route load_arms T_USER_B key = Some (KTable, LTableSet).
Proof. reflexivity. Qed.

Lemma route_cache key : route load_arms T_CACHE_B key = Some (KTable, LTableSet).
Proof. reflexivity. Qed.

(** rebuilding a strictly sorted map by inserting its entries gives the map back *)
Section Rebuild.
  Context {K V : Type} (cmp : K -> K -> comparison) (OK : cmp_ok cmp).

  Lemma rebuild_get (recs acc : list (K * V)) k : sm_wf cmp recs ->
    sm_get cmp (fold_left (fun m kv => sm_put cmp m (fst kv) (snd kv)) recs acc) k =
    match sm_get cmp recs k with Some v => Some v | None => sm_get cmp acc k end.
  Proof.
    revert acc. induction recs as [|[k1 v1] recs IH]; intros acc W; cbn [fold_left]; [reflexivity|].
    destruct W as [F W]. rewrite IH by exact W. cbn [fst snd sm_get].
    destruct (cmp k k1) eqn:C.
    - apply (cmp_eq _ OK) in C. subst k1. rewrite (get_none_lt_all _ _ _ F).
      rewrite (get_put_same _ OK). reflexivity.
    - rewrite (get_none_lt_all cmp recs k).
      + rewrite (get_put_other _ OK); auto. intros ->. rewrite (proj2 (cmp_eq _ OK k1 k1) eq_refl) in C. discriminate.
      + eapply (Forall_lt_trans _ OK); eauto.
    - destruct (sm_get cmp recs k); auto.
      rewrite (get_put_other _ OK); auto. intros ->. rewrite (proj2 (cmp_eq _ OK k1 k1) eq_refl) in C. discriminate.
  Qed.

  Lemma rebuild_wf (recs acc : list (K * V)) : sm_wf cmp acc ->
    sm_wf cmp (fold_left (fun m kv => sm_put cmp m (fst kv) (snd kv)) recs acc).
  Proof.
    revert acc. induction recs as [|kv recs IH]; intros acc W; cbn [fold_left]; auto.
    apply IH. apply (wf_put _ OK). exact W.
  Qed.

  Lemma rebuild_id (m : list (K * V)) : sm_wf cmp m ->
    fold_left (fun a kv => sm_put cmp a (fst kv) (snd kv)) m [] = m.
  Proof.
    intros W. apply (wf_ext _ OK); auto.
    - apply rebuild_wf. exact I.
    - intros k. rewrite rebuild_get by exact W. destruct (sm_get cmp m k); reflexivity.
  Qed.
End Rebuild.

(** key fields produced by [key_of_string] never contain the separator *)
Lemma split_sep_fields s : forall cur, forallb (fun c => negb (c =? SEP)) cur = true ->
  Forall (fun f => ConfigKey.wf_field f = true) (split_sep s cur).
Proof.
  assert (R : forall cur, forallb (fun c => negb (c =? SEP)) cur = true -> ConfigKey.wf_field (rev cur) = true).
  { intros cur Hc. unfold ConfigKey.wf_field. rewrite forallb_forall in *. intros x Hx. apply Hc. now apply in_rev. }
  induction s as [| c s IH]; intros cur Hc; cbn [split_sep].
  - constructor; [now apply R | constructor].
  - destruct (c =? SEP) eqn:E.
    + constructor; [now apply R | now apply IH].
    + apply IH. cbn [forallb]. now rewrite E, Hc.
Qed.

Lemma nth_wf_field l i : Forall (fun f => ConfigKey.wf_field f = true) l -> ConfigKey.wf_field (nth i l []) = true.
Proof.
  intros F. revert i. induction F as [| x l Hx _ IH]; intros [| i]; cbn [nth]; auto.
Qed.

Lemma wf_key_of_string s : wf_key (key_of_string s) = true.
Proof.
  unfold wf_key, key_of_string. cbn [k_data k_group k_tenant].
  pose proof (split_sep_fields s [] eq_refl) as F.
  now rewrite !nth_wf_field.
Qed.

Lemma norm_type_idem v : norm_type (norm_type v) = norm_type v.
Proof.
  unfold norm_type at 2 3.
  repeat match goal with |- context [if ?b then _ else _] => destruct b end; reflexivity.
Qed.


(** * Table rows *)
Definition tab_wf (T : tables) : Prop :=
  sm_wf str_cmp T /\ Forall (fun tr => sm_wf str_cmp (snd tr)) T.

Definition in_use (t : str) : Prop := t = T_USER_B \/ t = T_CACHE_B.

Definition tab_inv (T : tables) : Prop := tab_wf T /\ Forall (fun tr => in_use (fst tr)) T.

(** in scope: the tables that load_snapshot routes back (T_USER, T_CACHE) *)
Definition tab_mok (r : tabreq) : Prop :=
  match r with
  | TSet t _ _ | TRemove t _ | TDrop t | TNextId t => in_use t
  | TOther => True
  end.

Definition tab_ok (T : tables) : Prop := Forall wf_record (tab_snap T).

Lemma tab_rows_wf T t : tab_wf T -> sm_wf str_cmp (tab_rows T t).
Proof.
  intros [W F]. unfold tab_rows. destruct (sm_get str_cmp T t) as [rows |] eqn:G; [| exact I].
  apply (Forall_get _ SOK _ _ _ _ F G).
Qed.

Lemma tab_wf_apply T r : tab_wf T -> tab_wf (tab_apply T r).
Proof.
  intros WT. pose proof WT as [W F]. destruct r as [t k v | t k | t | t |]; cbn [tab_apply]; [| | | | exact WT].
  - split; [now apply (wf_put _ SOK) |]. apply Forall_put; [| exact F]. cbn [snd].
    apply (wf_put _ SOK). now apply tab_rows_wf.
  - destruct (sm_get str_cmp T t) as [rows |] eqn:G; [| exact WT].
    split; [now apply (wf_put _ SOK) |]. apply Forall_put; [| exact F]. cbn [snd].
    apply wf_del. apply (Forall_get _ SOK _ _ _ _ F G).
  - split; [now apply wf_del | now apply del_Forall].
  - destruct (sm_get str_cmp T t); [exact WT |].
    split; [now apply (wf_put _ SOK) |]. apply Forall_put; [exact I | exact F].
Qed.

Lemma tab_inv_apply T r : tab_inv T -> tab_mok r -> tab_inv (tab_apply T r).
Proof.
  intros [WT U] OK. split; [now apply tab_wf_apply |].
  assert (PU : forall t x, in_use t -> Forall (fun tr => in_use (fst tr)) (sm_put str_cmp T t x)).
  { intros t x Ht. apply Forall_put; [exact Ht | exact U]. }
  destruct r as [t k v | t k | t | t |]; cbn [tab_apply tab_mok] in *; auto.
  - destruct (sm_get str_cmp T t); auto.
  - now apply del_Forall.
  - destruct (sm_get str_cmp T t); auto.
Qed.

(** pointwise effect of a request on one row *)
Definition tupd (r : tabreq) (t k : str) (d : option str) : option str :=
  match r with
  | TSet t0 k0 v => if str_eqb t0 t && str_eqb k0 k then Some v else d
  | TRemove t0 k0 => if str_eqb t0 t && str_eqb k0 k then None else d
  | TDrop t0 => if str_eqb t0 t then None else d
  | _ => d
  end.

Lemma tab_rows_put T t0 x t : tab_rows (sm_put str_cmp T t0 x) t = if str_eqb t0 t then x else tab_rows T t.
Proof.
  unfold tab_rows. rewrite (get_put _ SOK), str_cmp_match, (str_eqb_sym' t t0).
  destruct (str_eqb t0 t); reflexivity.
Qed.

Lemma tab_get_apply T r t k : tab_wf T -> tab_get (tab_apply T r) t k = tupd r t k (tab_get T t k).
Proof.
  intros WT. pose proof WT as [W F]. unfold tab_get.
  destruct r as [t0 k0 v | t0 k0 | t0 | t0 |]; cbn [tab_apply tupd]; [| | | | reflexivity].
  - rewrite tab_rows_put. destruct (str_eqb t0 t) eqn:Et; cbn [andb]; [| reflexivity].
    apply str_eqb_eq in Et. subst t0.
    rewrite (get_put _ SOK), str_cmp_match, (str_eqb_sym' k k0). destruct (str_eqb k0 k); reflexivity.
  - destruct (sm_get str_cmp T t0) as [rows |] eqn:G.
    + rewrite tab_rows_put. destruct (str_eqb t0 t) eqn:Et; cbn [andb]; [| reflexivity].
      apply str_eqb_eq in Et. subst t0.
      assert (Wr : sm_wf str_cmp rows) by apply (Forall_get _ SOK _ _ _ _ F G).
      rewrite (get_del _ SOK) by exact Wr. rewrite str_cmp_match, (str_eqb_sym' k k0).
      unfold tab_rows. rewrite G. destruct (str_eqb k0 k); reflexivity.
    + destruct (str_eqb t0 t) eqn:Et; cbn [andb]; [| reflexivity].
      apply str_eqb_eq in Et. subst t0. unfold tab_rows. rewrite G. cbn [sm_get].
      destruct (str_eqb k0 k); reflexivity.
  - unfold tab_rows. rewrite (get_del _ SOK) by exact W. rewrite str_cmp_match, (str_eqb_sym' t t0).
    destruct (str_eqb t0 t); reflexivity.
  - destruct (sm_get str_cmp T t0) eqn:G; [reflexivity |].
    rewrite tab_rows_put. destruct (str_eqb t0 t) eqn:Et; [| reflexivity].
    apply str_eqb_eq in Et. subst t0. unfold tab_rows. now rewrite G.
Qed.

Definition tab_eqw (T1 T2 : tables) : Prop := tab_eq T1 T2 /\ tab_wf T1 /\ tab_wf T2.

Theorem tab_apply_cong T1 T2 r : tab_eqw T1 T2 -> tab_eqw (tab_apply T1 r) (tab_apply T2 r).
Proof.
  intros (E & W1 & W2). split; [| split; now apply tab_wf_apply].
  intros t k. rewrite !tab_get_apply by assumption. now rewrite E.
Qed.

(** scanning the records of a snapshot for one row *)
Definition rscan (t k : str) (d : option str) (r : record) : option str :=
  if str_eqb (rtree r) t && str_eqb (rkey r) k then Some (rval r) else d.

Lemma tab_load_fold recs : forall A t k, tab_wf A ->
  tab_wf (fold_left tab_load recs A) /\
  tab_get (fold_left tab_load recs A) t k = fold_left (rscan t k) recs (tab_get A t k).
Proof.
  induction recs as [| r recs IH]; intros A t k WA; cbn [fold_left]; [split; [exact WA | reflexivity] |].
  destruct (IH (tab_load A r) t k) as [W' G']; [now apply tab_wf_apply |].
  split; [exact W' |]. rewrite G'. unfold tab_load. now rewrite tab_get_apply.
Qed.

Lemma rows_scan t k rows : sm_wf str_cmp rows -> forall d,
  fold_left (rscan t k) (map (fun kv => mkRec t (fst kv) (snd kv)) rows) d
  = match sm_get str_cmp rows k with Some v => Some v | None => d end.
Proof.
  induction rows as [| [k1 v1] rows IH]; intros W d; cbn [map fold_left sm_get]; [reflexivity |].
  destruct W as [F W]. rewrite IH by exact W. unfold rscan at 1. cbn [rtree rkey rval fst snd].
  rewrite str_eqb_refl. cbn [andb]. rewrite (str_eqb_sym' k1 k), <- str_cmp_match.
  destruct (str_cmp k k1) eqn:C.
  - apply str_cmp_eq in C. subst k1. now rewrite (get_none_lt_all _ _ _ F).
  - rewrite (get_none_lt_all str_cmp rows k); [reflexivity |]. eapply (Forall_lt_trans _ SOK); eauto.
  - reflexivity.
Qed.

Lemma rows_scan_other t t1 k rows d : t1 <> t ->
  fold_left (rscan t k) (map (fun kv => mkRec t1 (fst kv) (snd kv)) rows) d = d.
Proof.
  intros NE. induction rows as [| kv rows IH]; cbn [map fold_left]; [reflexivity |].
  unfold rscan at 2. cbn [rtree]. rewrite (proj2 (str_eqb_neq t1 t) NE). cbn [andb]. exact IH.
Qed.

Lemma later_tables_scan t k (T : tables) : Forall (fun tr => str_cmp t (fst tr) = Lt) T ->
  forall d, fold_left (rscan t k) (tab_snap T) d = d.
Proof.
  induction T as [| [t2 rows2] T IHT]; intros FT d; [reflexivity |].
  cbn [tab_snap flat_map fst snd]. rewrite fold_left_app. inversion FT as [| ? ? Ft2 FT2]; subst. cbn [fst] in Ft2.
  rewrite rows_scan_other; [now apply IHT |]. intros ->. rewrite (proj2 (str_cmp_eq t t) eq_refl) in Ft2. discriminate.
Qed.

Lemma snap_scan T : tab_wf T -> forall t k,
  fold_left (rscan t k) (tab_snap T) None = tab_get T t k.
Proof.
  induction T as [| [t1 rows1] T IH]; intros [W F] t k; [reflexivity |].
  cbn [tab_snap flat_map fst snd]. rewrite fold_left_app.
  destruct W as [FT W]. inversion F as [| ? ? Fr FT']; subst. cbn [snd] in Fr.
  unfold tab_get, tab_rows. cbn [sm_get].
  destruct (str_cmp t t1) eqn:C.
  - apply str_cmp_eq in C. subst t1. rewrite rows_scan by exact Fr.
    rewrite (later_tables_scan t k T FT). match goal with |- match ?x with _ => _ end = ?y => change y with x; destruct x end; reflexivity.
  - rewrite rows_scan_other by (intros ->; rewrite (proj2 (str_cmp_eq t t) eq_refl) in C; discriminate).
    etransitivity; [apply (IH (conj W FT') t k) |]. unfold tab_get, tab_rows.
    rewrite (get_none_lt_all str_cmp T t); [reflexivity |]. eapply (Forall_lt_trans _ SOK); eauto.
  - rewrite rows_scan_other by (intros ->; rewrite (proj2 (str_cmp_eq t t) eq_refl) in C; discriminate).
    apply (IH (conj W FT') t k).
Qed.

Theorem tab_rebuild T : tab_wf T -> tab_eqw (fold_left tab_load (tab_snap T) []) T.
Proof.
  intros WT. assert (W0 : tab_wf []) by (split; [exact I | constructor]).
  split; [| split; [apply (tab_load_fold (tab_snap T) [] [] [] W0) | exact WT]].
  intros t k. destruct (tab_load_fold (tab_snap T) [] t k W0) as [_ G]. rewrite G.
  now apply snap_scan.
Qed.

Section CP.
  Variable H : str -> str.
  Notation cstate := cstate.
  Notation cload_routed := (cload_routed cstate (n_load H)).

  (** * Sequence *)
  Definition seq_inv (m : seqdb) : Prop := sm_wf str_cmp m /\ sm_get str_cmp m SEQ_CONFIG_B = None.

  Definition seq_key (r : seqreq) : str :=
    match r with RNextId k | RNextRange k _ | RSetId k _ | RRemoveId k => k end.

  (** in scope: the key "SEQ_CONFIG" is reserved for Config's record on the same tree *)
  Definition seq_mok (r : seqreq) : Prop := seq_key r <> SEQ_CONFIG_B.

  (** snapshot-encodable: u64 counters, byte-string keys *)
  Definition seq_ok (m : seqdb) : Prop :=
    Forall (fun kv => snd kv < 2 ^ 64) m /\ Forall wf_record (seq_snap m).

  Lemma seq_inv_apply m r : seq_inv m -> seq_mok r -> seq_inv (seq_apply m r).
  Proof.
    intros [W G] OK. split; [apply db_apply_wf, W |]. unfold seq_apply, seq_mok in *.
    destruct r as [k | k st | k id | k]; cbn [seq_key] in OK; cbn [db_apply].
    - unfold db_next_id. destruct (sm_get str_cmp m k); cbn [fst]; rewrite (get_put_other _ SOK) by (intro E; apply OK; symmetry; exact E); exact G.
    - unfold db_next_range. destruct (sm_get str_cmp m k); cbn [fst]; rewrite (get_put_other _ SOK) by (intro E; apply OK; symmetry; exact E); exact G.
    - cbn [fst]. rewrite (get_put_other _ SOK) by (intro E; apply OK; symmetry; exact E). exact G.
    - cbn [fst]. rewrite (get_del_other _ SOK) by (assumption || (intro E; apply OK; symmetry; exact E)). exact G.
  Qed.

  Lemma seq_keys_not_reserved m kv : seq_inv m -> In kv m -> fst kv <> SEQ_CONFIG_B.
  Proof.
    intros [W G] Hin E. destruct kv as [k v]. unfold fst in E. rewrite E in Hin.
    apply (in_get_some _ SOK _ _ _ W) in Hin. rewrite G in Hin. discriminate.
  Qed.

  Lemma seq_load_fold l : forall acc,
    (forall kv, In kv l -> fst kv <> SEQ_CONFIG_B /\ snd kv < 2 ^ 64) ->
    fold_left (cload_routed KSequence) (seq_snap l) (SSeq acc)
    = SSeq (fold_left (fun m kv => sm_put str_cmp m (fst kv) (snd kv)) l acc).
  Proof.
    induction l as [| [k v] l IH]; intros acc HP; [reflexivity |].
    cbn [seq_snap map fold_left]. destruct (HP (k, v) (or_introl eq_refl)) as [NE Hv]. cbn [fst snd] in *.
    unfold ReplayProofs.cload_routed at 2. cbn [rtree rkey]. rewrite route_seq_other by exact NE.
    cbn [comp_eqb n_load]. unfold seq_load. cbn [rval rkey]. rewrite be8_roundtrip by exact Hv.
    apply IH. intros kv Hin. apply HP. now right.
  Qed.

  Lemma seq_roundtrip m : seq_inv m -> seq_ok m ->
    fold_left (cload_routed KSequence) (n_snap KSequence (SSeq m)) (n_init KSequence) = SSeq m.
  Proof.
    intros I K. cbn [n_snap n_init]. rewrite seq_load_fold.
    - f_equal. apply (db_snapshot_roundtrip m), I.
    - intros kv Hin. split; [eapply seq_keys_not_reserved; eauto |].
      destruct K as [K _]. rewrite Forall_forall in K. now apply K.
  Qed.

  Lemma seq_snap_routed m r : seq_inv m -> In r (seq_snap m) -> routed_to KSequence (rtree r) (rkey r).
  Proof.
    intros I Hin. apply in_map_iff in Hin. destruct Hin as [kv [<- Hin]]. cbn [rtree rkey].
    eexists. apply route_seq_other. eapply seq_keys_not_reserved; eauto.
  Qed.

  (** * Config *)
  Definition lastmod_of (h : list hitem) : N := match rev h with x :: _ => h_time x | [] => 0 end.

  (** values as the committed commands leave them: not temporary, type normalised,
      last_modified = time of the newest history item *)
  Definition canon (v : cvalue) : Prop :=
    cv_tmp v = false /\ option_map norm_type (cv_type v) = cv_type v /\ cv_lastmod v = lastmod_of (cv_hist v).

  Definition cfg_inv (s : store) : Prop :=
    store_inv H s /\ sq_batch (st_seq s) = 100 /\
    (forall k v, cache_get s k = Some v -> canon v /\ wf_key k = true).

  (** in scope: an imported key is a ConfigKey built by From<&str> (no separator in a field) *)
  Definition cfg_mok (c : raft_cmd) : Prop :=
    match c with SetFullValue k _ _ => wf_key k = true | _ => True end.

  (** snapshot-encodable: byte strings, u64 ids *)
  Definition cfg_ok (s : store) : Prop :=
    Forall (fun kv => wf_value (snd kv) /\
                      wf_record (mkRec T_CONFIG_B (build_key (fst kv)) (enc_value (snd kv)))) (st_cache s) /\
    get_end_id (st_seq s) < 2 ^ 64.

  Lemma lastmod_snoc h x : lastmod_of (h ++ [x]) = h_time x.
  Proof. unfold lastmod_of. now rewrite rev_app_distr. Qed.

  Lemma canon_of_do d : canon (value_of_do H d).
  Proof.
    unfold canon, value_of_do; cbn [cv_tmp cv_type cv_lastmod cv_hist]. repeat split.
    destruct (do_type d); cbn [option_map]; [now rewrite norm_type_idem | reflexivity].
  Qed.

  Lemma canon_set_value prev p :
    (forall v, prev = Some v -> canon v) -> option_map norm_type (sp_type p) = sp_type p ->
    canon (set_value H prev p).
  Proof.
    intros HP HT. unfold set_value. destruct prev as [v |].
    - destruct (HP v eq_refl) as (Ht & Hy & Hl).
      assert (C2 : canon (with_meta v (sp_type p) (sp_desc p))).
      { unfold canon, with_meta; cbn [cv_tmp cv_type cv_lastmod cv_hist]. repeat split; try assumption.
        unfold merge. destruct (sp_type p); assumption. }
      destruct (negb _ && _); [exact C2 |].
      destruct C2 as (C2t & C2y & C2l). unfold canon, update_value; cbn [cv_tmp cv_type cv_lastmod cv_hist].
      repeat split; [exact C2y | now rewrite lastmod_snoc].
    - unfold canon; cbn [cv_tmp cv_type cv_lastmod cv_hist]. repeat split; assumption.
  Qed.

  Lemma cfg_apply_get s c k' : store_inv H s ->
    cache_get (cfg_apply H s c) k' =
    match c with
    | ConfigAdd ks value ctype desc hid tid time user =>
        let p := param_of_add ks value ctype desc hid tid time user in
        if key_eqb (sp_key p) k' then Some (set_value H (cache_get s (sp_key p)) p) else cache_get s k'
    | ConfigRemove ks => if key_eqb (key_of_string ks) k' then None else cache_get s k'
    | SetFullValue k d _ => if key_eqb k k' then Some (value_of_do H d) else cache_get s k'
    end.
  Proof.
    intros I. unfold cfg_apply. destruct c as [ks value ctype desc hid tid time user | ks | k d last]; cbn [apply_raft].
    - destruct (set_config H s _) as [s' b] eqn:E. cbn [fst].
      replace s' with (fst (set_config H s (param_of_add ks value ctype desc hid tid time user))) by (rewrite E; reflexivity).
      apply set_get.
    - cbn [fst]. apply del_get, I.
    - cbn [fst]. destruct last; unfold cache_get; cbn [st_cache]; apply inner_get.
  Qed.

  Lemma cfg_apply_batch s c : sq_batch (st_seq (cfg_apply H s c)) = sq_batch (st_seq s).
  Proof.
    unfold cfg_apply. destruct c as [ks value ctype desc hid tid time user | ks | k d last]; cbn [apply_raft].
    - destruct (set_config H s _) as [s' b] eqn:E. cbn [fst].
      unfold set_config in E. destruct (cache_get s _); [destruct (negb _ && _) |];
        inversion E; subst; cbn [st_seq]; unfold param_of_add; cbn [sp_table_id];
        (destruct tid; [unfold set_valid_last_id; destruct (_ <? _) |]; reflexivity).
    - reflexivity.
    - cbn [fst]. destruct last; cbn [st_seq inner_set_config]; [| reflexivity].
      unfold set_valid_last_id. destruct (_ <? _); reflexivity.
  Qed.

  Lemma cfg_inv_init : cfg_inv store_new.
  Proof. split; [apply inv_new | split; [reflexivity | discriminate]]. Qed.

  Lemma cfg_inv_apply s c : cfg_inv s -> cfg_mok c -> cfg_inv (cfg_apply H s c).
  Proof.
    intros (I & B & C) OK. split; [apply (sstep_inv H s (ORaft c)), I |].
    split; [now rewrite cfg_apply_batch |].
    intros k' v'. rewrite cfg_apply_get by exact I.
    destruct c as [ks value ctype desc hid tid time user | ks | k d last]; cbv zeta.
    - destruct (key_eqb _ k') eqn:E; [| apply C].
      apply key_eqb_eq in E. intros [= <-]. split.
      + apply canon_set_value.
        * intros v Hv. eapply C. exact Hv.
        * unfold param_of_add; cbn [sp_type]. destruct ctype; cbn [option_map]; [now rewrite norm_type_idem | reflexivity].
      + rewrite <- E. unfold param_of_add; cbn [sp_key]. apply wf_key_of_string.
    - destruct (key_eqb _ k'); [discriminate | apply C].
    - destruct (key_eqb k k') eqn:E; [| apply C].
      apply key_eqb_eq in E. intros [= <-]. split; [apply canon_of_do | now rewrite <- E].
  Qed.

  (** a canonical value survives ConfigValueDO exactly *)
  Lemma value_do_id v : canon v -> cv_md5 v = H (cv_content v) ->
    value_of_do H (do_of_value v) = v.
  Proof.
    intros (Ht & Hy & Hl) Hm. destruct v as [c m t h ty d lm]. cbn in *. subst t m lm.
    unfold value_of_do, do_of_value; cbn. now rewrite Hy.
  Qed.

  (** ** round trip *)
  Lemma cfg_load_fold l : forall acc,
    (forall kv, In kv l -> wf_value (snd kv) /\ wf_key (fst kv) = true /\ value_of_do H (do_of_value (snd kv)) = snd kv) ->
    fold_left (cload_routed KConfig)
              (map (fun kv => mkRec T_CONFIG_B (build_key (fst kv)) (enc_value (snd kv))) l) (SCfg acc)
    = SCfg (fold_left (fun a kv => inner_set_config a (fst kv) (snd kv)) l acc).
  Proof.
    induction l as [| [k v] l IH]; intros acc HP; [reflexivity |].
    cbn [map fold_left]. destruct (HP (k, v) (or_introl eq_refl)) as (Wv & Wk & Vid). cbn [fst snd] in *.
    unfold ReplayProofs.cload_routed at 2. cbn [rtree rkey]. rewrite route_config.
    cbn [comp_eqb n_load]. unfold cfg_load. cbn [rval rkey]. rewrite value_roundtrip by exact Wv.
    rewrite key_roundtrip by exact Wk. rewrite Vid.
    apply IH. intros kv Hin. apply HP. now right.
  Qed.

  Lemma inner_fold_cache l : forall acc,
    st_cache (fold_left (fun a kv => inner_set_config a (fst kv) (snd kv)) l acc)
    = fold_left (fun m kv => sm_put key_cmp m (fst kv) (snd kv)) l (st_cache acc).
  Proof. induction l as [| kv l IH]; intros acc; cbn [fold_left]; [reflexivity | now rewrite IH]. Qed.

  Lemma inner_fold_seq l : forall acc,
    st_seq (fold_left (fun a kv => inner_set_config a (fst kv) (snd kv)) l acc) = st_seq acc.
  Proof. induction l as [| kv l IH]; intros acc; cbn [fold_left]; [reflexivity | now rewrite IH]. Qed.

  Lemma inner_fold_index l : forall acc, ti_wf (st_index acc) ->
    ti_wf (st_index (fold_left (fun a kv => inner_set_config a (fst kv) (snd kv)) l acc)) /\
    forall k, ti_mem (st_index (fold_left (fun a kv => inner_set_config a (fst kv) (snd kv)) l acc)) k
              = existsb (fun kv => key_eqb (fst kv) k) l || ti_mem (st_index acc) k.
  Proof.
    induction l as [| kv l IH]; intros acc W; cbn [fold_left existsb]; [split; [exact W | reflexivity] |].
    destruct (IH (inner_set_config acc (fst kv) (snd kv))) as [W' M'].
    { cbn [inner_set_config st_index]. now apply ti_insert_wf. }
    split; [exact W' |]. intros k. rewrite M'. cbn [inner_set_config st_index]. rewrite ti_insert_mem.
    destruct (key_eqb (fst kv) k), (existsb _ l); reflexivity.
  Qed.

  (** listed = stored, for stores without temporary values *)
  Lemma cfg_listed s k : cfg_inv s -> ti_mem (st_index s) k = sm_mem key_cmp (st_cache s) k.
  Proof.
    intros (I & _ & C). unfold sm_mem. fold (cache_get s k).
    destruct (ti_mem (st_index s) k) eqn:M.
    - pose proof (inv_listed _ _ I k M) as L. destruct (cache_get s k); [reflexivity | contradiction].
    - destruct (cache_get s k) as [v |] eqn:G; [| reflexivity].
      destruct (inv_unlisted _ _ I k v G M) as [T _]. destruct (C k v G) as [(T' & _) _]. congruence.
  Qed.

  Lemma existsb_key_mem (m : list (key * cvalue)) k : sm_wf key_cmp m ->
    existsb (fun kv => key_eqb (fst kv) k) m = sm_mem key_cmp m k.
  Proof.
    intros W. unfold sm_mem. destruct (sm_get key_cmp m k) as [v |] eqn:G.
    - apply existsb_exists. exists (k, v). split; [now apply (get_some_in _ KOK) | apply key_eqb_refl].
    - destruct (existsb _ m) eqn:E; [| reflexivity].
      apply existsb_exists in E. destruct E as [[k' v'] [Hin E]]. cbn [fst] in E. apply key_eqb_eq in E. subst k'.
      apply (in_get_some _ KOK _ _ _ W) in Hin. congruence.
  Qed.

  (** what the queries can tell apart, plus well-formedness of both indexes *)
  Definition cfg_eqw (s1 s2 : store) : Prop :=
    cfg_eq s1 s2 /\ ti_wf (st_index s1) /\ ti_wf (st_index s2).

  Theorem cfg_roundtrip s : cfg_inv s -> cfg_ok s ->
    exists s', fold_left (cload_routed KConfig) (n_snap KConfig (SCfg s)) (n_init KConfig) = SCfg s' /\
               cfg_eqw s' s.
  Proof.
    intros CI (KF & KE). pose proof CI as (I & B & C).
    cbn [n_snap n_init]. unfold cfg_snap. rewrite fold_left_app, cfg_load_fold.
    - cbn [fold_left]. unfold ReplayProofs.cload_routed. cbn [rtree rkey]. rewrite route_seq_config.
      cbn [comp_eqb n_load]. unfold cfg_load. cbn [rval]. rewrite be8_roundtrip by exact KE.
      eexists. split; [reflexivity |].
      destruct (inner_fold_index (st_cache s) store_new ti_wf_new) as [W' M'].
      split; [| split; [exact W' | apply (inv_index _ _ I)]].
      split; [| split; [| split]]; cbn [st_cache st_index st_seq].
      + rewrite inner_fold_cache. apply (rebuild_id _ KOK), (inv_cache _ _ I).
      + intros k. rewrite M'. cbn [store_new st_index]. rewrite ti_mem_new, orb_false_r.
        rewrite existsb_key_mem by apply (inv_cache _ _ I). symmetry. now apply cfg_listed.
      + rewrite inner_fold_seq. unfold get_end_id at 1, set_last_id; cbn [sq_last sq_cache]. apply N.add_0_r.
      + rewrite inner_fold_seq. cbn [set_last_id sq_batch store_new st_seq sseq_new]. now rewrite B.
    - intros [k v] Hin. cbn [fst snd]. rewrite Forall_forall in KF. destruct (KF _ Hin) as [Wv _].
      assert (G : cache_get s k = Some v) by (apply (in_get_some _ KOK); [apply (inv_cache _ _ I) | exact Hin]).
      destruct (C k v G) as [Cv Wk]. split; [exact Wv | split; [exact Wk |]].
      apply value_do_id; [exact Cv | apply (inv_md5 _ _ I k v G)].
  Qed.

  (** ** equivalent stores stay equivalent under every committed command *)
  Lemma set_cache_eq s1 s2 p : st_cache s1 = st_cache s2 ->
    st_cache (fst (set_config H s1 p)) = st_cache (fst (set_config H s2 p)).
  Proof.
    destruct s1 as [c1 i1 q1], s2 as [c2 i2 q2]. cbn [st_cache]. intros <-.
    unfold set_config, cache_get; cbn [st_cache st_index st_seq].
    destruct (sm_get key_cmp c1 (sp_key p)); [destruct (negb _ && _) |]; reflexivity.
  Qed.

  Lemma set_index_cases s1 s2 p : st_cache s1 = st_cache s2 ->
    (st_index (fst (set_config H s1 p)) = st_index s1 /\ st_index (fst (set_config H s2 p)) = st_index s2) \/
    (st_index (fst (set_config H s1 p)) = snd (ti_insert (st_index s1) (sp_key p)) /\
     st_index (fst (set_config H s2 p)) = snd (ti_insert (st_index s2) (sp_key p))).
  Proof.
    destruct s1 as [c1 i1 q1], s2 as [c2 i2 q2]. cbn [st_cache]. intros <-.
    unfold set_config, cache_get; cbn [st_cache st_index st_seq].
    destruct (sm_get key_cmp c1 (sp_key p)) as [v |]; [| right; split; reflexivity].
    destruct (negb _ && _); [left; split; reflexivity |].
    match goal with |- context [match cv_hist ?x with _ => _ end] => destruct (cv_hist x) end;
      [right | left]; split; reflexivity.
  Qed.

  Lemma set_seq_shape s p :
    st_seq (fst (set_config H s p)) =
    match sp_table_id p with Some t => set_valid_last_id (st_seq s) t | None => st_seq s end.
  Proof.
    unfold set_config. destruct (cache_get s (sp_key p)); [destruct (negb _ && _) |]; reflexivity.
  Qed.

  Definition seq_eq (q1 q2 : sseq) : Prop := get_end_id q1 = get_end_id q2 /\ sq_batch q1 = sq_batch q2.

  Lemma seq_eq_valid q1 q2 t : seq_eq q1 q2 -> seq_eq (set_valid_last_id q1 t) (set_valid_last_id q2 t).
  Proof.
    intros [E B]. unfold set_valid_last_id. unfold get_end_id in E. rewrite E.
    destruct (_ <? t); [| split; assumption].
    split; [reflexivity | exact B].
  Qed.

  Lemma insert_mem_eq t1 t2 k : (forall x, ti_mem t1 x = ti_mem t2 x) ->
    forall x, ti_mem (snd (ti_insert t1 k)) x = ti_mem (snd (ti_insert t2 k)) x.
  Proof. intros E x. now rewrite !ti_insert_mem, E. Qed.

  Theorem cfg_apply_cong s1 s2 c : cfg_eqw s1 s2 -> cfg_eqw (cfg_apply H s1 c) (cfg_apply H s2 c).
  Proof.
    intros ((EC & EM & ES & EB) & W1 & W2). unfold cfg_apply.
    destruct c as [ks value ctype desc hid tid time user | ks | k d last]; cbn [apply_raft].
    - set (p := param_of_add ks value ctype desc hid tid time user).
      destruct (set_config H s1 p) as [s1' b1] eqn:E1. destruct (set_config H s2 p) as [s2' b2] eqn:E2.
      cbn [fst].
      assert (F1 : s1' = fst (set_config H s1 p)) by now rewrite E1.
      assert (F2 : s2' = fst (set_config H s2 p)) by now rewrite E2.
      rewrite F1, F2.
      pose proof (seq_eq_valid (st_seq s1) (st_seq s2)) as SV.
      destruct (set_index_cases s1 s2 p EC) as [[I1 I2] | [I1 I2]].
      + split; [| rewrite I1, I2; split; assumption].
        split; [now apply set_cache_eq |]. split; [rewrite I1, I2; exact EM |].
        rewrite !set_seq_shape. destruct (sp_table_id p); [apply SV; split; assumption | split; assumption].
      + split; [| rewrite I1, I2; split; now apply ti_insert_wf].
        split; [now apply set_cache_eq |]. split; [rewrite I1, I2; now apply insert_mem_eq |].
        rewrite !set_seq_shape. destruct (sp_table_id p); [apply SV; split; assumption | split; assumption].
    - cbv zeta. cbn [fst]. unfold del_config. split; [| split; cbn [st_index]; now apply ti_remove_wf].
      split; cbn [st_cache st_index st_seq]; [now rewrite EC |].
      split; [| split; assumption].
      intros x. rewrite !ti_remove_mem by assumption. now rewrite EM.
    - cbn [fst]. assert (G : cfg_eqw (inner_set_config s1 k (value_of_do H d)) (inner_set_config s2 k (value_of_do H d))).
      { split; [| split; cbn [inner_set_config st_index]; now apply ti_insert_wf].
        split; cbn [inner_set_config st_cache st_index st_seq]; [now rewrite EC |].
        split; [now apply insert_mem_eq | split; assumption]. }
      destruct last as [l |]; [| exact G].
      destruct G as ((GC & GM & GS & GB) & GW1 & GW2).
      split; [| split; assumption]. split; [exact GC |]. split; [exact GM |].
      cbn [st_seq]. apply seq_eq_valid. split; assumption.
  Qed.

  Lemma cfg_eqw_refl s : cfg_inv s -> cfg_eqw s s.
  Proof. intros (I & _). split; [repeat split | split; apply (inv_index _ _ I)]. Qed.

  Lemma cfg_eqw_trans s1 s2 s3 : cfg_eqw s1 s2 -> cfg_eqw s2 s3 -> cfg_eqw s1 s3.
  Proof.
    intros ((C1 & M1 & S1 & B1) & W1 & _) ((C2 & M2 & S2 & B2) & _ & W3).
    split; [| split; assumption]. split; [congruence |]. split; [intros k; now rewrite M1 |]. split; congruence.
  Qed.

  Lemma cfg_snap_routed s r : In r (cfg_snap s) -> routed_to KConfig (rtree r) (rkey r).
  Proof.
    unfold cfg_snap. rewrite in_app_iff. intros [Hin | [<- | []]].
    - apply in_map_iff in Hin. destruct Hin as [kv [<- _]]. eexists. apply route_config.
    - eexists. apply route_seq_config.
  Qed.

  (** * the node *)
  Definition n_eq (c : comp) (a b : cstate) : Prop :=
    match a, b with
    | SCfg s1, SCfg s2 => cfg_eqw s1 s2
    | SSeq m1, SSeq m2 => m1 = m2
    | STab T1, STab T2 => tab_eqw T1 T2
    | SUnit, SUnit => True
    | _, _ => False
    end.

  Definition n_inv (c : comp) (st : cstate) : Prop :=
    match c, st with
    | KConfig, SCfg s => cfg_inv s
    | KSequence, SSeq m => seq_inv m
    | KTable, STab T => tab_inv T
    | KConfig, _ | KSequence, _ | KTable, _ => False
    | _, SUnit => True
    | _, _ => False
    end.

  Definition n_mok (c : comp) (m : cmsg) : Prop :=
    match c, m with
    | KConfig, MCfg x => cfg_mok x
    | KSequence, MSeq r => seq_mok r
    | KTable, MTab r => tab_mok r
    | _, _ => False
    end.

  Definition n_ok (c : comp) (st : cstate) : Prop :=
    match c, st with
    | KConfig, SCfg s => cfg_ok s
    | KSequence, SSeq m => seq_ok m
    | KTable, STab T => tab_ok T
    | _, _ => True
    end.

  Lemma n_eq_trans c s1 s2 s3 : n_eq c s1 s2 -> n_eq c s2 s3 -> n_eq c s1 s3.
  Proof.
    destruct s1, s2, s3; cbn [n_eq]; try contradiction; try (intros; exact I).
    - apply cfg_eqw_trans.
    - congruence.
    - intros (E1 & W1 & _) (E2 & _ & W3). split; [| split; assumption]. intros t k. now rewrite E1.
  Qed.

  Lemma n_eq_refl c st : n_inv c st -> n_eq c st st.
  Proof.
    destruct c, st; cbn [n_inv n_eq]; try contradiction; try (intros; exact I); try reflexivity.
    - apply cfg_eqw_refl.
    - intros [W _]. split; [intros t k; reflexivity | split; exact W].
  Qed.

  Lemma n_apply_cong c s1 s2 m : n_eq c s1 s2 -> n_eq c (n_apply H c s1 m) (n_apply H c s2 m).
  Proof.
    destruct c, s1, s2, m; cbn [n_eq n_apply]; try contradiction; try (intros; assumption); try (intros; exact I).
    - intros ->. reflexivity.
    - apply cfg_apply_cong.
    - apply tab_apply_cong.
  Qed.

  Lemma n_inv_init c : n_inv c (n_init c).
  Proof.
    destruct c; cbn [n_inv n_init]; try exact I.
    - split; [exact I | reflexivity].
    - apply cfg_inv_init.
    - split; [split; [exact I | constructor] | constructor].
  Qed.

  Lemma n_inv_apply c st m : n_inv c st -> n_mok c m -> n_inv c (n_apply H c st m).
  Proof.
    destruct c, st, m; cbn [n_inv n_mok n_apply]; try contradiction; try (intros; exact I).
    - apply seq_inv_apply.
    - apply cfg_inv_apply.
    - apply tab_inv_apply.
  Qed.

  Lemma tab_snap_tree T r : In r (tab_snap T) -> exists rows, In (rtree r, rows) T.
  Proof.
    unfold tab_snap. rewrite in_flat_map. intros [[t rows] [HT Hin]]. apply in_map_iff in Hin.
    destruct Hin as [kv [<- _]]. cbn [rtree fst]. now exists rows.
  Qed.

  Lemma in_use_routed t key : in_use t -> route load_arms t key = Some (KTable, LTableSet).
  Proof. intros [-> | ->]; [apply route_user | apply route_cache]. Qed.

  Lemma n_snap_routed c st r : n_inv c st -> n_ok c st -> In r (n_snap c st) -> routed_to c (rtree r) (rkey r).
  Proof.
    destruct c, st; cbn [n_inv n_snap]; try contradiction; try (intros _ _ []).
    - intros I _. now apply seq_snap_routed.
    - intros _ _. apply cfg_snap_routed.
    - intros [_ U] _ Hin. destruct (tab_snap_tree _ _ Hin) as [rows HT].
      rewrite Forall_forall in U. eexists. apply in_use_routed. apply (U _ HT).
  Qed.

  Lemma tab_load_routed l : forall A,
    (forall r, In r l -> in_use (rtree r)) ->
    fold_left (cload_routed KTable) l (STab A) = STab (fold_left tab_load l A).
  Proof.
    induction l as [| r l IH]; intros A HP; [reflexivity |]. cbn [fold_left].
    unfold ReplayProofs.cload_routed at 2. rewrite in_use_routed by (apply HP; now left).
    cbn [comp_eqb n_load]. apply IH. intros r' Hr'. apply HP. now right.
  Qed.

  Theorem n_roundtrip c st : n_inv c st -> n_ok c st ->
    n_eq c (fold_left (cload_routed c) (n_snap c st) (n_init c)) st.
  Proof.
    destruct c, st; cbn [n_inv n_ok]; try contradiction; try (intros _ _; exact I).
    - intros I K. rewrite seq_roundtrip by assumption. reflexivity.
    - intros I K. destruct (cfg_roundtrip s I K) as [s' [E Q]]. rewrite E. exact Q.
    - intros [W U] _. cbn [n_snap n_init]. rewrite tab_load_routed.
      + now apply tab_rebuild.
      + intros r Hin. destruct (tab_snap_tree _ _ Hin) as [rows HT].
        rewrite Forall_forall in U. apply (U _ HT).
  Qed.

  (** every record of an encodable node state survives the record codec *)
  Lemma seq_config_record_wf e : wf_record (mkRec T_SEQUENCE_B SEQ_CONFIG_B (be8 e)).
  Proof.
    assert (B : all_bytes (be8 e)) by apply be8_all_bytes.
    split; [discriminate |]. repeat split; try (vm_compute; reflexivity); try exact B;
      try (repeat constructor; unfold is_byte; reflexivity).
  Qed.

  Lemma n_snap_wf c st : n_ok c st -> Forall wf_record (n_snap c st).
  Proof.
    destruct c, st; cbn [n_ok n_snap]; try (intros; constructor).
    - intros [_ K]. exact K.
    - intros [K _]. unfold cfg_snap. apply Forall_app. split.
      + apply Forall_forall. intros r Hin. apply in_map_iff in Hin. destruct Hin as [kv [<- Hin]].
        rewrite Forall_forall in K. apply (K _ Hin).
      + constructor; [apply seq_config_record_wf | constructor].
    - intros K. exact K.
  Qed.

  Lemma node_codec_ok (st : node cstate) hdr :
    rec_ok hdr -> (List.length (frame hdr) <= 1024)%nat -> (forall c, n_ok c (st c)) ->
    codec_ok enc_item dec_item_frame hdr (build_snapshot cstate n_snap st).
  Proof.
    intros Hh Hl K. split; [exact Hh | split; [exact Hl |]].
    unfold build_snapshot. apply Forall_forall. intros r Hin. apply in_flat_map in Hin.
    destruct Hin as [c [_ Hin]]. pose proof (n_snap_wf c (st c) (K c)) as F.
    rewrite Forall_forall in F. specialize (F r Hin).
    split; [now apply item_roundtrip | now apply item_rec_ok].
  Qed.

  (** ** C01 without component premises: histories over config, sequence and table requests *)
  Theorem restart_reproduces_config_seq :
    forall (hist : list (entry cmsg)) (k : nat) (leftover hdr : list N),
      (k <= List.length hist)%nat ->
      Forall (entry_ok cmsg n_mok) hist ->
      (forall c, n_ok c (run cstate cmsg (n_apply H) (firstn k hist) (init_node cstate n_init) c)) ->
      rec_ok hdr -> (List.length (frame hdr) <= 1024)%nat ->
      exists nd,
        restart cstate cmsg (n_apply H) n_snap (n_load H) n_init enc_item dec_item_frame
                write_truncate leftover hdr hist k = Ok nd /\
        forall c, n_eq c (nd c) (run cstate cmsg (n_apply H) hist (init_node cstate n_init) c).
  Proof.
    intros hist k leftover hdr Hk OK NK Hh Hl.
    apply (restart_reproduces cstate cmsg (n_apply H) n_snap (n_load H) n_init n_eq n_eq_trans n_apply_cong
                              n_inv n_mok n_ok n_eq_refl n_inv_init n_inv_apply n_snap_routed n_roundtrip
                              enc_item dec_item_frame hist k leftover hdr Hk OK NK).
    now apply node_codec_ok.
  Qed.
End CP.
