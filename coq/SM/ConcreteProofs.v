(** Proofs about SM/Concrete.v: the component laws of the generic restart theorems
    (SM/ReplayProofs.v) hold for the concrete Config / Sequence / Table components, so that
    C01_restart_reproduces has a corollary without component premises. *)
From RN Require Import SM.Concrete SM.ReplayProofs SM.SnapCodecProofs Codec.PbWireProofs Codec.BufReaderProofs
     Base.SMapProofs SM.ConfigKeyProofs SM.ConfigIndexProofs SM.ConfigProofs SM.ConfigSpec SM.SequenceProofs
     RaftLog.SnapFileProofs.
From Coq Require Import Lia ZifyBool ZifyNat ZifyN.
Local Open Scope N_scope.
Local Notation length := List.length.
Local Notation SOK := str_cmp_ok.
Local Notation KOK := key_cmp_ok.

(** * helpers *)
Lemma bytes_eqb_refl a : bytes_eqb a a = true.
Proof. induction a as [| x a IH]; simpl; [reflexivity |]. now rewrite N.eqb_refl, IH. Qed.

Lemma bytes_eqb_eq a b : bytes_eqb a b = true <-> a = b.
Proof.
  split; [| intros ->; apply bytes_eqb_refl].
  revert b. induction a as [| x a IH]; intros [| y b]; simpl; try discriminate; [reflexivity |].
  intros E. apply andb_true_iff in E. destruct E as [E1 E2]. apply N.eqb_eq in E1. f_equal; auto.
Qed.

Lemma bytes_eqb_neq a b : a <> b -> bytes_eqb a b = false.
Proof. intros NE. destruct (bytes_eqb a b) eqn:E; [apply bytes_eqb_eq in E; contradiction | reflexivity]. Qed.

Lemma fold_left_map {A B C} (g : A -> B -> A) (f : C -> B) l a :
  fold_left g (map f l) a = fold_left (fun a x => g a (f x)) l a.
Proof. revert a. induction l as [| x l IH]; intros a; simpl; [reflexivity | apply IH]. Qed.

Lemma fold_left_ext_in {A B} (f g : A -> B -> A) l :
  (forall a x, In x l -> f a x = g a x) -> forall a, fold_left f l a = fold_left g l a.
Proof.
  induction l as [| x l IH]; intros E a; simpl; [reflexivity |].
  rewrite E by now left. apply IH. intros a' x' Hx. apply E. now right.
Qed.

(** routing of the trees used by the concrete components *)
Lemma route_config key : route load_arms T_CONFIG_B key = Some (KConfig, LSetFullValue).
Proof. reflexivity. Qed.

Lemma route_seq_config : route load_arms T_SEQUENCE_B SEQ_CONFIG_B = Some (KConfig, LInnerSetLastId).
Proof. reflexivity. Qed.

Lemma route_seq_other key : key <> SEQ_CONFIG_B -> route load_arms T_SEQUENCE_B key = Some (KSequence, LLoadRecord).
Proof.
  intros NE. change T_SEQUENCE_B with (bytes_of_lit "T_SEQUENCE"). rewrite route_sequence.
  change SEQ_CONFIG_KEY with SEQ_CONFIG_B. rewrite bytes_eqb_neq by congruence. reflexivity.
Qed.

Lemma route_user key : route load_arms T_USER_B key = Some (KTable, LTableSet).
Proof. reflexivity. Qed.

Lemma route_cache key : route load_arms T_CACHE_B key = Some (KTable, LTableSet).
Proof. reflexivity. Qed.

(** rebuilding a strictly sorted map by inserting its entries gives the map back *)
Section Rebuild.
  Context {K V : Type} (cmp : K -> K -> comparison) (OK : cmp_ok cmp).

  Lemma rebuild_get (recs acc : list (K * V)) k : sm_wf cmp recs ->
    sm_get cmp (fold_left (fun m kv => sm_put cmp m (fst kv) (snd kv)) recs acc) k =
    match sm_get cmp recs k with Some v => Some v | None => sm_get cmp acc k end.
  Proof.
    revert acc. induction recs as [|[k1 v1] recs IH]; intros acc W; cbn [fold_left]; [reflexivity|].
    destruct W as [F W]. rewrite IH by exact W. cbn [fst snd sm_get].
    destruct (cmp k k1) eqn:C.
    - apply (cmp_eq _ OK) in C. subst k1. rewrite (get_none_lt_all _ _ _ F).
      rewrite (get_put_same _ OK). reflexivity.
    - rewrite (get_none_lt_all cmp recs k).
      + rewrite (get_put_other _ OK); auto. intros ->. rewrite (proj2 (cmp_eq _ OK k1 k1) eq_refl) in C. discriminate.
      + eapply (Forall_lt_trans _ OK); eauto.
    - destruct (sm_get cmp recs k); auto.
      rewrite (get_put_other _ OK); auto. intros ->. rewrite (proj2 (cmp_eq _ OK k1 k1) eq_refl) in C. discriminate.
  Qed.

  Lemma rebuild_wf (recs acc : list (K * V)) : sm_wf cmp acc ->
    sm_wf cmp (fold_left (fun m kv => sm_put cmp m (fst kv) (snd kv)) recs acc).
  Proof.
    revert acc. induction recs as [|kv recs IH]; intros acc W; cbn [fold_left]; auto.
    apply IH. apply (wf_put _ OK). exact W.
  Qed.

  Lemma rebuild_id (m : list (K * V)) : sm_wf cmp m ->
    fold_left (fun a kv => sm_put cmp a (fst kv) (snd kv)) m [] = m.
  Proof.
    intros W. apply (wf_ext _ OK); auto.
    - apply rebuild_wf. exact I.
    - intros k. rewrite rebuild_get by exact W. destruct (sm_get cmp m k); reflexivity.
  Qed.
End Rebuild.

(** key fields produced by [key_of_string] never contain the separator *)
Lemma split_sep_fields s : forall cur, forallb (fun c => negb (c =? SEP)) cur = true ->
  Forall (fun f => ConfigKey.wf_field f = true) (split_sep s cur).
Proof.
  assert (R : forall cur, forallb (fun c => negb (c =? SEP)) cur = true -> ConfigKey.wf_field (rev cur) = true).
  { intros cur Hc. unfold ConfigKey.wf_field. rewrite forallb_forall in *. intros x Hx. apply Hc. now apply in_rev. }
  induction s as [| c s IH]; intros cur Hc; cbn [split_sep].
  - constructor; [now apply R | constructor].
  - destruct (c =? SEP) eqn:E.
    + constructor; [now apply R | now apply IH].
    + apply IH. cbn [forallb]. now rewrite E, Hc.
Qed.

Lemma nth_wf_field l i : Forall (fun f => ConfigKey.wf_field f = true) l -> ConfigKey.wf_field (nth i l []) = true.
Proof.
  intros F. revert i. induction F as [| x l Hx _ IH]; intros [| i]; cbn [nth]; auto.
Qed.

Lemma wf_key_of_string s : wf_key (key_of_string s) = true.
Proof.
  unfold wf_key, key_of_string. cbn [k_data k_group k_tenant].
  pose proof (split_sep_fields s [] eq_refl) as F.
  now rewrite !nth_wf_field.
Qed.

Lemma norm_type_idem v : norm_type (norm_type v) = norm_type v.
Proof.
  unfold norm_type at 2 3.
  repeat match goal with |- context [if ?b then _ else _] => destruct b end; reflexivity.
Qed.

Section CP.
  Variable H : str -> str.
  Notation cstate := cstate.
  Notation cload_routed := (cload_routed cstate (n_load H)).

  (** * Sequence *)
  Definition seq_inv (m : seqdb) : Prop := sm_wf str_cmp m /\ sm_get str_cmp m SEQ_CONFIG_B = None.

  Definition seq_key (r : seqreq) : str :=
    match r with RNextId k | RNextRange k _ | RSetId k _ | RRemoveId k => k end.

  (** in scope: the key "SEQ_CONFIG" is reserved for Config's record on the same tree *)
  Definition seq_mok (r : seqreq) : Prop := seq_key r <> SEQ_CONFIG_B.

  (** snapshot-encodable: u64 counters, byte-string keys *)
  Definition seq_ok (m : seqdb) : Prop :=
    Forall (fun kv => snd kv < 2 ^ 64 /\ wf_bytes (fst kv)) m.

  Lemma seq_inv_apply m r : seq_inv m -> seq_mok r -> seq_inv (seq_apply m r).
  Proof.
    intros [W G] OK. split; [apply db_apply_wf, W |]. unfold seq_apply, seq_mok in *.
    destruct r as [k | k st | k id | k]; cbn [seq_key] in OK; cbn [db_apply].
    - unfold db_next_id. destruct (sm_get str_cmp m k); cbn [fst]; rewrite (get_put_other _ SOK) by (intro E; apply OK; symmetry; exact E); exact G.
    - unfold db_next_range. destruct (sm_get str_cmp m k); cbn [fst]; rewrite (get_put_other _ SOK) by (intro E; apply OK; symmetry; exact E); exact G.
    - cbn [fst]. rewrite (get_put_other _ SOK) by (intro E; apply OK; symmetry; exact E). exact G.
    - cbn [fst]. rewrite (get_del_other _ SOK) by (assumption || (intro E; apply OK; symmetry; exact E)). exact G.
  Qed.

  Lemma seq_keys_not_reserved m kv : seq_inv m -> In kv m -> fst kv <> SEQ_CONFIG_B.
  Proof.
    intros [W G] Hin E. destruct kv as [k v]. unfold fst in E. rewrite E in Hin.
    apply (in_get_some _ SOK _ _ _ W) in Hin. rewrite G in Hin. discriminate.
  Qed.

  Lemma seq_load_fold l : forall acc,
    (forall kv, In kv l -> fst kv <> SEQ_CONFIG_B /\ snd kv < 2 ^ 64) ->
    fold_left (cload_routed KSequence) (seq_snap l) (SSeq acc)
    = SSeq (fold_left (fun m kv => sm_put str_cmp m (fst kv) (snd kv)) l acc).
  Proof.
    induction l as [| [k v] l IH]; intros acc HP; [reflexivity |].
    cbn [seq_snap map fold_left]. destruct (HP (k, v) (or_introl eq_refl)) as [NE Hv]. cbn [fst snd] in *.
    unfold ReplayProofs.cload_routed at 2. cbn [rtree rkey]. rewrite route_seq_other by exact NE.
    cbn [comp_eqb n_load]. unfold seq_load. cbn [rval rkey]. rewrite be8_roundtrip by exact Hv.
    apply IH. intros kv Hin. apply HP. now right.
  Qed.

  Lemma seq_roundtrip m : seq_inv m -> seq_ok m ->
    fold_left (cload_routed KSequence) (n_snap KSequence (SSeq m)) (n_init KSequence) = SSeq m.
  Proof.
    intros I K. cbn [n_snap n_init]. rewrite seq_load_fold.
    - f_equal. apply (db_snapshot_roundtrip m), I.
    - intros kv Hin. split; [eapply seq_keys_not_reserved; eauto |].
      unfold seq_ok in K. rewrite Forall_forall in K. now apply K.
  Qed.

  Lemma seq_snap_routed m r : seq_inv m -> In r (seq_snap m) -> routed_to KSequence (rtree r) (rkey r).
  Proof.
    intros I Hin. apply in_map_iff in Hin. destruct Hin as [kv [<- Hin]]. cbn [rtree rkey].
    eexists. apply route_seq_other. eapply seq_keys_not_reserved; eauto.
  Qed.

  (** * Config *)
  Definition lastmod_of (h : list hitem) : N := match rev h with x :: _ => h_time x | [] => 0 end.

  (** values as the committed commands leave them: not temporary, type normalised,
      last_modified = time of the newest history item *)
  Definition canon (v : cvalue) : Prop :=
    cv_tmp v = false /\ option_map norm_type (cv_type v) = cv_type v /\ cv_lastmod v = lastmod_of (cv_hist v).

  Definition cfg_inv (s : store) : Prop :=
    store_inv H s /\ sq_batch (st_seq s) = 100 /\
    (forall k v, cache_get s k = Some v -> canon v /\ wf_key k = true).

  (** in scope: an imported key is a ConfigKey built by From<&str> (no separator in a field) *)
  Definition cfg_mok (c : raft_cmd) : Prop :=
    match c with SetFullValue k _ _ => wf_key k = true | _ => True end.

  (** snapshot-encodable: byte strings, u64 ids *)
  Definition cfg_ok (s : store) : Prop :=
    Forall (fun kv => wf_value (snd kv) /\
                      wf_record (mkRec T_CONFIG_B (build_key (fst kv)) (enc_value (snd kv)))) (st_cache s) /\
    get_end_id (st_seq s) < 2 ^ 64.

  Lemma lastmod_snoc h x : lastmod_of (h ++ [x]) = h_time x.
  Proof. unfold lastmod_of. now rewrite rev_app_distr. Qed.

  Lemma canon_of_do d : canon (value_of_do H d).
  Proof.
    unfold canon, value_of_do; cbn [cv_tmp cv_type cv_lastmod cv_hist]. repeat split.
    destruct (do_type d); cbn [option_map]; [now rewrite norm_type_idem | reflexivity].
  Qed.

  Lemma canon_set_value prev p :
    (forall v, prev = Some v -> canon v) -> option_map norm_type (sp_type p) = sp_type p ->
    canon (set_value H prev p).
  Proof.
    intros HP HT. unfold set_value. destruct prev as [v |].
    - destruct (HP v eq_refl) as (Ht & Hy & Hl).
      assert (C2 : canon (with_meta v (sp_type p) (sp_desc p))).
      { unfold canon, with_meta; cbn [cv_tmp cv_type cv_lastmod cv_hist]. repeat split; try assumption.
        unfold merge. destruct (sp_type p); assumption. }
      destruct (negb _ && _); [exact C2 |].
      destruct C2 as (C2t & C2y & C2l). unfold canon, update_value; cbn [cv_tmp cv_type cv_lastmod cv_hist].
      repeat split; [exact C2y | now rewrite lastmod_snoc].
    - unfold canon; cbn [cv_tmp cv_type cv_lastmod cv_hist]. repeat split; assumption.
  Qed.

  Lemma cfg_apply_get s c k' : store_inv H s ->
    cache_get (cfg_apply H s c) k' =
    match c with
    | ConfigAdd ks value ctype desc hid tid time user =>
        let p := param_of_add ks value ctype desc hid tid time user in
        if key_eqb (sp_key p) k' then Some (set_value H (cache_get s (sp_key p)) p) else cache_get s k'
    | ConfigRemove ks => if key_eqb (key_of_string ks) k' then None else cache_get s k'
    | SetFullValue k d _ => if key_eqb k k' then Some (value_of_do H d) else cache_get s k'
    end.
  Proof.
    intros I. unfold cfg_apply. destruct c as [ks value ctype desc hid tid time user | ks | k d last]; cbn [apply_raft].
    - destruct (set_config H s _) as [s' b] eqn:E. cbn [fst].
      replace s' with (fst (set_config H s (param_of_add ks value ctype desc hid tid time user))) by (rewrite E; reflexivity).
      apply set_get.
    - cbn [fst]. apply del_get, I.
    - cbn [fst]. destruct last; unfold cache_get; cbn [st_cache]; apply inner_get.
  Qed.

  Lemma cfg_apply_batch s c : sq_batch (st_seq (cfg_apply H s c)) = sq_batch (st_seq s).
  Proof.
    unfold cfg_apply. destruct c as [ks value ctype desc hid tid time user | ks | k d last]; cbn [apply_raft].
    - destruct (set_config H s _) as [s' b] eqn:E. cbn [fst].
      unfold set_config in E. destruct (cache_get s _); [destruct (negb _ && _) |];
        inversion E; subst; cbn [st_seq]; unfold param_of_add; cbn [sp_table_id];
        (destruct tid; [unfold set_valid_last_id; destruct (_ <? _) |]; reflexivity).
    - reflexivity.
    - cbn [fst]. destruct last; cbn [st_seq inner_set_config]; [| reflexivity].
      unfold set_valid_last_id. destruct (_ <? _); reflexivity.
  Qed.

  Lemma cfg_inv_init : cfg_inv store_new.
  Proof. split; [apply inv_new | split; [reflexivity | discriminate]]. Qed.

  Lemma cfg_inv_apply s c : cfg_inv s -> cfg_mok c -> cfg_inv (cfg_apply H s c).
  Proof.
    intros (I & B & C) OK. split; [apply (sstep_inv H s (ORaft c)), I |].
    split; [now rewrite cfg_apply_batch |].
    intros k' v'. rewrite cfg_apply_get by exact I.
    destruct c as [ks value ctype desc hid tid time user | ks | k d last]; cbv zeta.
    - destruct (key_eqb _ k') eqn:E; [| apply C].
      apply key_eqb_eq in E. intros [= <-]. split.
      + apply canon_set_value.
        * intros v Hv. eapply C. exact Hv.
        * unfold param_of_add; cbn [sp_type]. destruct ctype; cbn [option_map]; [now rewrite norm_type_idem | reflexivity].
      + rewrite <- E. unfold param_of_add; cbn [sp_key]. apply wf_key_of_string.
    - destruct (key_eqb _ k'); [discriminate | apply C].
    - destruct (key_eqb k k') eqn:E; [| apply C].
      apply key_eqb_eq in E. intros [= <-]. split; [apply canon_of_do | now rewrite <- E].
  Qed.

  (** a canonical value survives ConfigValueDO exactly *)
  Lemma value_do_id v : canon v -> cv_md5 v = H (cv_content v) ->
    value_of_do H (do_of_value v) = v.
  Proof.
    intros (Ht & Hy & Hl) Hm. destruct v as [c m t h ty d lm]. cbn in *. subst t m lm.
    unfold value_of_do, do_of_value; cbn. now rewrite Hy.
  Qed.

  (** ** round trip *)
  Lemma cfg_load_fold l : forall acc,
    (forall kv, In kv l -> wf_value (snd kv) /\ wf_key (fst kv) = true /\ value_of_do H (do_of_value (snd kv)) = snd kv) ->
    fold_left (cload_routed KConfig)
              (map (fun kv => mkRec T_CONFIG_B (build_key (fst kv)) (enc_value (snd kv))) l) (SCfg acc)
    = SCfg (fold_left (fun a kv => inner_set_config a (fst kv) (snd kv)) l acc).
  Proof.
    induction l as [| [k v] l IH]; intros acc HP; [reflexivity |].
    cbn [map fold_left]. destruct (HP (k, v) (or_introl eq_refl)) as (Wv & Wk & Vid). cbn [fst snd] in *.
    unfold ReplayProofs.cload_routed at 2. cbn [rtree rkey]. rewrite route_config.
    cbn [comp_eqb n_load]. unfold cfg_load. cbn [rval rkey]. rewrite value_roundtrip by exact Wv.
    rewrite key_roundtrip by exact Wk. rewrite Vid.
    apply IH. intros kv Hin. apply HP. now right.
  Qed.

  Lemma inner_fold_cache l : forall acc,
    st_cache (fold_left (fun a kv => inner_set_config a (fst kv) (snd kv)) l acc)
    = fold_left (fun m kv => sm_put key_cmp m (fst kv) (snd kv)) l (st_cache acc).
  Proof. induction l as [| kv l IH]; intros acc; cbn [fold_left]; [reflexivity | now rewrite IH]. Qed.

  Lemma inner_fold_seq l : forall acc,
    st_seq (fold_left (fun a kv => inner_set_config a (fst kv) (snd kv)) l acc) = st_seq acc.
  Proof. induction l as [| kv l IH]; intros acc; cbn [fold_left]; [reflexivity | now rewrite IH]. Qed.

  Lemma inner_fold_index l : forall acc, ti_wf (st_index acc) ->
    ti_wf (st_index (fold_left (fun a kv => inner_set_config a (fst kv) (snd kv)) l acc)) /\
    forall k, ti_mem (st_index (fold_left (fun a kv => inner_set_config a (fst kv) (snd kv)) l acc)) k
              = existsb (fun kv => key_eqb (fst kv) k) l || ti_mem (st_index acc) k.
  Proof.
    induction l as [| kv l IH]; intros acc W; cbn [fold_left existsb]; [split; [exact W | reflexivity] |].
    destruct (IH (inner_set_config acc (fst kv) (snd kv))) as [W' M'].
    { cbn [inner_set_config st_index]. now apply ti_insert_wf. }
    split; [exact W' |]. intros k. rewrite M'. cbn [inner_set_config st_index]. rewrite ti_insert_mem.
    destruct (key_eqb (fst kv) k), (existsb _ l); reflexivity.
  Qed.

  (** listed = stored, for stores without temporary values *)
  Lemma cfg_listed s k : cfg_inv s -> ti_mem (st_index s) k = sm_mem key_cmp (st_cache s) k.
  Proof.
    intros (I & _ & C). unfold sm_mem. fold (cache_get s k).
    destruct (ti_mem (st_index s) k) eqn:M.
    - pose proof (inv_listed _ _ I k M) as L. destruct (cache_get s k); [reflexivity | contradiction].
    - destruct (cache_get s k) as [v |] eqn:G; [| reflexivity].
      destruct (inv_unlisted _ _ I k v G M) as [T _]. destruct (C k v G) as [(T' & _) _]. congruence.
  Qed.

  Lemma existsb_key_mem (m : list (key * cvalue)) k : sm_wf key_cmp m ->
    existsb (fun kv => key_eqb (fst kv) k) m = sm_mem key_cmp m k.
  Proof.
    intros W. unfold sm_mem. destruct (sm_get key_cmp m k) as [v |] eqn:G.
    - apply existsb_exists. exists (k, v). split; [now apply (get_some_in _ KOK) | apply key_eqb_refl].
    - destruct (existsb _ m) eqn:E; [| reflexivity].
      apply existsb_exists in E. destruct E as [[k' v'] [Hin E]]. cbn [fst] in E. apply key_eqb_eq in E. subst k'.
      apply (in_get_some _ KOK _ _ _ W) in Hin. congruence.
  Qed.

  (** what the queries can tell apart, plus well-formedness of both indexes *)
  Definition cfg_eqw (s1 s2 : store) : Prop :=
    cfg_eq s1 s2 /\ ti_wf (st_index s1) /\ ti_wf (st_index s2).

  Theorem cfg_roundtrip s : cfg_inv s -> cfg_ok s ->
    exists s', fold_left (cload_routed KConfig) (n_snap KConfig (SCfg s)) (n_init KConfig) = SCfg s' /\
               cfg_eqw s' s.
  Proof.
    intros CI (KF & KE). pose proof CI as (I & B & C).
    cbn [n_snap n_init]. unfold cfg_snap. rewrite fold_left_app, cfg_load_fold.
    - cbn [fold_left]. unfold ReplayProofs.cload_routed. cbn [rtree rkey]. rewrite route_seq_config.
      cbn [comp_eqb n_load]. unfold cfg_load. cbn [rval]. rewrite be8_roundtrip by exact KE.
      eexists. split; [reflexivity |].
      destruct (inner_fold_index (st_cache s) store_new ti_wf_new) as [W' M'].
      split; [| split; [exact W' | apply (inv_index _ _ I)]].
      split; [| split; [| split]]; cbn [st_cache st_index st_seq].
      + rewrite inner_fold_cache. apply (rebuild_id _ KOK), (inv_cache _ _ I).
      + intros k. rewrite M'. cbn [store_new st_index]. rewrite ti_mem_new, orb_false_r.
        rewrite existsb_key_mem by apply (inv_cache _ _ I). symmetry. now apply cfg_listed.
      + rewrite inner_fold_seq. unfold get_end_id at 1, set_last_id; cbn [sq_last sq_cache]. apply N.add_0_r.
      + rewrite inner_fold_seq. cbn [set_last_id sq_batch store_new st_seq sseq_new]. now rewrite B.
    - intros [k v] Hin. cbn [fst snd]. rewrite Forall_forall in KF. destruct (KF _ Hin) as [Wv _].
      assert (G : cache_get s k = Some v) by (apply (in_get_some _ KOK); [apply (inv_cache _ _ I) | exact Hin]).
      destruct (C k v G) as [Cv Wk]. split; [exact Wv | split; [exact Wk |]].
      apply value_do_id; [exact Cv | apply (inv_md5 _ _ I k v G)].
  Qed.
End CP.
