(** Model of src/config/config_index.rs: ConfigQueryParam matching, ConfigIndex
    (BTreeMap<group, BTreeSet<data_id>>) and TenantIndex (BTreeMap<tenant, ConfigIndex> + size).
    BTree iteration order = sorted order: the maps are strictly sorted association lists.
    Literal transcription; executable definitions only. *)
From RN Require Export SM.ConfigKey.
Local Open Scope N_scope.

(** ConfigQueryParam.  [q_perm] is [namespace_privilege.check_permission] (a predicate on
    the tenant; the default privilege group permits everything). *)
Record qparam := mkQ {
  q_tenant : option str;
  q_group : option str;
  q_data : option str;
  q_like_group : option str;
  q_like_data : option str;
  q_perm : str -> bool;
  q_context : bool;
  q_offset : N;
  q_limit : N;
}.

Definition match_group (p : qparam) (g : str) : bool :=
  match q_group p with
  | Some group => str_is_empty group || str_eqb g group
  | None =>
      match q_like_group p with
      | Some lg => str_is_empty lg || str_contains g lg
      | None => true
      end
  end.

Definition match_data_id (p : qparam) (s : str) : bool :=
  match q_data p with
  | Some d => str_is_empty d || str_eqb s d
  | None =>
      match q_like_data p with
      | Some ld => str_is_empty ld || str_contains s ld
      | None => true
      end
  end.

(** ConfigIndex *)
Definition cindex := list (str * sset str).

Definition ci_insert (ci : cindex) (g d : str) : bool * cindex :=
  match sm_get str_cmp ci g with
  | Some set =>
      if ss_mem str_cmp set d then (false, ci)
      else (true, sm_put str_cmp ci g (ss_add str_cmp set d))
  | None => (true, sm_put str_cmp ci g (ss_add str_cmp [] d))
  end.

(** returns (removed?, number of groups left, new index) *)
Definition ci_remove (ci : cindex) (g d : str) : bool * N * cindex :=
  match sm_get str_cmp ci g with
  | Some set =>
      let b := ss_mem str_cmp set d in
      let set' := ss_del str_cmp set d in
      let ci' := if b && ss_is_empty set' then sm_del str_cmp ci g else sm_put str_cmp ci g set' in
      (b, N.of_nat (length ci'), ci')
  | None => (false, N.of_nat (length ci), ci)
  end.

(** the inner loop over one BTreeSet: [index] counts the matches so far, [acc] is [rlist] *)
Fixpoint ci_query_set (p : qparam) (tenant g : str) (end_index : N)
         (set : sset str) (index : N) (acc : list key) : N * list key :=
  match set with
  | [] => (index, acc)
  | (s, _) :: set' =>
      if match_data_id p s then
        let acc' := if (q_offset p <=? index) && (index <? end_index)
                    then acc ++ [mkKey s g tenant] else acc in
        ci_query_set p tenant g end_index set' (index + 1) acc'
      else ci_query_set p tenant g end_index set' index acc
  end.

Fixpoint ci_query_groups (p : qparam) (tenant : str) (end_index : N)
         (groups : cindex) (index : N) (acc : list key) : N * list key :=
  match groups with
  | [] => (index, acc)
  | (g, set) :: groups' =>
      if match_group p g then
        let '(index', acc') := ci_query_set p tenant g end_index set index acc in
        ci_query_groups p tenant end_index groups' index' acc'
      else ci_query_groups p tenant end_index groups' index acc
  end.

Definition ci_query_page (ci : cindex) (tenant : str) (limit : N) (p : qparam) : N * list key :=
  ci_query_groups p tenant (q_offset p + limit) ci 0 [].

Definition ci_count (ci : cindex) : N :=
  fold_left (fun a gs => a + N.of_nat (length (snd gs))) ci 0.

(** TenantIndex *)
Record tindex := mkTI { ti_groups : list (str * cindex); ti_size : N }.

Definition ti_new : tindex := mkTI [] 0.

Definition ti_insert (t : tindex) (k : key) : bool * tindex :=
  match sm_get str_cmp (ti_groups t) (k_tenant k) with
  | Some ci =>
      let '(b, ci') := ci_insert ci (k_group k) (k_data k) in
      (b, mkTI (sm_put str_cmp (ti_groups t) (k_tenant k) ci') (if b then ti_size t + 1 else ti_size t))
  | None =>
      let '(b, ci') := ci_insert [] (k_group k) (k_data k) in
      (b, mkTI (sm_put str_cmp (ti_groups t) (k_tenant k) ci') (if b then ti_size t + 1 else ti_size t))
  end.

Definition ti_remove (t : tindex) (k : key) : bool * tindex :=
  match sm_get str_cmp (ti_groups t) (k_tenant k) with
  | Some ci =>
      let '(b, group_size, ci') := ci_remove ci (k_group k) (k_data k) in
      let size' := if b then ti_size t - 1 else ti_size t in
      let groups' := if group_size =? 0 then sm_del str_cmp (ti_groups t) (k_tenant k)
                     else sm_put str_cmp (ti_groups t) (k_tenant k) ci' in
      (b, mkTI groups' size')
  | None => (false, t)
  end.

(** the all-tenant branch: [limit -= sub_list.len()], offset NOT adjusted (literal) *)
Fixpoint ti_query_all (p : qparam) (tg : list (str * cindex)) (size limit : N) (rlist : list key)
  : N * list key :=
  match tg with
  | [] => (size, rlist)
  | (tenant, ci) :: tg' =>
      if q_perm p tenant then
        let '(sub_size, sub_list) := ci_query_page ci tenant limit p in
        ti_query_all p tg' (size + sub_size) (limit - N.of_nat (length sub_list)) (rlist ++ sub_list)
      else ti_query_all p tg' size limit rlist
  end.

Definition ti_query_page (t : tindex) (p : qparam) : N * list key :=
  match q_tenant p with
  | Some tenant =>
      if q_perm p tenant then
        match sm_get str_cmp (ti_groups t) tenant with
        | Some ci => ci_query_page ci tenant (q_limit p) p
        | None => (0, [])
        end
      else (0, [])
  | None => ti_query_all p (ti_groups t) 0 (q_limit p) []
  end.

(** every key held by the index, in iteration order *)
Definition ci_keys (tenant : str) (ci : cindex) : list key :=
  concat (map (fun gs => map (fun d => mkKey (fst d) (fst gs) tenant) (snd gs)) ci).

Definition ti_keys (t : tindex) : list key :=
  concat (map (fun tc => ci_keys (fst tc) (snd tc)) (ti_groups t)).

Definition ti_mem (t : tindex) (k : key) : bool :=
  match sm_get str_cmp (ti_groups t) (k_tenant k) with
  | Some ci => match sm_get str_cmp ci (k_group k) with
               | Some set => ss_mem str_cmp set (k_data k)
               | None => false
               end
  | None => false
  end.
