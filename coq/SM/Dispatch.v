(** Model of the replicated state machine glue (src/raft/filestore/raftdata.rs,
    raftapply.rs): the three paths that deliver a committed request sequence to the
    state-machine actors.  Model only: no proofs in this file.

    * actors are deterministic mailbox state machines: [step a s m] is the state after actor
      [a] handled message [m]; every actor has ONE FIFO mailbox (actix);
    * a handler may forward messages to other actors with do_send ([fwd a m]; in the code base:
      TableManager forwards T_CACHE writes to DirectCacheManager) — the forward depends on the
      message only;
    * what is sent for a request is read off the GENERATED tables (Gen/DispatchTables.v):
      target actor, message constructor, field wiring, delivery mode;
    * leader path  (StateApplyAsyncRequest::ApplyRequest -> apply_log_to_state_machine):
      one entry at a time, `send(..).await` waits until the target handled the message;
    * follower path (StateApplyRequest::ApplyBatchRequest -> do_send_log): a whole batch is
      enqueued with do_send from a synchronous handler; the loop `?`-aborts on the first
      error and replicate_to_state_machine then fails (async-raft shuts the node down);
    * replay path (RaftLogInner::load_record -> LogRecordLoaderInstance::load -> load_log):
      awaits every message, a loader error is logged and the loop continues;
    * between any two steps of a path every actor may handle any number of pending messages
      (the [sched] arguments: an arbitrary scheduler), and the final state is taken at
      quiescence (all mailboxes drained). *)
From RN Require Export SM.DispatchTypes Gen.DispatchTables.
From Coq Require Import NArith.

Section Dispatch.
  (** what the match pattern binds: the fields of the request *)
  Variable payload : Type.
  (** actor messages and states *)
  Variable M : Type.
  Variable S : Type.
  (** the message built from the bound fields by a row: binders, preparation, constructor and
      wiring determine it — two rows that agree on these build the same message *)
  Variable build : list (string * string) -> prep -> ctor -> list (string * string) -> payload -> M.
  (** handler of actor [a]: new state; and the messages it forwards to other actors *)
  Variable step : actor -> S -> M -> S.
  Variable fwd : actor -> M -> list (actor * M).
  (** ConfigValueDO::from_bytes(&value) succeeds *)
  Variable decodable : payload -> bool.
  (** the target's handler answers Ok for this request (only the leader looks at the answer:
      `.send(m).await??`; it matters for the last_applied bookkeeping only — the handler's state
      change has happened either way) *)
  Variable handler_ok : payload -> bool.

  Record req := mkReq { q_variant : variant; q_payload : payload }.

  Inductive outcome :=
  | Send (a : actor) (m : M) (md : mode)
  | PrepErr           (* the arm returned Err before sending anything *)
  | NoArm.            (* cannot happen for generated tables: see C07_tables_equal *)

  Definition dispatch (t : list row) (r : req) : outcome :=
    match lookup t (q_variant r) with
    | None => NoArm
    | Some rw =>
        let m := build (r_binders rw) (r_prep rw) (r_ctor rw) (r_wiring rw) (q_payload r) in
        match r_prep rw with
        | PNone => Send (r_actor rw) m (r_mode rw)
        | PDecodeFull => if decodable (q_payload r) then Send (r_actor rw) m (r_mode rw) else PrepErr
        end
    end.

  Definition awaits (md : mode) : bool :=
    match md with MAwaitErr | MAwaitOk => true | MDoSend => false end.

  (** ** the actor system *)
  Record world := mkWorld { wst : actor -> S; wmb : actor -> list M }.

  Definition upd {A} (f : actor -> A) (a : actor) (x : A) : actor -> A :=
    fun b => if actor_eqb b a then x else f b.

  Definition enqueue (a : actor) (m : M) (w : world) : world :=
    mkWorld (wst w) (upd (wmb w) a (wmb w a ++ [m])).

  Definition enqueue_all (l : list (actor * M)) (w : world) : world :=
    fold_left (fun w am => enqueue (fst am) (snd am) w) l w.

  (** actor [a] handles the message at the head of its mailbox (if any) *)
  Definition run_one (a : actor) (w : world) : world :=
    match wmb w a with
    | [] => w
    | m :: q => enqueue_all (fwd a m) (mkWorld (upd (wst w) a (step a (wst w a) m)) (upd (wmb w) a q))
    end.

  (** actor [a] handles everything that is in its mailbox now *)
  Definition drain_actor (a : actor) (w : world) : world :=
    fold_left (fun w _ => run_one a w) (wmb w a) w.

  Definition run_sched (l : list actor) (w : world) : world :=
    fold_left (fun w a => run_one a w) l w.

  Definition all_actors : list actor :=
    [AIndex; ASequence; AConfig; ATable; ANamespace; AMcp; ANaming; ACache].

  Definition round (w : world) : world := fold_left (fun w a => drain_actor a w) all_actors w.

  (** quiescence: [n] rounds in which every actor drains its mailbox *)
  Fixpoint quiesce (n : nat) (w : world) : world :=
    match n with O => w | Datatypes.S n' => quiesce n' (round w) end.

  Definition quiescent (w : world) : Prop := forall a, wmb w a = [].

  (** deliver according to the mode: do_send = enqueue; send().await = enqueue and wait until
      the target has handled it (FIFO: everything queued before it is handled first) *)
  Definition deliver (a : actor) (m : M) (md : mode) (w : world) : world :=
    let w' := enqueue a m w in if awaits md then drain_actor a w' else w'.

  (** ** leader: one ApplyRequest per entry.  An Err is returned to the client of that entry
      only (async-raft: RaftError::RaftStorage, no shutdown) and the next entry is applied. *)
  Fixpoint leader_run (sched : list (list actor)) (reqs : list req) (w : world) : world :=
    match reqs with
    | [] => w
    | r :: rs =>
        let w1 := match dispatch leader_table r with
                  | Send a m md => deliver a m md w
                  | _ => w
                  end in
        leader_run (tl sched) rs (run_sched (hd [] sched) w1)
    end.

  (** ** follower: ApplyBatchRequest. [for request in requests { do_send_log(request)?; }] *)
  Fixpoint batch_run (b : list req) (w : world) : world * bool :=
    match b with
    | [] => (w, false)
    | r :: rs =>
        match dispatch follower_table r with
        | Send a m md => batch_run rs (deliver a m md w)
        | _ => (w, true)      (* `?`: the rest of the batch is skipped *)
        end
    end.

  Fixpoint follower_run (sched : list (list actor)) (batches : list (list req)) (w : world) : world :=
    match batches with
    | [] => w
    | b :: bs =>
        let (w1, aborted) := batch_run b w in
        let w2 := run_sched (hd [] sched) w1 in
        if aborted then w2    (* replicate_to_state_machine Err: Raft shuts down, no more batches *)
        else follower_run (tl sched) bs w2
    end.

  (** ** replay: load_record logs a loader error and continues *)
  Fixpoint replay_run (sched : list (list actor)) (reqs : list req) (w : world) : world :=
    match reqs with
    | [] => w
    | r :: rs =>
        let w1 := match dispatch replay_table r with
                  | Send a m md => deliver a m md w
                  | _ => w
                  end in
        replay_run (tl sched) rs (run_sched (hd [] sched) w1)
    end.

  Definition final_leader n sched reqs w := quiesce n (leader_run sched reqs w).
  Definition final_follower n sched batches w := quiesce n (follower_run sched batches w).
  Definition final_replay n sched reqs w := quiesce n (replay_run sched reqs w).

  (** arbitrary batching: sizes of the successive batches (0 = an empty batch; the remainder
      forms one last batch) *)
  Fixpoint split {A} (sizes : list nat) (l : list A) : list (list A) :=
    match sizes with
    | [] => [l]
    | n :: ns => firstn n l :: split ns (skipn n l)
    end.

  (** ** what each actor should end with: its own sub-sequence of messages, in log order *)
  Fixpoint spec_actor (t : list row) (b : actor) (reqs : list req) (s : S) : S :=
    match reqs with
    | [] => s
    | r :: rs =>
        match dispatch t r with
        | Send a m _ => spec_actor t b rs (if actor_eqb a b then step b s m else s)
        | _ => spec_actor t b rs s
        end
    end.

  (** in-scope predicates of the theorem (both are boolean and evaluated by the harness too) *)
  Definition prep_ok (r : req) : bool :=
    match q_variant r with VConfigFullValue => decodable (q_payload r) | _ => true end.

  Definition no_forward (r : req) : Prop :=
    forall t, In t [leader_table; follower_table; replay_table] ->
    forall a m md, dispatch t r = Send a m md -> fwd a m = [].

  (** ** last_applied bookkeeping of StateApplyManager.
      [am_last] = StateApplyManager.last_applied_log; [am_saved] = the SaveLastAppliedLog
      messages sent to the index manager, oldest first. *)
  Record apply_mgr := mkAm { am_last : N; am_saved : list N }.

  (** ApplyRequest: last_applied_log = req.index before the apply; SaveLastAppliedLog only
      after a successful apply ([.await?] precedes the do_send) *)
  Fixpoint leader_applied (entries : list (N * req)) (am : apply_mgr) : apply_mgr :=
    match entries with
    | [] => am
    | (i, r) :: es =>
        let ok := match dispatch leader_table r with
                  | Send _ _ MAwaitErr => handler_ok (q_payload r)
                  | Send _ _ _ => true
                  | _ => false
                  end in
        leader_applied es (mkAm i (if ok then am_saved am ++ [i] else am_saved am))
    end.

  Fixpoint batch_ok (b : list (N * req)) : bool :=
    match b with
    | [] => true
    | (_, r) :: rs => match dispatch follower_table r with Send _ _ _ => batch_ok rs | _ => false end
    end.

  (** ApplyBatchRequest: last_applied_log = index of the LAST request of the batch (if any),
      set before the loop; SaveLastAppliedLog(last_applied_log) after a loop without error *)
  Fixpoint follower_applied (batches : list (list (N * req))) (am : apply_mgr) : apply_mgr :=
    match batches with
    | [] => am
    | b :: bs =>
        (* requests.last().index if the batch is not empty, else unchanged *)
        let l := fold_left (fun _ e => fst e) b (am_last am) in
        if batch_ok b then follower_applied bs (mkAm l (am_saved am ++ [l]))
        else mkAm l (am_saved am)
    end.

End Dispatch.

Arguments mkReq {payload}.
Arguments q_variant {payload}.
Arguments q_payload {payload}.
Arguments Send {M}.
Arguments PrepErr {M}.
Arguments NoArm {M}.
Arguments mkWorld {M S}.
Arguments wst {M S}.
Arguments wmb {M S}.
