(** Model of the start-up of StateApplyManager (src/raft/filestore/raftapply.rs):
    load_index -> load_snapshot -> load_log -> load_complete, and of what a stopped node has
    on disk.  Model only: no proofs.

      snapshot_next_index = end_index of the LAST catalogued snapshot + 1   (1 if none)
      last_applied_log    = from the index file
      state := fold load_record over the records of that snapshot file (none: initial state)
      state := fold load_log over log[snapshot_next_index .. last_applied_log]
    Log indices are 1-based; [log] is the list of committed entries 1..n. *)
From RN Require Export SM.Snapshot RaftLog.SnapFile.
Local Open Scope nat_scope.

Section Replay.
  Variable S M : Type.
  Variable capply : comp -> S -> M -> S.
  Variable csnap : comp -> S -> list record.
  Variable cload : comp -> load_msg -> S -> record -> S.
  Variable cinit : comp -> S.

  Notation node := (node S).
  Notation entry := (entry M).

  (** [snap] = the last catalogued snapshot: (end_index, records read from its file) *)
  Definition start_up (snap : option (nat * list record)) (log : list entry) (last_applied : nat) : node :=
    let '(snap_end, st0) :=
      match snap with
      | Some (k, recs) => (k, load_snapshot S cload recs (init_node S cinit))
      | None => (0, init_node S cinit)
      end in
    if last_applied =? 0 then st0     (* load_log returns at once *)
    else run S M capply (firstn (last_applied - snap_end) (skipn snap_end log)) st0.

  (** ** compaction concurrent with apply.  do_build_snapshot runs as a spawned future of
      StateApplyManager: the header's last_index = k is fixed first, the components are asked one
      after the other while later ApplyRequests keep being delivered (async-raft continues to
      commit during compaction).  Component [c] may therefore write its records [j c] entries
      AFTER k; the restart still replays the log from k + 1. *)
  Definition build_snapshot_racy (hist : list entry) (k : nat) (j : comp -> nat) : list record :=
    flat_map (fun c => csnap c (run S M capply (firstn (k + j c) hist) (init_node S cinit) c)) build_order.

  Definition restart_racy (hist : list entry) (k : nat) (j : comp -> nat) : node :=
    start_up (Some (k, build_snapshot_racy hist k j)) hist (length hist).

  (** ** the files.  Records and the header are stored as protobuf messages; their encoders are
      abstract (injective by the law [dec_frame (frame (enc r)) = Some r] assumed in the
      theorems). *)
  Variable enc : record -> list N.
  Variable dec_frame : list N -> option record.

  (** do_build_snapshot at compaction point [k]: the writer [W] (in place / truncating) writes
      header + records of the live state over whatever the path contained ([leftover]: an
      interrupted earlier attempt with the same snapshot id) *)
  Definition snapshot_file (W : list N -> list N -> list N) (leftover : list N)
             (hdr : list N) (st : node) : list N :=
    W leftover (snap_image hdr (map enc (build_snapshot S csnap st))).

  (** start-up from the files *)
  Definition start_up_files (snap : option (nat * list N)) (log : list entry) (last_applied : nat)
    : res node :=
    match snap with
    | None => Ok (start_up None log last_applied)
    | Some (k, file) =>
        res_map (fun hr => start_up (Some (k, decode_until dec_frame (snd hr))) log last_applied)
                (snap_read file)
    end.

  (** what a node that compacted at [k] (0 = never) and then stopped after quiescence + flush
      restarts to *)
  Definition restart (W : list N -> list N -> list N) (leftover hdr : list N)
             (hist : list entry) (k : nat) : res node :=
    match k with
    | O => start_up_files None hist (length hist)
    | _ => start_up_files
             (Some (k, snapshot_file W leftover hdr (run S M capply (firstn k hist) (init_node S cinit))))
             hist (length hist)
    end.

  (** ** a node killed DURING a compaction.  Three successive compaction points k00 <= k0 <= k: the
      catalogue holds the last two snapshots [k00; k0], the log on disk starts behind k00 — the log
      is always cut ONE SNAPSHOT BEHIND (RaftLogManager::begin_ready_to_load keeps the newest
      pointer pending and installs the previous one: "keep the log of the last two snapshots").
      The compaction at [k] touches the disk as follows (StateApplyManager::do_build_snapshot,
      RaftSnapshotManager::complete_snapshot, FileStore::do_log_compaction):
        1. the new snapshot file is written completely (header, records, flush);
        2. the snapshot file of k00 is removed (the catalogue keeps naming k0 as its last entry);
        3. in EITHER order (two actors, the catalogue save is a fire-and-forget message):
             - the catalogue [k0; k] is saved in the index file        ([catalogued])
             - the log is cut at k0 (pointer log of the PREVIOUS snapshot)   ([cut])
      A kill leaves one of the four combinations.  What start-up reads: the LAST catalogued
      snapshot, and the log entries behind it that are still on disk. *)

  (** start-up when the log on disk holds only the entries behind [base] ([suffix] = entries base+1 ..) *)
  Definition start_up_cut (snap : option (nat * list record)) (base : nat) (suffix : list entry)
             (last_applied : nat) : node :=
    let '(snap_end, st0) :=
      match snap with
      | Some (k, recs) => (k, load_snapshot S cload recs (init_node S cinit))
      | None => (0, init_node S cinit)
      end in
    if last_applied =? 0 then st0
    else run S M capply (firstn (last_applied - snap_end) (skipn (snap_end - base) suffix)) st0.

  Definition start_up_files_cut (snap : option (nat * list N)) (base : nat) (suffix : list entry)
             (last_applied : nat) : res node :=
    match snap with
    | None => Ok (start_up_cut None base suffix last_applied)
    | Some (k, file) =>
        res_map (fun hr => start_up_cut (Some (k, decode_until dec_frame (snd hr))) base suffix last_applied)
                (snap_read file)
    end.

  Definition snap_at (W : list N -> list N -> list N) (leftover hdr : list N) (hist : list entry) (k : nat)
    : option (nat * list N) :=
    match k with
    | O => None
    | _ => Some (k, snapshot_file W leftover hdr (run S M capply (firstn k hist) (init_node S cinit)))
    end.

  (** the restart of a node killed during the compaction at [k]; [catalogued] / [cut]: which of the two
      independent final steps had reached the disk *)
  Definition crash_restart (W : list N -> list N -> list N) (catalogued cut : bool)
             (leftover0 hdr0 leftover hdr : list N) (hist : list entry) (k00 k0 k : nat) : res node :=
    let base := if cut then k0 else k00 in
    start_up_files_cut (if catalogued then snap_at W leftover hdr hist k else snap_at W leftover0 hdr0 hist k0)
                       base (skipn base hist) (length hist).
End Replay.
