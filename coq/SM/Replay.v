(** Model of the start-up of StateApplyManager (src/raft/filestore/raftapply.rs):
    load_index -> load_snapshot -> load_log -> load_complete, and of what a stopped node has
    on disk.  Model only: no proofs.

      snapshot_next_index = end_index of the LAST catalogued snapshot + 1   (1 if none)
      last_applied_log    = from the index file
      state := fold load_record over the records of that snapshot file (none: initial state)
      state := fold load_log over log[snapshot_next_index .. last_applied_log]
    Log indices are 1-based; [log] is the list of committed entries 1..n. *)
From RN Require Export SM.Snapshot RaftLog.SnapFile.
Local Open Scope nat_scope.

Section Replay.
  Variable S M : Type.
  Variable capply : comp -> S -> M -> S.
  Variable csnap : comp -> S -> list record.
  Variable cload : comp -> load_msg -> S -> record -> S.
  Variable cinit : comp -> S.

  Notation node := (node S).
  Notation entry := (entry M).

  (** [snap] = the last catalogued snapshot: (end_index, records read from its file) *)
  Definition start_up (snap : option (nat * list record)) (log : list entry) (last_applied : nat) : node :=
    let '(snap_end, st0) :=
      match snap with
      | Some (k, recs) => (k, load_snapshot S cload recs (init_node S cinit))
      | None => (0, init_node S cinit)
      end in
    if last_applied =? 0 then st0     (* load_log returns at once *)
    else run S M capply (firstn (last_applied - snap_end) (skipn snap_end log)) st0.

  (** ** compaction concurrent with apply.  do_build_snapshot runs as a spawned future of
      StateApplyManager: the header's last_index = k is fixed first, the components are asked one
      after the other while later ApplyRequests keep being delivered (async-raft continues to
      commit during compaction).  Component [c] may therefore write its records [j c] entries
      AFTER k; the restart still replays the log from k + 1. *)
  Definition build_snapshot_racy (hist : list entry) (k : nat) (j : comp -> nat) : list record :=
    flat_map (fun c => csnap c (run S M capply (firstn (k + j c) hist) (init_node S cinit) c)) build_order.

  Definition restart_racy (hist : list entry) (k : nat) (j : comp -> nat) : node :=
    start_up (Some (k, build_snapshot_racy hist k j)) hist (length hist).

  (** ** the files.  Records and the header are stored as protobuf messages; their encoders are
      abstract (injective by the law [dec_frame (frame (enc r)) = Some r] assumed in the
      theorems). *)
  Variable enc : record -> list N.
  Variable dec_frame : list N -> option record.

  (** do_build_snapshot at compaction point [k]: the writer [W] (in place / truncating) writes
      header + records of the live state over whatever the path contained ([leftover]: an
      interrupted earlier attempt with the same snapshot id) *)
  Definition snapshot_file (W : list N -> list N -> list N) (leftover : list N)
             (hdr : list N) (st : node) : list N :=
    W leftover (snap_image hdr (map enc (build_snapshot S csnap st))).

  (** start-up from the files *)
  Definition start_up_files (snap : option (nat * list N)) (log : list entry) (last_applied : nat)
    : res node :=
    match snap with
    | None => Ok (start_up None log last_applied)
    | Some (k, file) =>
        res_map (fun hr => start_up (Some (k, decode_until dec_frame (snd hr))) log last_applied)
                (snap_read file)
    end.

  (** what a node that compacted at [k] (0 = never) and then stopped after quiescence + flush
      restarts to *)
  Definition restart (W : list N -> list N -> list N) (leftover hdr : list N)
             (hist : list entry) (k : nat) : res node :=
    match k with
    | O => start_up_files None hist (length hist)
    | _ => start_up_files
             (Some (k, snapshot_file W leftover hdr (run S M capply (firstn k hist) (init_node S cinit))))
             hist (length hist)
    end.
End Replay.
