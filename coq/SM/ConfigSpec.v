(** Specification-side definitions for C09 (used in theorem statements): store-level operation
    histories, what a read must return after the last write of a key, which keys must be
    listed, and the chronological change history of a key.  Executable definitions only. *)
From RN Require Export SM.Config.
Local Open Scope N_scope.

(** the operations that reach the store of one node: committed log entries (leader apply,
    follower replication, replay) and routed temporary values *)
Inductive sop :=
| ORaft (c : raft_cmd)
| OTmp (k : key) (v : str) (now : N).

Definition raft_key (c : raft_cmd) : key :=
  match c with
  | ConfigAdd ks _ _ _ _ _ _ _ => key_of_string ks
  | ConfigRemove ks => key_of_string ks
  | SetFullValue k _ _ => k
  end.

Definition op_key (o : sop) : key :=
  match o with ORaft c => raft_key c | OTmp k _ _ => k end.

Definition is_tmp (o : sop) : bool := match o with OTmp _ _ _ => true | _ => false end.

Section Spec.
  Variable H : str -> str.

  Definition sstep (s : store) (o : sop) : store :=
    match o with
    | ORaft c => fst (apply_raft H s c)
    | OTmp k v now => set_tmp_config H s k v now
    end.

  Definition srun_from (s : store) (ops : list sop) : store := fold_left sstep ops s.
  Definition srun (ops : list sop) : store := srun_from store_new ops.

  (** what a read returns, without the last-modified timestamp *)
  Definition view := (str * str * option str * option str)%type.
  Definition get4 (s : store) (k : key) : option view :=
    match get_config s k with
    | Some (c, m, t, d, _) => Some (c, m, t, d)
    | None => None
    end.

  Definition merge (new old : option str) : option str :=
    match new with Some x => Some x | None => old end.

  (** LAST WRITE WINS: the read of a key after its last write [o], given the read before it.
      A publish carries content, optional type and optional description (absent ones keep the
      stored ones); an import replaces everything; a routed temporary value replaces the content. *)
  Definition expected (prev : option view) (o : sop) : option view :=
    match o with
    | ORaft (ConfigAdd _ value ctype desc _ _ _ _) =>
        match prev with
        | Some (_, _, t, d) => Some (value, H value, merge (option_map norm_type ctype) t, merge desc d)
        | None => Some (value, H value, option_map norm_type ctype, desc)
        end
    | ORaft (ConfigRemove _) => None
    | ORaft (SetFullValue _ d _) =>
        Some (do_content d, H (do_content d), option_map norm_type (do_type d), do_desc d)
    | OTmp _ v _ =>
        match prev with
        | Some (_, _, t, d) => Some (v, H v, t, d)
        | None => Some (v, H v, None, None)
        end
    end.

  (** which keys must be listed: those whose last committed operation is a publish or import *)
  Definition listed_step (k : key) (b : bool) (o : sop) : bool :=
    if key_eqb (op_key o) k then
      match o with
      | ORaft (ConfigRemove _) => false
      | ORaft _ => true
      | OTmp _ _ _ => b
      end
    else b.
  Definition listed_spec (ops : list sop) (k : key) : bool := fold_left (listed_step k) ops false.

  (** chronological history of a key: one entry per publish that changed the content, since
      the last remove; an import replaces it by the imported entries.  Unbounded here; the
      store keeps the last 100. *)
  Definition hstate := option (str * list hitem).
  Definition hstep (k : key) (st : hstate) (o : sop) : hstate :=
    if key_eqb (op_key o) k then
      match o with
      | ORaft (ConfigAdd _ value _ _ hid _ time user) =>
          match st with
          | Some (c, h) => if str_eqb c value then st else Some (value, h ++ [mkHist hid value time user])
          | None => Some (value, [mkHist hid value time user])
          end
      | ORaft (ConfigRemove _) => None
      | ORaft (SetFullValue _ d _) => Some (do_content d, do_hist d)
      | OTmp _ _ _ => st
      end
    else st.
  Definition hist_state (ops : list sop) (k : key) : hstate := fold_left (hstep k) ops None.
  Definition hist_spec (ops : list sop) (k : key) : list hitem :=
    match hist_state ops k with Some (_, h) => h | None => [] end.

  Definition last_n {A} (n : nat) (l : list A) : list A := skipn (length l - n) l.

  Definition stored_hist (s : store) (k : key) : list hitem :=
    match cache_get s k with Some v => cv_hist v | None => [] end.

  (** hypotheses on histories *)
  Definition import_bounded (o : sop) : Prop :=
    match o with ORaft (SetFullValue _ d _) => (length (do_hist d) <= 100)%nat | _ => True end.

  Fixpoint next_on (k : key) (ops : list sop) : option sop :=
    match ops with
    | [] => None
    | o :: r => if key_eqb (op_key o) k then Some o else next_on k r
    end.

  Definition is_add_of (v : str) (o : option sop) : bool :=
    match o with
    | Some (ORaft (ConfigAdd _ value _ _ _ _ _ _)) => str_eqb value v
    | _ => false
    end.

  (** every routed temporary value either repeats the committed content its key has at that
      moment (a late message: no effect), or the next operation on its key is the publish
      carrying the same content (the message ran ahead of its own commit only) *)
  Fixpoint tmp_in_order (st : key -> hstate) (ops : list sop) : Prop :=
    match ops with
    | [] => True
    | o :: rest =>
        match o with
        | OTmp k v _ =>
            (match st k with Some (c, _) => c = v | None => False end)
            \/ is_add_of v (next_on k rest) = true
        | _ => True
        end
        /\ tmp_in_order (fun k => hstep k (st k) o) rest
    end.
End Spec.
