(** C09: listings match the store (index = committed keys, no duplicates, removed keys never
    listed, page rows carry the stored value). *)
From RN Require Import Base.SMap Base.SMapProofs SM.ConfigKey SM.ConfigKeyProofs SM.ConfigIndex
     SM.ConfigIndexProofs SM.Config SM.ConfigSpec SM.ConfigProofs.
From Coq Require Import ZifyBool ZifyNat ZifyN.
Local Open Scope N_scope.

Section L.
  Variable H : str -> str.

  Lemma sstep_mem s o k : store_inv H s ->
    ti_mem (st_index (sstep H s o)) k = listed_step k (ti_mem (st_index s) k) o.
  Proof.
    intros I. unfold listed_step. destruct o as [c|k0 v now]; cbn [sstep op_key].
    - destruct c as [ks value ctype desc hid tid time user|ks|k0 d last]; cbn [apply_raft raft_key].
      + destruct (set_config H s _) as [s' b] eqn:Es. cbn [fst].
        remember (param_of_add ks value ctype desc hid tid time user) as p eqn:Ep.
        replace s' with (fst (set_config H s p)) by (rewrite Es; reflexivity).
        assert (Ek : sp_key p = key_of_string ks) by (subst p; reflexivity).
        rewrite set_mem, Ek by exact I. destruct (key_eqb (key_of_string ks) k); reflexivity.
      + cbn [fst]. rewrite del_mem by apply I. destruct (key_eqb (key_of_string ks) k); reflexivity.
      + cbn [fst]. assert (G : ti_mem (st_index (inner_set_config s k0 (value_of_do H d))) k
                             = key_eqb k0 k || ti_mem (st_index s) k) by apply inner_mem.
        destruct last; cbn [st_index]; rewrite G; destruct (key_eqb k0 k); reflexivity.
    - rewrite tmp_index. destruct (key_eqb k0 k); reflexivity.
  Qed.

  Lemma srun_from_mem s ops k : store_inv H s ->
    ti_mem (st_index (srun_from H s ops)) k = fold_left (listed_step k) ops (ti_mem (st_index s) k).
  Proof.
    revert s. induction ops as [|o ops IH]; intros s I; cbn [srun_from fold_left]; auto.
    fold (srun_from H (sstep H s o) ops). rewrite IH by (apply sstep_inv; exact I).
    rewrite sstep_mem by exact I. reflexivity.
  Qed.

  (** the index lists exactly the keys whose last committed operation is a publish / import *)
  Theorem index_eq_dom ops k :
    In k (ti_keys (st_index (srun H ops))) <-> listed_spec ops k = true.
  Proof.
    rewrite in_ti_keys by apply (inv_index _ _ (srun_inv H ops)).
    unfold srun, listed_spec. rewrite srun_from_mem by apply inv_new. reflexivity.
  Qed.

  Theorem index_no_dup ops : NoDup (ti_keys (st_index (srun H ops))).
  Proof. apply NoDup_ti_keys. apply (inv_index _ _ (srun_inv H ops)). Qed.

  (** every listed key is stored; without routed temporary values every stored key is listed *)
  Theorem listed_is_stored ops k :
    listed_spec ops k = true -> get_config (srun H ops) k <> None.
  Proof.
    intros L. apply index_eq_dom in L. rewrite in_ti_keys in L by apply (inv_index _ _ (srun_inv H ops)).
    pose proof (inv_listed _ _ (srun_inv H ops) k L) as G. unfold get_config.
    destruct (cache_get (srun H ops) k); [discriminate|contradiction].
  Qed.

  Definition no_tmp_value (s : store) : Prop := forall k v, cache_get s k = Some v -> cv_tmp v = false.

  Lemma sstep_no_tmp s o : store_inv H s -> is_tmp o = false -> no_tmp_value s -> no_tmp_value (sstep H s o).
  Proof.
    intros I T N k' v'. destruct o as [c|k0 v now]; [|discriminate]. cbn [sstep].
    destruct c as [ks value ctype desc hid tid time user|ks|k0 d last]; cbn [apply_raft].
    - destruct (set_config H s _) as [s' b] eqn:Es. cbn [fst].
      remember (param_of_add ks value ctype desc hid tid time user) as p eqn:Ep.
      replace s' with (fst (set_config H s p)) by (rewrite Es; reflexivity).
      rewrite set_get. destruct (key_eqb (sp_key p) k'); [|apply N].
      intros [= <-]. unfold set_value. destruct (cache_get s (sp_key p)) as [v|] eqn:G; [|reflexivity].
      cbv zeta. destruct (negb _ && _); [|reflexivity]. unfold with_meta. cbn. eapply N. exact G.
    - cbn [fst]. rewrite del_get by apply I. destruct (key_eqb _ k'); [discriminate|apply N].
    - cbn [fst]. assert (G : cache_get (inner_set_config s k0 (value_of_do H d)) k' =
                             if key_eqb k0 k' then Some (value_of_do H d) else cache_get s k') by apply inner_get.
      assert (G2 : cache_get (inner_set_config s k0 (value_of_do H d)) k' = Some v' -> cv_tmp v' = false).
      { rewrite G. destruct (key_eqb k0 k'); [intros [= <-]; reflexivity|apply N]. }
      destruct last; exact G2.
  Qed.

  Lemma srun_from_no_tmp s ops : store_inv H s -> no_tmp_value s ->
    (forall o, In o ops -> is_tmp o = false) -> no_tmp_value (srun_from H s ops).
  Proof.
    revert s. induction ops as [|o ops IH]; intros s I0 N0 T; cbn [srun_from fold_left]; auto.
    apply IH.
    - apply sstep_inv. exact I0.
    - apply sstep_no_tmp; auto. apply T. left. reflexivity.
    - intros o' In'. apply T. right. exact In'.
  Qed.

  Theorem stored_is_listed ops k :
    (forall o, In o ops -> is_tmp o = false) ->
    get_config (srun H ops) k <> None -> listed_spec ops k = true.
  Proof.
    intros T G. apply index_eq_dom. rewrite in_ti_keys by apply (inv_index _ _ (srun_inv H ops)).
    assert (NT : no_tmp_value (srun H ops)).
    { apply srun_from_no_tmp; auto; [apply inv_new|intros k0 v0; discriminate]. }
    destruct (ti_mem (st_index (srun H ops)) k) eqn:M; auto.
    unfold get_config in G. destruct (cache_get (srun H ops) k) as [v|] eqn:C; [|contradiction].
    destruct (inv_unlisted _ _ (srun_inv H ops) _ _ C M) as [A _]. rewrite (NT _ _ C) in A. discriminate.
  Qed.

  (** removed keys: not stored, not in the index, in no page of any single-tenant query *)
  Lemma listed_spec_app ops1 ops2 k :
    listed_spec (ops1 ++ ops2) k = fold_left (listed_step k) ops2 (listed_spec ops1 k).
  Proof. unfold listed_spec. apply fold_left_app. Qed.

  Lemma listed_frame ops k b : (forall o, In o ops -> op_key o <> k) -> fold_left (listed_step k) ops b = b.
  Proof.
    revert b. induction ops as [|o ops IH]; intros b N; cbn [fold_left]; auto.
    rewrite IH by (intros o' In'; apply N; right; exact In').
    unfold listed_step. assert (E : key_eqb (op_key o) k = false) by (apply key_eqb_neq, N; left; reflexivity).
    rewrite E. reflexivity.
  Qed.

  Lemma firstn_incl {A} n (l : list A) x : In x (firstn n l) -> In x l.
  Proof.
    revert l. induction n as [|n IH]; intros l; cbn [firstn]; [contradiction|].
    destruct l; [contradiction|]. intros [E|I]; [left; exact E|right; apply IH; exact I].
  Qed.

  Lemma skipn_incl {A} n (l : list A) x : In x (skipn n l) -> In x l.
  Proof.
    revert l. induction n as [|n IH]; intros l; cbn [skipn]; auto.
    destruct l; [contradiction|]. intros I. right. apply IH. exact I.
  Qed.

  Lemma slice_incl {A} off lim (l : list A) x : In x (slice off lim l) -> In x l.
  Proof. unfold slice. intros I. apply firstn_incl in I. apply skipn_incl in I. exact I. Qed.

  Theorem page_rows_are_listed ops p tenant k :
    q_tenant p = Some tenant -> q_perm p tenant = true ->
    In k (snd (ti_query_page (st_index (srun H ops)) p)) -> listed_spec ops k = true.
  Proof.
    intros E P I. rewrite (ti_query_page_slice _ _ tenant E P) in I. cbn [snd] in I.
    apply slice_incl in I. apply filter_In in I. destruct I as [I _].
    apply in_tenant_keys in I; [|apply (inv_index _ _ (srun_inv H ops))].
    apply index_eq_dom. apply in_ti_keys; [apply (inv_index _ _ (srun_inv H ops))|tauto].
  Qed.

  Theorem removed_never_listed pre ks post p tenant :
    let k := key_of_string ks in
    (forall o, In o post -> op_key o <> k) ->
    let s := srun H (pre ++ ORaft (ConfigRemove ks) :: post) in
    get_config s k = None /\ ~ In k (ti_keys (st_index s)) /\
    (q_tenant p = Some tenant -> q_perm p tenant = true -> ~ In k (snd (ti_query_page (st_index s) p))).
  Proof.
    intros k N s.
    assert (Lf : listed_spec (pre ++ ORaft (ConfigRemove ks) :: post) k = false).
    { rewrite listed_spec_app. cbn [fold_left]. rewrite listed_frame by exact N.
      unfold listed_step. cbn [op_key raft_key]. fold k. rewrite key_eqb_refl. reflexivity. }
    split; [|split].
    - unfold s, get_config. rewrite srun_app. cbn [srun_from fold_left].
      fold (srun_from H (sstep H (srun H pre) (ORaft (ConfigRemove ks))) post).
      rewrite srun_from_frame; auto; [|apply sstep_inv, srun_inv].
      cbn [sstep apply_raft fst]. fold k. rewrite del_get by apply (srun_inv H pre).
      rewrite key_eqb_refl. reflexivity.
    - intros I. apply index_eq_dom in I. congruence.
    - intros E P I. apply (page_rows_are_listed _ _ _ _ E P) in I. congruence.
  Qed.

  Theorem tenant_keys_are_listed ops tenant k :
    In k (tenant_keys (st_index (srun H ops)) tenant) <-> k_tenant k = tenant /\ listed_spec ops k = true.
  Proof.
    rewrite (in_tenant_keys _ _ _ (inv_index _ _ (srun_inv H ops))).
    rewrite <- index_eq_dom, (in_ti_keys _ _ (inv_index _ _ (srun_inv H ops))). reflexivity.
  Qed.

  (** md5 always is H of the stored content, in reads and in page rows *)
  Theorem md5_matches_content ops k c m t d lm :
    get_config (srun H ops) k = Some (c, m, t, d, lm) -> m = H c.
  Proof.
    unfold get_config. destruct (cache_get (srun H ops) k) as [v|] eqn:G; [|discriminate].
    intros [= <- <- _ _ _]. apply (inv_md5 _ _ (srun_inv H ops) _ _ G).
  Qed.

  Theorem page_rows_carry_stored_value ops p k desc c m :
    In (k, desc, Some (c, m)) (snd (get_config_info_page (srun H ops) p)) ->
    m = H c /\ exists t lm, get_config (srun H ops) k = Some (c, m, t, desc, lm).
  Proof.
    unfold get_config_info_page. destruct (ti_query_page (st_index (srun H ops)) p) as [size l].
    destruct (size =? 0); cbn [snd]; [contradiction|]. intros I. apply in_flat_map in I.
    destruct I as [k' [_ I]]. unfold info_of in I.
    destruct (cache_get (srun H ops) k') as [v|] eqn:G; [|contradiction].
    destruct I as [I|[]]. destruct (q_context p); [|discriminate]. inversion I; subst.
    split; [apply (inv_md5 _ _ (srun_inv H ops) _ _ G)|].
    exists (cv_type v), (cv_lastmod v). unfold get_config. rewrite G. reflexivity.
  Qed.
End L.
