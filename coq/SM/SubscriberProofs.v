(** C10: the two maps of Subscriber (key -> clients, client -> keys) mirror each other under
    add / remove / remove_client / remove_config_key, for all message sequences; a change of a
    key notifies exactly its subscribed clients. *)
From RN Require Import Base.SMap Base.SMapProofs SM.ConfigKey SM.ConfigKeyProofs SM.Config
     SM.ConfigSpec SM.ConfigProofs SM.Listener SM.ListenerLemmas SM.ListenerProofs.
From Coq Require Import ZifyBool ZifyNat ZifyN.
Local Open Scope N_scope.

(** * generic: a sorted map of sorted sets *)
Section MapOfSets.
  Context {K E : Type}.
  Variable cmpk : K -> K -> comparison.
  Variable cmpe : E -> E -> comparison.
  Hypothesis KO : cmp_ok cmpk.
  Hypothesis EO : cmp_ok cmpe.

  Definition keqb (a b : K) : bool := match cmpk a b with Eq => true | _ => false end.
  Definition eeqb (a b : E) : bool := match cmpe a b with Eq => true | _ => false end.

  Lemma keqb_eq a b : keqb a b = true <-> a = b.
  Proof. unfold keqb. rewrite <- (cmp_eq _ KO). destruct (cmpk a b); split; congruence. Qed.
  Lemma eeqb_eq a b : eeqb a b = true <-> a = b.
  Proof. unfold eeqb. rewrite <- (cmp_eq _ EO). destruct (cmpe a b); split; congruence. Qed.
  Lemma keqb_refl a : keqb a a = true.
  Proof. apply keqb_eq. reflexivity. Qed.
  Lemma eeqb_refl a : eeqb a a = true.
  Proof. apply eeqb_eq. reflexivity. Qed.
  Lemma kmatch {A} a b (x y : A) : match cmpk a b with Eq => x | _ => y end = if keqb a b then x else y.
  Proof. unfold keqb. destruct (cmpk a b); reflexivity. Qed.
  Lemma ematch {A} a b (x y : A) : match cmpe a b with Eq => x | _ => y end = if eeqb a b then x else y.
  Proof. unfold eeqb. destruct (cmpe a b); reflexivity. Qed.

  Definition mrel (m : list (K * sset E)) (k : K) (e : E) : bool :=
    match sm_get cmpk m k with Some set => ss_mem cmpe set e | None => false end.

  Definition mwf (m : list (K * sset E)) : Prop :=
    sm_wf cmpk m /\ Forall (fun kv => sm_wf cmpe (snd kv)) m.

  Definition kin (k : K) (ks : list K) : bool := existsb (fun x => keqb k x) ks.

  Lemma mwf_get m k set : mwf m -> sm_get cmpk m k = Some set -> sm_wf cmpe set.
  Proof. intros [W F] G. apply (Forall_get _ KO _ _ _ _ F G). Qed.

  Lemma mwf_put m k set : mwf m -> sm_wf cmpe set -> mwf (sm_put cmpk m k set).
  Proof. intros [W F] Ws. split; [apply (wf_put _ KO); exact W|apply Forall_put; auto]. Qed.

  Lemma mwf_del m k : mwf m -> mwf (sm_del cmpk m k).
  Proof. intros [W F]. split; [apply wf_del; exact W|apply del_Forall; exact F]. Qed.

  Lemma mrel_put m k set k' e' :
    mrel (sm_put cmpk m k set) k' e' = if keqb k' k then ss_mem cmpe set e' else mrel m k' e'.
  Proof. unfold mrel. rewrite (get_put _ KO), kmatch. destruct (keqb k' k); reflexivity. Qed.

  Lemma mrel_del m k k' e' : mwf m ->
    mrel (sm_del cmpk m k) k' e' = if keqb k' k then false else mrel m k' e'.
  Proof. intros [W _]. unfold mrel. rewrite (get_del _ KO) by exact W. rewrite kmatch. destruct (keqb k' k); reflexivity. Qed.

  Lemma ss_mem_add set e e' : ss_mem cmpe (ss_add cmpe set e) e' = eeqb e' e || ss_mem cmpe set e'.
  Proof. unfold ss_mem, ss_add. rewrite (mem_put _ EO), ematch. destruct (eeqb e' e); reflexivity. Qed.

  Lemma ss_mem_del set e e' : sm_wf cmpe set ->
    ss_mem cmpe (ss_del cmpe set e) e' = negb (eeqb e' e) && ss_mem cmpe set e'.
  Proof. intros W. unfold ss_mem, ss_del. rewrite (mem_del _ EO) by exact W. rewrite ematch. destruct (eeqb e' e); reflexivity. Qed.

  Lemma set_insert_in_rel m k e k' e' :
    mrel (set_insert_in cmpk cmpe m k e) k' e' = (keqb k' k && eeqb e' e) || mrel m k' e'.
  Proof.
    unfold set_insert_in. destruct (sm_get cmpk m k) as [set|] eqn:G; rewrite mrel_put.
    - destruct (keqb k' k) eqn:Ek; cbn [andb orb]; auto. apply keqb_eq in Ek. subst k'.
      unfold mrel. rewrite G. apply ss_mem_add.
    - destruct (keqb k' k) eqn:Ek; cbn [andb orb]; auto. apply keqb_eq in Ek. subst k'.
      unfold mrel. rewrite G, ss_mem_add. reflexivity.
  Qed.

  Lemma set_insert_in_wf m k e : mwf m -> mwf (set_insert_in cmpk cmpe m k e).
  Proof.
    intros W. unfold set_insert_in. destruct (sm_get cmpk m k) as [set|] eqn:G; apply mwf_put; auto.
    - apply (wf_put _ EO). eapply mwf_get; eauto.
    - cbn. auto.
  Qed.

  Lemma insert_all_rel m ks e k' e' :
    mrel (fold_left (fun m k => set_insert_in cmpk cmpe m k e) ks m) k' e' = (kin k' ks && eeqb e' e) || mrel m k' e'.
  Proof.
    revert m. induction ks as [|k ks IH]; intros m; cbn [fold_left kin existsb]; auto.
    rewrite IH, set_insert_in_rel. fold (kin k' ks).
    destruct (keqb k' k), (kin k' ks), (eeqb e' e), (mrel m k' e'); reflexivity.
  Qed.

  Lemma insert_all_wf m ks e : mwf m -> mwf (fold_left (fun m k => set_insert_in cmpk cmpe m k e) ks m).
  Proof.
    revert m. induction ks as [|k ks IH]; intros m W; cbn [fold_left]; auto. apply IH, set_insert_in_wf, W.
  Qed.

  Lemma ss_empty_mem (set : sset E) e' : ss_is_empty set = true -> ss_mem cmpe set e' = false.
  Proof. destruct set; [reflexivity|discriminate]. Qed.

  Lemma remove_from_sets_spec m ks e : mwf m ->
    let r := remove_from_sets cmpk cmpe m ks e in
    mwf (fst r) /\
    (forall k' e', mrel (fst r) k' e' = negb (kin k' ks && eeqb e' e) && mrel m k' e') /\
    (forall k, In k (snd r) -> forall e', mrel (fst r) k e' = false).
  Proof.
    revert m. induction ks as [|k0 ks IH]; intros m W; cbn [remove_from_sets].
    - cbn. split; [exact W|]. split; auto; try contradiction.
    - destruct (sm_get cmpk m k0) as [set|] eqn:G.
      + assert (Ws : sm_wf cmpe set) by (eapply mwf_get; eauto).
        assert (W1 : mwf (sm_put cmpk m k0 (ss_del cmpe set e))) by (apply mwf_put; auto; apply wf_del; exact Ws).
        specialize (IH _ W1). destruct (remove_from_sets cmpk cmpe (sm_put cmpk m k0 (ss_del cmpe set e)) ks e) as [m' rm] eqn:R.
        cbn zeta in IH. cbn [fst snd] in IH. destruct IH as [W' [Rl Rm]]. cbn zeta. cbn [fst snd].
        assert (Rl' : forall k' e', mrel m' k' e' = negb (kin k' (k0 :: ks) && eeqb e' e) && mrel m k' e').
        { intros k' e'. rewrite Rl, mrel_put. cbn [kin existsb]. fold (kin k' ks).
          destruct (keqb k' k0) eqn:Ek; cbn [orb].
          - apply keqb_eq in Ek. subst k'. unfold mrel. rewrite G, ss_mem_del by exact Ws.
            destruct (kin k0 ks), (eeqb e' e), (ss_mem cmpe set e'); reflexivity.
          - reflexivity. }
        split; [exact W'|]. split; [exact Rl'|].
        intros k Ik e'. destruct (ss_is_empty (ss_del cmpe set e)) eqn:Em.
        * destruct Ik as [<-|Ik]; [|apply Rm; exact Ik].
          rewrite Rl, mrel_put, keqb_refl, (ss_empty_mem _ _ Em). apply andb_false_r.
        * apply Rm. exact Ik.
      + specialize (IH m W). destruct (remove_from_sets cmpk cmpe m ks e) as [m' rm] eqn:R.
        cbn zeta in IH. cbn [fst snd] in IH. destruct IH as [W' [Rl Rm]]. cbn zeta.
        split; [exact W'|]. split; [|exact Rm].
        intros k' e'. rewrite Rl. cbn [kin existsb]. fold (kin k' ks).
        destruct (keqb k' k0) eqn:Ek; cbn [orb]; auto. apply keqb_eq in Ek. subst k'.
        unfold mrel. rewrite G. rewrite !andb_false_r. reflexivity.
  Qed.

  Lemma del_all_rel m rm : mwf m ->
    (forall k, In k rm -> forall e', mrel m k e' = false) ->
    mwf (del_all cmpk m rm) /\ forall k' e', mrel (del_all cmpk m rm) k' e' = mrel m k' e'.
  Proof.
    revert m. induction rm as [|k rm IH]; intros m W Z; cbn [del_all fold_left]; auto.
    fold (del_all cmpk (sm_del cmpk m k) rm).
    assert (Z1 : forall k' e', mrel (sm_del cmpk m k) k' e' = mrel m k' e').
    { intros k' e'. rewrite mrel_del by exact W. destruct (keqb k' k) eqn:Ek; auto.
      apply keqb_eq in Ek. subst k'. symmetry. apply Z. left. reflexivity. }
    destruct (IH (sm_del cmpk m k) (mwf_del _ _ W)) as [W' R].
    - intros k1 I1 e'. rewrite Z1. apply Z. right. exact I1.
    - split; auto. intros k' e'. rewrite R. apply Z1.
  Qed.
End MapOfSets.

(** folding deletions over a set *)
Lemma fold_del_mem {E} (cmpe : E -> E -> comparison) (EO : cmp_ok cmpe) set ks e' : sm_wf cmpe set ->
  sm_wf cmpe (fold_left (fun st k => ss_del cmpe st k) ks set) /\
  ss_mem cmpe (fold_left (fun st k => ss_del cmpe st k) ks set) e' =
  negb (existsb (fun x => eeqb cmpe e' x) ks) && ss_mem cmpe set e'.
Proof.
  revert set. induction ks as [|k ks IH]; intros set W; cbn [fold_left existsb]; auto.
  destruct (IH (ss_del cmpe set k) (wf_del _ _ _ W)) as [W' M]. split; auto.
  rewrite M, (ss_mem_del _ EO) by exact W.
  destruct (eeqb cmpe e' k), (existsb (fun x => eeqb cmpe e' x) ks), (ss_mem cmpe set e'); reflexivity.
Qed.

Lemma fold_add_mem {E} (cmpe : E -> E -> comparison) (EO : cmp_ok cmpe) set ks e' : sm_wf cmpe set ->
  sm_wf cmpe (fold_left (fun st k => ss_add cmpe st k) ks set) /\
  ss_mem cmpe (fold_left (fun st k => ss_add cmpe st k) ks set) e' =
  existsb (fun x => eeqb cmpe e' x) ks || ss_mem cmpe set e'.
Proof.
  revert set. induction ks as [|k ks IH]; intros set W; cbn [fold_left existsb]; auto.
  destruct (IH (ss_add cmpe set k) (wf_put _ EO _ _ _ W)) as [W' M]. split; auto.
  rewrite M, (ss_mem_add _ EO).
  destruct (eeqb cmpe e' k), (existsb (fun x => eeqb cmpe e' x) ks), (ss_mem cmpe set e'); reflexivity.
Qed.

Lemma elems_kin {E} (cmpe : E -> E -> comparison) (EO : cmp_ok cmpe) (set : sset E) e' : sm_wf cmpe set ->
  existsb (fun x => eeqb cmpe e' x) (ss_elems set) = ss_mem cmpe set e'.
Proof.
  intros W. destruct (ss_mem cmpe set e') eqn:M.
  - apply existsb_exists. exists e'. split; [|apply (eeqb_refl _ EO)].
    unfold ss_mem in M. apply (mem_get cmpe) in M. apply (in_keys_get _ EO _ _ W). exact M.
  - destruct (existsb (fun x => eeqb cmpe e' x) (ss_elems set)) eqn:X; auto.
    apply existsb_exists in X. destruct X as [x [I Ex]]. apply (eeqb_eq _ EO) in Ex. subst x.
    apply (in_keys_get _ EO _ _ W) in I. apply (mem_get cmpe) in I. unfold ss_mem in M. congruence.
Qed.

(** * the subscriber *)
Local Notation KOK := key_cmp_ok.
Local Notation SOK := str_cmp_ok.

Definition rel_l (s : sstate) (k : key) (c : str) : bool := mrel key_cmp str_cmp (s_listener s) k c.
Definition rel_c (s : sstate) (c : str) (k : key) : bool := mrel str_cmp key_cmp (s_clients s) c k.

Record sinv (s : sstate) : Prop := mkSinv {
  si_wl : mwf key_cmp str_cmp (s_listener s);
  si_wc : mwf str_cmp key_cmp (s_clients s);
  si_mirror : forall k c, rel_l s k c = rel_c s c k;
}.

Lemma sinv_new : sinv s_new.
Proof. constructor; cbn; auto; split; cbn; auto. Qed.

Lemma elems_kin_key (set : sset key) k : sm_wf key_cmp set -> kin key_cmp k (ss_elems set) = ss_mem key_cmp set k.
Proof. exact (elems_kin key_cmp key_cmp_ok set k). Qed.
Lemma elems_kin_str (set : sset str) c : sm_wf str_cmp set -> kin str_cmp c (ss_elems set) = ss_mem str_cmp set c.
Proof. exact (elems_kin str_cmp str_cmp_ok set c). Qed.

Ltac fold_eqb :=
  change (@keqb key key_cmp) with key_eqb; change (@keqb str str_cmp) with str_eqb;
  change (@eeqb key key_cmp) with key_eqb; change (@eeqb str str_cmp) with str_eqb.

Lemma s_add_inv s client keys : sinv s -> sinv (s_add s client keys).
Proof.
  intros [Wl Wc Mi]. unfold s_add.
  set (set0 := match sm_get str_cmp (s_clients s) client with Some set => set | None => [] end).
  assert (W0 : sm_wf key_cmp set0).
  { unfold set0. destruct (sm_get str_cmp (s_clients s) client) eqn:G; [eapply (mwf_get _ _ SOK); eauto|cbn; auto]. }
  destruct (fold_add_mem key_cmp KOK set0 keys (mkKey [] [] []) W0) as [W1 _].
  constructor; cbn [s_listener s_clients].
  - apply (insert_all_wf _ _ KOK SOK). exact Wl.
  - apply (mwf_put _ _ SOK); auto.
  - intros k c. unfold rel_l, rel_c. cbn [s_listener s_clients].
    rewrite (insert_all_rel _ _ KOK SOK), (mrel_put _ _ SOK). fold_eqb.
    destruct (str_eqb c client) eqn:Ec.
    + apply str_eqb_eq in Ec. subst c. destruct (fold_add_mem key_cmp KOK set0 keys k W0) as [_ M]. rewrite M.
      rewrite andb_true_r. f_equal. specialize (Mi k client). unfold rel_l, rel_c in Mi. rewrite Mi.
      unfold mrel, set0. destruct (sm_get str_cmp (s_clients s) client); reflexivity.
    + rewrite andb_false_r. cbn [orb]. apply Mi.
Qed.

Lemma s_remove_inv s client keys : sinv s -> sinv (s_remove s client keys).
Proof.
  intros [Wl Wc Mi]. unfold s_remove.
  pose proof (remove_from_sets_spec key_cmp str_cmp KOK SOK (s_listener s) keys client Wl) as Sp.
  destruct (remove_from_sets key_cmp str_cmp (s_listener s) keys client) as [l1 rm] eqn:R.
  cbn zeta in Sp. cbn [fst snd] in Sp. destruct Sp as [W1 [Rl Rm]].
  destruct (del_all_rel key_cmp str_cmp KOK l1 rm W1 Rm) as [W2 R2].
  assert (Lrel : forall k c, mrel key_cmp str_cmp (del_all key_cmp l1 rm) k c =
                             negb (kin key_cmp k keys && str_eqb c client) && rel_l s k c).
  { intros k c. rewrite R2, Rl. reflexivity. }
  destruct (sm_get str_cmp (s_clients s) client) as [set|] eqn:G.
  - assert (Ws : sm_wf key_cmp set) by (eapply (mwf_get _ _ SOK); eauto).
    destruct (fold_del_mem key_cmp KOK set keys (mkKey [] [] []) Ws) as [Wf _].
    assert (Crel : forall c k,
              mrel str_cmp key_cmp
                   (if ss_is_empty (fold_left (fun st k0 => ss_del key_cmp st k0) keys set)
                    then sm_del str_cmp (s_clients s) client
                    else sm_put str_cmp (s_clients s) client (fold_left (fun st k0 => ss_del key_cmp st k0) keys set)) c k
              = negb (kin key_cmp k keys && str_eqb c client) && rel_c s c k).
    { intros c k. destruct (fold_del_mem key_cmp KOK set keys k Ws) as [_ M].
      destruct (ss_is_empty _) eqn:Em.
      - rewrite (mrel_del _ _ SOK) by exact Wc. fold_eqb.
        destruct (str_eqb c client) eqn:Ec; [|rewrite andb_false_r; reflexivity].
        apply str_eqb_eq in Ec. subst c. rewrite andb_true_r.
        rewrite (ss_empty_mem key_cmp _ k Em) in M. unfold rel_c, mrel. rewrite G. exact M.
      - rewrite (mrel_put _ _ SOK). fold_eqb.
        destruct (str_eqb c client) eqn:Ec; [|rewrite andb_false_r; reflexivity].
        apply str_eqb_eq in Ec. subst c. rewrite andb_true_r. rewrite M. unfold rel_c, mrel. rewrite G. reflexivity. }
    constructor; cbn [s_listener s_clients].
    + exact W2.
    + destruct (ss_is_empty _); [apply mwf_del; exact Wc|apply (mwf_put _ _ SOK); auto].
    + intros k c. unfold rel_l at 1, rel_c at 1. cbn [s_listener s_clients]. rewrite Lrel, Crel, Mi. reflexivity.
  - constructor; cbn [s_listener s_clients]; auto.
    intros k c. unfold rel_l at 1. cbn [s_listener]. rewrite Lrel, Mi.
    destruct (str_eqb c client) eqn:Ec; [|rewrite andb_false_r; reflexivity].
    apply str_eqb_eq in Ec. subst c. unfold rel_c, mrel. cbn [s_clients]. rewrite G. apply andb_false_r.
Qed.

Lemma s_remove_client_inv s client : sinv s -> sinv (s_remove_client s client).
Proof.
  intros I. pose proof I as [Wl Wc Mi]. unfold s_remove_client.
  destruct (sm_get str_cmp (s_clients s) client) as [set|] eqn:G; [|exact I].
  assert (Ws : sm_wf key_cmp set) by (eapply (mwf_get _ _ SOK); eauto).
  pose proof (remove_from_sets_spec key_cmp str_cmp KOK SOK (s_listener s) (ss_elems set) client Wl) as Sp.
  destruct (remove_from_sets key_cmp str_cmp (s_listener s) (ss_elems set) client) as [l1 rm] eqn:R.
  cbn zeta in Sp. cbn [fst snd] in Sp. destruct Sp as [W1 [Rl Rm]].
  destruct (del_all_rel key_cmp str_cmp KOK l1 rm W1 Rm) as [W2 R2].
  constructor; cbn [s_listener s_clients].
  - exact W2.
  - apply mwf_del. exact Wc.
  - intros k c. unfold rel_l at 1, rel_c at 1. cbn [s_listener s_clients].
    rewrite R2, Rl, (mrel_del _ _ SOK) by exact Wc. fold_eqb.
    fold (rel_l s k c). rewrite Mi.
    destruct (str_eqb c client) eqn:Ec; [|rewrite andb_false_r; reflexivity].
    apply str_eqb_eq in Ec. subst c. rewrite andb_true_r. unfold rel_c, mrel. rewrite G.
    rewrite (elems_kin_key set k Ws). destruct (ss_mem key_cmp set k); reflexivity.
Qed.

Lemma s_remove_key_inv s k0 : sinv s -> sinv (s_remove_key s k0).
Proof.
  intros I. pose proof I as [Wl Wc Mi]. unfold s_remove_key.
  destruct (sm_get key_cmp (s_listener s) k0) as [set|] eqn:G; [|exact I].
  assert (Ws : sm_wf str_cmp set) by (eapply (mwf_get _ _ KOK); eauto).
  pose proof (remove_from_sets_spec str_cmp key_cmp SOK KOK (s_clients s) (ss_elems set) k0 Wc) as Sp.
  destruct (remove_from_sets str_cmp key_cmp (s_clients s) (ss_elems set) k0) as [c1 rm] eqn:R.
  cbn zeta in Sp. cbn [fst snd] in Sp. destruct Sp as [W1 [Rl Rm]].
  destruct (del_all_rel str_cmp key_cmp SOK c1 rm W1 Rm) as [W2 R2].
  constructor; cbn [s_listener s_clients].
  - apply mwf_del. exact Wl.
  - exact W2.
  - intros k c. unfold rel_l at 1, rel_c at 1. cbn [s_listener s_clients].
    rewrite R2, Rl, (mrel_del _ _ KOK) by exact Wl. fold_eqb.
    fold (rel_c s c k). rewrite <- Mi.
    destruct (key_eqb k k0) eqn:Ek; [|rewrite andb_false_r; reflexivity].
    apply key_eqb_eq in Ek. subst k. rewrite andb_true_r. unfold rel_l, mrel. rewrite G.
    rewrite (elems_kin_str set c Ws). destruct (ss_mem str_cmp set c); reflexivity.
Qed.

Section SubActor.
  Variable H : str -> str.

  Lemma step_sub a m :
    a_s (fst (step H a m)) =
    match m with
    | MRaft (ConfigRemove ks) => s_remove_key (a_s a) (key_of_string ks)
    | MSub client items => s_add (a_s a) client (map fst items)
    | MUnsub client keys => s_remove (a_s a) client keys
    | MUnsubClient client => s_remove_client (a_s a) client
    | _ => a_s a
    end.
  Proof.
    destruct m as [c|k v now|lid items time|now|client items|client keys|client]; cbn [step]; try reflexivity.
    - destruct (apply_raft H (a_store a) c) as [st nk] eqn:E.
      assert (Nk : nk = snd (apply_raft H (a_store a) c)) by (rewrite E; reflexivity).
      rewrite apply_raft_notified in Nk.
      destruct nk as [k|].
      + unfold notify_key. destruct (l_notify (a_l a) k) as [l' evs].
        destruct c as [ks ? ? ? ? ? ? ?|ks|? ? ?]; cbn [fst a_s]; try reflexivity. inversion Nk. reflexivity.
      + destruct c as [ks ? ? ? ? ? ? ?|ks|? ? ?]; cbn [fst a_s]; try reflexivity. discriminate.
    - destruct (changes (a_store a) items); [destruct (time <=? 0)%Z|]; reflexivity.
    - destruct (l_timeout (a_l a) now). reflexivity.
  Qed.

  Lemma step_sinv a m : sinv (a_s a) -> sinv (a_s (fst (step H a m))).
  Proof.
    intros I. rewrite step_sub. destruct m as [c|k v now|lid items time|now|client items|client keys|client]; auto.
    - destruct c; auto. apply s_remove_key_inv. exact I.
    - apply s_add_inv. exact I.
    - apply s_remove_inv. exact I.
    - apply s_remove_client_inv. exact I.
  Qed.

  (** for ALL message sequences the two subscriber maps mirror each other *)
  Theorem subscriber_maps_mirrored ms :
    let s := a_s (fst (run H actor_new ms)) in
    forall k c, rel_l s k c = rel_c s c k.
  Proof.
    cbn zeta. assert (G : forall a, sinv (a_s a) -> sinv (a_s (fst (run H a ms)))).
    { induction ms as [|m ms IH]; intros a I; cbn [run]; auto.
      destruct (step H a m) as [a1 evs] eqn:E. specialize (IH a1).
      destruct (run H a1 ms) as [a2 rest]. cbn [fst] in *. apply IH.
      replace a1 with (fst (step H a m)) by (rewrite E; reflexivity). apply step_sinv. exact I. }
    apply (si_mirror _ (G actor_new sinv_new)).
  Qed.

  (** a change of key [k] (publish that changes the md5, or remove) hands BiStreamManage a
      NotifyConfig for exactly the clients subscribed to [k] *)
  Theorem subscriber_notified_on_change a c k :
    sinv (a_s a) -> snd (apply_raft H (a_store a) c) = Some k ->
    forall client, rel_c (a_s a) client k = true ->
    exists clients, In (ENotify k clients) (snd (step H a (MRaft c))) /\
                    forall c', In c' clients <-> rel_c (a_s a) c' k = true.
  Proof.
    intros I Nk client Rc. rewrite step_raft_events, Nk.
    rewrite <- (si_mirror _ I) in Rc. unfold rel_l, mrel in Rc.
    destruct (sm_get key_cmp (s_listener (a_s a)) k) as [set|] eqn:G; [|discriminate].
    exists (ss_elems set). split.
    - apply in_or_app. right. unfold s_notify. rewrite G. left. reflexivity.
    - intros c'. rewrite <- (si_mirror _ I). unfold rel_l, mrel. rewrite G.
      assert (Ws : sm_wf str_cmp set) by (eapply (mwf_get _ _ KOK); [apply I|exact G]).
      rewrite <- (elems_kin_str set c' Ws). unfold kin. rewrite existsb_exists. split.
      + intros Ic. exists c'. split; auto. apply (keqb_refl _ SOK).
      + intros [x [Ix Ex]]. apply (keqb_eq _ SOK) in Ex. subst. exact Ix.
  Qed.

  (** which commands change a key: see [apply_raft_notified]; a publish notifies iff the value
      was temporary or its md5 differs, a remove always *)
  Theorem change_is_notified s c k :
    store_inv H s -> not_import (MRaft c) -> raft_key c = k ->
    md5_now (sstep H s (ORaft c)) k <> md5_now s k -> snd (apply_raft H s c) = Some k.
  Proof.
    intros I NI Ek Chg. destruct (snd (apply_raft H s c)) as [k'|] eqn:Nk.
    - rewrite apply_raft_notified in Nk. destruct c as [ks ? ? ? ? ? ? ?|ks|? ? ?]; cbn [raft_key] in Ek.
      + destruct (set_changed _ _ _); inversion Nk; congruence.
      + inversion Nk; congruence.
      + discriminate.
    - exfalso. apply Chg. destruct c as [ks value ctype desc hid tid time user|ks|k0 d last].
      + apply add_silent; auto.
      + rewrite apply_raft_notified in Nk. discriminate.
      + contradiction.
  Qed.
End SubActor.
