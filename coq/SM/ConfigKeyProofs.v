(** String order laws, key order laws and the build_key / From<&str> round trip. *)
From RN Require Import Base.SMap Base.SMapProofs SM.ConfigKey.
From Coq Require Import ZifyBool ZifyNat ZifyN.
Local Open Scope N_scope.

(** * order laws *)
Lemma N_cmp_ok : cmp_ok N.compare.
Proof.
  constructor.
  - intros a b. apply N.compare_eq_iff.
  - intros a b. apply N.compare_antisym.
  - intros a b c. rewrite !N.compare_lt_iff. lia.
Qed.

Lemma Z_cmp_ok : cmp_ok Z.compare.
Proof.
  constructor.
  - intros a b. apply Z.compare_eq_iff.
  - intros a b. apply Z.compare_antisym.
  - intros a b c. rewrite !Z.compare_lt_iff. lia.
Qed.

Lemma str_cmp_eq a b : str_cmp a b = Eq <-> a = b.
Proof.
  revert b. induction a as [|x a IH]; intros [|y b]; cbn [str_cmp]; try (split; congruence).
  destruct (N.compare x y) eqn:E.
  - apply N.compare_eq_iff in E. subst. rewrite IH. split; congruence.
  - split; [discriminate|]. intros [= -> ->]. rewrite N.compare_refl in E. discriminate.
  - split; [discriminate|]. intros [= -> ->]. rewrite N.compare_refl in E. discriminate.
Qed.

Lemma str_cmp_opp a b : str_cmp b a = CompOpp (str_cmp a b).
Proof.
  revert b. induction a as [|x a IH]; intros [|y b]; cbn [str_cmp CompOpp]; auto.
  rewrite (N.compare_antisym x y). destruct (N.compare x y); cbn [CompOpp]; auto.
Qed.

Lemma str_cmp_lt_trans a b c : str_cmp a b = Lt -> str_cmp b c = Lt -> str_cmp a c = Lt.
Proof.
  revert b c. induction a as [|x a IH]; intros [|y b] [|z c]; cbn [str_cmp]; try congruence.
  destruct (N.compare x y) eqn:E1; try discriminate.
  - apply N.compare_eq_iff in E1. subst y.
    destruct (N.compare x z) eqn:E2; try discriminate; auto. apply IH.
  - destruct (N.compare y z) eqn:E2; try discriminate.
    + apply N.compare_eq_iff in E2. subst z. rewrite E1. auto.
    + intros _ _. rewrite N.compare_lt_iff in *. 
      assert (x < z) by lia. rewrite <- N.compare_lt_iff in H. rewrite H. reflexivity.
Qed.

Lemma str_cmp_ok : cmp_ok str_cmp.
Proof. constructor; [apply str_cmp_eq|apply str_cmp_opp|apply str_cmp_lt_trans]. Qed.

Lemma str_eqb_eq a b : str_eqb a b = true <-> a = b.
Proof.
  unfold str_eqb. rewrite <- str_cmp_eq. destruct (str_cmp a b); split; congruence.
Qed.

Lemma str_eqb_refl a : str_eqb a a = true.
Proof. apply str_eqb_eq. reflexivity. Qed.

Lemma str_eqb_neq a b : str_eqb a b = false <-> a <> b.
Proof.
  rewrite <- str_eqb_eq. destruct (str_eqb a b); split; congruence.
Qed.

Lemma key_cmp_eq a b : key_cmp a b = Eq <-> a = b.
Proof.
  destruct a as [d1 g1 t1], b as [d2 g2 t2]. unfold key_cmp. cbn [k_data k_group k_tenant].
  destruct (str_cmp t1 t2) eqn:E1.
  - apply str_cmp_eq in E1. subst. destruct (str_cmp g1 g2) eqn:E2.
    + apply str_cmp_eq in E2. subst. rewrite str_cmp_eq. split; congruence.
    + split; [discriminate|]. intros [= -> ->].
      assert (str_cmp g2 g2 = Eq) by (apply str_cmp_eq; reflexivity). congruence.
    + split; [discriminate|]. intros [= -> ->].
      assert (str_cmp g2 g2 = Eq) by (apply str_cmp_eq; reflexivity). congruence.
  - split; [discriminate|]. intros [= -> -> ->].
    assert (str_cmp t2 t2 = Eq) by (apply str_cmp_eq; reflexivity). congruence.
  - split; [discriminate|]. intros [= -> -> ->].
    assert (str_cmp t2 t2 = Eq) by (apply str_cmp_eq; reflexivity). congruence.
Qed.

Lemma key_cmp_opp a b : key_cmp b a = CompOpp (key_cmp a b).
Proof.
  unfold key_cmp. rewrite (str_cmp_opp (k_tenant a) (k_tenant b)).
  destruct (str_cmp (k_tenant a) (k_tenant b)); cbn [CompOpp]; auto.
  rewrite (str_cmp_opp (k_group a) (k_group b)).
  destruct (str_cmp (k_group a) (k_group b)); cbn [CompOpp]; auto.
  apply str_cmp_opp.
Qed.

Lemma key_cmp_lt_trans a b c : key_cmp a b = Lt -> key_cmp b c = Lt -> key_cmp a c = Lt.
Proof.
  unfold key_cmp.
  destruct (str_cmp (k_tenant a) (k_tenant b)) eqn:T1; try discriminate.
  - apply str_cmp_eq in T1. rewrite T1.
    destruct (str_cmp (k_tenant b) (k_tenant c)) eqn:T2; try discriminate; auto.
    destruct (str_cmp (k_group a) (k_group b)) eqn:G1; try discriminate.
    + apply str_cmp_eq in G1. rewrite G1.
      destruct (str_cmp (k_group b) (k_group c)) eqn:G2; try discriminate; auto.
      apply str_cmp_lt_trans.
    + destruct (str_cmp (k_group b) (k_group c)) eqn:G2; try discriminate.
      * apply str_cmp_eq in G2. rewrite <- G2, G1. auto.
      * rewrite (str_cmp_lt_trans _ _ _ G1 G2). auto.
  - destruct (str_cmp (k_tenant b) (k_tenant c)) eqn:T2; try discriminate.
    + apply str_cmp_eq in T2. rewrite <- T2, T1. auto.
    + rewrite (str_cmp_lt_trans _ _ _ T1 T2). auto.
Qed.

Lemma key_cmp_ok : cmp_ok key_cmp.
Proof. constructor; [apply key_cmp_eq|apply key_cmp_opp|apply key_cmp_lt_trans]. Qed.

Lemma key_eqb_eq a b : key_eqb a b = true <-> a = b.
Proof.
  unfold key_eqb. rewrite <- key_cmp_eq. destruct (key_cmp a b); split; congruence.
Qed.

(** * build_key / key_of_string *)
Lemma split_sep_nosep a cur : wf_field a = true -> split_sep a cur = [rev cur ++ a].
Proof.
  revert cur. induction a as [|x a IH]; intros cur W; cbn [split_sep].
  - rewrite app_nil_r. reflexivity.
  - cbn [wf_field forallb] in W. apply andb_prop in W. destruct W as [W1 W2].
    destruct (x =? SEP) eqn:E; [discriminate|].
    rewrite IH by exact W2. cbn [rev]. rewrite <- app_assoc. reflexivity.
Qed.

Lemma split_sep_sep a s cur :
  wf_field a = true -> split_sep (a ++ SEP :: s) cur = (rev cur ++ a) :: split_sep s [].
Proof.
  revert cur. induction a as [|x a IH]; intros cur W; cbn [split_sep app].
  - rewrite N.eqb_refl, app_nil_r. reflexivity.
  - cbn [wf_field forallb] in W. apply andb_prop in W. destruct W as [W1 W2].
    destruct (x =? SEP) eqn:E; [discriminate|].
    rewrite IH by exact W2. cbn [rev]. rewrite <- app_assoc. reflexivity.
Qed.

Theorem key_roundtrip k : wf_key k = true -> key_of_string (build_key k) = k.
Proof.
  destruct k as [d g t]. unfold wf_key, key_of_string, build_key. cbn [k_data k_group k_tenant].
  intros W. apply andb_prop in W. destruct W as [W Wt]. apply andb_prop in W. destruct W as [Wd Wg].
  destruct t as [|c t]; cbn [str_is_empty].
  - cbn [app]. rewrite split_sep_sep by exact Wd. rewrite split_sep_nosep by exact Wg.
    reflexivity.
  - change (d ++ [SEP] ++ g ++ [SEP] ++ c :: t) with (d ++ SEP :: (g ++ SEP :: (c :: t))).
    rewrite split_sep_sep by exact Wd. rewrite split_sep_sep by exact Wg.
    rewrite split_sep_nosep by exact Wt. reflexivity.
Qed.

(** outside [wf_key] the round trip fails: a data_id containing the separator *)
Lemma key_roundtrip_refuted : exists k, key_of_string (build_key k) <> k.
Proof. exists (mkKey [97; 2; 98] [103] []). vm_compute. discriminate. Qed.

(** the API validator's necessary condition excludes the separator, so validated fields are wf *)
Lemma is_valid_nec_wf s : is_valid_nec s = true -> wf_field s = true.
Proof.
  unfold is_valid_nec, wf_field. intros V. apply andb_prop in V. destruct V as [_ V].
  rewrite forallb_forall in *. intros c I. specialize (V c I).
  unfold ascii_alnum, valid_char, SEP in *. lia.
Qed.

Example wf_key_example : wf_key (mkKey [97;46;98] [103] [116;49]) = true /\
  is_valid_nec [97;46;98] = true.
Proof. vm_compute. auto. Qed.
