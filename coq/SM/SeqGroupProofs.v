(** Proofs for C19, part 2: the per-node double-buffered cache SeqGroup (repaired apply_range).
    Fed with the ranges the replicated counter hands out (each at or above the end of the
    previous one), a node returns strictly increasing ids, each inside a range it was given; so
    nodes that were given disjoint ranges never return the same id. *)
From RN Require Import SM.ConfigKey SM.Sequence.
From Coq Require Import ZifyBool ZifyNat ZifyN.
Local Open Scope N_scope.

Definition lo (r : srange) : N := r_start r + r_cur r.
Definition hi (r : srange) : N := r_start r + r_len r.
Definition cur_r (g : sgroup) : srange := if g_use_a g then g_a g else g_b g.
Definition spare_r (g : sgroup) : srange := if g_use_a g then g_b g else g_a g.

Lemma has_next_lt r : range_has_next r = true <-> r_cur r < r_len r.
Proof. unfold range_has_next. lia. Qed.

(** invariant: every id still held lies in [floor, bound), the current range lies wholly below
    the spare one, and both are ranges that were applied *)
Record ginv (g : sgroup) (floor bound : N) (applied : list (N * N)) : Prop := mkGinv {
  gi_fb : floor <= bound;
  gi_cur : range_has_next (cur_r g) = true -> floor <= lo (cur_r g) /\ hi (cur_r g) <= bound;
  gi_spare : range_has_next (spare_r g) = true -> floor <= lo (spare_r g) /\ hi (spare_r g) <= bound;
  gi_order : range_has_next (cur_r g) = true -> range_has_next (spare_r g) = true -> hi (cur_r g) <= lo (spare_r g);
  gi_app_cur : range_has_next (cur_r g) = true -> In (r_start (cur_r g), r_len (cur_r g)) applied;
  gi_app_spare : range_has_next (spare_r g) = true -> In (r_start (spare_r g), r_len (spare_r g)) applied;
}.

Lemma ginv_new step : ginv (group_new step) 0 0 [].
Proof. constructor; cbn; try discriminate; lia. Qed.

Lemma switch_cur g : cur_r (group_switch g) = spare_r g.
Proof. unfold cur_r, spare_r, group_switch. cbn. destruct (g_use_a g); reflexivity. Qed.
Lemma switch_spare g : spare_r (group_switch g) = cur_r g.
Proof. unfold cur_r, spare_r, group_switch. cbn. destruct (g_use_a g); reflexivity. Qed.

(** do_next_id takes the first id of the current range *)
Lemma do_next_spec g :
  (range_has_next (cur_r g) = true ->
     fst (group_do_next g) = Some (lo (cur_r g)) /\
     cur_r (snd (group_do_next g)) = mkRange (r_start (cur_r g)) (r_len (cur_r g)) (r_cur (cur_r g) + 1) /\
     spare_r (snd (group_do_next g)) = spare_r g) /\
  (range_has_next (cur_r g) = false -> group_do_next g = (None, g)).
Proof.
  destruct g as [a b ua st ad]. destruct ua; unfold group_do_next, cur_r, spare_r; cbn [g_use_a g_a g_b].
  - unfold range_next, range_has_next, lo. destruct (r_len a <=? r_cur a) eqn:E.
    + split; intros Hn; [exfalso; lia|reflexivity].
    + split; intros Hn; [|exfalso; lia]. cbn [fst snd g_use_a g_a g_b]. auto.
  - unfold range_next, range_has_next, lo. destruct (r_len b <=? r_cur b) eqn:E.
    + split; intros Hn; [exfalso; lia|reflexivity].
    + split; intros Hn; [|exfalso; lia]. cbn [fst snd g_use_a g_a g_b]. auto.
Qed.

Lemma ginv_switch_when_cur_empty g f bd ap :
  ginv g f bd ap -> range_has_next (cur_r g) = false -> ginv (group_switch g) f bd ap.
Proof.
  intros [Fb C S O Ac As] E. constructor; rewrite ?switch_cur, ?switch_spare; auto; try congruence.
Qed.

Theorem next_id_spec g f bd ap : ginv g f bd ap ->
  match fst (group_next_id g) with
  | Some id => f <= id /\ id < bd /\ (exists s l, In (s, l) ap /\ s <= id < s + l) /\
               ginv (snd (group_next_id g)) (id + 1) bd ap
  | None => ginv (snd (group_next_id g)) f bd ap
  end.
Proof.
  intros I. pose proof I as [Fb C S O Ac As]. unfold group_next_id.
  destruct (do_next_spec g) as [D1 D2].
  destruct (Bool.bool_dec (range_has_next (cur_r g)) true) as [Hc|Hc].
  - destruct (D1 Hc) as [E1 [E2 E3]]. destruct (group_do_next g) as [v g1]. cbn [fst snd] in *.
    subst v. cbn [fst snd]. destruct (C Hc) as [C1 C2].
    pose proof (proj1 (has_next_lt _) Hc) as Lt. unfold lo, hi in *.
    split; [lia|]. split; [lia|]. split.
    + exists (r_start (cur_r g)), (r_len (cur_r g)). split; [apply Ac; exact Hc|lia].
    + constructor; rewrite ?E2, ?E3; unfold lo, hi; cbn [r_start r_len r_cur]; try lia.
      all: try (intros _; lia).
      all: try (intros Hs; specialize (S Hs); specialize (O Hc Hs); unfold lo, hi in *; lia).
      all: try (intros _ Hs; specialize (O Hc Hs); unfold lo, hi in *; lia).
      all: try (intros _; apply Ac; exact Hc).
      all: try exact As.
  - apply Bool.not_true_is_false in Hc. rewrite (D2 Hc). cbn [fst snd].
    pose proof (ginv_switch_when_cur_empty g f bd ap I Hc) as I2.
    destruct (do_next_spec (group_switch g)) as [D1' D2'].
    destruct (Bool.bool_dec (range_has_next (cur_r (group_switch g))) true) as [Hc2|Hc2].
    + destruct (D1' Hc2) as [E1 [E2 E3]]. destruct (group_do_next (group_switch g)) as [v g1]. cbn [fst snd] in *.
      subst v. pose proof I2 as [Fb2 C2 S2 O2 Ac2 As2]. destruct (C2 Hc2) as [Ca Cb].
      pose proof (proj1 (has_next_lt _) Hc2) as Lt. unfold lo, hi in *.
      assert (Emp : forall r, r = cur_r g -> range_has_next r = true -> False) by (intros r -> Hr; congruence).
      split; [lia|]. split; [lia|]. split.
      * exists (r_start (cur_r (group_switch g))), (r_len (cur_r (group_switch g))). split; [apply Ac2; exact Hc2|lia].
      * constructor; rewrite ?E2, ?E3; unfold lo, hi; cbn [r_start r_len r_cur]; try lia.
        all: try (intros _; lia).
        all: try (rewrite switch_spare; intros Hs; exfalso; apply (Emp _ eq_refl Hs)).
        all: try (rewrite switch_spare; intros _ Hs; exfalso; apply (Emp _ eq_refl Hs)).
        all: try (intros _; apply Ac2; exact Hc2).
    + apply Bool.not_true_is_false in Hc2. rewrite (D2' Hc2). cbn [fst snd]. exact I2.
Qed.

(** the repaired apply_range: after the optional switch, the new range goes into the spare slot
    when the current range still has ids, else into the current slot *)
Lemma apply_old_spec g s l :
  (range_has_next (cur_r g) = true ->
     cur_r (group_apply_range_old g s l) = cur_r g /\ spare_r (group_apply_range_old g s l) = range_new s l) /\
  (range_has_next (cur_r g) = false ->
     cur_r (group_apply_range_old g s l) = range_new s l /\ spare_r (group_apply_range_old g s l) = spare_r g).
Proof.
  unfold group_apply_range_old, cur_r, spare_r. destruct g as [a b ua st ad]. cbn [g_use_a g_a g_b].
  destruct ua; cbn [andb orb negb g_use_a g_a g_b].
  - rewrite orb_false_r. destruct (range_has_next a); cbn [negb]; split; intros E; try discriminate; auto.
  - destruct (range_has_next b); split; intros E; try discriminate; auto.
Qed.

Lemma apply_switch_cond g :
  ((g_use_a g && negb (range_has_next (g_a g)) && range_has_next (g_b g))
   || (negb (g_use_a g) && negb (range_has_next (g_b g)) && range_has_next (g_a g)))
  = negb (range_has_next (cur_r g)) && range_has_next (spare_r g).
Proof.
  unfold cur_r, spare_r. destruct (g_use_a g); cbn [andb orb negb]; [rewrite orb_false_r|]; reflexivity.
Qed.

Theorem apply_range_spec g f bd ap s l : ginv g f bd ap -> bd <= s ->
  ginv (group_apply_range g s l) f (s + l) ((s, l) :: ap).
Proof.
  intros I Le. unfold group_apply_range. rewrite apply_switch_cond.
  set (g1 := if negb (range_has_next (cur_r g)) && range_has_next (spare_r g) then group_switch g else g).
  assert (I1 : ginv g1 f bd ap /\ (range_has_next (cur_r g1) = false -> range_has_next (spare_r g1) = false)).
  { unfold g1. destruct (range_has_next (cur_r g)) eqn:Hc; cbn [negb andb].
    - split; [exact I|]. congruence.
    - destruct (range_has_next (spare_r g)) eqn:Hs.
      + split; [apply ginv_switch_when_cur_empty; auto|]. rewrite switch_cur. congruence.
      + split; [exact I|]. auto. }
  clearbody g1. clear I.
  destruct I1 as [[Fb C S O Ac As] Emp]. destruct (apply_old_spec g1 s l) as [A1 A2].
  destruct (Bool.bool_dec (range_has_next (cur_r g1)) true) as [Hc|Hc].
  - destruct (A1 Hc) as [E1 E2]. destruct (C Hc) as [C1 C2].
    unfold lo, hi in *.
    constructor; rewrite ?E1, ?E2; unfold lo, hi, range_new; cbn [r_start r_len r_cur]; try lia.
    all: try (intros _; lia).
    all: try (intros _ _; lia).
    all: try (intros _; right; apply Ac; exact Hc).
    all: try (intros _; left; reflexivity).
  - apply Bool.not_true_is_false in Hc. destruct (A2 Hc) as [E1 E2]. specialize (Emp Hc).
    constructor; rewrite ?E1, ?E2; unfold lo, hi, range_new; cbn [r_start r_len r_cur]; try lia.
    all: try (intros _; lia).
    all: try (intros Hs; congruence).
    all: try (intros _ Hs; congruence).
    all: try (intros _; left; reflexivity).
Qed.

Lemma mark_clear_inv g f bd ap : ginv g f bd ap -> ginv (group_mark g) f bd ap /\ ginv (group_clear g) f bd ap.
Proof. intros [Fb C S O Ac As]. split; constructor; auto. Qed.

(** * scripts *)
Inductive gsop := SNext | SApply (s l : N) | SMark | SClear.

Fixpoint grun (g : sgroup) (ops : list gsop) : list N :=
  match ops with
  | [] => []
  | SNext :: r => match group_next_id g with
                  | (Some v, g') => v :: grun g' r
                  | (None, g') => grun g' r
                  end
  | SApply s l :: r => grun (group_apply_range g s l) r
  | SMark :: r => grun (group_mark g) r
  | SClear :: r => grun (group_clear g) r
  end.

(** the ranges are handed out by a counter: each starts at or after the end of the previous one *)
Fixpoint disciplined (bound : N) (ops : list gsop) : Prop :=
  match ops with
  | [] => True
  | SApply s l :: r => bound <= s /\ disciplined (s + l) r
  | _ :: r => disciplined bound r
  end.

Fixpoint applied_of (ops : list gsop) : list (N * N) :=
  match ops with
  | [] => []
  | SApply s l :: r => (s, l) :: applied_of r
  | _ :: r => applied_of r
  end.

Inductive increasing_from : N -> list N -> Prop :=
| inc_nil : forall f, increasing_from f []
| inc_cons : forall f x l, f <= x -> increasing_from (x + 1) l -> increasing_from f (x :: l).

Lemma grun_spec ops : forall g f bd ap, ginv g f bd ap -> disciplined bd ops ->
  increasing_from f (grun g ops) /\
  forall id, In id (grun g ops) -> exists s l, In (s, l) (ap ++ applied_of ops) /\ s <= id < s + l.
Proof.
  induction ops as [|o ops IH]; intros g f bd ap I D; cbn [grun].
  - split; [constructor|contradiction].
  - destruct o as [|s l| |]; cbn [disciplined applied_of] in *.
    + pose proof (next_id_spec g f bd ap I) as Sp. destruct (group_next_id g) as [[v|] g'] eqn:E; cbn [fst snd] in Sp.
      * destruct Sp as [S1 [S2 [S3 S4]]]. destruct (IH g' (v + 1) bd ap S4 D) as [Inc Rg]. split.
        -- constructor; auto.
        -- intros id [<-|Iid]; [|apply Rg; exact Iid]. destruct S3 as [s [l [Il Bl]]]. exists s, l. split; auto.
           apply in_or_app. left. exact Il.
      * apply (IH g' f bd ap Sp D).
    + destruct D as [Le D]. pose proof (apply_range_spec g f bd ap s l I Le) as I2.
      destruct (IH _ f (s + l) ((s, l) :: ap) I2 D) as [Inc Rg]. split; auto.
      intros id Iid. destruct (Rg id Iid) as [s' [l' [Il Bl]]]. exists s', l'. split; auto.
      cbn [app] in Il. destruct Il as [E|Il].
      * apply in_or_app. right. left. exact E.
      * apply in_app_or in Il. apply in_or_app. destruct Il; [left|right; right]; auto.
    + apply (IH _ f bd ap (proj1 (mark_clear_inv g f bd ap I)) D).
    + apply (IH _ f bd ap (proj2 (mark_clear_inv g f bd ap I)) D).
Qed.

Lemma increasing_all_ge f l : increasing_from f l -> forall x, In x l -> f <= x.
Proof.
  induction 1 as [f|f z l Le Inc IH]; intros x I; [contradiction|].
  destruct I as [<-|I]; [exact Le|]. specialize (IH x I). lia.
Qed.

Lemma increasing_sorted f l : increasing_from f l ->
  forall i j x y, (i < j)%nat -> nth_error l i = Some x -> nth_error l j = Some y -> x < y.
Proof.
  induction 1 as [f|f z l Le Inc IH]; intros i j x y Lt Ni Nj.
  - destruct i; discriminate.
  - destruct j as [|j]; [lia|]. destruct i as [|i]; cbn [nth_error] in *.
    + inversion Ni; subst. apply nth_error_In in Nj.
      pose proof (increasing_all_ge _ _ Inc y Nj). lia.
    + apply (IH i j x y); auto. lia.
Qed.

(** THEOREM: the ids one node returns strictly increase (never twice, never backwards), and
    each lies in a range the node was given *)
Theorem seqgroup_ids_increasing step ops : disciplined 0 ops ->
  (forall i j x y, (i < j)%nat -> nth_error (grun (group_new step) ops) i = Some x ->
                   nth_error (grun (group_new step) ops) j = Some y -> x < y) /\
  (forall id, In id (grun (group_new step) ops) -> exists s l, In (s, l) (applied_of ops) /\ s <= id < s + l).
Proof.
  intros D. destruct (grun_spec ops (group_new step) 0 0 [] (ginv_new step) D) as [Inc Rg]. split.
  - apply (increasing_sorted 0). exact Inc.
  - exact Rg.
Qed.

(** THEOREM: two nodes whose ranges are pairwise disjoint never return the same id *)
Theorem seqgroup_no_overlap step1 step2 ops1 ops2 :
  disciplined 0 ops1 -> disciplined 0 ops2 ->
  (forall s1 l1 s2 l2, In (s1, l1) (applied_of ops1) -> In (s2, l2) (applied_of ops2) ->
                       s1 + l1 <= s2 \/ s2 + l2 <= s1) ->
  forall id, In id (grun (group_new step1) ops1) -> In id (grun (group_new step2) ops2) -> False.
Proof.
  intros D1 D2 Dis id I1 I2.
  destruct (proj2 (seqgroup_ids_increasing step1 ops1 D1) id I1) as [s1 [l1 [A1 B1]]].
  destruct (proj2 (seqgroup_ids_increasing step2 ops2 D2) id I2) as [s2 [l2 [A2 B2]]].
  destruct (Dis _ _ _ _ A1 A2); lia.
Qed.

Example seqgroup_example :
  let ops := [SApply 1 3; SNext; SApply 4 3; SNext; SNext; SNext; SApply 7 3; SNext; SNext;
              SApply 10 3; SNext; SNext; SNext; SNext; SNext; SNext] in
  disciplined 0 ops /\ grun (group_new 3) ops = [1; 2; 3; 4; 5; 6; 7; 8; 9; 10; 11; 12].
Proof. split; [cbn; lia|vm_compute; reflexivity]. Qed.
