(** Concrete model of NamespaceActor (src/namespace/mod.rs, src/namespace/model.rs) as a snapshot
    component: the raft requests (AddOnly / Update / Set / Delete / InitFromOldValue),
    build_snapshot (one T_NAMESPACE record per namespace that has the USER flag and a non-empty
    id, plus the `__already_sync` marker record once InitFromOldValue was applied) and
    load_snapshot_record (NamespaceDO::from_bytes -> Namespace -> set_namespace).
    Literal transcription, including the marker being loaded as an ordinary namespace.  The weak
    flags (CONFIG / NAMING, set by ConfigActor / NamingActor notifications: [ns_set_weak],
    [ns_remove] with that flag) are not part of the raft requests or of the snapshot (recorded finding
    C01:weak-namespace-flags-not-restored); they are modelled for the script correspondence
    (SM/NsScript.v, suite `ns`).  Model only: no proofs. *)
From RN Require Export SM.SnapCodec.
Local Open Scope N_scope.

Definition NS_PUBLIC : str := bytes_of_lit "public".
Definition NS_MARK : str := bytes_of_lit "__already_sync".
Definition T_NAMESPACE_B : str := bytes_of_lit "T_NAMESPACE".
Definition TY_SYSTEM : str := bytes_of_lit "0".
Definition TY_USER : str := bytes_of_lit "2".
Global Arguments NS_PUBLIC : simpl never.
Global Arguments NS_MARK : simpl never.
Global Arguments T_NAMESPACE_B : simpl never.
Definition F_SYSTEM : N := 1.
Definition F_USER : N := 2.

Record nsval := mkNs { ns_name : str; ns_flag : N }.
Record nsstate := mkNsS { ns_data : list (str * nsval); ns_order : list str; ns_already : bool }.
Record nsparam := mkNsP { np_id : str; np_name : option str; np_type : option str }.

(** set_namespace(param, only_add, only_update) — note that [param.type] is never read *)
Definition ns_set (s : nsstate) (p : nsparam) (only_add only_update : bool) : nsstate :=
  if str_eqb (np_id p) NS_PUBLIC then s
  else
    let already := ns_already s || str_eqb (np_id p) NS_MARK in
    let pflag := if str_is_empty (np_id p) then F_SYSTEM else F_USER in
    match sm_get str_cmp (ns_data s) (np_id p) with
    | Some v =>
        if only_add && (N.lor (ns_flag v) F_USER =? ns_flag v) then mkNsS (ns_data s) (ns_order s) already
        else mkNsS (sm_put str_cmp (ns_data s) (np_id p)
                           (mkNs (match np_name p with Some n => n | None => ns_name v end)
                                 (N.lor (ns_flag v) pflag)))
                   (ns_order s) already
    | None =>
        if only_update then mkNsS (ns_data s) (ns_order s) already
        else mkNsS (sm_put str_cmp (ns_data s) (np_id p)
                           (mkNs (match np_name p with Some n => n | None => [] end) pflag))
                   (ns_order s ++ [np_id p]) already
    end.

Fixpoint remove_first (id : str) (l : list str) : list str :=
  match l with [] => [] | x :: l' => if str_eqb id x then l' else x :: remove_first id l' end.

(** remove_namespace(id, from_flag) *)
Definition ns_remove (s : nsstate) (id : str) (from_flag : N) : nsstate :=
  if str_is_empty id then s
  else match sm_get str_cmp (ns_data s) id with
       | Some v =>
           let nf := N.ldiff (ns_flag v) from_flag in
           if nf =? ns_flag v then s
           else if 0 <? nf then
             (* what remains of a deleted USER namespace is a weak namespace, named by its id as
                set_weak_namespace creates it (repair: snapshots do not keep weak namespaces) *)
             mkNsS (sm_put str_cmp (ns_data s) id (mkNs (if from_flag =? F_USER then id else ns_name v) nf)) (ns_order s) (ns_already s)
           else mkNsS (sm_del str_cmp (ns_data s) id) (remove_first id (ns_order s)) (ns_already s)
       | None => s
       end.

(** set_weak_namespace(id, from_type): ConfigActor / NamingActor tell the actor that a namespace is in
    use (flag CONFIG = 4 / NAMING = 8); an unknown id is created with its id as name.
    remove_weak_namespace(id, from_type) = remove_namespace(id, flag) *)
Definition ns_set_weak (s : nsstate) (id : str) (wflag : N) : nsstate :=
  if str_is_empty id || str_eqb id NS_PUBLIC then s
  else match sm_get str_cmp (ns_data s) id with
       | Some v =>
           let nf := N.lor (ns_flag v) wflag in
           if nf =? ns_flag v then s
           else mkNsS (sm_put str_cmp (ns_data s) id (mkNs (ns_name v) nf)) (ns_order s) (ns_already s)
       | None => mkNsS (sm_put str_cmp (ns_data s) id (mkNs id wflag)) (ns_order s ++ [id]) (ns_already s)
       end.

Inductive nsreq :=
| NsAddOnly (p : nsparam) | NsUpdate (p : nsparam) | NsSet (p : nsparam) | NsDelete (id : str)
| NsInit (items : list nsparam).    (* InitFromOldValue, the JSON already parsed *)

(** init_from_old_value: items without id are skipped; set_namespace(.., only_add = true, false) *)
Definition ns_init_old (s : nsstate) (items : list nsparam) : nsstate :=
  fold_left (fun s p => if str_is_empty (np_id p) then s else ns_set s p true false) items s.

Definition ns_apply (s : nsstate) (r : nsreq) : nsstate :=
  match r with
  | NsAddOnly p => ns_set s p true true
  | NsUpdate p => ns_set s p false true
  | NsSet p => ns_set s p false false
  | NsDelete id => ns_remove s id F_USER
  | NsInit items => let s' := ns_init_old s items in mkNsS (ns_data s') (ns_order s') true
  end.

(** NamespaceActor::init: the default namespace "" = public, SYSTEM *)
Definition ns_init : nsstate :=
  ns_set (mkNsS [] [] false) (mkNsP [] (Some NS_PUBLIC) (Some TY_SYSTEM)) false false.

(** NamespaceDO (prost): namespace_id = 1, namespace_name = 2, type = 3; From<Namespace> writes
    all three as Some; get_db_type(flag) = "0" iff flag = SYSTEM *)
Definition db_type (flag : N) : str := if flag =? F_SYSTEM then TY_SYSTEM else TY_USER.

Definition enc_ns (id name ty : str) : list N :=
  enc_fields [(1, WLen id); (2, WLen name); (3, WLen ty)].

Record ns_do := mkNDO { nd_id : option str; nd_name : option str; nd_type : option str }.

Definition ns_do_step (acc : res ns_do) (f : wfield) : res ns_do :=
  res_bind acc (fun d =>
  match f with
  | (1, WLen b) => Ok (mkNDO (Some b) (nd_name d) (nd_type d))
  | (2, WLen b) => Ok (mkNDO (nd_id d) (Some b) (nd_type d))
  | (3, WLen b) => Ok (mkNDO (nd_id d) (nd_name d) (Some b))
  | (1, _) | (2, _) | (3, _) => Err
  | _ => Ok d
  end).

Definition dec_ns (bytes : list N) : res ns_do :=
  res_bind (parse bytes) (fun fs => fold_left ns_do_step fs (Ok (mkNDO None None None))).

Definition ns_snapshot (s : nsstate) : list record :=
  map (fun kv => mkRec T_NAMESPACE_B (fst kv) (enc_ns (fst kv) (ns_name (snd kv)) (db_type (ns_flag (snd kv)))))
      (filter (fun kv => negb (str_is_empty (fst kv)) && negb (N.land (ns_flag (snd kv)) F_USER =? 0)) (ns_data s))
  ++ (if ns_already s then [mkRec T_NAMESPACE_B NS_MARK (enc_ns NS_MARK [] (db_type F_USER))] else []).

(** load_snapshot_record: From<NamespaceDO> (flag from the type) then
    set_namespace({id, Some(name), Some(get_db_type(flag))}, false, false) *)
Definition ns_load (s : nsstate) (r : record) : nsstate :=
  match dec_ns (rval r) with
  | Ok d =>
      let id := match nd_id d with Some b => b | None => [] end in
      let name := match nd_name d with Some b => b | None => [] end in
      let flag := match nd_type d with Some t => if str_eqb t TY_SYSTEM then F_SYSTEM else F_USER | None => F_USER end in
      ns_set s (mkNsP id (Some name) (Some (db_type flag))) false false
  | _ => s
  end.

(** InstallSnapshot on a RUNNING node: the records of the leader's snapshot are loaded over the live state *)
Definition ns_install (follower leader : nsstate) : nsstate := fold_left ns_load (ns_snapshot leader) follower.

(** NamespaceQueryReq::List as a set: id -> (name, flag) (the order of the list is not
    preserved by a restart: build_snapshot iterates a HashMap) *)
Definition ns_reload (s : nsstate) : nsstate := fold_left ns_load (ns_snapshot s) ns_init.
