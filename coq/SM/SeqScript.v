(** Executable glue for the correspondence check of C19 (suite `seq`): scripts over the
    SimpleSequence, SeqGroup, SequenceDbManager and SequenceManager models.  No proofs depend on
    this file. *)
From RN Require Import SM.Sequence.
Local Open Scope N_scope.

(** SimpleSequence *)
Inductive qop := QNextState | QNextId | QSetLast (n : N) | QSetValid (n : N) | QSection (n : N) | QEnd | QState.
Inductive qout := QoNS (id : N) (mark : option N) | QoId (id : N) | QoOk | QoSec (s e : N) | QoEnd (e : N)
                | QoState (last cache batch : N) | QoPanic.

Fixpoint run_simple (s : sseq) (ops : list qop) : list qout :=
  match ops with
  | [] => []
  | QNextState :: r => match next_state s with
                       | Some (s', (id, mk)) => QoNS id mk :: run_simple s' r
                       | None => [QoPanic]
                       end
  | QNextId :: r => match next_id_simple s with
                    | Some (s', id) => QoId id :: run_simple s' r
                    | None => [QoPanic]
                    end
  | QSetLast n :: r => QoOk :: run_simple (set_last_id s n) r
  | QSetValid n :: r => QoOk :: run_simple (set_valid_last_id s n) r
  | QSection n :: r => let '(s', (a, b)) := next_section s n in QoSec a b :: run_simple s' r
  | QEnd :: r => QoEnd (get_end_id s) :: run_simple s r
  | QState :: r => QoState (sq_last s) (sq_cache s) (sq_batch s) :: run_simple s r
  end.

(** SeqGroup *)
Inductive gop := GNext | GApply (start len : N) | GNeed | GMark | GClear | GDump.
Inductive gout := GoId (v : option N) | GoOk | GoNeed (b : bool) | GoDump (g : sgroup).

Fixpoint run_group (g : sgroup) (ops : list gop) : list gout :=
  match ops with
  | [] => []
  | GNext :: r => let '(v, g') := group_next_id g in GoId v :: run_group g' r
  | GApply s l :: r => GoOk :: run_group (group_apply_range g s l) r
  | GNeed :: r => GoNeed (group_need_apply g) :: run_group g r
  | GMark :: r => GoOk :: run_group (group_mark g) r
  | GClear :: r => GoOk :: run_group (group_clear g) r
  | GDump :: r => GoDump g :: run_group g r
  end.

(** SequenceDbManager with snapshots *)
Inductive dop := DReq (r : seqreq) | DDump | DSnapshot (sid : N) | DRestart | DLoad (sid : N).
Inductive dout := DoRes (r : seqres) | DoDump (m : seqdb) | DoOk.

Fixpoint run_db (m : seqdb) (snaps : list (N * list (str * N))) (ops : list dop) : list dout :=
  match ops with
  | [] => []
  | DReq q :: r => let '(m', res) := db_apply m q in DoRes res :: run_db m' snaps r
  | DDump :: r => DoDump m :: run_db m snaps r
  | DSnapshot sid :: r => DoDump (db_snapshot m) :: run_db m ((sid, db_snapshot m) :: snaps) r
  | DRestart :: r => DoOk :: run_db [] snaps r
  | DLoad sid :: r =>
      match find (fun e => fst e =? sid) snaps with
      | Some e => DoOk :: run_db (db_install m (snd e)) snaps r
      | None => DoOk :: run_db m snaps r
      end
  end.

(** several SequenceManager nodes over one replicated counter *)
Inductive mop := MGet (n : nat) (k : str) | MFillStart (n : nat) (k : str) | MFillFinish (n : nat) (k : str)
               | MDump (n : nat) (k : str) | MDirect (k : str) (len : N).
Inductive mout := MoId (v : option N) | MoRange (r : option (N * N)) | MoOk (b : bool) | MoDump (g : option sgroup).

Record mworld := mkMW {
  mw_nodes : list node_groups;
  mw_inflight : list (nat * str * (N * N));
  mw_db : seqdb;
}.

Fixpoint set_nth_ng (l : list node_groups) (i : nat) (x : node_groups) : list node_groups :=
  match i, l with
  | O, [] => [x]
  | O, _ :: l' => x :: l'
  | S i', [] => [] :: set_nth_ng [] i' x
  | S i', y :: l' => y :: set_nth_ng l' i' x
  end.

Definition inflight_eq (n : nat) (k : str) (e : nat * str * (N * N)) : bool :=
  Nat.eqb (fst (fst e)) n && str_eqb (snd (fst e)) k.

Fixpoint run_mgr (w : mworld) (ops : list mop) : list mout :=
  match ops with
  | [] => []
  | MGet n k :: r =>
      let '(ng, db, v) := mgr_get (nth n (mw_nodes w) []) (mw_db w) k in
      MoId v :: run_mgr (mkMW (set_nth_ng (mw_nodes w) n ng) (mw_inflight w) db) r
  | MFillStart n k :: r =>
      let '(ng, db, rg) := mgr_fill_start (nth n (mw_nodes w) []) (mw_db w) k in
      let infl := match rg with
                  | Some x => (n, k, x) :: filter (fun e => negb (inflight_eq n k e)) (mw_inflight w)
                  | None => mw_inflight w
                  end in
      MoRange rg :: run_mgr (mkMW (set_nth_ng (mw_nodes w) n ng) infl db) r
  | MFillFinish n k :: r =>
      match find (inflight_eq n k) (mw_inflight w) with
      | Some e =>
          MoOk true :: run_mgr (mkMW (set_nth_ng (mw_nodes w) n (mgr_fill_finish (nth n (mw_nodes w) []) k (snd e)))
                                     (filter (fun e => negb (inflight_eq n k e)) (mw_inflight w)) (mw_db w)) r
      | None => MoOk false :: run_mgr w r
      end
  | MDump n k :: r => MoDump (sm_get str_cmp (nth n (mw_nodes w) []) k) :: run_mgr w r
  | MDirect k len :: r =>
      let '(db, start) := db_next_range (mw_db w) k len in
      MoRange (Some (start, len)) :: run_mgr (mkMW (mw_nodes w) (mw_inflight w) db) r
  end.

Definition mgr_script (ops : list mop) : list mout := run_mgr (mkMW [] [] []) ops.
