(** Executable glue for the correspondence checks of C09 / C10 / C19 (config part): the op
    language of the `config` harness suite run against the model.  md5 is supplied as a finite
    table (computed by python's hashlib for the contents of the case).  Several actors (nodes)
    can be scripted; snapshots are the records ConfigActor::build_snapshot writes, loaded the
    way RaftDataHandler::load_snapshot dispatches them.  No proofs depend on this file. *)
From RN Require Import SM.Listener.
Local Open Scope N_scope.

Definition H_tbl (tbl : list (str * str)) (c : str) : str :=
  match find (fun e => str_eqb (fst e) c) tbl with
  | Some e => snd e
  | None => []
  end.

Inductive sop :=
| SMsg (m : msg)
| SGet (k : key)
| SPage (p : qparam)
| SHist (k : key) (off lim : option N)
| SDumpL | SDumpS | SDumpSeq | SDumpCache | SDumpIndex
| SNextState | SSetLastId (n : N) | SSection (n : N)
| SKeyRt (k : key) | SKeyParse (s : str) | SValid (s : str)
| SNode (i : nat) | SRestart (i : nat) | SSnapshot (sid : N) | SLoad (sid : N)
(* the Raft premise of multi-node history-id cases *)
| SAlloc | SSettle (policy : N) | SApplyNext (ks : str) (all : bool) | SLog
(* a gRPC connection of a client: no effect on the actor model *)
| SConn (client : str).

Inductive sout :=
| OEv (evs : list event)
| OGet (r : option (str * str * option str * option str * N))
| OPage (size : N) (l : list (key * option str * option (str * str)))
| OHist (size : N) (l : list hitem)
| ODumpL (version : N) (listener : list (key * list N)) (time : list (Z * list N)) (senders : list N)
| ODumpS (listener : list (key * list str)) (clients : list (str * list key))
| ODumpSeq (last cache batch end_ : N)
| ODumpCache (l : list (key * str * bool * list N))
| ODumpIndex (size : N) (keys : list key)
| ONext (r : option (N * option N))
| OSection (s e : N)
| OKeyRt (built : str) (back : key) (same : bool)
| OKey (k : key)
| OValid (b : bool)
| OSnap (keys : list str) (seq_end : N)
| OSettle (committed : option bool)
| OCount (n : N)
| OLog (l : list (N * option N))
| OOk.

Definition snapshot := (list (str * value_do) * N)%type.

Record raftp := mkRP {
  rp_alloc : option (N * option N);      (* the last allocation, not settled yet *)
  rp_log : list (N * option N);          (* committed (history_id, history_table_id) *)
  rp_applied : list nat;                 (* per node *)
  rp_snap : list (N * nat);              (* snapshot id -> applied index *)
}.

Record world := mkW {
  w_nodes : list actor;
  w_cur : nat;
  w_snaps : list (N * snapshot);
  w_rp : raftp;
}.

Definition world_new : world := mkW [actor_new] 0 [] (mkRP None [] [O] []).

Definition cur (w : world) : actor := nth (w_cur w) (w_nodes w) actor_new.

Fixpoint set_nth {A} (l : list A) (i : nat) (x d : A) : list A :=
  match i, l with
  | O, [] => [x]
  | O, _ :: l' => x :: l'
  | S i', [] => d :: set_nth [] i' x d
  | S i', y :: l' => y :: set_nth l' i' x d
  end.

Definition set_cur (w : world) (a : actor) : world :=
  mkW (set_nth (w_nodes w) (w_cur w) a actor_new) (w_cur w) (w_snaps w) (w_rp w).

Definition with_rp (w : world) (r : raftp) : world := mkW (w_nodes w) (w_cur w) (w_snaps w) r.
Definition applied_cur (w : world) : nat := nth (w_cur w) (rp_applied (w_rp w)) O.
Definition set_applied (w : world) (i n : nat) : world :=
  with_rp w (mkRP (rp_alloc (w_rp w)) (rp_log (w_rp w)) (set_nth (rp_applied (w_rp w)) i n O) (rp_snap (w_rp w))).

Fixpoint pad {A} (l : list A) (n : nat) (d : A) : list A :=
  match n with
  | O => l
  | S n' => match l with [] => d :: pad [] n' d | x :: l' => x :: pad l' n' d end
  end.

Definition with_store (a : actor) (s : store) : actor := mkA s (a_l a) (a_s a).

Definition do_of_value (v : cvalue) : value_do :=
  mkDO (cv_content v) (cv_hist v) (cv_type v) (cv_desc v).

Definition snapshot_of (a : actor) : snapshot :=
  (map (fun kv => (build_key (fst kv), do_of_value (snd kv))) (st_cache (a_store a)),
   get_end_id (st_seq (a_store a))).

(** decimal digits of a number as ASCII bytes (the harness publishes the content "c<pos>") *)
Fixpoint dec_digits_fuel (fuel : nat) (n : N) (acc : list N) : list N :=
  match fuel with
  | O => acc
  | S f => let acc' := (48 + n mod 10) :: acc in
           if n / 10 =? 0 then acc' else dec_digits_fuel f (n / 10) acc'
  end.
Definition dec_digits (n : N) : list N := dec_digits_fuel 40 n [].

Section Run.
  Variable H : str -> str.

  Definition load_snapshot (a : actor) (sn : snapshot) : actor :=
    let st := fold_left (fun s r => inner_set_config s (key_of_string (fst r)) (value_of_do H (snd r)))
                        (fst sn) (a_store a) in
    with_store a (mkStore (st_cache st) (st_index st) (set_last_id (st_seq st) (snd sn))).

  (** the current node applies committed entries it has not applied yet (at most [fuel]) *)
  Fixpoint apply_loop (fuel : nat) (ks : str) (w : world) (n : N) : world * sout :=
    match fuel with
    | O => (w, OCount n)
    | S f =>
        let pos := applied_cur w in
        match nth_error (rp_log (w_rp w)) pos with
        | Some (hid, mk) =>
            let c := (N.of_nat pos) in
            (* every third committed publish repeats the previous content (a no-op publish that may
               still carry a history_table_id mark) *)
            let cv := if (c mod 3 =? 2)%N then (c - 1)%N else c in
            let value := [99] ++ dec_digits cv in
            let '(a', _) := step H (cur w) (MRaft (ConfigAdd ks value None None hid mk (1000 + c) None)) in
            apply_loop f ks (set_applied (set_cur w a') (w_cur w) (S pos)) (n + 1)
        | None => (w, OCount n)
        end
    end.

  Definition exec (w : world) (o : sop) : world * sout :=
    let a := cur w in
    match o with
    | SMsg m => let '(a', evs) := step H a m in (set_cur w a', OEv evs)
    | SGet k => (w, OGet (get_config (a_store a) k))
    | SPage p => let '(n, l) := get_config_info_page (a_store a) p in (w, OPage n l)
    | SHist k off lim => let '(n, l) := get_history_page (a_store a) k off lim in (w, OHist n l)
    | SDumpL => (w, ODumpL (l_version (a_l a)) (l_listener (a_l a)) (l_time (a_l a))
                          (map fst (l_sender (a_l a))))
    | SDumpS => (w, ODumpS (map (fun e => (fst e, ss_elems (snd e))) (s_listener (a_s a)))
                          (map (fun e => (fst e, ss_elems (snd e))) (s_clients (a_s a))))
    | SDumpSeq => let q := st_seq (a_store a) in
                  (w, ODumpSeq (sq_last q) (sq_cache q) (sq_batch q) (get_end_id q))
    | SDumpCache => (w, ODumpCache (map (fun kv => (fst kv, cv_md5 (snd kv), cv_tmp (snd kv),
                                                    map h_id (cv_hist (snd kv))))
                                        (st_cache (a_store a))))
    | SDumpIndex => (w, ODumpIndex (ti_size (st_index (a_store a))) (ti_keys (st_index (a_store a))))
    | SNextState =>
        let st := a_store a in
        match next_state (st_seq st) with
        | Some (q, r) => (set_cur w (with_store a (mkStore (st_cache st) (st_index st) q)), ONext (Some r))
        | None => (w, ONext None)
        end
    | SSetLastId n =>
        let st := a_store a in
        (set_cur w (with_store a (mkStore (st_cache st) (st_index st) (set_last_id (st_seq st) n))), OOk)
    | SSection n =>
        let st := a_store a in
        let '(q, (s, e)) := next_section (st_seq st) n in
        (set_cur w (with_store a (mkStore (st_cache st) (st_index st) q)), OSection s e)
    | SKeyRt k => let b := build_key k in
                  (w, OKeyRt b (key_of_string b) (key_eqb (key_of_string b) k))
    | SKeyParse s => (w, OKey (key_of_string s))
    | SValid s => (w, OValid (is_valid_nec s))
    | SNode i =>
        let r := w_rp w in
        (mkW (pad (w_nodes w) (S i) actor_new) i (w_snaps w)
             (mkRP (rp_alloc r) (rp_log r) (pad (rp_applied r) (S i) O) (rp_snap r)), OOk)
    | SRestart i =>
        let r := w_rp w in
        (mkW (set_nth (pad (w_nodes w) (S i) actor_new) i actor_new actor_new) (w_cur w) (w_snaps w)
             (mkRP (rp_alloc r) (rp_log r) (set_nth (pad (rp_applied r) (S i) O) i O O) (rp_snap r)), OOk)
    | SSnapshot sid =>
        let sn := snapshot_of a in
        let r := w_rp w in
        (mkW (w_nodes w) (w_cur w) ((sid, sn) :: w_snaps w)
             (mkRP (rp_alloc r) (rp_log r) (rp_applied r) ((sid, applied_cur w) :: rp_snap r)),
         OSnap (map fst (fst sn)) (snd sn))
    | SLoad sid =>
        let w1 := match find (fun e => fst e =? sid) (w_snaps w) with
                  | Some e => set_cur w (load_snapshot a (snd e))
                  | None => w
                  end in
        (match find (fun e => fst e =? sid) (rp_snap (w_rp w)) with
         | Some e => set_applied w1 (w_cur w) (snd e)
         | None => w1
         end, OOk)
    | SAlloc =>
        let st := a_store a in
        match next_state (st_seq st) with
        | Some (q, r) =>
            let w1 := set_cur w (with_store a (mkStore (st_cache st) (st_index st) q)) in
            (with_rp w1 (mkRP (Some r) (rp_log (w_rp w)) (rp_applied (w_rp w)) (rp_snap (w_rp w))), ONext (Some r))
        | None => (w, ONext None)
        end
    | SSettle policy =>
        let r := w_rp w in
        match rp_alloc r with
        | Some (id, mk) =>
            let lose := if policy =? 1 then true
                        else if policy =? 2 then (match mk with None => true | Some _ => false end)
                        else if policy =? 3 then (match mk with None => false | Some _ => true end)
                        else false in
            if lose then (with_rp w (mkRP None (rp_log r) (rp_applied r) (rp_snap r)), OSettle (Some false))
            else (with_rp w (mkRP None (rp_log r ++ [(id, mk)]) (rp_applied r) (rp_snap r)), OSettle (Some true))
        | None => (w, OSettle None)
        end
    | SApplyNext ks all => apply_loop (if all then length (rp_log (w_rp w)) else 1%nat) ks w 0
    | SLog => (w, OLog (rp_log (w_rp w)))
    | SConn _ => (w, OOk)
    end.

  Fixpoint run_script (w : world) (ops : list sop) : list sout :=
    match ops with
    | [] => []
    | o :: ops' => let '(w', r) := exec w o in r :: run_script w' ops'
    end.
End Run.

Definition perm_all : str -> bool := fun _ => true.

(** the script entry point used by runner/checks/c09.py, c10.py, c19.py *)
Definition script (tbl : list (str * str)) (ops : list sop) : list sout :=
  run_script (H_tbl tbl) world_new ops.
