(** Executable glue for the correspondence checks of C09 / C10 / C19 (config part): the op
    language of the `config` harness suite run against the model.  md5 is supplied as a finite
    table (computed by python's hashlib for the contents of the case).  Several actors (nodes)
    can be scripted; snapshots are the records ConfigActor::build_snapshot writes, loaded the
    way RaftDataHandler::load_snapshot dispatches them.  No proofs depend on this file. *)
From RN Require Import SM.Listener.
Local Open Scope N_scope.

Definition H_tbl (tbl : list (str * str)) (c : str) : str :=
  match find (fun e => str_eqb (fst e) c) tbl with
  | Some e => snd e
  | None => []
  end.

Inductive sop :=
| SMsg (m : msg)
| SGet (k : key)
| SPage (p : qparam)
| SHist (k : key) (off lim : option N)
| SDumpL | SDumpS | SDumpSeq | SDumpCache | SDumpIndex
| SNextState | SSetLastId (n : N) | SSection (n : N)
| SKeyRt (k : key) | SKeyParse (s : str) | SValid (s : str)
| SNode (i : nat) | SRestart (i : nat) | SSnapshot (sid : N) | SLoad (sid : N).

Inductive sout :=
| OEv (evs : list event)
| OGet (r : option (str * str * option str * option str * N))
| OPage (size : N) (l : list (key * option str * option (str * str)))
| OHist (size : N) (l : list hitem)
| ODumpL (version : N) (listener : list (key * list N)) (time : list (Z * list N)) (senders : list N)
| ODumpS (listener : list (key * list str)) (clients : list (str * list key))
| ODumpSeq (last cache batch end_ : N)
| ODumpCache (l : list (key * str * bool * list N))
| ODumpIndex (size : N) (keys : list key)
| ONext (r : option (N * option N))
| OSection (s e : N)
| OKeyRt (built : str) (back : key) (same : bool)
| OKey (k : key)
| OValid (b : bool)
| OSnap (keys : list str) (seq_end : N)
| OOk.

Definition snapshot := (list (str * value_do) * N)%type.

Record world := mkW {
  w_nodes : list actor;
  w_cur : nat;
  w_snaps : list (N * snapshot);
}.

Definition world_new : world := mkW [actor_new] 0 [].

Definition cur (w : world) : actor := nth (w_cur w) (w_nodes w) actor_new.

Fixpoint set_nth {A} (l : list A) (i : nat) (x d : A) : list A :=
  match i, l with
  | O, [] => [x]
  | O, _ :: l' => x :: l'
  | S i', [] => d :: set_nth [] i' x d
  | S i', y :: l' => y :: set_nth l' i' x d
  end.

Definition set_cur (w : world) (a : actor) : world :=
  mkW (set_nth (w_nodes w) (w_cur w) a actor_new) (w_cur w) (w_snaps w).

Fixpoint pad {A} (l : list A) (n : nat) (d : A) : list A :=
  match n with
  | O => l
  | S n' => match l with [] => d :: pad [] n' d | x :: l' => x :: pad l' n' d end
  end.

Definition with_store (a : actor) (s : store) : actor := mkA s (a_l a) (a_s a).

Definition do_of_value (v : cvalue) : value_do :=
  mkDO (cv_content v) (cv_hist v) (cv_type v) (cv_desc v).

Definition snapshot_of (a : actor) : snapshot :=
  (map (fun kv => (build_key (fst kv), do_of_value (snd kv))) (st_cache (a_store a)),
   get_end_id (st_seq (a_store a))).

Section Run.
  Variable H : str -> str.

  Definition load_snapshot (a : actor) (sn : snapshot) : actor :=
    let st := fold_left (fun s r => inner_set_config s (key_of_string (fst r)) (value_of_do H (snd r)))
                        (fst sn) (a_store a) in
    with_store a (mkStore (st_cache st) (st_index st) (set_last_id (st_seq st) (snd sn))).

  Definition exec (w : world) (o : sop) : world * sout :=
    let a := cur w in
    match o with
    | SMsg m => let '(a', evs) := step H a m in (set_cur w a', OEv evs)
    | SGet k => (w, OGet (get_config (a_store a) k))
    | SPage p => let '(n, l) := get_config_info_page (a_store a) p in (w, OPage n l)
    | SHist k off lim => let '(n, l) := get_history_page (a_store a) k off lim in (w, OHist n l)
    | SDumpL => (w, ODumpL (l_version (a_l a)) (l_listener (a_l a)) (l_time (a_l a))
                          (map fst (l_sender (a_l a))))
    | SDumpS => (w, ODumpS (map (fun e => (fst e, ss_elems (snd e))) (s_listener (a_s a)))
                          (map (fun e => (fst e, ss_elems (snd e))) (s_clients (a_s a))))
    | SDumpSeq => let q := st_seq (a_store a) in
                  (w, ODumpSeq (sq_last q) (sq_cache q) (sq_batch q) (get_end_id q))
    | SDumpCache => (w, ODumpCache (map (fun kv => (fst kv, cv_md5 (snd kv), cv_tmp (snd kv),
                                                    map h_id (cv_hist (snd kv))))
                                        (st_cache (a_store a))))
    | SDumpIndex => (w, ODumpIndex (ti_size (st_index (a_store a))) (ti_keys (st_index (a_store a))))
    | SNextState =>
        let st := a_store a in
        match next_state (st_seq st) with
        | Some (q, r) => (set_cur w (with_store a (mkStore (st_cache st) (st_index st) q)), ONext (Some r))
        | None => (w, ONext None)
        end
    | SSetLastId n =>
        let st := a_store a in
        (set_cur w (with_store a (mkStore (st_cache st) (st_index st) (set_last_id (st_seq st) n))), OOk)
    | SSection n =>
        let st := a_store a in
        let '(q, (s, e)) := next_section (st_seq st) n in
        (set_cur w (with_store a (mkStore (st_cache st) (st_index st) q)), OSection s e)
    | SKeyRt k => let b := build_key k in
                  (w, OKeyRt b (key_of_string b) (key_eqb (key_of_string b) k))
    | SKeyParse s => (w, OKey (key_of_string s))
    | SValid s => (w, OValid (is_valid_nec s))
    | SNode i => (mkW (pad (w_nodes w) (S i) actor_new) i (w_snaps w), OOk)
    | SRestart i => (mkW (set_nth (pad (w_nodes w) (S i) actor_new) i actor_new actor_new)
                         (w_cur w) (w_snaps w), OOk)
    | SSnapshot sid =>
        let sn := snapshot_of a in
        (mkW (w_nodes w) (w_cur w) ((sid, sn) :: w_snaps w), OSnap (map fst (fst sn)) (snd sn))
    | SLoad sid =>
        match find (fun e => fst e =? sid) (w_snaps w) with
        | Some e => (set_cur w (load_snapshot a (snd e)), OOk)
        | None => (w, OOk)
        end
    end.

  Fixpoint run_script (w : world) (ops : list sop) : list sout :=
    match ops with
    | [] => []
    | o :: ops' => let '(w', r) := exec w o in r :: run_script w' ops'
    end.
End Run.

Definition perm_all : str -> bool := fun _ => true.

(** the script entry point used by runner/checks/c09.py, c10.py, c19.py *)
Definition script (tbl : list (str * str)) (ops : list sop) : list sout :=
  run_script (H_tbl tbl) world_new ops.
