(** A concrete instance of SM/Dispatch.v: "trace" actors whose state is the list of messages
    they have handled (the free deterministic actor — any other handler is a fold over this
    trace).  Used (i) to show that the hypotheses of the C07 theorems are satisfiable by a
    non-trivial sequence, (ii) for the two refuted statements: the hypotheses [prep_ok] and
    [no_forward] cannot be dropped. *)
From RN Require Import SM.Dispatch SM.DispatchProofs.
From Coq Require Import NArith Arith Lia.

Definition tpayload := nat.
Definition tmsg : Type := (ctor * nat)%type.
Definition tstate := list tmsg.

Definition tbuild (_ : list (string * string)) (_ : prep) (c : ctor) (_ : list (string * string))
           (p : tpayload) : tmsg := (c, p).
Definition tstep (_ : actor) (s : tstate) (m : tmsg) : tstate := s ++ [m].

(** a payload is [16 * request number + class]:
    class 0 = a ConfigFullValue whose bytes do not decode *)
Definition tclass (p : tpayload) : nat := p mod 16.
(** bit 4 of the payload: the target's handler answers Err (e.g. TableManagerReq::SetUseAutoId,
    RemoveToolSpec of a spec in use) *)
Definition thandler_ok (p : tpayload) : bool := negb ((p / 16) mod 2 =? 1).
Definition tdecodable (p : tpayload) : bool := negb (tclass p =? 0).

(** class 7 sent to the table actor = a T_CACHE row in the old format: TableManager forwards the
    converted request to DirectCacheManager with do_send;
    class 6 sent to the config / naming actor = a request in a non-default namespace: the
    handler notifies NamespaceActor (SetWeak / RemoveWeak) with do_send.
    The forwarded message carries payload 1000 + p. *)
Definition tfwd (a : actor) (m : tmsg) : list (actor * tmsg) :=
  match a, tclass (snd m) with
  | ATable, 7 => [(ACache, (CPass, 1000 + snd m))]
  | AConfig, 6 => [(ANamespace, (CPass, 1000 + snd m))]
  | ANaming, 6 => [(ANamespace, (CPass, 1000 + snd m))]
  | _, _ => []
  end.

Definition tinit : @world tmsg tstate := mkWorld (fun _ => []) (fun _ => []).

Definition tq (v : variant) (p : nat) : req tpayload := mkReq v p.

Definition t_leader n sched reqs := final_leader tpayload tmsg tstate tbuild tstep tfwd tdecodable n sched reqs tinit.
Definition t_follower n sched bs := final_follower tpayload tmsg tstate tbuild tstep tfwd tdecodable n sched bs tinit.
Definition t_replay n sched reqs := final_replay tpayload tmsg tstate tbuild tstep tfwd tdecodable n sched reqs tinit.

(** a sequence with all 11 variants *)
Definition sample_reqs : list (req tpayload) :=
  [tq VNodeAddr 1; tq VMembers 2; tq VConfigSet 3; tq VConfigFullValue 4; tq VConfigRemove 5;
   tq VTableManagerReq 22; tq VNamespaceReq 8; tq VSequenceReq 9; tq VMcpReq 10; tq VNamingReq 11;
   tq VCacheReq 12; tq VConfigSet 13; tq VSequenceReq 14].

Lemma tinit_clean : clean tmsg tstate tfwd tinit.
Proof. intros a m []. Qed.

Definition tno_forward_b (r : req tpayload) : bool :=
  forallb (fun t => match dispatch tpayload tmsg tbuild tdecodable t r with
                    | Send a m _ => match tfwd a m with [] => true | _ => false end
                    | _ => true
                    end) [leader_table; follower_table; replay_table].

Lemma tno_forward_sound r :
  tno_forward_b r = true -> no_forward tpayload tmsg tbuild tfwd tdecodable r.
Proof.
  unfold tno_forward_b. rewrite forallb_forall. intros H t Ht a m md D.
  specialize (H t Ht). rewrite D in H. destruct (tfwd a m); [reflexivity | discriminate].
Qed.

(** the hypotheses of C07_same_sequence_same_state are satisfiable by a sequence that uses all
    11 variants, and its conclusion is not vacuous: every actor ends with a non-empty trace *)
Example sample_in_scope :
  clean tmsg tstate tfwd tinit /\
  forallb (prep_ok tpayload tdecodable) sample_reqs = true /\
  Forall (no_forward tpayload tmsg tbuild tfwd tdecodable) sample_reqs /\
  (forall a, wst (t_leader 1 [] sample_reqs) a <> []) /\
  wst (t_leader 1 [] sample_reqs) AConfig = [(CConfigAdd, 3); (CSetFullValue, 4); (CConfigRemove, 5); (CConfigAdd, 13)].
Proof.
  split; [apply tinit_clean |]. split; [reflexivity |]. split.
  - apply Forall_forall. intros r Hr. apply tno_forward_sound.
    revert r Hr. apply Forall_forall. repeat constructor.
  - split; [intros a; destruct a; vm_compute; discriminate | reflexivity].
Qed.

(** ** refuted: without [prep_ok] the paths diverge.  A ConfigFullValue whose bytes do not
    decode, followed by a ConfigSet in the same follower batch: the leader (and the replay)
    skip the bad entry and apply the ConfigSet; the follower's batch loop aborts. *)
Definition poison_reqs : list (req tpayload) := [tq VConfigFullValue 0; tq VConfigSet 5].

Lemma poison_entry_diverges :
  Forall (no_forward tpayload tmsg tbuild tfwd tdecodable) poison_reqs /\
  wst (t_leader 1 [] poison_reqs) AConfig = [(CConfigAdd, 5)] /\
  wst (t_replay 1 [] poison_reqs) AConfig = [(CConfigAdd, 5)] /\
  wst (t_follower 1 [] (split [2] poison_reqs)) AConfig = [].
Proof.
  split.
  - apply Forall_forall. intros r Hr. apply tno_forward_sound.
    revert r Hr. apply Forall_forall. repeat constructor.
  - repeat split.
Qed.

(** ** refuted: without [no_forward] the paths diverge.  A T_CACHE table write (forwarded by
    the table actor to the cache actor) followed by a direct cache request in one follower
    batch: on the leader the forward is queued before the direct request, on the follower
    after it. *)
Definition forward_reqs : list (req tpayload) := [tq VTableManagerReq 7; tq VCacheReq 9].

Lemma forward_race_diverges :
  forallb (prep_ok tpayload tdecodable) forward_reqs = true /\
  wst (t_leader 2 [] forward_reqs) ACache = [(CPass, 1007); (CPass, 9)] /\
  wst (t_follower 2 [] (split [2] forward_reqs)) ACache = [(CPass, 9); (CPass, 1007)] /\
  quiescent tmsg tstate (t_leader 2 [] forward_reqs) /\
  quiescent tmsg tstate (t_follower 2 [] (split [2] forward_reqs)).
Proof.
  repeat split; intros a; destruct a; reflexivity.
Qed.

(** last_applied: an instance of the hypotheses with three entries in two batches *)
Example last_applied_sample :
  let es := [(5%N, tq VConfigSet 3); (6%N, tq VSequenceReq 9); (7%N, tq VConfigRemove 5)] in
  es <> [] /\ forallb (prep_ok tpayload tdecodable) (map snd es) = true /\
  am_last (follower_applied tpayload tmsg tbuild tdecodable (split [2] es) (mkAm 4 [])) = 7%N /\
  am_saved (follower_applied tpayload tmsg tbuild tdecodable (split [2] es) (mkAm 4 [])) = [6%N; 7%N] /\
  am_saved (leader_applied tpayload tmsg tbuild tdecodable thandler_ok es (mkAm 4 [])) = [5%N; 6%N; 7%N].
Proof. repeat split. discriminate. Qed.

Lemma poison_refuted :
  exists reqs batching,
    Forall (no_forward tpayload tmsg tbuild tfwd tdecodable) reqs /\
    wst (t_leader 1 [] reqs) AConfig = wst (t_replay 1 [] reqs) AConfig /\
    wst (t_leader 1 [] reqs) AConfig <> wst (t_follower 1 [] (split batching reqs)) AConfig.
Proof.
  exists poison_reqs, [2]%nat. destruct poison_entry_diverges as [H1 [H2 [H3 H4]]].
  split; [exact H1 |]. rewrite H2, H3, H4. split; [reflexivity | discriminate].
Qed.

Lemma forward_refuted :
  exists reqs batching,
    forallb (prep_ok tpayload tdecodable) reqs = true /\
    quiescent tmsg tstate (t_leader 2 [] reqs) /\
    quiescent tmsg tstate (t_follower 2 [] (split batching reqs)) /\
    wst (t_leader 2 [] reqs) ACache <> wst (t_follower 2 [] (split batching reqs)) ACache.
Proof.
  exists forward_reqs, [2]%nat. destruct forward_race_diverges as [H1 [H2 [H3 [H4 H5]]]].
  split; [exact H1 |]. split; [exact H4 |]. split; [exact H5 |]. rewrite H2, H3. discriminate.
Qed.
