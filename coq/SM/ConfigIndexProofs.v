(** Proofs about the TenantIndex model: paging is slicing of the filtered key list,
    membership after insert/remove, no duplicates, size = number of keys. *)
From RN Require Import Base.SMap Base.SMapProofs SM.ConfigKey SM.ConfigKeyProofs SM.ConfigIndex.
From Coq Require Import ZifyBool ZifyNat ZifyN FinFun.
Local Open Scope N_scope.

(** * the paging loop *)
Fixpoint take_window {A} (off e index : N) (l : list A) : list A :=
  match l with
  | [] => []
  | x :: l' => (if (off <=? index) && (index <? e) then [x] else []) ++ take_window off e (index + 1) l'
  end.

Lemma take_window_app {A} off e i (l1 l2 : list A) :
  take_window off e i (l1 ++ l2) = take_window off e i l1 ++ take_window off e (i + N.of_nat (length l1)) l2.
Proof.
  revert i. induction l1 as [|x l1 IH]; intros i; cbn [take_window app length].
  - f_equal. lia.
  - rewrite IH, <- app_assoc. do 3 f_equal. lia.
Qed.

Lemma take_window_slice {A} off lim i (l : list A) :
  take_window off (off + lim) i l =
  firstn (N.to_nat (off + lim - N.max i off)) (skipn (N.to_nat (off - i)) l).
Proof.
  revert i. induction l as [|x l IH]; intros i; cbn [take_window].
  - rewrite skipn_nil, firstn_nil. reflexivity.
  - rewrite IH. destruct (off <=? i) eqn:E1; cbn [andb].
    + replace (N.to_nat (off - i)) with 0%nat by lia.
      replace (N.to_nat (off - (i + 1))) with 0%nat by lia. cbn [skipn].
      destruct (i <? off + lim) eqn:E2.
      * replace (N.to_nat (off + lim - N.max i off)) with (S (N.to_nat (off + lim - N.max (i + 1) off))) by lia.
        reflexivity.
      * replace (N.to_nat (off + lim - N.max i off)) with 0%nat by lia.
        replace (N.to_nat (off + lim - N.max (i + 1) off)) with 0%nat by lia. reflexivity.
    + replace (N.to_nat (off - i)) with (S (N.to_nat (off - (i + 1)))) by lia.
      cbn [skipn app]. f_equal. lia.
Qed.

Definition data_keys (tenant g : str) (set : sset str) : list key :=
  map (fun d => mkKey (fst d) g tenant) set.

Definition match_key (p : qparam) (k : key) : bool :=
  match_group p (k_group k) && match_data_id p (k_data k).

Lemma ci_query_set_spec p tenant g e set index acc :
  ci_query_set p tenant g e set index acc =
  let fl := filter (fun k => match_data_id p (k_data k)) (data_keys tenant g set) in
  (index + N.of_nat (length fl), acc ++ take_window (q_offset p) e index fl).
Proof.
  revert index acc. induction set as [|[s u] set IH]; intros index acc; cbn [ci_query_set data_keys map filter fst].
  - cbn. rewrite app_nil_r. f_equal. lia.
  - cbn [k_data]. destruct (match_data_id p s) eqn:M.
    + rewrite IH. cbn zeta. cbn [length take_window]. fold (data_keys tenant g set).
      f_equal; [lia|].
      destruct ((q_offset p <=? index) && (index <? e)); cbn [app]; rewrite <- ?app_assoc; reflexivity.
    + rewrite IH. reflexivity.
Qed.

Lemma ci_query_groups_spec p tenant e groups index acc :
  ci_query_groups p tenant e groups index acc =
  let fl := filter (match_key p) (ci_keys tenant groups) in
  (index + N.of_nat (length fl), acc ++ take_window (q_offset p) e index fl).
Proof.
  revert index acc. induction groups as [|[g set] groups IH]; intros index acc;
    cbn [ci_query_groups ci_keys map concat fst snd].
  - cbn. rewrite app_nil_r. f_equal. lia.
  - fold (ci_keys tenant groups). fold (data_keys tenant g set). rewrite filter_app.
    assert (F : filter (match_key p) (data_keys tenant g set) =
                if match_group p g then filter (fun k => match_data_id p (k_data k)) (data_keys tenant g set) else []).
    { unfold data_keys, match_key. induction set as [|[s u] set IHs]; cbn [map filter fst k_group k_data].
      - destruct (match_group p g); reflexivity.
      - destruct (match_group p g); cbn [andb]; [|exact IHs].
        destruct (match_data_id p s); rewrite IHs; reflexivity. }
    rewrite F. destruct (match_group p g).
    + rewrite ci_query_set_spec. cbv beta iota zeta. rewrite IH. cbv beta iota zeta.
      rewrite app_length, take_window_app, <- app_assoc. f_equal. lia.
    + rewrite IH. reflexivity.
Qed.

Definition slice {A} (off lim : N) (l : list A) : list A :=
  firstn (N.to_nat lim) (skipn (N.to_nat off) l).

Theorem ci_query_page_slice ci tenant limit p :
  ci_query_page ci tenant limit p =
  let fl := filter (match_key p) (ci_keys tenant ci) in
  (N.of_nat (length fl), slice (q_offset p) limit fl).
Proof.
  unfold ci_query_page. rewrite ci_query_groups_spec. cbn zeta. cbn [app]. f_equal.
  rewrite take_window_slice. unfold slice. f_equal; [lia|]. f_equal. lia.
Qed.

(** keys of one tenant held by the index *)
Definition tenant_keys (t : tindex) (tenant : str) : list key :=
  match sm_get str_cmp (ti_groups t) tenant with
  | Some ci => ci_keys tenant ci
  | None => []
  end.

Theorem ti_query_page_slice t p tenant :
  q_tenant p = Some tenant -> q_perm p tenant = true ->
  ti_query_page t p =
  let fl := filter (match_key p) (tenant_keys t tenant) in
  (N.of_nat (length fl), slice (q_offset p) (q_limit p) fl).
Proof.
  intros E P. unfold ti_query_page, tenant_keys. rewrite E, P.
  destruct (sm_get str_cmp (ti_groups t) tenant).
  - apply ci_query_page_slice.
  - cbn. unfold slice. rewrite skipn_nil, firstn_nil. reflexivity.
Qed.

(** consecutive pages concatenate to a prefix; enough pages give the whole list *)
Lemma firstn_add {A} a b (l : list A) : firstn (a + b) l = firstn a l ++ firstn b (skipn a l).
Proof.
  revert l. induction a as [|a IH]; intros l; cbn [Nat.add firstn skipn app]; auto.
  destruct l; cbn [firstn skipn app]; [rewrite firstn_nil; reflexivity|]. f_equal. apply IH.
Qed.

Lemma pages_concat {A} (size : nat) (l : list A) n :
  concat (map (fun i => firstn size (skipn (i * size) l)) (seq 0 n)) = firstn (n * size) l.
Proof.
  induction n as [|n IH]; [reflexivity|].
  rewrite seq_S, map_app, concat_app, IH. cbn [map concat Nat.add]. rewrite app_nil_r.
  replace (S n * size)%nat with (n * size + size)%nat by lia. rewrite firstn_add. reflexivity.
Qed.

Definition with_page (p : qparam) (off lim : N) : qparam :=
  mkQ (q_tenant p) (q_group p) (q_data p) (q_like_group p) (q_like_data p) (q_perm p) (q_context p) off lim.

Theorem pages_partition t p tenant (size : N) (n : nat) :
  q_tenant p = Some tenant -> q_perm p tenant = true ->
  let fl := filter (match_key p) (tenant_keys t tenant) in
  (forall i, fst (ti_query_page t (with_page p (N.of_nat i * size) size)) = N.of_nat (length fl)) /\
  concat (map (fun i => snd (ti_query_page t (with_page p (N.of_nat i * size) size))) (seq 0 n))
  = firstn (n * N.to_nat size) fl /\
  ((length fl <= n * N.to_nat size)%nat ->
   concat (map (fun i => snd (ti_query_page t (with_page p (N.of_nat i * size) size))) (seq 0 n)) = fl).
Proof.
  intros E P fl.
  assert (Q : forall i, ti_query_page t (with_page p (N.of_nat i * size) size) =
                        (N.of_nat (length fl), firstn (N.to_nat size) (skipn (i * N.to_nat size) fl))).
  { intros i. rewrite (ti_query_page_slice t _ tenant) by (cbn; auto). cbn zeta.
    unfold match_key, match_group, match_data_id, with_page, slice. cbn [q_group q_data q_like_group q_like_data q_offset q_limit].
    fold fl. f_equal. f_equal. f_equal. lia. }
  split; [intros i; rewrite Q; reflexivity|].
  assert (C : concat (map (fun i => snd (ti_query_page t (with_page p (N.of_nat i * size) size))) (seq 0 n))
              = firstn (n * N.to_nat size) fl).
  { rewrite <- pages_concat. f_equal. apply map_ext. intros i. rewrite Q. reflexivity. }
  split; [exact C|]. intros L. rewrite C. apply firstn_all2. exact L.
Qed.

(** * membership, well-formedness, no duplicates *)
Definition ci_mem (ci : cindex) (g d : str) : bool :=
  match sm_get str_cmp ci g with
  | Some set => ss_mem str_cmp set d
  | None => false
  end.

Lemma ti_mem_ci t k :
  ti_mem t k = match sm_get str_cmp (ti_groups t) (k_tenant k) with
               | Some ci => ci_mem ci (k_group k) (k_data k)
               | None => false
               end.
Proof. reflexivity. Qed.

Definition ci_wf (ci : cindex) : Prop :=
  sm_wf str_cmp ci /\ Forall (fun gs => sm_wf str_cmp (snd gs)) ci.
Definition ti_wf (t : tindex) : Prop :=
  sm_wf str_cmp (ti_groups t) /\ Forall (fun tc => ci_wf (snd tc)) (ti_groups t).

Local Notation SOK := str_cmp_ok.

Lemma str_cmp_eqb a b : str_cmp a b = Eq <-> str_eqb a b = true.
Proof. rewrite str_eqb_eq. apply str_cmp_eq. Qed.

Lemma cmp_match_eqb {A} a b (x y : A) :
  match str_cmp a b with Eq => x | _ => y end = if str_eqb a b then x else y.
Proof. unfold str_eqb. destruct (str_cmp a b); reflexivity. Qed.

Lemma str_eqb_sym a b : str_eqb a b = str_eqb b a.
Proof.
  destruct (str_eqb a b) eqn:E.
  - apply str_eqb_eq in E. subst. symmetry. apply str_eqb_refl.
  - symmetry. apply str_eqb_neq. apply str_eqb_neq in E. congruence.
Qed.

Lemma ci_wf_nil : ci_wf [].
Proof. split; cbn; auto. Qed.

Lemma ci_insert_mem ci g d g' d' :
  ci_mem (snd (ci_insert ci g d)) g' d' = (str_eqb g g' && str_eqb d d') || ci_mem ci g' d'.
Proof.
  unfold ci_insert, ci_mem.
  destruct (sm_get str_cmp ci g) as [set|] eqn:G.
  - destruct (ss_mem str_cmp set d) eqn:M; cbn [snd].
    + destruct (str_eqb g g') eqn:E1; cbn [andb orb]; auto.
      apply str_eqb_eq in E1. subst g'. rewrite G.
      destruct (str_eqb d d') eqn:E2; cbn [orb]; auto.
      apply str_eqb_eq in E2. subst d'. auto.
    + rewrite (get_put _ SOK). rewrite cmp_match_eqb, (str_eqb_sym g' g).
      destruct (str_eqb g g') eqn:E1; cbn [andb orb]; auto.
      apply str_eqb_eq in E1. subst g'. rewrite G.
      unfold ss_mem, ss_add. rewrite (mem_put _ SOK), cmp_match_eqb, (str_eqb_sym d' d).
      destruct (str_eqb d d'); reflexivity.
  - cbn [snd]. rewrite (get_put _ SOK). rewrite cmp_match_eqb, (str_eqb_sym g' g).
    destruct (str_eqb g g') eqn:E1; cbn [andb orb]; auto.
    apply str_eqb_eq in E1. subst g'. rewrite G.
    unfold ss_mem, ss_add. rewrite (mem_put _ SOK), cmp_match_eqb, (str_eqb_sym d' d).
    cbn [sm_mem sm_get]. destruct (str_eqb d d'); reflexivity.
Qed.

Lemma ci_insert_fst ci g d : fst (ci_insert ci g d) = negb (ci_mem ci g d).
Proof.
  unfold ci_insert, ci_mem. destruct (sm_get str_cmp ci g) as [set|]; [|reflexivity].
  destruct (ss_mem str_cmp set d); reflexivity.
Qed.

Lemma ci_insert_wf ci g d : ci_wf ci -> ci_wf (snd (ci_insert ci g d)).
Proof.
  intros [W F]. unfold ci_insert.
  destruct (sm_get str_cmp ci g) as [set|] eqn:G.
  - destruct (ss_mem str_cmp set d); cbn [snd]; [split; auto|].
    split; [apply (wf_put _ SOK); auto|].
    apply Forall_put; auto. cbn [snd]. apply (wf_put _ SOK).
    apply (Forall_get _ SOK _ _ _ _ F G).
  - cbn [snd]. split; [apply (wf_put _ SOK); auto|].
    apply Forall_put; auto. cbn. auto.
Qed.

Lemma ci_remove_mem ci g d g' d' : ci_wf ci ->
  ci_mem (snd (ci_remove ci g d)) g' d' = negb (str_eqb g g' && str_eqb d d') && ci_mem ci g' d'.
Proof.
  intros [W F]. unfold ci_remove, ci_mem.
  destruct (sm_get str_cmp ci g) as [set|] eqn:G; cbn [snd].
  - assert (Ws : sm_wf str_cmp set) by apply (Forall_get _ SOK _ _ _ _ F G).
    destruct (ss_mem str_cmp set d && ss_is_empty (ss_del str_cmp set d)) eqn:B.
    + rewrite (get_del _ SOK) by exact W. rewrite cmp_match_eqb, (str_eqb_sym g' g).
      destruct (str_eqb g g') eqn:E1; cbn [andb negb]; auto.
      apply str_eqb_eq in E1. subst g'. rewrite G.
      apply andb_prop in B. destruct B as [_ B].
      destruct (str_eqb d d') eqn:E2; cbn [negb andb]; auto.
      assert (M : ss_mem str_cmp (ss_del str_cmp set d) d' = ss_mem str_cmp set d').
      { unfold ss_mem, ss_del. rewrite (mem_del _ SOK) by exact Ws.
        rewrite cmp_match_eqb, (str_eqb_sym d' d), E2. reflexivity. }
      rewrite <- M. destruct (ss_del str_cmp set d); [reflexivity|discriminate].
    + rewrite (get_put _ SOK). rewrite cmp_match_eqb, (str_eqb_sym g' g).
      destruct (str_eqb g g') eqn:E1; cbn [andb negb]; auto.
      apply str_eqb_eq in E1. subst g'. rewrite G.
      unfold ss_mem, ss_del. rewrite (mem_del _ SOK) by exact Ws.
      rewrite cmp_match_eqb, (str_eqb_sym d' d). destruct (str_eqb d d'); reflexivity.
  - destruct (str_eqb g g') eqn:E1; cbn [andb negb]; auto.
    apply str_eqb_eq in E1. subst g'. rewrite G. destruct (str_eqb d d'); reflexivity.
Qed.

Lemma ci_remove_wf ci g d : ci_wf ci -> ci_wf (snd (ci_remove ci g d)).
Proof.
  intros [W F]. unfold ci_remove.
  destruct (sm_get str_cmp ci g) as [set|] eqn:G; cbn [snd]; [|split; auto].
  assert (Ws : sm_wf str_cmp set) by apply (Forall_get _ SOK _ _ _ _ F G).
  destruct (ss_mem str_cmp set d && ss_is_empty (ss_del str_cmp set d)).
  - split; [apply wf_del; auto|apply del_Forall; auto].
  - split; [apply (wf_put _ SOK); auto|]. apply Forall_put; auto. cbn [snd].
    apply wf_del. exact Ws.
Qed.

Lemma ci_remove_fst ci g d : fst (fst (ci_remove ci g d)) = ci_mem ci g d.
Proof.
  unfold ci_remove, ci_mem. destruct (sm_get str_cmp ci g); reflexivity.
Qed.

Lemma ci_remove_size ci g d :
  snd (fst (ci_remove ci g d)) = N.of_nat (length (snd (ci_remove ci g d))).
Proof.
  unfold ci_remove. destruct (sm_get str_cmp ci g); reflexivity.
Qed.

Lemma ci_mem_nil g d : ci_mem [] g d = false.
Proof. reflexivity. Qed.

Lemma key_eqb_fields k k' :
  key_eqb k k' = str_eqb (k_tenant k) (k_tenant k') && (str_eqb (k_group k) (k_group k') && str_eqb (k_data k) (k_data k')).
Proof.
  unfold key_eqb, key_cmp, str_eqb.
  destruct (str_cmp (k_tenant k) (k_tenant k')); cbn [andb]; auto.
  destruct (str_cmp (k_group k) (k_group k')); cbn [andb]; auto.
Qed.

Lemma ti_insert_mem t k k' :
  ti_mem (snd (ti_insert t k)) k' = key_eqb k k' || ti_mem t k'.
Proof.
  rewrite !ti_mem_ci, key_eqb_fields. unfold ti_insert.
  destruct (sm_get str_cmp (ti_groups t) (k_tenant k)) as [ci|] eqn:G.
  - destruct (ci_insert ci (k_group k) (k_data k)) as [b ci'] eqn:I. cbn [snd ti_groups].
    rewrite (get_put _ SOK), cmp_match_eqb, (str_eqb_sym (k_tenant k') (k_tenant k)).
    destruct (str_eqb (k_tenant k) (k_tenant k')) eqn:E; cbn [andb orb]; auto.
    apply str_eqb_eq in E. rewrite <- E, G.
    replace ci' with (snd (ci_insert ci (k_group k) (k_data k))) by (rewrite I; reflexivity).
    apply ci_insert_mem.
  - destruct (ci_insert [] (k_group k) (k_data k)) as [b ci'] eqn:I. cbn [snd ti_groups].
    rewrite (get_put _ SOK), cmp_match_eqb, (str_eqb_sym (k_tenant k') (k_tenant k)).
    destruct (str_eqb (k_tenant k) (k_tenant k')) eqn:E; cbn [andb orb]; auto.
    apply str_eqb_eq in E. rewrite <- E, G.
    replace ci' with (snd (ci_insert [] (k_group k) (k_data k))) by (rewrite I; reflexivity).
    rewrite ci_insert_mem, ci_mem_nil. reflexivity.
Qed.

Lemma ti_insert_wf t k : ti_wf t -> ti_wf (snd (ti_insert t k)).
Proof.
  intros [W F]. unfold ti_insert.
  destruct (sm_get str_cmp (ti_groups t) (k_tenant k)) as [ci|] eqn:G.
  - destruct (ci_insert ci (k_group k) (k_data k)) as [b ci'] eqn:I. cbn [snd].
    split; cbn [ti_groups]; [apply (wf_put _ SOK); auto|]. apply Forall_put; auto. cbn [snd].
    replace ci' with (snd (ci_insert ci (k_group k) (k_data k))) by (rewrite I; reflexivity).
    apply ci_insert_wf. apply (Forall_get _ SOK _ _ _ _ F G).
  - destruct (ci_insert [] (k_group k) (k_data k)) as [b ci'] eqn:I. cbn [snd].
    split; cbn [ti_groups]; [apply (wf_put _ SOK); auto|]. apply Forall_put; auto. cbn [snd].
    replace ci' with (snd (ci_insert [] (k_group k) (k_data k))) by (rewrite I; reflexivity).
    apply ci_insert_wf. apply ci_wf_nil.
Qed.

Lemma ti_remove_mem t k k' : ti_wf t ->
  ti_mem (snd (ti_remove t k)) k' = negb (key_eqb k k') && ti_mem t k'.
Proof.
  intros [W F]. rewrite !ti_mem_ci, key_eqb_fields. unfold ti_remove.
  destruct (sm_get str_cmp (ti_groups t) (k_tenant k)) as [ci|] eqn:G.
  - assert (Wc : ci_wf ci) by apply (Forall_get _ SOK _ _ _ _ F G).
    destruct (ci_remove ci (k_group k) (k_data k)) as [[b gsz] ci'] eqn:R. cbn [snd ti_groups].
    assert (Ec : ci' = snd (ci_remove ci (k_group k) (k_data k))) by (rewrite R; reflexivity).
    assert (Es : gsz = N.of_nat (length ci')).
    { rewrite Ec, <- ci_remove_size, R. reflexivity. }
    destruct (gsz =? 0) eqn:Z.
    + rewrite (get_del _ SOK) by exact W. rewrite cmp_match_eqb, (str_eqb_sym (k_tenant k') (k_tenant k)).
      destruct (str_eqb (k_tenant k) (k_tenant k')) eqn:E; cbn [andb negb]; auto.
      apply str_eqb_eq in E. rewrite <- E, G.
      assert (ci' = []) by (destruct ci'; [reflexivity|cbn [length] in Es; lia]).
      symmetry. rewrite <- (ci_remove_mem ci (k_group k) (k_data k)) by exact Wc.
      rewrite <- Ec, H. reflexivity.
    + rewrite (get_put _ SOK), cmp_match_eqb, (str_eqb_sym (k_tenant k') (k_tenant k)).
      destruct (str_eqb (k_tenant k) (k_tenant k')) eqn:E; cbn [andb negb]; auto.
      apply str_eqb_eq in E. rewrite <- E, G. rewrite Ec. apply ci_remove_mem. exact Wc.
  - cbn [snd]. destruct (str_eqb (k_tenant k) (k_tenant k')) eqn:E; cbn [andb negb]; auto.
    apply str_eqb_eq in E. rewrite <- E, G. rewrite andb_false_r. reflexivity.
Qed.

Lemma ti_remove_wf t k : ti_wf t -> ti_wf (snd (ti_remove t k)).
Proof.
  intros [W F]. unfold ti_remove.
  destruct (sm_get str_cmp (ti_groups t) (k_tenant k)) as [ci|] eqn:G; [|split; auto].
  assert (Wc : ci_wf ci) by apply (Forall_get _ SOK _ _ _ _ F G).
  destruct (ci_remove ci (k_group k) (k_data k)) as [[b gsz] ci'] eqn:R. cbn [snd].
  assert (Ec : ci' = snd (ci_remove ci (k_group k) (k_data k))) by (rewrite R; reflexivity).
  destruct (gsz =? 0).
  - split; cbn [ti_groups]; [apply wf_del; auto|apply del_Forall; auto].
  - split; cbn [ti_groups]; [apply (wf_put _ SOK); auto|]. apply Forall_put; auto. cbn [snd].
    rewrite Ec. apply ci_remove_wf. exact Wc.
Qed.

Lemma ti_wf_new : ti_wf ti_new.
Proof. split; cbn; auto. Qed.

Lemma ti_mem_new k : ti_mem ti_new k = false.
Proof. reflexivity. Qed.

(** the key list enumerates exactly the members, once each *)
Lemma in_data_keys tenant g set k : sm_wf str_cmp set ->
  (In k (data_keys tenant g set) <-> k_tenant k = tenant /\ k_group k = g /\ ss_mem str_cmp set (k_data k) = true).
Proof.
  intros W. unfold data_keys, ss_mem. rewrite in_map_iff, (mem_get _ (V:=unit)). split.
  - intros [[d u] [E I]]. subst k. cbn [k_tenant k_group k_data fst]. repeat split; auto.
    rewrite (in_get_some _ SOK _ _ _ W I). discriminate.
  - intros [<- [<- G]]. destruct (sm_get str_cmp set (k_data k)) as [u|] eqn:E; [|contradiction].
    exists (k_data k, u). split; [destruct k; reflexivity|]. apply (get_some_in _ SOK). exact E.
Qed.

Lemma in_ci_keys tenant ci k : ci_wf ci ->
  (In k (ci_keys tenant ci) <-> k_tenant k = tenant /\ ci_mem ci (k_group k) (k_data k) = true).
Proof.
  intros [W F]. unfold ci_keys, ci_mem. rewrite in_concat. split.
  - intros [l [Il Ik]]. apply in_map_iff in Il. destruct Il as [[g set] [<- I]]. cbn [fst snd] in Ik.
    fold (data_keys tenant g set) in Ik.
    assert (Ws : sm_wf str_cmp set) by (rewrite Forall_forall in F; apply (F _ I)).
    apply in_data_keys in Ik; auto. destruct Ik as [E1 [E2 M]]. split; auto.
    rewrite E2, (in_get_some _ SOK _ _ _ W I). exact M.
  - intros [E M]. destruct (sm_get str_cmp ci (k_group k)) as [set|] eqn:G; [|discriminate].
    exists (data_keys tenant (k_group k) set). split.
    + apply in_map_iff. exists (k_group k, set). split; [reflexivity|]. apply (get_some_in _ SOK). exact G.
    + apply in_data_keys; auto. apply (Forall_get _ SOK _ _ _ _ F G).
Qed.

Theorem in_ti_keys t k : ti_wf t -> (In k (ti_keys t) <-> ti_mem t k = true).
Proof.
  intros [W F]. rewrite ti_mem_ci. unfold ti_keys. rewrite in_concat. split.
  - intros [l [Il Ik]]. apply in_map_iff in Il. destruct Il as [[tenant ci] [<- I]]. cbn [fst snd] in Ik.
    assert (Wc : ci_wf ci) by (rewrite Forall_forall in F; apply (F _ I)).
    apply in_ci_keys in Ik; auto. destruct Ik as [E M].
    rewrite E, (in_get_some _ SOK _ _ _ W I). exact M.
  - intros M. destruct (sm_get str_cmp (ti_groups t) (k_tenant k)) as [ci|] eqn:G; [|discriminate].
    exists (ci_keys (k_tenant k) ci). split.
    + apply in_map_iff. exists (k_tenant k, ci). split; [reflexivity|]. apply (get_some_in _ SOK). exact G.
    + apply in_ci_keys; auto. apply (Forall_get _ SOK _ _ _ _ F G).
Qed.

Lemma NoDup_data_keys tenant g set : sm_wf str_cmp set -> NoDup (data_keys tenant g set).
Proof.
  intros W. unfold data_keys.
  replace (map (fun d : str * unit => mkKey (fst d) g tenant) set)
    with (map (fun d => mkKey d g tenant) (map fst set)) by (rewrite map_map; reflexivity).
  apply Injective_map_NoDup.
  - intros a b E. inversion E. reflexivity.
  - apply (wf_NoDup_keys _ SOK). exact W.
Qed.

Lemma NoDup_ci_keys tenant ci : ci_wf ci -> NoDup (ci_keys tenant ci).
Proof.
  intros [W F]. unfold ci_keys.
  apply (NoDup_concat_tagged k_group _ fst).
  - apply (wf_NoDup_keys _ SOK). exact W.
  - intros [g set] I. cbn [fst snd]. apply (NoDup_data_keys tenant g set).
    rewrite Forall_forall in F. apply (F _ I).
  - intros [g set] e I Ie. cbn [fst snd] in *. apply in_map_iff in Ie.
    destruct Ie as [d [<- _]]. reflexivity.
Qed.

Theorem NoDup_ti_keys t : ti_wf t -> NoDup (ti_keys t).
Proof.
  intros [W F]. unfold ti_keys.
  apply (NoDup_concat_tagged k_tenant _ fst).
  - apply (wf_NoDup_keys _ SOK). exact W.
  - intros [tenant ci] I. cbn [fst snd]. apply NoDup_ci_keys.
    rewrite Forall_forall in F. apply (F _ I).
  - intros [tenant ci] e I Ie. cbn [fst snd] in *.
    assert (Wc : ci_wf ci) by (rewrite Forall_forall in F; apply (F _ I)).
    apply in_ci_keys in Ie; auto. tauto.
Qed.

(** keys of one tenant = the listed keys with that tenant *)
Lemma in_tenant_keys t tenant k : ti_wf t ->
  (In k (tenant_keys t tenant) <-> k_tenant k = tenant /\ ti_mem t k = true).
Proof.
  intros [W F]. unfold tenant_keys. rewrite ti_mem_ci.
  destruct (sm_get str_cmp (ti_groups t) tenant) as [ci|] eqn:G.
  - rewrite in_ci_keys by apply (Forall_get _ SOK _ _ _ _ F G). split.
    + intros [E M]. rewrite E, G. auto.
    + intros [E M]. rewrite E, G in M. auto.
  - split; [contradiction|]. intros [E M]. rewrite E, G in M. discriminate.
Qed.
