(** C09: the change history of a key: newest first, bounded to the last 100, one entry per
    publish that changed the content (for histories whose routed temporary values are in
    order), and the refuting witnesses outside that hypothesis. *)
From RN Require Import Base.SMap Base.SMapProofs SM.ConfigKey SM.ConfigKeyProofs SM.ConfigIndex
     SM.ConfigIndexProofs SM.Config SM.ConfigSpec SM.ConfigProofs.
From Coq Require Import ZifyBool ZifyNat ZifyN.
Local Open Scope N_scope.

Lemma tl_skipn {A} n (l : list A) : tl (skipn n l) = skipn (S n) l.
Proof.
  revert l. induction n as [|n IH]; intros l.
  - destruct l; reflexivity.
  - destruct l; [reflexivity|]. cbn [skipn]. rewrite IH. reflexivity.
Qed.

Lemma last_n_push {A} (h : list A) x :
  (if (100 <=? length (last_n 100 h))%nat then tl (last_n 100 h) else last_n 100 h) ++ [x]
  = last_n 100 (h ++ [x]).
Proof.
  unfold last_n. rewrite app_length. cbn [length].
  destruct (Nat.le_gt_cases 100 (length h)) as [L|L].
  - assert (E : length (skipn (length h - 100) h) = 100%nat) by (rewrite skipn_length; lia).
    rewrite E. cbn [Nat.leb]. rewrite tl_skipn.
    rewrite skipn_app. replace (length h + 1 - 100 - length h)%nat with 0%nat by lia. cbn [skipn].
    replace (length h + 1 - 100)%nat with (S (length h - 100)) by lia. reflexivity.
  - replace (length h - 100)%nat with 0%nat by lia. cbn [skipn].
    destruct (100 <=? length h)%nat eqn:E; [apply Nat.leb_le in E; lia|].
    replace (length h + 1 - 100)%nat with 0%nat by lia. reflexivity.
Qed.

Lemma last_n_short {A} (h : list A) : (length h <= 100)%nat -> last_n 100 h = h.
Proof. intros L. unfold last_n. replace (length h - 100)%nat with 0%nat by lia. reflexivity. Qed.

Lemma last_n_length {A} (h : list A) : (length (last_n 100 h) <= 100)%nat.
Proof. unfold last_n. rewrite skipn_length. lia. Qed.

Section Hist.
  Variable H : str -> str.
  Hypothesis Hinj : forall a b, H a = H b -> a = b.

  (** the simulation relation for one key: store vs. specification state, given the operations
      still to come *)
  Definition rel (k : key) (s : store) (hs : hstate) (rest : list sop) : Prop :=
    match hs with
    | None => match cache_get s k with
              | None => True
              | Some v => cv_tmp v = true /\ cv_hist v = []
              end
    | Some (c, h) =>
        exists v, cache_get s k = Some v /\ cv_hist v = last_n 100 h /\
          ((cv_tmp v = false /\ cv_content v = c) \/
           (cv_tmp v = true /\ exists vp, is_add_of vp (next_on k rest) = true /\ vp <> c))
    end.

  Definition tmp_cond (k : key) (hs : hstate) (o : sop) (rest : list sop) : Prop :=
    match o with
    | OTmp k0 v _ => k0 = k ->
        (match hs with Some (c, _) => c = v | None => False end) \/ is_add_of v (next_on k rest) = true
    | _ => True
    end.

  Lemma update_hist v c hid time md5 user :
    cv_hist (update_value H v c hid time md5 user) =
    (if (100 <=? length (cv_hist v))%nat then tl (cv_hist v) else cv_hist v) ++ [mkHist hid c time user].
  Proof. reflexivity. Qed.

  Lemma rel_step k s hs o rest :
    store_inv H s -> import_bounded o -> tmp_cond k hs o rest ->
    rel k s hs (o :: rest) -> rel k (sstep H s o) (hstep k hs o) rest.
  Proof.
    intros I B C R. unfold hstep. destruct (key_eqb (op_key o) k) eqn:E.
    2:{ (* another key *)
      assert (G : cache_get (sstep H s o) k = cache_get s k) by (rewrite sstep_get, E by exact I; reflexivity).
      unfold rel in *. cbn [next_on] in R. rewrite E in R. rewrite G. exact R. }
    apply key_eqb_eq in E.
    assert (Nx : next_on k (o :: rest) = Some o) by (cbn [next_on]; rewrite E, key_eqb_refl; reflexivity).
    destruct o as [c0|k0 val now]; cbn [op_key] in E.
    - destruct c0 as [ks value ctype desc hid tid time user|ks|k0 d last]; cbn [raft_key] in E; cbn [sstep apply_raft].
      + (* publish *)
        destruct (set_config H s _) as [s' b] eqn:Es. cbn [fst].
        remember (param_of_add ks value ctype desc hid tid time user) as p eqn:Ep.
        replace s' with (fst (set_config H s p)) by (rewrite Es; reflexivity).
        assert (Ek : sp_key p = k) by (subst p; exact E).
        assert (G : cache_get (fst (set_config H s p)) k = Some (set_value H (cache_get s k) p)).
        { rewrite set_get, Ek, key_eqb_refl. reflexivity. }
        assert (Pv : sp_value p = value /\ sp_hid p = hid /\ sp_time p = time /\ sp_user p = user) by (subst p; cbn; auto).
        destruct Pv as [Pv [Ph [Pt Pu]]].
        unfold rel in *. destruct hs as [[c h]|].
        * destruct R as [v [Gv [Hv Alt]]]. rewrite Gv in G. cbn [set_value] in G. cbv zeta in G.
          assert (Mv : cv_md5 v = H (cv_content v)) by apply (inv_md5 _ _ I _ _ Gv).
          assert (Push : c <> value ->
                   (cv_tmp v = true \/ cv_content v = c) ->
                   negb (cv_tmp (with_meta v (sp_type p) (sp_desc p))) &&
                   str_eqb (cv_md5 (with_meta v (sp_type p) (sp_desc p))) (H (sp_value p)) = false ->
                   exists v0, cache_get (fst (set_config H s p)) k = Some v0 /\
                              cv_hist v0 = last_n 100 (h ++ [mkHist hid value time user]) /\
                              (cv_tmp v0 = false /\ cv_content v0 = value \/
                               cv_tmp v0 = true /\ (exists vp, is_add_of vp (next_on k rest) = true /\ vp <> value))).
          { intros Ne _ Cf. rewrite Cf in G. eexists. split; [exact G|]. split.
            - rewrite update_hist. unfold with_meta. cbn [cv_hist]. rewrite Hv, Pv, Ph, Pt, Pu. apply last_n_push.
            - left. cbn. rewrite Pv. auto. }
          destruct Alt as [[Tf Cc]|[Tt [vp [Ia Ne]]]].
          -- destruct (str_eqb c value) eqn:Cv.
             ++ apply str_eqb_eq in Cv. rewrite <- Cv in *. clear Cv.
                assert (Ct : negb (cv_tmp (with_meta v (sp_type p) (sp_desc p))) &&
                             str_eqb (cv_md5 (with_meta v (sp_type p) (sp_desc p))) (H (sp_value p)) = true).
                { unfold with_meta. cbn [cv_tmp cv_md5]. rewrite Tf, Mv, Cc, Pv, str_eqb_refl. reflexivity. }
                rewrite Ct in G. eexists. split; [exact G|]. split; [exact Hv|]. left. cbn. auto.
             ++ apply Push; auto.
                ** apply str_eqb_neq. exact Cv.
                ** unfold with_meta. cbn [cv_tmp cv_md5]. rewrite Tf, Mv, Cc, Pv. cbn [negb andb].
                   apply str_eqb_neq. intros E2. apply Hinj in E2. apply str_eqb_neq in Cv. contradiction.
          -- rewrite Nx in Ia. cbn [is_add_of] in Ia. apply str_eqb_eq in Ia. subst vp.
             assert (Cv : str_eqb c value = false) by (apply str_eqb_neq; congruence).
             rewrite Cv. apply Push; auto.
             unfold with_meta. cbn [cv_tmp]. rewrite Tt. reflexivity.
        * destruct (cache_get s k) as [v|] eqn:Gv.
          -- destruct R as [Tt Hv]. cbn [set_value] in G. cbv zeta in G.
             assert (Cf : negb (cv_tmp (with_meta v (sp_type p) (sp_desc p))) &&
                          str_eqb (cv_md5 (with_meta v (sp_type p) (sp_desc p))) (H (sp_value p)) = false).
             { unfold with_meta. cbn [cv_tmp]. rewrite Tt. reflexivity. }
             rewrite Cf in G. eexists. split; [exact G|]. split.
             ++ rewrite update_hist. unfold with_meta. cbn [cv_hist]. rewrite Hv, Pv, Ph, Pt, Pu. reflexivity.
             ++ left. cbn. rewrite Pv. auto.
          -- cbn [set_value] in G. eexists. split; [exact G|]. cbn. rewrite Pv, Ph, Pt, Pu. split; auto.
      + (* remove *)
        cbn [fst]. unfold rel. rewrite del_get by apply I. rewrite E, key_eqb_refl. exact Logic.I.
      + (* import *)
        cbn [fst]. subst k0.
        assert (G : cache_get (inner_set_config s k (value_of_do H d)) k = Some (value_of_do H d))
          by (rewrite inner_get, key_eqb_refl; reflexivity).
        assert (G2 : cache_get (match last with
                                | Some l => mkStore (st_cache (inner_set_config s k (value_of_do H d)))
                                                    (st_index (inner_set_config s k (value_of_do H d)))
                                                    (set_valid_last_id (st_seq (inner_set_config s k (value_of_do H d))) l)
                                | None => inner_set_config s k (value_of_do H d) end) k = Some (value_of_do H d))
          by (destruct last; exact G).
        unfold rel. eexists. split; [exact G2|]. cbn [import_bounded] in B. split.
        * cbn. symmetry. apply last_n_short. exact B.
        * left. cbn. auto.
    - (* routed temporary value *)
      subst k0. cbn [sstep]. cbn [tmp_cond] in C. specialize (C eq_refl).
      assert (G : cache_get (set_tmp_config H s k val now) k = Some (tmp_value H (cache_get s k) val now))
        by (rewrite tmp_get, key_eqb_refl by apply I; reflexivity).
      unfold rel in *. destruct hs as [[c h]|].
      + destruct R as [v [Gv [Hv Alt]]]. rewrite Gv in G. cbn [tmp_value] in G.
        assert (Mv : cv_md5 v = H (cv_content v)) by apply (inv_md5 _ _ I _ _ Gv).
        destruct Alt as [[Tf Cc]|[Tt [vp [Ia Ne]]]].
        * destruct (str_eqb (cv_md5 v) (H val)) eqn:Cm.
          -- eexists. split; [exact G|]. split; [exact Hv|]. left. auto.
          -- eexists. split; [exact G|]. split; [exact Hv|]. right. cbn. split; auto.
             destruct C as [C|C].
             ++ subst val. rewrite Mv, Cc, str_eqb_refl in Cm. discriminate.
             ++ exists val. split; [exact C|]. intros E2. subst val. rewrite Mv, Cc, str_eqb_refl in Cm. discriminate.
        * rewrite Nx in Ia. cbn [is_add_of] in Ia. discriminate.
      + destruct (cache_get s k) as [v|] eqn:Gv.
        * destruct R as [Tt Hv]. rewrite G. cbn [tmp_value]. destruct (str_eqb (cv_md5 v) (H val)); cbn; auto.
        * rewrite G. cbn. auto.
  Qed.

  Lemma rel_run k ops : forall s (st : key -> hstate),
    store_inv H s -> (forall o, In o ops -> import_bounded o) -> tmp_in_order st ops ->
    rel k s (st k) ops -> rel k (srun_from H s ops) (fold_left (hstep k) ops (st k)) [].
  Proof.
    induction ops as [|o ops IH]; intros s st I B T R; cbn [srun_from fold_left]; auto.
    fold (srun_from H (sstep H s o) ops). cbn [tmp_in_order] in T. destruct T as [T1 T2].
    apply (IH (sstep H s o) (fun k' => hstep k' (st k') o)).
    - apply sstep_inv. exact I.
    - intros o' In'. apply B. right. exact In'.
    - exact T2.
    - apply rel_step; auto.
      + apply B. left. reflexivity.
      + destruct o as [c|k0 v now]; cbn [tmp_cond]; auto. intros ->. exact T1.
  Qed.

  Theorem history_one_per_change ops k :
    (forall o, In o ops -> import_bounded o) -> tmp_in_order (fun _ => None) ops ->
    stored_hist (srun H ops) k = last_n 100 (hist_spec ops k).
  Proof.
    intros B T. pose proof (rel_run k ops store_new (fun _ => None) (inv_new H) B T) as R.
    cbv beta in R. specialize (R Logic.I). unfold srun, stored_hist, hist_spec, hist_state.
    unfold rel in R. destruct (fold_left (hstep k) ops None) as [[c h]|].
    - destruct R as [v [G [Hv _]]]. rewrite G. exact Hv.
    - destruct (cache_get (srun_from H store_new ops) k) as [v|]; [|reflexivity]. destruct R as [_ R]. exact R.
  Qed.

  Theorem history_bounded_100 ops k :
    (forall o, In o ops -> import_bounded o) -> tmp_in_order (fun _ => None) ops ->
    (length (stored_hist (srun H ops) k) <= 100)%nat.
  Proof. intros B T. rewrite history_one_per_change by assumption. apply last_n_length. Qed.
End Hist.

(** the history page is the slice [offset, offset+limit) of the stored history, newest first *)
Theorem history_page_newest_first s k off lim :
  get_history_page s k (Some off) (Some lim) =
  (N.of_nat (length (stored_hist s k)), firstn (N.to_nat lim) (skipn (N.to_nat off) (rev (stored_hist s k)))).
Proof.
  unfold get_history_page, stored_hist. destruct (cache_get s k); [reflexivity|].
  cbn. rewrite skipn_nil, firstn_nil. reflexivity.
Qed.

(** * outside the hypothesis: the known finding, as refuting witnesses *)
Definition W_k : key := mkKey [100] [103] [116].
Definition W_ks : str := build_key W_k.
Definition w_add (c : str) (hid : N) : sop := ORaft (ConfigAdd W_ks c None None hid None 0 None).

(** [apply v1; apply v2; SetTmpValue v1]: the follower serves v1 while v2 is the committed value *)
Lemma tmp_overtake_refuted :
  let H := fun c : str => c in
  let ops := [w_add [1] 1; w_add [2] 2; OTmp W_k [1] 0] in
  get4 (srun H ops) W_k <> get4 (srun H (filter (fun o => negb (is_tmp o)) ops)) W_k
  /\ ~ tmp_in_order (fun _ => None) ops.
Proof.
  split.
  - vm_compute. discriminate.
  - cbn. intros [_ [_ [[F|F] _]]]; [vm_compute in F; discriminate|discriminate].
Qed.

(** ... and the next identical publish adds a history entry the leader does not have *)
Lemma history_one_per_change_refuted :
  let H := fun c : str => c in
  let ops := [w_add [1] 1; w_add [2] 2; OTmp W_k [1] 0; w_add [2] 3] in
  stored_hist (srun H ops) W_k <> last_n 100 (hist_spec ops W_k).
Proof. vm_compute. discriminate. Qed.

(** a temporary value that runs ahead of a FOREIGN earlier commit of the same content as the
    stored one also adds a spurious entry *)
Lemma history_tmp_ahead_refuted :
  let H := fun c : str => c in
  let ops := [w_add [1] 1; OTmp W_k [2] 0; w_add [1] 2; w_add [2] 3] in
  stored_hist (srun H ops) W_k <> last_n 100 (hist_spec ops W_k).
Proof. vm_compute. discriminate. Qed.

(** the hypotheses are satisfiable by a non-trivial history (tmp ahead of its own commit, a
    late tmp, an import, a remove) *)
Example history_hypotheses_satisfiable :
  let ops := [OTmp W_k [1] 0; w_add [1] 1; OTmp W_k [1] 0; w_add [2] 2;
              ORaft (SetFullValue W_k (mkDO [3] [mkHist 7 [3] 0 None] None None) None);
              ORaft (ConfigRemove W_ks); w_add [4] 9] in
  (forall o, In o ops -> import_bounded o) /\ tmp_in_order (fun _ => None) ops.
Proof.
  split.
  - intros o I. cbn in I. repeat (destruct I as [<-|I]; [cbn; auto; lia|]). contradiction.
  - cbn [tmp_in_order]. repeat split; auto;
      first [right; vm_compute; reflexivity | left; vm_compute; reflexivity].
Qed.
