(** Script evaluator for the NamespaceActor model (correspondence harness, suite `ns`): raft requests,
    weak-namespace notifications, snapshots, a fresh actor, and loading a snapshot over the LIVE state. *)
From RN Require Import SM.ConcreteNs.
Local Open Scope N_scope.

Inductive nsop :=
| OReq (r : nsreq)
| OWeak (id : str) (flag : N)
| OUnweak (id : str) (flag : N)
| OSnap (sid : N)
| OFresh
| OLoad (sid : N).

(** observation after every op: the namespaces as (id, name, flag), sorted by id, and already_sync *)
Definition ns_obs (s : nsstate) : list (str * str * N) * bool :=
  (map (fun kv => (fst kv, ns_name (snd kv), ns_flag (snd kv))) (ns_data s), ns_already s).

Fixpoint ns_run (s : nsstate) (snaps : list (N * list record)) (ops : list nsop) : list (list (str * str * N) * bool) :=
  match ops with
  | [] => []
  | o :: r =>
      let '(s', snaps') :=
        match o with
        | OReq q => (ns_apply s q, snaps)
        | OWeak id f => (ns_set_weak s id f, snaps)
        | OUnweak id f => (ns_remove s id f, snaps)
        | OSnap sid => (s, (sid, ns_snapshot s) :: snaps)
        | OFresh => (ns_init, snaps)
        | OLoad sid =>
            match find (fun e => fst e =? sid) snaps with
            | Some e => (fold_left ns_load (snd e) s, snaps)
            | None => (s, snaps)
            end
        end in
      ns_obs s' :: ns_run s' snaps' r
  end.
