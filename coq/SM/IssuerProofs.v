(** C19, round 7 — the issuer of config history ids as ConfigActor drives SimpleSequence:
    publish = next_state, import = next_section, a replicated mark arriving = set_valid_last_id.
    For EVERY such history: ids strictly increase, and every id handed out is at or below the
    highest mark replicated so far (so a node rebuilt from the marks, which continues at
    mark+1, can never hand one of them out again). *)
From RN Require Import SM.Sequence.
From Coq Require Import Lia ZifyBool ZifyN.
Local Open Scope N_scope.

Inductive iop := IPublish | IImport (size : N) | IMark (v : N).

(** observer state: sequence, highest mark seen (None before the first), ids handed out (newest first) *)
Record ist := mkI { i_seq : sseq; i_top : option N; i_ids : list N }.

Definition top_max (t : option N) (v : N) : option N :=
  match t with Some x => Some (N.max x v) | None => Some v end.

Definition istep (st : ist) (o : iop) : option ist :=
  match o with
  | IPublish =>
      match next_state (i_seq st) with
      | None => None                                            (* batch_size = 0: u64 underflow *)
      | Some (s', (id, upd)) =>
          Some (mkI s' (match upd with Some m => top_max (i_top st) m | None => i_top st end) (id :: i_ids st))
      end
  | IImport size =>
      let '(s', (a, b)) := next_section (i_seq st) size in
      if size =? 0 then Some st
      else Some (mkI s' (top_max (i_top st) b) (b :: (if size =? 1 then [] else [a]) ++ i_ids st))   (* the ids a..b; both ends recorded *)
  | IMark v => Some (mkI (set_valid_last_id (i_seq st) v) (top_max (i_top st) v) (i_ids st))
  end.

Fixpoint irun (st : ist) (ops : list iop) : option ist :=
  match ops with
  | [] => Some st
  | o :: r => match istep st o with Some st' => irun st' r | None => None end
  end.

Definition covered (t : option N) (x : N) : Prop := exists m, t = Some m /\ x <= m.

(** invariant: the reserved window lies below the highest mark, every id handed out lies at or
    below the sequence position and below the highest mark *)
Definition IInv (st : ist) : Prop :=
  (sq_cache (i_seq st) = 0 \/ covered (i_top st) (sq_last (i_seq st) + sq_cache (i_seq st))) /\
  (forall x, In x (i_ids st) -> x <= sq_last (i_seq st) /\ covered (i_top st) x) /\
  0 < sq_batch (i_seq st).

Lemma covered_mono t v x : covered t x -> covered (top_max t v) x.
Proof. intros [m [E L]]. subst t. exists (N.max m v). split; [reflexivity|lia]. Qed.

Lemma covered_new t v x : x <= v -> covered (top_max t v) x.
Proof. intros L. destruct t as [m|]; cbn [top_max]; eexists; (split; [reflexivity|lia]). Qed.

Lemma IInv_init l b : 0 < b -> IInv (mkI (sseq_new l b) None []).
Proof. intros Hb. split; [left; reflexivity|]. split; [intros x []|exact Hb]. Qed.

Lemma IInv_step st o st' : IInv st -> istep st o = Some st' -> IInv st'.
Proof.
  unfold IInv. intros (Hw & Hids & Hb) E. destruct st as [[c b l] t ids]. cbn [i_seq i_top i_ids sq_cache sq_batch sq_last] in *.
  destruct o as [|size|v]; cbn [istep i_seq i_top i_ids] in E.
  - unfold next_state in E. cbn [sq_cache sq_batch sq_last] in E.
    destruct (c =? 0) eqn:Ec.
    + destruct (b =? 0) eqn:Eb; [discriminate|]. injection E as <-. cbn [i_seq i_top i_ids sq_cache sq_batch sq_last].
      split; [right; apply covered_new; lia|]. split; [|exact Hb].
      intros x [<-|Hx]; [split; [lia|apply covered_new; lia]|].
      destruct (Hids x Hx) as [L C]. split; [lia|apply covered_mono; exact C].
    + destruct (c =? 0) eqn:Ec2; [discriminate|]. injection E as <-. cbn [i_seq i_top i_ids sq_cache sq_batch sq_last].
      destruct Hw as [Hw|Hw]; [lia|]. destruct Hw as [m [Et Lm]].
      split; [right; exists m; split; [exact Et|lia]|]. split; [|exact Hb].
      intros x [<-|Hx]; [split; [lia|exists m; split; [exact Et|lia]]|].
      destruct (Hids x Hx) as [L C]. split; [lia|exact C].
  - unfold next_section in E. cbn [sq_cache sq_batch sq_last] in E. destruct (size =? 0) eqn:Es.
    + injection E as <-. split; [exact Hw|split; [exact Hids|exact Hb]].
    + injection E as <-. cbn [i_seq i_top i_ids sq_cache sq_batch sq_last].
      split; [left; reflexivity|]. split; [|exact Hb].
      intros x [<-|Hx]; [split; [lia|apply covered_new; lia]|].
      apply in_app_or in Hx as [Hx|Hx].
      * destruct (size =? 1); [destruct Hx|]. destruct Hx as [<-|[]]. split; [lia|apply covered_new; lia].
      * destruct (Hids x Hx) as [L C]. split; [lia|apply covered_mono; exact C].
  - injection E as <-. cbn [i_seq i_top i_ids]. unfold set_valid_last_id. cbn [sq_cache sq_batch sq_last].
    destruct (l + c <? v) eqn:Ev; cbn [sq_cache sq_batch sq_last].
    + split; [left; reflexivity|]. split; [|exact Hb].
      intros x Hx. destruct (Hids x Hx) as [L C]. split; [lia|apply covered_mono; exact C].
    + split; [destruct Hw as [Hw|Hw]; [left; exact Hw|right; apply covered_mono; exact Hw]|]. split; [|exact Hb].
      intros x Hx. destruct (Hids x Hx) as [L C]. split; [exact L|apply covered_mono; exact C].
Qed.

(** ids newest-first are strictly decreasing = handed out strictly increasing *)
Fixpoint strictly_desc (l : list N) : Prop :=
  match l with
  | [] => True
  | x :: r => (forall y, In y r -> y < x) /\ strictly_desc r
  end.

Lemma istep_ids_desc st o st' : IInv st -> strictly_desc (i_ids st) -> istep st o = Some st' -> strictly_desc (i_ids st').
Proof.
  intros HI Hd E. pose proof HI as (Hw & Hids & Hb).
  destruct st as [[c b l] t ids]. cbn [i_seq i_top i_ids sq_cache sq_batch sq_last] in *.
  destruct o as [|size|v]; cbn [istep i_seq i_top i_ids] in E.
  - unfold next_state in E. cbn [sq_cache sq_batch sq_last] in E.
    destruct (c =? 0); [destruct (b =? 0); [discriminate|]|destruct (c =? 0); [discriminate|]];
      injection E as <-; cbn [i_ids strictly_desc]; (split; [|exact Hd]); intros y Hy; destruct (Hids y Hy); lia.
  - unfold next_section in E. cbn [sq_cache sq_batch sq_last] in E. destruct (size =? 0) eqn:Es; injection E as <-; [exact Hd|].
    cbn [i_ids]. destruct (size =? 1) eqn:E1; cbn [app strictly_desc].
    + split; [|exact Hd]. intros y Hy. destruct (Hids y Hy). lia.
    + split; [|split; [|exact Hd]].
      * intros y [<-|Hy]; [lia|]. destruct (Hids y Hy). lia.
      * intros y Hy. destruct (Hids y Hy). lia.
  - injection E as <-. exact Hd.
Qed.

(** every history *)
Lemma irun_inv ops : forall st st', IInv st -> strictly_desc (i_ids st) -> irun st ops = Some st' ->
  IInv st' /\ strictly_desc (i_ids st').
Proof.
  induction ops as [|o r IH]; intros st st' HI Hd E; cbn [irun] in E.
  - injection E as <-. split; assumption.
  - destruct (istep st o) as [st1|] eqn:E1; [|discriminate].
    apply (IH st1 st'); [exact (IInv_step _ _ _ HI E1)|exact (istep_ids_desc _ _ _ HI Hd E1)|exact E].
Qed.

Theorem issuer_ids_increase_and_covered : forall l b ops st,
  0 < b -> irun (mkI (sseq_new l b) None []) ops = Some st ->
  strictly_desc (i_ids st) /\
  (forall x, In x (i_ids st) -> exists m, i_top st = Some m /\ x <= m) /\
  (* a node rebuilt from the marks continues strictly above every id handed out *)
  (forall x m, In x (i_ids st) -> i_top st = Some m ->
     forall s' id upd, next_state (set_valid_last_id (sseq_new 0 b) m) = Some (s', (id, upd)) -> x < id).
Proof.
  intros l b ops st Hb E.
  destruct (irun_inv ops _ _ (IInv_init l b Hb) I E) as [(Hw & Hids & Hb') Hd].
  split; [exact Hd|]. split.
  - intros x Hx. destruct (Hids x Hx) as [_ C]. exact C.
  - intros x m Hx Et s' id upd En. destruct (Hids x Hx) as [_ [m' [Et' L]]]. rewrite Et in Et'. injection Et' as <-.
    unfold set_valid_last_id, sseq_new in En. cbn [sq_cache sq_batch sq_last] in En.
    destruct (0 + 0 <? m) eqn:Em; unfold next_state in En; cbn [sq_cache sq_batch sq_last] in En;
      rewrite N.eqb_refl in En; destruct (b =? 0); try discriminate; injection En as _ <- _; lia.
Qed.

(** the batch-size-0 sequence cannot issue at all (u64 underflow in the code): the premise is needed *)
Example issuer_batch0_stuck : irun (mkI (sseq_new 5 0) None []) [IPublish] = None.
Proof. reflexivity. Qed.

Example issuer_example :
  option_map (fun st => (i_ids st, i_top st))
    (irun (mkI (sseq_new 100 3) None []) [IPublish; IPublish; IImport 5; IImport 1; IPublish; IMark 200; IPublish])
  = Some ([201; 109; 108; 107; 103; 102; 101], Some 203).
Proof. vm_compute. reflexivity. Qed.

(** the seeded change C18h-m4 (next_section keeps cache_size): the statement is false of it *)
Definition next_section_keepcache (s : sseq) (size : N) : sseq * (N * N) :=
  if size =? 0 then (s, (0, 0))
  else let start := sq_last s + 1 in let end_ := start + size - 1 in
       (mkSeq (sq_cache s) (sq_batch s) end_, (start, end_)).

Lemma keepcache_refuted : exists s0 s1 s2 a b id upd m,
  next_state (sseq_new 100 7) = Some (s0, (101, Some m)) /\
  next_section_keepcache s0 10 = (s1, (a, b)) /\ next_state s1 = Some (s2, (id, upd)) /\
  upd = None /\ N.max m b < id.
Proof.
  exists (mkSeq 6 7 101), (mkSeq 6 7 111), (mkSeq 5 7 112), 102, 111, 112, None, 107.
  vm_compute. repeat split.
Qed.
