(** Vocabulary of the snapshot fan-out tables that translators/snapshot.py generates
    (Gen/SnapshotTables.v).  Model only: no proofs. *)
From Coq Require Export List String Bool Ascii NArith.
Export ListNotations.

(** the seven state-machine components behind RaftDataHandler *)
Inductive comp := KSequence | KConfig | KTable | KNamespace | KMcp | KNaming | KCache.

Definition comp_eqb (a b : comp) : bool :=
  match a, b with
  | KSequence, KSequence | KConfig, KConfig | KTable, KTable | KNamespace, KNamespace
  | KMcp, KMcp | KNaming, KNaming | KCache, KCache => true
  | _, _ => false
  end.

(** how load_snapshot hands a record to its component *)
Inductive load_msg :=
| LLoadRecord       (* RaftApplyDataRequest::LoadSnapshotRecord(record) *)
| LSetFullValue     (* ConfigCmd::SetFullValue(key, ConfigValueDO::from_bytes(value)) *)
| LInnerSetLastId   (* ConfigCmd::InnerSetLastId(bin_to_id(value)) *)
| LTableSet.        (* TableManagerReq::Set{table_name: <the tree>, key, value, last_seq_id: None} *)

(** test on the record key inside an arm *)
Inductive key_cond := KAny | KIs (k : string).

Record load_arm := mkArm { a_tree : string; a_key : key_cond; a_comp : comp; a_msg : load_msg }.

(** tree of a SnapshotRecordDto literal in a component's source *)
Inductive wtree :=
| WTree (name : string)                 (* a constant tree name, any key *)
| WTreeKey (name : string) (key : string)  (* a constant tree name with a constant key *)
| WTableName.                           (* TableManager: the table's own name *)

(** tree names and keys of records are byte strings (SnapshotRecordDto.tree: String,
    .key: Vec<u8>); the generated tables hold the literals as Coq strings *)
Definition bytes_of_lit (s : string) : list N := map N_of_ascii (list_ascii_of_string s).

Fixpoint bytes_eqb (a b : list N) : bool :=
  match a, b with
  | [], [] => true
  | x :: a', y :: b' => N.eqb x y && bytes_eqb a' b'
  | _, _ => false
  end.

(** `record.tree.as_str() == X.as_str()`; inside the T_SEQUENCE arm
    `String::from_utf8_lossy(&record.key) == SEQ_KEY_CONFIG` — an ASCII literal equals the lossy
    conversion exactly when the key bytes are the literal's bytes *)
Definition key_matches (c : key_cond) (key : list N) : bool :=
  match c with KAny => true | KIs k => bytes_eqb (bytes_of_lit k) key end.

(** first matching arm; a record is described by its tree name and its key *)
Fixpoint route (arms : list load_arm) (tree key : list N) : option (comp * load_msg) :=
  match arms with
  | [] => None
  | a :: rest =>
      if bytes_eqb (bytes_of_lit (a_tree a)) tree && key_matches (a_key a) key
      then Some (a_comp a, a_msg a) else route rest tree key
  end.
