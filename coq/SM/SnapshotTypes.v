(** Vocabulary of the snapshot fan-out tables that translators/snapshot.py generates
    (Gen/SnapshotTables.v).  Model only: no proofs. *)
From Coq Require Export List String Bool.
Export ListNotations.

(** the seven state-machine components behind RaftDataHandler *)
Inductive comp := KSequence | KConfig | KTable | KNamespace | KMcp | KNaming | KCache.

Definition comp_eqb (a b : comp) : bool :=
  match a, b with
  | KSequence, KSequence | KConfig, KConfig | KTable, KTable | KNamespace, KNamespace
  | KMcp, KMcp | KNaming, KNaming | KCache, KCache => true
  | _, _ => false
  end.

(** how load_snapshot hands a record to its component *)
Inductive load_msg :=
| LLoadRecord       (* RaftApplyDataRequest::LoadSnapshotRecord(record) *)
| LSetFullValue     (* ConfigCmd::SetFullValue(key, ConfigValueDO::from_bytes(value)) *)
| LInnerSetLastId   (* ConfigCmd::InnerSetLastId(bin_to_id(value)) *)
| LTableSet.        (* TableManagerReq::Set{table_name: <the tree>, key, value, last_seq_id: None} *)

(** test on the record key inside an arm *)
Inductive key_cond := KAny | KIs (k : string).

Record load_arm := mkArm { a_tree : string; a_key : key_cond; a_comp : comp; a_msg : load_msg }.

(** tree of a SnapshotRecordDto literal in a component's source *)
Inductive wtree :=
| WTree (name : string)                 (* a constant tree name, any key *)
| WTreeKey (name : string) (key : string)  (* a constant tree name with a constant key *)
| WTableName.                           (* TableManager: the table's own name *)

(** first matching arm; a record is described by its tree name and its key (as a string) *)
Definition key_matches (c : key_cond) (key : string) : bool :=
  match c with KAny => true | KIs k => String.eqb k key end.

Fixpoint route (arms : list load_arm) (tree key : string) : option (comp * load_msg) :=
  match arms with
  | [] => None
  | a :: rest =>
      if String.eqb (a_tree a) tree && key_matches (a_key a) key
      then Some (a_comp a, a_msg a) else route rest tree key
  end.
