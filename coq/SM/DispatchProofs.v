(** Proofs about SM/Dispatch.v: FIFO mailboxes + deterministic handlers make the three
    delivery paths equivalent (C07). *)
From RN Require Import SM.Dispatch.
From Coq Require Import NArith Lia.

(** * facts about the vocabulary *)
Lemma actor_eqb_refl a : actor_eqb a a = true.
Proof. destruct a; reflexivity. Qed.

Lemma actor_eqb_eq a b : actor_eqb a b = true <-> a = b.
Proof. split; [destruct a, b; simpl; congruence | intros ->; apply actor_eqb_refl]. Qed.

Lemma actor_eqb_sym a b : actor_eqb a b = actor_eqb b a.
Proof. destruct a, b; reflexivity. Qed.

Lemma actor_eqb_neq a b : actor_eqb a b = false <-> a <> b.
Proof.
  split.
  - intros H E. subst. rewrite actor_eqb_refl in H. discriminate.
  - intros H. destruct (actor_eqb a b) eqn:E; [apply actor_eqb_eq in E; contradiction | reflexivity].
Qed.

(** Prop version of [row_same_dispatch] *)
Definition same_dispatch (a b : row) : Prop :=
  r_variant a = r_variant b /\ r_binders a = r_binders b /\ r_prep a = r_prep b /\
  r_actor a = r_actor b /\ r_ctor a = r_ctor b /\ r_wiring a = r_wiring b.

(** two tables handle every variant, and in the same way up to delivery mode / response *)
Definition tables_agree (t1 t2 : list row) : Prop :=
  forall v, exists r1 r2, lookup t1 v = Some r1 /\ lookup t2 v = Some r2 /\ same_dispatch r1 r2.

(** the only fallible preparation sits in the ConfigFullValue arm *)
Definition well_prepped (t : list row) : Prop :=
  forall v rw, lookup t v = Some rw -> r_prep rw = PDecodeFull -> v = VConfigFullValue.

Lemma leader_follower_agree : tables_agree leader_table follower_table.
Proof. intros v; destruct v; vm_compute; do 2 eexists; repeat split. Qed.

Lemma leader_replay_agree : tables_agree leader_table replay_table.
Proof. intros v; destruct v; vm_compute; do 2 eexists; repeat split. Qed.

Lemma leader_well_prepped : well_prepped leader_table.
Proof. intros v rw; destruct v; vm_compute; intros H; inversion H; subst; simpl; congruence. Qed.

(** delivery modes: the follower only enqueues, the replay awaits and drops the result, the
    leader awaits and propagates — except the two index-manager messages, which it enqueues *)
Definition modes_as_documented : Prop :=
  forall v, exists rl rf rr,
    lookup leader_table v = Some rl /\ lookup follower_table v = Some rf /\ lookup replay_table v = Some rr /\
    r_mode rf = MDoSend /\ r_mode rr = MAwaitOk /\
    ((r_actor rl <> AIndex /\ r_mode rl = MAwaitErr) \/ (r_actor rl = AIndex /\ r_mode rl = MDoSend)).

Lemma modes_hold : modes_as_documented.
Proof.
  intros v; destruct v; vm_compute; do 3 eexists; repeat split;
    first [ left; split; [discriminate | reflexivity] | right; split; reflexivity ].
Qed.

(** the generated enum list is exactly the model's variant type *)
Lemma enum_complete : forall v, In v enum_variants.
Proof. intros v; destruct v; vm_compute; tauto. Qed.

Lemma enum_nodup : NoDup enum_variants.
Proof. vm_compute. repeat (constructor; [simpl; intuition discriminate |]). constructor. Qed.

Section Proofs.
  Variable payload M S : Type.
  Variable build : list (string * string) -> prep -> ctor -> list (string * string) -> payload -> M.
  Variable step : actor -> S -> M -> S.
  Variable fwd : actor -> M -> list (actor * M).
  Variable decodable : payload -> bool.
  Variable handler_ok : payload -> bool.

  Notation req := (req payload).
  Notation world := (@world M S).
  Notation dispatch := (dispatch payload M build decodable).
  Notation spec_actor := (spec_actor payload M S build step decodable).
  Notation enqueue := (@enqueue M S).
  Notation run_one := (run_one M S step fwd).
  Notation drain_actor := (drain_actor M S step fwd).
  Notation run_sched := (run_sched M S step fwd).
  Notation round := (round M S step fwd).
  Notation quiesce := (quiesce M S step fwd).
  Notation deliver := (deliver M S step fwd).
  Notation leader_run := (leader_run payload M S build step fwd decodable).
  Notation follower_run := (follower_run payload M S build step fwd decodable).
  Notation batch_run := (batch_run payload M S build step fwd decodable).
  Notation replay_run := (replay_run payload M S build step fwd decodable).
  Notation prep_ok := (prep_ok payload decodable).
  Notation no_forward := (no_forward payload M build fwd decodable).
  Notation quiescent := (@quiescent M S).

  (** state of actor [b] once it has handled everything that is in its mailbox *)
  Definition pending (w : world) (b : actor) : S := fold_left (step b) (wmb w b) (wst w b).

  (** no message in any mailbox triggers a forward *)
  Definition clean (w : world) : Prop := forall a m, In m (wmb w a) -> fwd a m = [].

  Lemma upd_same {A} (f : actor -> A) a x : upd f a x a = x.
  Proof. unfold upd. now rewrite actor_eqb_refl. Qed.

  Lemma upd_other {A} (f : actor -> A) a b x : b <> a -> upd f a x b = f b.
  Proof. unfold upd. intros H. apply actor_eqb_neq in H. now rewrite H. Qed.

  Lemma pending_enqueue w a m b :
    pending (enqueue a m w) b = if actor_eqb a b then step b (pending w b) m else pending w b.
  Proof.
    unfold pending, enqueue; simpl. unfold upd. rewrite (actor_eqb_sym a b).
    destruct (actor_eqb b a) eqn:E.
    - apply actor_eqb_eq in E; subst. now rewrite fold_left_app.
    - reflexivity.
  Qed.

  Lemma clean_enqueue w a m : clean w -> fwd a m = [] -> clean (enqueue a m w).
  Proof.
    intros C F a' m'. unfold enqueue, upd; simpl.
    destruct (actor_eqb a' a) eqn:E.
    - apply actor_eqb_eq in E; subst. rewrite in_app_iff. simpl. intros [H | [H | []]]; [now apply C | now subst].
    - apply C.
  Qed.

  (** one handler step on a clean world: no forward is produced *)
  Lemma run_one_clean w a :
    clean w ->
    run_one a w = match wmb w a with
                  | [] => w
                  | m :: q => mkWorld (upd (wst w) a (step a (wst w a) m)) (upd (wmb w) a q)
                  end.
  Proof.
    intros C. unfold Dispatch.run_one. destruct (wmb w a) as [| m q] eqn:E; [reflexivity |].
    rewrite (C a m); [reflexivity |]. rewrite E. now left.
  Qed.

  Lemma run_one_inv w a :
    clean w -> clean (run_one a w) /\ (forall b, pending (run_one a w) b = pending w b).
  Proof.
    intros C. rewrite run_one_clean by assumption.
    destruct (wmb w a) as [| m q] eqn:E; [split; [assumption | reflexivity] |].
    split.
    - intros a' m'. simpl. unfold upd. destruct (actor_eqb a' a) eqn:E'.
      + apply actor_eqb_eq in E'; subst. intros H. apply (C a m'). rewrite E. now right.
      + apply C.
    - intros b. unfold pending; simpl. unfold upd. destruct (actor_eqb b a) eqn:E'.
      + apply actor_eqb_eq in E'; subst. now rewrite E.
      + reflexivity.
  Qed.

  Lemma run_one_mb w a b :
    clean w -> wmb (run_one a w) b = if actor_eqb b a then tl (wmb w a) else wmb w b.
  Proof.
    intros C. rewrite run_one_clean by assumption.
    destruct (wmb w a) as [| m q] eqn:E.
    - destruct (actor_eqb b a) eqn:E'; [apply actor_eqb_eq in E'; subst; now rewrite E | reflexivity].
    - simpl. unfold upd. destruct (actor_eqb b a); reflexivity.
  Qed.

  (** any number of handler steps of [a] *)
  Lemma steps_inv {X} (l : list X) w a :
    clean w ->
    clean (fold_left (fun w _ => run_one a w) l w) /\
    (forall b, pending (fold_left (fun w _ => run_one a w) l w) b = pending w b) /\
    (forall b, wmb (fold_left (fun w _ => run_one a w) l w) b
               = if actor_eqb b a then skipn (List.length l) (wmb w a) else wmb w b).
  Proof.
    revert w. induction l as [| x l IH]; intros w C; simpl.
    - repeat split; try assumption. intros b. destruct (actor_eqb b a) eqn:E; [apply actor_eqb_eq in E; now subst | reflexivity].
    - destruct (run_one_inv w a C) as [C1 P1].
      destruct (IH (run_one a w) C1) as [C2 [P2 Q2]].
      repeat split; [assumption | intros b; rewrite P2; apply P1 |].
      intros b. rewrite Q2. rewrite !run_one_mb by assumption. rewrite actor_eqb_refl.
      destruct (actor_eqb b a); [| reflexivity].
      destruct (wmb w a); [now rewrite skipn_nil | reflexivity].
  Qed.

  Lemma drain_inv w a :
    clean w ->
    clean (drain_actor a w) /\ (forall b, pending (drain_actor a w) b = pending w b) /\
    (forall b, wmb (drain_actor a w) b = if actor_eqb b a then [] else wmb w b).
  Proof.
    intros C. unfold Dispatch.drain_actor.
    destruct (steps_inv (wmb w a) w a C) as [C1 [P1 Q1]].
    repeat split; [assumption | assumption |].
    intros b. rewrite Q1. destruct (actor_eqb b a); [apply skipn_all | reflexivity].
  Qed.

  Lemma sched_inv l w :
    clean w -> clean (run_sched l w) /\ (forall b, pending (run_sched l w) b = pending w b).
  Proof.
    revert w. unfold Dispatch.run_sched. induction l as [| a l IH]; intros w C; simpl.
    - split; [assumption | reflexivity].
    - destruct (run_one_inv w a C) as [C1 P1]. destruct (IH _ C1) as [C2 P2].
      split; [assumption | intros b; rewrite P2; apply P1].
  Qed.

  Lemma drains_inv l w :
    clean w ->
    clean (fold_left (fun w a => drain_actor a w) l w) /\
    (forall b, pending (fold_left (fun w a => drain_actor a w) l w) b = pending w b) /\
    (forall b, wmb (fold_left (fun w a => drain_actor a w) l w) b
               = if existsb (actor_eqb b) l then [] else wmb w b).
  Proof.
    revert w. induction l as [| a l IH]; intros w C; simpl.
    - split; [assumption | split; reflexivity].
    - destruct (drain_inv w a C) as [C1 [P1 Q1]]. destruct (IH _ C1) as [C2 [P2 Q2]].
      repeat split; [assumption | intros b; rewrite P2; apply P1 |].
      intros b. rewrite Q2, Q1. destruct (actor_eqb b a); simpl; [now destruct (existsb _ l) | reflexivity].
  Qed.

  Lemma round_inv w :
    clean w ->
    clean (round w) /\ (forall b, pending (round w) b = pending w b) /\ quiescent (round w).
  Proof.
    intros C. unfold Dispatch.round. destruct (drains_inv (all_actors) w C) as [C1 [P1 Q1]].
    repeat split; [assumption | assumption |].
    intros b. rewrite Q1. destruct b; reflexivity.
  Qed.

  Lemma quiescent_state w b : quiescent w -> pending w b = wst w b.
  Proof. intros Q. unfold pending. now rewrite Q. Qed.

  Lemma quiescent_clean w : quiescent w -> clean w.
  Proof. intros Q a m. rewrite Q. intros []. Qed.

  Lemma quiesce_inv n w :
    clean w -> (1 <= n)%nat ->
    quiescent (quiesce n w) /\ (forall b, wst (quiesce n w) b = pending w b).
  Proof.
    revert w. induction n as [| n IH]; intros w C Hn; [lia |].
    simpl. destruct (round_inv w C) as [C1 [P1 Q1]].
    destruct n as [| n].
    - simpl. split; [assumption |]. intros b. rewrite <- P1. symmetry. now apply quiescent_state.
    - destruct (IH (round w) C1 ltac:(lia)) as [Q2 P2].
      split; [assumption |]. intros b. rewrite P2. apply P1.
  Qed.

  Lemma deliver_inv w a m md :
    clean w -> fwd a m = [] ->
    clean (deliver a m md w) /\
    (forall b, pending (deliver a m md w) b = if actor_eqb a b then step b (pending w b) m else pending w b).
  Proof.
    intros C F. unfold Dispatch.deliver.
    pose proof (clean_enqueue w a m C F) as C1.
    destruct (awaits md).
    - destruct (drain_inv _ a C1) as [C2 [P2 _]].
      split; [assumption |]. intros b. rewrite P2. apply pending_enqueue.
    - split; [assumption |]. intros b. apply pending_enqueue.
  Qed.

  (** * the three paths against the per-actor specification *)
  Lemma leader_inv reqs : forall sched w b,
    clean w -> Forall no_forward reqs ->
    clean (leader_run sched reqs w) /\
    pending (leader_run sched reqs w) b = spec_actor leader_table b reqs (pending w b).
  Proof.
    induction reqs as [| r rs IH]; intros sched w b C NF; simpl.
    - split; [assumption | reflexivity].
    - inversion NF as [| ? ? NFr NFrs]; subst.
      destruct (dispatch leader_table r) as [a m md | |] eqn:D.
      + pose proof (NFr leader_table ltac:(simpl; tauto) _ _ _ D) as F.
        destruct (deliver_inv w a m md C F) as [C1 P1].
        destruct (sched_inv (hd [] sched) _ C1) as [C2 P2].
        destruct (IH (tl sched) _ b C2 NFrs) as [C3 P3].
        split; [assumption |]. rewrite P3, P2, P1. reflexivity.
      + destruct (sched_inv (hd [] sched) _ C) as [C2 P2].
        destruct (IH (tl sched) _ b C2 NFrs) as [C3 P3].
        split; [assumption |]. now rewrite P3, P2.
      + destruct (sched_inv (hd [] sched) _ C) as [C2 P2].
        destruct (IH (tl sched) _ b C2 NFrs) as [C3 P3].
        split; [assumption |]. now rewrite P3, P2.
  Qed.

  Lemma replay_inv reqs : forall sched w b,
    clean w -> Forall no_forward reqs ->
    clean (replay_run sched reqs w) /\
    pending (replay_run sched reqs w) b = spec_actor replay_table b reqs (pending w b).
  Proof.
    induction reqs as [| r rs IH]; intros sched w b C NF; simpl.
    - split; [assumption | reflexivity].
    - inversion NF as [| ? ? NFr NFrs]; subst.
      destruct (dispatch replay_table r) as [a m md | |] eqn:D.
      + pose proof (NFr replay_table ltac:(simpl; tauto) _ _ _ D) as F.
        destruct (deliver_inv w a m md C F) as [C1 P1].
        destruct (sched_inv (hd [] sched) _ C1) as [C2 P2].
        destruct (IH (tl sched) _ b C2 NFrs) as [C3 P3].
        split; [assumption |]. rewrite P3, P2, P1. reflexivity.
      + destruct (sched_inv (hd [] sched) _ C) as [C2 P2].
        destruct (IH (tl sched) _ b C2 NFrs) as [C3 P3].
        split; [assumption |]. now rewrite P3, P2.
      + destruct (sched_inv (hd [] sched) _ C) as [C2 P2].
        destruct (IH (tl sched) _ b C2 NFrs) as [C3 P3].
        split; [assumption |]. now rewrite P3, P2.
  Qed.

  (** every request whose preparation succeeds is sent, by each of the three tables *)
  Definition sends (t : list row) (r : req) : Prop := exists a m md, dispatch t r = Send a m md.

  Lemma dispatch_sends t r :
    (forall v, exists rw, lookup t v = Some rw) -> well_prepped t ->
    prep_ok r = true -> sends t r.
  Proof.
    intros T WP OK. unfold sends, Dispatch.dispatch.
    destruct (T (q_variant r)) as [rw L]. rewrite L.
    destruct (r_prep rw) eqn:P; [do 3 eexists; reflexivity |].
    pose proof (WP _ _ L P) as V. unfold Dispatch.prep_ok in OK. rewrite V in OK. rewrite OK.
    do 3 eexists; reflexivity.
  Qed.

  Lemma batch_inv bq : forall w b,
    clean w -> Forall no_forward bq -> Forall (sends follower_table) bq ->
    clean (fst (batch_run bq w)) /\ snd (batch_run bq w) = false /\
    pending (fst (batch_run bq w)) b = spec_actor follower_table b bq (pending w b).
  Proof.
    induction bq as [| r rs IH]; intros w b C NF SD; simpl.
    - repeat split; assumption.
    - inversion NF as [| ? ? NFr NFrs]; subst. inversion SD as [| ? ? SDr SDrs]; subst.
      destruct SDr as [a [m [md D]]]. rewrite D.
      pose proof (NFr follower_table ltac:(simpl; tauto) _ _ _ D) as F.
      destruct (deliver_inv w a m md C F) as [C1 P1].
      destruct (IH _ b C1 NFrs SDrs) as [C2 [A2 P2]].
      repeat split; [assumption | assumption |]. rewrite P2, P1. reflexivity.
  Qed.

  Lemma spec_actor_app t b l1 l2 s :
    spec_actor t b (l1 ++ l2) s = spec_actor t b l2 (spec_actor t b l1 s).
  Proof.
    revert s. induction l1 as [| r l1 IH]; intros s; simpl; [reflexivity |].
    destruct (dispatch t r); apply IH.
  Qed.

  Lemma follower_inv batches : forall sched w b,
    clean w -> Forall no_forward (List.concat batches) -> Forall (sends follower_table) (List.concat batches) ->
    clean (follower_run sched batches w) /\
    pending (follower_run sched batches w) b = spec_actor follower_table b (List.concat batches) (pending w b).
  Proof.
    induction batches as [| bq bs IH]; intros sched w b C NF SD; simpl.
    - split; [assumption | reflexivity].
    - simpl in NF, SD. apply Forall_app in NF. apply Forall_app in SD.
      destruct NF as [NF1 NF2]. destruct SD as [SD1 SD2].
      destruct (batch_inv bq w b C NF1 SD1) as [C1 [A1 P1]].
      destruct (batch_run bq w) as [w1 ab] eqn:B. simpl in *. subst ab.
      destruct (sched_inv (hd [] sched) _ C1) as [C2 P2].
      destruct (IH (tl sched) _ b C2 NF2 SD2) as [C3 P3].
      split; [assumption |]. rewrite P3, P2, P1. now rewrite spec_actor_app.
  Qed.

  (** tables that agree up to the mode define the same per-actor specification *)
  Lemma dispatch_agree t1 t2 r :
    tables_agree t1 t2 ->
    match dispatch t1 r, dispatch t2 r with
    | Send a m _, Send a' m' _ => a = a' /\ m = m'
    | PrepErr, PrepErr => True
    | _, _ => False
    end.
  Proof.
    intros TA. unfold Dispatch.dispatch.
    destruct (TA (q_variant r)) as [r1 [r2 [L1 [L2 [_ [Hb [Hp [Ha [Hc Hw]]]]]]]]].
    rewrite L1, L2, Hb, Hp, Ha, Hc, Hw.
    destruct (r_prep r2); [split; reflexivity |].
    destruct (decodable (q_payload r)); [split; reflexivity | exact I].
  Qed.

  Lemma spec_agree t1 t2 b reqs : forall s,
    tables_agree t1 t2 -> spec_actor t1 b reqs s = spec_actor t2 b reqs s.
  Proof.
    induction reqs as [| r rs IH]; intros s TA; simpl; [reflexivity |].
    pose proof (dispatch_agree t1 t2 r TA) as DA.
    destruct (dispatch t1 r) as [a m md | |], (dispatch t2 r) as [a' m' md' | |]; try contradiction.
    - destruct DA as [-> ->]. now apply IH.
    - now apply IH.
  Qed.

  Lemma concat_split {A} (sizes : list nat) (l : list A) : List.concat (split sizes l) = l.
  Proof.
    revert l. induction sizes as [| n ns IH]; intros l; simpl.
    - apply app_nil_r.
    - rewrite IH. apply firstn_skipn.
  Qed.

  Lemma table_total t : tables_agree leader_table t -> forall v, exists rw, lookup t v = Some rw.
  Proof. intros TA v. destruct (TA v) as [r1 [r2 [_ [L2 _]]]]. eauto. Qed.

  Lemma table_total_l t : tables_agree leader_table t -> forall v, exists rw, lookup leader_table v = Some rw.
  Proof. intros TA v. destruct (TA v) as [r1 [r2 [L1 _]]]. eauto. Qed.

  Lemma well_prepped_transfer t : tables_agree leader_table t -> well_prepped t.
  Proof.
    intros TA v rw L P. destruct (TA v) as [r1 [r2 [L1 [L2 [_ [_ [Hp _]]]]]]].
    rewrite L in L2. inversion L2; subst r2. apply (leader_well_prepped v r1 L1). congruence.
  Qed.

  (** ** C07: same committed sequence, same state — on every actor, for every batching of the
      follower path and every scheduling of the actors, at quiescence *)
  Theorem same_sequence_same_state :
    forall (reqs : list req) (batching : list nat) (w : world)
           (n1 n2 n3 : nat) (sched1 sched2 sched3 : list (list actor)),
      clean w -> (1 <= n1)%nat -> (1 <= n2)%nat -> (1 <= n3)%nat ->
      forallb prep_ok reqs = true -> Forall no_forward reqs ->
      let wl := final_leader payload M S build step fwd decodable n1 sched1 reqs w in
      let wf := final_follower payload M S build step fwd decodable n2 sched2 (split batching reqs) w in
      let wr := final_replay payload M S build step fwd decodable n3 sched3 reqs w in
      quiescent wl /\ quiescent wf /\ quiescent wr /\
      forall a, wst wl a = wst wf a /\ wst wl a = wst wr a /\
                wst wl a = spec_actor leader_table a reqs (pending w a).
  Proof.
    intros reqs batching w n1 n2 n3 s1 s2 s3 C H1 H2 H3 OK NF wl wf wr.
    assert (SDf : Forall (sends follower_table) reqs).
    { rewrite forallb_forall in OK. apply Forall_forall. intros r Hr.
      apply dispatch_sends; [apply table_total, leader_follower_agree
                            | apply well_prepped_transfer, leader_follower_agree | now apply OK]. }
    pose proof (concat_split batching reqs) as CS.
    assert (Cl : forall a, clean (leader_run s1 reqs w) /\
                           pending (leader_run s1 reqs w) a = spec_actor leader_table a reqs (pending w a))
      by (intros a; now apply leader_inv).
    assert (Cf : forall a, clean (follower_run s2 (split batching reqs) w) /\
                           pending (follower_run s2 (split batching reqs) w) a
                           = spec_actor follower_table a reqs (pending w a)).
    { intros a. rewrite <- CS at 3. apply follower_inv; [assumption | now rewrite CS | now rewrite CS]. }
    assert (Cr : forall a, clean (replay_run s3 reqs w) /\
                           pending (replay_run s3 reqs w) a = spec_actor replay_table a reqs (pending w a))
      by (intros a; now apply replay_inv).
    destruct (quiesce_inv n1 _ (proj1 (Cl AIndex)) H1) as [Ql Pl].
    destruct (quiesce_inv n2 _ (proj1 (Cf AIndex)) H2) as [Qf Pf].
    destruct (quiesce_inv n3 _ (proj1 (Cr AIndex)) H3) as [Qr Pr].
    repeat split; try assumption; unfold wl, wf, wr, final_leader, final_follower, final_replay.
    - rewrite Pl, Pf. rewrite (proj2 (Cl a)), (proj2 (Cf a)).
      apply spec_agree, leader_follower_agree.
    - rewrite Pl, Pr. rewrite (proj2 (Cl a)), (proj2 (Cr a)).
      apply spec_agree, leader_replay_agree.
    - rewrite Pl. apply (proj2 (Cl a)).
  Qed.

  (** * last_applied bookkeeping *)
  Notation leader_applied := (leader_applied payload M build decodable handler_ok).
  Notation follower_applied := (follower_applied payload M build decodable).
  Notation batch_ok := (batch_ok payload M build decodable).

  Definition last_index (es : list (N * req)) (d : N) : N := fold_left (fun _ e => fst e) es d.

  Lemma leader_applied_ok es : forall am,
    Forall (fun e => sends leader_table (snd e) /\ handler_ok (q_payload (snd e)) = true) es ->
    am_last (leader_applied es am) = last_index es (am_last am) /\
    (es <> [] -> last (am_saved (leader_applied es am)) 0%N = last_index es (am_last am)).
  Proof.
    induction es as [| [i r] es IH]; intros am SD; simpl.
    - split; [reflexivity | congruence].
    - inversion SD as [| ? ? SDr SDs]; subst. destruct SDr as [[a [m [md D]]] HO]. simpl in D, HO. rewrite D, HO.
      replace (match md with MAwaitErr => true | _ => true end) with true by (destruct md; reflexivity).
      destruct (IH (mkAm i (am_saved am ++ [i])) SDs) as [L1 L2]. simpl in L1.
      unfold last_index in *. simpl. split; [assumption |]. intros _.
      destruct es as [| e es']; [simpl; apply last_last | apply L2; discriminate].
  Qed.

  Lemma batch_ok_sends b : Forall (fun e => sends follower_table (snd e)) b -> batch_ok b = true.
  Proof.
    induction b as [| [i r] b IH]; intros SD; simpl; [reflexivity |].
    inversion SD as [| ? ? [a [m [md D]]] SDs]; subst. simpl in D. rewrite D. now apply IH.
  Qed.

  Lemma follower_applied_ok bs : forall am,
    Forall (fun e => sends follower_table (snd e)) (List.concat bs) ->
    am_last (follower_applied bs am) = last_index (List.concat bs) (am_last am) /\
    (bs <> [] -> last (am_saved (follower_applied bs am)) 0%N = last_index (List.concat bs) (am_last am)).
  Proof.
    induction bs as [| b bs IH]; intros am SD; simpl.
    - split; [reflexivity | congruence].
    - simpl in SD. apply Forall_app in SD. destruct SD as [SD1 SD2].
      rewrite (batch_ok_sends b SD1).
      destruct (IH (mkAm (fold_left (fun _ e => fst e) b (am_last am))
                         (am_saved am ++ [fold_left (fun _ e => fst e) b (am_last am)])) SD2) as [L1 L2].
      simpl in L1. unfold last_index in *. rewrite fold_left_app.
      split; [assumption |]. intros _.
      destruct bs as [| b' bs']; [simpl; apply last_last | apply L2; discriminate].
  Qed.

  (** ** the last applied index is tracked identically: after a committed sequence whose
      preparations succeed, StateApplyManager.last_applied_log and the last
      SaveLastAppliedLog sent to the index manager are the index of the last entry, on the
      leader path and on the follower path under every batching *)
  Theorem last_applied_tracks :
    forall (entries : list (N * req)) (batching : list nat) (am : apply_mgr),
      entries <> [] -> forallb prep_ok (map snd entries) = true ->
      forallb (fun r => handler_ok (q_payload r)) (map snd entries) = true ->
      let idx := last_index entries (am_last am) in
      let al := leader_applied entries am in
      let af := follower_applied (split batching entries) am in
      am_last al = idx /\ last (am_saved al) 0%N = idx /\
      am_last af = idx /\ last (am_saved af) 0%N = idx.
  Proof.
    intros entries batching am NE OK HOK idx al af.
    assert (SDl : Forall (fun e => sends leader_table (snd e) /\ handler_ok (q_payload (snd e)) = true) entries).
    { apply Forall_forall. intros e He. split.
      - apply dispatch_sends;
          [apply (table_total_l follower_table), leader_follower_agree | apply leader_well_prepped |].
        rewrite forallb_forall in OK. apply OK. now apply in_map.
      - rewrite forallb_forall in HOK. apply (HOK (snd e)). now apply in_map. }
    assert (SDf : Forall (fun e => sends follower_table (snd e)) entries).
    { apply Forall_forall. intros e He. apply dispatch_sends;
        [apply table_total, leader_follower_agree | apply well_prepped_transfer, leader_follower_agree |].
      rewrite forallb_forall in OK. apply OK. now apply in_map. }
    destruct (leader_applied_ok entries am SDl) as [A1 A2].
    pose proof (concat_split batching entries) as CS.
    destruct (follower_applied_ok (split batching entries) am) as [B1 B2]; [now rewrite CS |].
    rewrite CS in B1, B2.
    repeat split; [exact A1 | now apply A2 | exact B1 |].
    apply B2. destruct batching; simpl; discriminate.
  Qed.

End Proofs.
