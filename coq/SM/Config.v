(** Model of the config store of src/config/core.rs (ConfigActor without its listener and
    subscriber parts, which are in Listener.v): ConfigValue::{new,init,update_value},
    set_tmp_config, inner_set_config, set_config, del_config, ConfigCmd::GET,
    get_config_info_page, get_history_info_page, and From<ConfigValueDO> for ConfigValue
    (src/config/model.rs).  md5 is the section variable [H] (an arbitrary function: every
    theorem holds for all [H]).  Literal transcription of the code AFTER the repair
    "fix: SetTmpValue must not mark an unchanged value as tmp" (the unrepaired
    set_tmp_config is kept in Regression/ConfigTmpOld.v).  Executable definitions only. *)
From RN Require Export SM.ConfigKey SM.ConfigIndex SM.Sequence.
Local Open Scope N_scope.

Record hitem := mkHist { h_id : N; h_content : str; h_time : N; h_user : option str }.

Record cvalue := mkVal {
  cv_content : str;
  cv_md5 : str;
  cv_tmp : bool;
  cv_hist : list hitem;          (* oldest first, like the Vec *)
  cv_type : option str;
  cv_desc : option str;
  cv_lastmod : N;
}.

(** ASCII lower-casing; exact for the seven literals matched below, because no non-ASCII
    character lower-cases to one of their letters *)
Definition lower (c : N) : N := if (65 <=? c) && (c <=? 90) then c + 32 else c.

Definition T_text : str := [116;101;120;116].
Definition T_json : str := [106;115;111;110].
Definition T_xml : str := [120;109;108].
Definition T_yml : str := [121;109;108].
Definition T_yaml : str := [121;97;109;108].
Definition T_html : str := [104;116;109;108].
Definition T_toml : str := [116;111;109;108].
Definition T_properties : str := [112;114;111;112;101;114;116;105;101;115].

(** [ConfigType::new_by_value(v).get_value()] *)
Definition norm_type (v : str) : str :=
  let l := map lower v in
  if str_eqb l T_json then T_json
  else if str_eqb l T_xml then T_xml
  else if str_eqb l T_yml then T_yaml
  else if str_eqb l T_yaml then T_yaml
  else if str_eqb l T_html then T_html
  else if str_eqb l T_toml then T_toml
  else if str_eqb l T_properties then T_properties
  else T_text.

Record store := mkStore {
  st_cache : list (key * cvalue);      (* HashMap<ConfigKey, ConfigValue>, canonical order *)
  st_index : tindex;
  st_seq : sseq;
}.

Definition store_new : store := mkStore [] ti_new (sseq_new 0 100).

Record set_param := mkSet {
  sp_key : key;
  sp_value : str;
  sp_type : option str;           (* already normalised by the ConfigRaftCmd handler *)
  sp_desc : option str;
  sp_hid : N;
  sp_table_id : option N;
  sp_time : N;
  sp_user : option str;
}.

(** ConfigValueDO after prost decoding (all optional scalar fields defaulted) *)
Record value_do := mkDO {
  do_content : str;
  do_hist : list hitem;
  do_type : option str;
  do_desc : option str;
}.

Section Config.
  Variable H : str -> str.

  Definition cache_get (s : store) (k : key) : option cvalue := sm_get key_cmp (st_cache s) k.

  (** ConfigValue::new (last_modified = wall clock, passed in as [now]) *)
  Definition value_new (c : str) (now : N) : cvalue := mkVal c (H c) false [] None None now.

  Definition opt_md5 (md5 : option str) (c : str) : str :=
    match md5 with Some v => v | None => H c end.

  (** ConfigValue::init *)
  Definition value_init (c : str) (hid time : N) (md5 : option str) (user : option str) : cvalue :=
    mkVal c (opt_md5 md5 c) false [mkHist hid c time user] None None time.

  (** ConfigValue::update_value *)
  Definition update_value (v : cvalue) (c : str) (hid time : N) (md5 : option str) (user : option str)
    : cvalue :=
    let hist := if (100 <=? length (cv_hist v))%nat then tl (cv_hist v) else cv_hist v in
    mkVal c (opt_md5 md5 c) false (hist ++ [mkHist hid c time user]) (cv_type v) (cv_desc v) time.

  (** From<ConfigValueDO> for ConfigValue *)
  Definition value_of_do (d : value_do) : cvalue :=
    mkVal (do_content d) (H (do_content d)) false (do_hist d)
          (option_map norm_type (do_type d)) (do_desc d)
          (match rev (do_hist d) with h :: _ => h_time h | [] => 0 end).

  (** set_tmp_config (repaired: an unchanged md5 leaves the value alone) *)
  Definition set_tmp_config (s : store) (k : key) (val : str) (now : N) : store :=
    match cache_get s k with
    | Some v =>
        let md5 := H val in
        if str_eqb (cv_md5 v) md5 then s
        else mkStore (sm_put key_cmp (st_cache s) k
                        (mkVal val md5 true (cv_hist v) (cv_type v) (cv_desc v) (cv_lastmod v)))
                     (st_index s) (st_seq s)
    | None =>
        let v := value_new val now in
        mkStore (sm_put key_cmp (st_cache s) k
                   (mkVal (cv_content v) (cv_md5 v) true (cv_hist v) (cv_type v) (cv_desc v) (cv_lastmod v)))
                (st_index s) (st_seq s)
    end.

  (** inner_set_config *)
  Definition inner_set_config (s : store) (k : key) (v : cvalue) : store :=
    mkStore (sm_put key_cmp (st_cache s) k v) (snd (ti_insert (st_index s) k)) (st_seq s).

  (** set_config; the boolean says whether listener.notify / subscriber.notify were called *)
  Definition set_config (s : store) (p : set_param) : store * bool :=
    let seq := match sp_table_id p with
               | Some t => set_valid_last_id (st_seq s) t
               | None => st_seq s
               end in
    match cache_get s (sp_key p) with
    | Some v =>
        let md5 := H (sp_value p) in
        let v1 := match sp_type p with
                  | Some t => mkVal (cv_content v) (cv_md5 v) (cv_tmp v) (cv_hist v) (Some t) (cv_desc v) (cv_lastmod v)
                  | None => v
                  end in
        let v2 := match sp_desc p with
                  | Some d => mkVal (cv_content v1) (cv_md5 v1) (cv_tmp v1) (cv_hist v1) (cv_type v1) (Some d) (cv_lastmod v1)
                  | None => v1
                  end in
        if negb (cv_tmp v2) && str_eqb (cv_md5 v2) md5
        then (mkStore (sm_put key_cmp (st_cache s) (sp_key p) v2) (st_index s) seq, false)
        else
          let idx := match cv_hist v2 with
                     | [] => snd (ti_insert (st_index s) (sp_key p))
                     | _ => st_index s
                     end in
          let v3 := update_value v2 (sp_value p) (sp_hid p) (sp_time p) (Some md5) (sp_user p) in
          (mkStore (sm_put key_cmp (st_cache s) (sp_key p) v3) idx seq, true)
    | None =>
        let v := value_init (sp_value p) (sp_hid p) (sp_time p) None (sp_user p) in
        let v' := mkVal (cv_content v) (cv_md5 v) (cv_tmp v) (cv_hist v) (sp_type p) (sp_desc p) (cv_lastmod v) in
        (mkStore (sm_put key_cmp (st_cache s) (sp_key p) v')
                 (snd (ti_insert (st_index s) (sp_key p))) seq, true)
    end.

  (** del_config (always notifies) *)
  Definition del_config (s : store) (k : key) : store :=
    mkStore (sm_del key_cmp (st_cache s) k) (snd (ti_remove (st_index s) k)) (st_seq s).

  (** Handler<ConfigRaftCmd> *)
  Inductive raft_cmd :=
  | ConfigAdd (key_s : str) (value : str) (ctype desc : option str) (hid : N)
              (table_id : option N) (time : N) (user : option str)
  | ConfigRemove (key_s : str)
  | SetFullValue (k : key) (d : value_do) (last_id : option N).

  Definition param_of_add key_s value ctype desc hid table_id time user : set_param :=
    mkSet (key_of_string key_s) value (option_map norm_type ctype) desc hid table_id time user.

  Definition apply_raft (s : store) (c : raft_cmd) : store * option key (* notified key *) :=
    match c with
    | ConfigAdd ks value ctype desc hid tid time user =>
        let p := param_of_add ks value ctype desc hid tid time user in
        let '(s', b) := set_config s p in
        (s', if b then Some (sp_key p) else None)
    | ConfigRemove ks =>
        let k := key_of_string ks in (del_config s k, Some k)
    | SetFullValue k d last_id =>
        let s1 := inner_set_config s k (value_of_do d) in
        (match last_id with
         | Some l => mkStore (st_cache s1) (st_index s1) (set_valid_last_id (st_seq s1) l)
         | None => s1
         end, None)
    end.

  (** ConfigCmd::GET -> (content, md5, type, desc, last_modified) *)
  Definition get_config (s : store) (k : key) : option (str * str * option str * option str * N) :=
    match cache_get s k with
    | Some v => Some (cv_content v, cv_md5 v, cv_type v, cv_desc v, cv_lastmod v)
    | None => None
    end.

  (** get_config_info_page: (size, [(key, desc, Some (content, md5) when query_context)]) *)
  Definition info_of (s : store) (p : qparam) (k : key)
    : list (key * option str * option (str * str)) :=
    match cache_get s k with
    | Some v => [(k, cv_desc v, if q_context p then Some (cv_content v, cv_md5 v) else None)]
    | None => []
    end.

  Definition get_config_info_page (s : store) (p : qparam)
    : N * list (key * option str * option (str * str)) :=
    let '(size, l) := ti_query_page (st_index s) p in
    if size =? 0 then (size, []) else (size, flat_map (info_of s p) l).

  (** get_history_info_page: newest first; offset None yields no rows but the real total *)
  Definition get_history_page (s : store) (k : key) (offset limit : option N) : N * list hitem :=
    match cache_get s k with
    | Some v =>
        let it := rev (cv_hist v) in
        let ret := match offset with
                   | Some off =>
                       let it' := skipn (N.to_nat off) it in
                       match limit with
                       | Some lim => firstn (N.to_nat lim) it'
                       | None => it'
                       end
                   | None => []
                   end in
        (N.of_nat (length (cv_hist v)), ret)
    | None => (0, [])
    end.
End Config.
