(** Byte-level codecs of the snapshot records, over the protobuf wire layer Codec/PbWire.v.
    Model only: no proofs in this file.

    * LogSnapshotItem (src/raft/filestore/log.rs, quick-protobuf): tree = 1 (string),
      key = 4 (bytes), value = 5 (bytes), op_type = 6 (uint32, always 0 here).  The writer
      omits a field that has its default value (empty string / empty bytes / 0); the reader
      starts from the default message, assigns known (field, wire type) pairs and skips
      everything else.
    * ConfigValueDO / ConfigHistoryItemDO (src/config/model.rs, prost): content = 1,
      histories = 2 (repeated message), config_type = 3, desc = 4; item: id = 1 (uint64),
      content = 2, last_time = 3 (int64), op_user = 4.  All scalar fields are `optional`:
      From<ConfigValue> always writes content / id / content / last_time as Some, and
      config_type / desc / op_user only when present.  The prost decoder rejects a known
      field with the wrong wire type and skips unknown field numbers.
    * id_to_bin / bin_to_id (src/common/byte_utils.rs): u64 big endian, 8 bytes.

    UTF-8 validation of string fields (quick-protobuf read_string, prost String) is not
    modelled: strings are byte lists, every byte list is accepted as a string.  Times
    (i64 in the source) are modelled as non-negative N below 2^63. *)
From RN Require Export Codec.PbWire SM.Config SM.Snapshot.
Local Open Scope N_scope.

Definition opt_field (n : N) (b : list N) : list wfield :=
  match b with [] => [] | _ => [(n, WLen b)] end.

(** ** LogSnapshotItem *)
Definition item_fields (r : record) : list wfield :=
  opt_field 1 (rtree r) ++ opt_field 4 (rkey r) ++ opt_field 5 (rval r).

Definition enc_item (r : record) : list N := enc_fields (item_fields r).

Definition item_step (r : record) (f : wfield) : record :=
  match f with
  | (1, WLen b) => mkRec b (rkey r) (rval r)
  | (4, WLen b) => mkRec (rtree r) b (rval r)
  | (5, WLen b) => mkRec (rtree r) (rkey r) b
  | _ => r                  (* op_type and unknown tags: read and dropped *)
  end.

Definition dec_item (body : list N) : option record :=
  match parse body with
  | Ok fs => Some (fold_left item_step fs (mkRec [] [] []))
  | _ => None
  end.

(** `reader.read_message(v)` on a whole frame: length varint, then the message *)
Definition unframe (f : list N) : option (list N) :=
  match rdv 10 f with
  | Ok (len, rest) => match take_n len rest with Ok (body, _) => Some body | _ => None end
  | _ => None
  end.

Definition dec_item_frame (f : list N) : option record :=
  match unframe f with Some body => dec_item body | None => None end.

(** ** ConfigHistoryItemDO / ConfigValueDO *)
Definition opt_len (n : N) (o : option str) : list wfield :=
  match o with Some b => [(n, WLen b)] | None => [] end.

Definition hist_fields (h : hitem) : list wfield :=
  [(1, WVar (h_id h)); (2, WLen (h_content h)); (3, WVar (h_time h))] ++ opt_len 4 (h_user h).

Definition enc_hist (h : hitem) : list N := enc_fields (hist_fields h).

(** what From<ConfigValue> for ConfigValueDO + to_bytes writes *)
Definition value_fields (v : cvalue) : list wfield :=
  [(1, WLen (cv_content v))] ++ map (fun h => (2, WLen (enc_hist h))) (cv_hist v)
  ++ opt_len 3 (cv_type v) ++ opt_len 4 (cv_desc v).

Definition enc_value (v : cvalue) : list N := enc_fields (value_fields v).

(** prost decoding: [None] fields stay None; From<ConfigHistoryItemDO> then defaults them *)
Record hist_do := mkHDO { hd_id : option N; hd_content : option str; hd_time : option N; hd_user : option str }.

Definition hist_step (acc : res hist_do) (f : wfield) : res hist_do :=
  res_bind acc (fun h =>
  match f with
  | (1, WVar v) => Ok (mkHDO (Some v) (hd_content h) (hd_time h) (hd_user h))
  | (2, WLen b) => Ok (mkHDO (hd_id h) (Some b) (hd_time h) (hd_user h))
  | (3, WVar v) => Ok (mkHDO (hd_id h) (hd_content h) (Some v) (hd_user h))
  | (4, WLen b) => Ok (mkHDO (hd_id h) (hd_content h) (hd_time h) (Some b))
  | (1, _) | (2, _) | (3, _) | (4, _) => Err       (* wire type mismatch *)
  | _ => Ok h
  end).

Definition dec_hist (body : list N) : res hitem :=
  res_bind (parse body) (fun fs =>
  res_map (fun h => mkHist (match hd_id h with Some v => v | None => 0 end)
                           (match hd_content h with Some b => b | None => [] end)
                           (match hd_time h with Some v => v | None => 0 end)
                           (hd_user h))
          (fold_left hist_step fs (Ok (mkHDO None None None None)))).

Record val_do := mkVDO { vd_content : option str; vd_hist : list hitem; vd_type : option str; vd_desc : option str }.

Definition val_step (acc : res val_do) (f : wfield) : res val_do :=
  res_bind acc (fun d =>
  match f with
  | (1, WLen b) => Ok (mkVDO (Some b) (vd_hist d) (vd_type d) (vd_desc d))
  | (2, WLen b) => res_map (fun h => mkVDO (vd_content d) (vd_hist d ++ [h]) (vd_type d) (vd_desc d)) (dec_hist b)
  | (3, WLen b) => Ok (mkVDO (vd_content d) (vd_hist d) (Some b) (vd_desc d))
  | (4, WLen b) => Ok (mkVDO (vd_content d) (vd_hist d) (vd_type d) (Some b))
  | (1, _) | (2, _) | (3, _) | (4, _) => Err
  | _ => Ok d
  end).

(** ConfigValueDO::from_bytes, with `content.unwrap_or_default()` applied: E's [value_do] *)
Definition dec_value (bytes : list N) : res value_do :=
  res_bind (parse bytes) (fun fs =>
  res_map (fun d => mkDO (match vd_content d with Some b => b | None => [] end)
                         (vd_hist d) (vd_type d) (vd_desc d))
          (fold_left val_step fs (Ok (mkVDO None [] None None)))).

(** ** u64 big endian *)
Definition be8 (n : N) : list N :=
  [(n / 2 ^ 56) mod 256; (n / 2 ^ 48) mod 256; (n / 2 ^ 40) mod 256; (n / 2 ^ 32) mod 256;
   (n / 2 ^ 24) mod 256; (n / 2 ^ 16) mod 256; (n / 2 ^ 8) mod 256; n mod 256].

(** `(&buf[0..8]).read_u64::<BigEndian>()`: the first 8 bytes; a shorter slice panics *)
Definition of_be8 (b : list N) : option N :=
  match b with
  | b0 :: b1 :: b2 :: b3 :: b4 :: b5 :: b6 :: b7 :: _ =>
      Some (((((((b0 * 256 + b1) * 256 + b2) * 256 + b3) * 256 + b4) * 256 + b5) * 256 + b6) * 256 + b7)
  | _ => None
  end.
