(** The snapshot round-trip law of the concrete NamespaceActor model (SM/ConcreteNs.v), with
    its exact exclusions, and the `__already_sync` marker finding as a refuted statement. *)
From RN Require Import SM.ConcreteNs SM.SnapCodecProofs Codec.PbWireProofs Base.SMapProofs SM.ConfigKeyProofs
     SM.ConcreteProofs.
From Coq Require Import Lia ZifyBool ZifyNat ZifyN.
Local Open Scope N_scope.
Local Notation SOK := str_cmp_ok.

Lemma ns_codec id name ty : wf_bytes id -> wf_bytes name -> wf_bytes ty ->
  dec_ns (enc_ns id name ty) = Ok (mkNDO (Some id) (Some name) (Some ty)).
Proof.
  intros Hi Hn Ht. unfold dec_ns, enc_ns. rewrite parse_enc_fields.
  - reflexivity.
  - repeat constructor; try reflexivity; first [apply Hi | apply Hn | apply Ht].
Qed.

(** invariant of the states reached by raft requests on non-empty ids (no weak flags):
    "" is the SYSTEM namespace "public", every other id has exactly the USER flag *)
Record ns_inv (s : nsstate) : Prop := mkNsInv {
  ni_wf : sm_wf str_cmp (ns_data s);
  ni_pub : sm_get str_cmp (ns_data s) [] = Some (mkNs NS_PUBLIC F_SYSTEM);
  ni_user : forall id v, sm_get str_cmp (ns_data s) id = Some v -> id <> [] -> ns_flag v = F_USER /\ id <> NS_PUBLIC;
}.

(** in scope: the raft requests name a non-empty id (the default namespace is not edited) *)
Definition ns_mok (r : nsreq) : Prop :=
  match r with
  | NsAddOnly p | NsUpdate p | NsSet p => np_id p <> []
  | NsDelete _ | NsInit _ => True
  end.

Lemma str_is_empty_false id : id <> [] -> str_is_empty id = false.
Proof. destruct id; [contradiction | reflexivity]. Qed.

Lemma ns_set_data s p oa ou : np_id p <> [] ->
  (forall v, sm_get str_cmp (ns_data s) (np_id p) = Some v -> ns_flag v = F_USER) ->
  ns_data (ns_set s p oa ou) = ns_data s \/
  (np_id p <> NS_PUBLIC /\ exists name, ns_data (ns_set s p oa ou) = sm_put str_cmp (ns_data s) (np_id p) (mkNs name F_USER)).
Proof.
  intros NE FU. unfold ns_set. destruct (str_eqb (np_id p) NS_PUBLIC) eqn:EP; [now left |].
  apply str_eqb_neq in EP. rewrite (str_is_empty_false _ NE).
  destruct (sm_get str_cmp (ns_data s) (np_id p)) as [v |] eqn:G.
  - rewrite (FU v eq_refl). destruct (oa && _); [now left |].
    right. split; [exact EP |]. eexists. reflexivity.
  - destruct ou; [now left |]. right. split; [exact EP |]. eexists. reflexivity.
Qed.

Lemma ns_inv_put s id name x : ns_inv s -> id <> [] -> id <> NS_PUBLIC ->
  ns_data x = sm_put str_cmp (ns_data s) id (mkNs name F_USER) -> ns_inv x.
Proof.
  intros [W P U] NE EP E. constructor; rewrite E.
  - now apply (wf_put _ SOK).
  - rewrite (get_put_other _ SOK); [exact P | intros Eq; apply NE; now rewrite Eq].
  - intros k v. rewrite (get_put _ SOK). destruct (str_cmp k id) eqn:C.
    + apply str_cmp_eq in C. subst k. intros [= <-] _. split; [reflexivity | exact EP].
    + apply U.
    + apply U.
Qed.

Lemma ns_inv_same s x : ns_inv s -> ns_data x = ns_data s -> ns_inv x.
Proof. intros [W P U] E. constructor; rewrite E; assumption. Qed.

Lemma ns_set_inv s p oa ou : ns_inv s -> np_id p <> [] -> ns_inv (ns_set s p oa ou).
Proof.
  intros I NE. destruct (ns_set_data s p oa ou NE) as [E | (EP & name & E)].
  - intros v G. now destruct (ni_user s I _ _ G NE).
  - now apply (ns_inv_same s).
  - now apply (ns_inv_put s (np_id p) name).
Qed.

Lemma ns_remove_inv s id : ns_inv s -> ns_inv (ns_remove s id F_USER).
Proof.
  intros I. unfold ns_remove. destruct (str_is_empty id) eqn:Em; [exact I |].
  assert (NE : id <> []) by (intros ->; discriminate).
  destruct (sm_get str_cmp (ns_data s) id) as [v |] eqn:G; [| exact I].
  destruct (ni_user s I _ _ G NE) as [F _]. rewrite F. change (N.ldiff F_USER F_USER) with 0.
  change (0 =? F_USER) with false. change (0 <? 0) with false. cbv iota.
  destruct I as [W P U]. constructor; cbn [ns_data].
  - now apply wf_del.
  - rewrite (get_del_other _ SOK); [exact P | exact W | intros Eq; apply NE; now rewrite Eq].
  - intros k w. rewrite (get_del _ SOK) by exact W. destruct (str_cmp k id); [discriminate | apply U | apply U].
Qed.

Lemma ns_init_old_inv items : forall s, ns_inv s -> ns_inv (ns_init_old s items).
Proof.
  unfold ns_init_old. induction items as [| p items IH]; intros s I; cbn [fold_left]; [exact I |].
  apply IH. destruct (str_is_empty (np_id p)) eqn:E; [exact I |].
  apply ns_set_inv; [exact I | intros Eq; rewrite Eq in E; discriminate].
Qed.

Lemma ns_init_inv : ns_inv ns_init.
Proof. constructor; cbn; [split; [constructor | exact I] | reflexivity |]. intros id v. destruct id; [intros _ C; contradiction | discriminate]. Qed.

Theorem ns_apply_inv s r : ns_inv s -> ns_mok r -> ns_inv (ns_apply s r).
Proof.
  intros I OK. destruct r as [p | p | p | id | items]; cbn [ns_apply ns_mok] in *.
  - now apply ns_set_inv.
  - now apply ns_set_inv.
  - now apply ns_set_inv.
  - now apply ns_remove_inv.
  - apply (ns_inv_same (ns_init_old s items)); [now apply ns_init_old_inv | reflexivity].
Qed.

(** ** the round trip *)
Definition keep (kv : str * nsval) : bool :=
  negb (str_is_empty (fst kv)) && negb (N.land (ns_flag (snd kv)) F_USER =? 0).

Lemma filter_lt {V} (g : str * V -> bool) k m :
  Forall (fun kv => str_cmp k (fst kv) = Lt) m -> Forall (fun kv => str_cmp k (fst kv) = Lt) (filter g m).
Proof. intros F. apply Forall_forall. intros x Hx. apply filter_In in Hx. rewrite Forall_forall in F. now apply F. Qed.

Lemma filter_wf {V} (g : str * V -> bool) m : sm_wf str_cmp m -> sm_wf str_cmp (filter g m).
Proof.
  induction m as [| [k v] m IH]; intros W; [exact I |]. destruct W as [F W]. cbn [filter].
  destruct (g (k, v)); [split; [now apply filter_lt | now apply IH] | now apply IH].
Qed.

Lemma filter_get {V} (g : str * V -> bool) m k : sm_wf str_cmp m ->
  sm_get str_cmp (filter g m) k =
  match sm_get str_cmp m k with Some v => if g (k, v) then Some v else None | None => None end.
Proof.
  induction m as [| [k1 v1] m IH]; intros W; [reflexivity |]. destruct W as [F W]. cbn [filter sm_get].
  destruct (str_cmp k k1) eqn:C.
  - apply str_cmp_eq in C. subst k1. destruct (g (k, v1)) eqn:G.
    + cbn [sm_get]. now rewrite (proj2 (str_cmp_eq k k) eq_refl).
    + apply (get_none_lt_all str_cmp). now apply filter_lt.
  - destruct (g (k1, v1)).
    + cbn [sm_get]. now rewrite C.
    + apply (get_none_lt_all str_cmp). apply filter_lt. eapply (Forall_lt_trans _ SOK); eauto.
  - destruct (g (k1, v1)); [cbn [sm_get]; rewrite C |]; now apply IH.
Qed.

Definition user_flags (d : list (str * nsval)) : Prop :=
  forall id v, sm_get str_cmp d id = Some v -> id <> [] -> ns_flag v = F_USER.

Lemma ns_set_load acc id name ty : id <> [] -> id <> NS_PUBLIC -> id <> NS_MARK -> user_flags (ns_data acc) ->
  exists o, ns_set acc (mkNsP id (Some name) ty) false false
            = mkNsS (sm_put str_cmp (ns_data acc) id (mkNs name F_USER)) o (ns_already acc).
Proof.
  intros NE EP EM UF. unfold ns_set. cbn [np_id np_name].
  rewrite (proj2 (str_eqb_neq id NS_PUBLIC) EP), (proj2 (str_eqb_neq id NS_MARK) EM), orb_false_r.
  rewrite (str_is_empty_false _ NE).
  destruct (sm_get str_cmp (ns_data acc) id) as [v |] eqn:G; cbn [andb].
  - rewrite (UF id v G NE). eexists. reflexivity.
  - eexists. reflexivity.
Qed.

Definition wf_ns_entry (kv : str * nsval) : Prop := wf_bytes (fst kv) /\ wf_bytes (ns_name (snd kv)).

Lemma ns_load_fold l : forall acc,
  (forall kv, In kv l -> fst kv <> [] /\ fst kv <> NS_PUBLIC /\ fst kv <> NS_MARK /\ ns_flag (snd kv) = F_USER /\ wf_ns_entry kv) ->
  user_flags (ns_data acc) ->
  exists o,
    fold_left ns_load
      (map (fun kv => mkRec T_NAMESPACE_B (fst kv) (enc_ns (fst kv) (ns_name (snd kv)) (db_type (ns_flag (snd kv))))) l) acc
    = mkNsS (fold_left (fun m kv => sm_put str_cmp m (fst kv) (snd kv)) l (ns_data acc)) o (ns_already acc).
Proof.
  induction l as [| [id [name fl]] l IH]; intros acc HP UF; [exists (ns_order acc); now destruct acc |].
  cbn [map fold_left]. destruct (HP _ (or_introl eq_refl)) as (NE & EP & EM & FL & Wi & Wn). cbn [fst snd ns_flag ns_name] in *.
  subst fl. unfold ns_load at 2. cbn [rval]. rewrite ns_codec; [| exact Wi | exact Wn | split; [repeat constructor | reflexivity]].
  cbn [nd_id nd_name nd_type]. change (str_eqb (db_type F_USER) TY_SYSTEM) with false. cbv iota.
  destruct (ns_set_load acc id name (Some (db_type F_USER)) NE EP EM UF) as [o1 E1]. rewrite E1.
  destruct (IH (mkNsS (sm_put str_cmp (ns_data acc) id (mkNs name F_USER)) o1 (ns_already acc))) as [o2 E2].
  - intros kv Hin. apply HP. now right.
  - cbn [ns_data]. intros k v. rewrite (get_put _ SOK). destruct (str_cmp k id) eqn:C; [| apply UF | apply UF].
    intros [= <-] _. reflexivity.
  - exists o2. rewrite E2. reflexivity.
Qed.

(** THE LAW.  For a state reached by raft requests on non-empty ids, BEFORE InitFromOldValue
    was applied ([ns_already = false]; the marker id is not a namespace) and whose strings are
    byte strings: loading its own snapshot into a fresh NamespaceActor gives exactly the same
    namespaces (id -> name, flag) and the same [already_sync] flag.  (The order of the list is
    not part of the law: build_snapshot iterates a HashMap.) *)
Theorem ns_snapshot_roundtrip s :
  ns_inv s -> ns_already s = false -> sm_get str_cmp (ns_data s) NS_MARK = None ->
  Forall wf_ns_entry (ns_data s) ->
  ns_data (ns_reload s) = ns_data s /\ ns_already (ns_reload s) = false.
Proof.
  intros I AF NM WB. pose proof I as [W P U]. unfold ns_reload, ns_snapshot. rewrite AF, app_nil_r.
  destruct (ns_load_fold (filter keep (ns_data s)) ns_init) as [o E].
  - intros [id v] Hin. apply filter_In in Hin. destruct Hin as [Hin K]. cbn [fst snd].
    unfold keep in K. cbn [fst snd] in K. apply andb_prop in K. destruct K as [K1 _].
    assert (NE : id <> []) by (intros ->; discriminate).
    assert (G : sm_get str_cmp (ns_data s) id = Some v) by now apply (in_get_some _ SOK).
    destruct (U id v G NE) as [FU EP].
    split; [exact NE | split; [exact EP | split; [intros ->; congruence | split; [exact FU |]]]].
    rewrite Forall_forall in WB. apply (WB _ Hin).
  - intros id v. cbn. destruct id; [intros _ C; contradiction | discriminate].
  - unfold keep in E. rewrite E. cbn [ns_data ns_already]. fold keep. split; [| reflexivity]. apply (wf_ext _ SOK).
    + apply (rebuild_wf _ SOK). cbn. split; [apply Forall_nil | exact Logic.I].
    + exact W.
    + intros k. rewrite (rebuild_get _ SOK) by now apply filter_wf. rewrite filter_get by exact W.
      destruct (sm_get str_cmp (ns_data s) k) as [v |] eqn:G.
      * destruct k as [| c k].
        -- rewrite P in G. injection G as <-. reflexivity.
        -- destruct (U _ _ G ltac:(discriminate)) as [FU _]. unfold keep. cbn [fst snd str_is_empty]. rewrite FU. reflexivity.
      * destruct k; [congruence | reflexivity].
Qed.

(** INSTALL INTO LIVE STATE.  A running node in ANY reachable state [f] (it may lag: namespaces renamed
    or created since are unknown to it) that loads the leader's snapshot afterwards holds, for every
    namespace the leader has, exactly the leader's entry (name and flag), and keeps its own entry for the
    ids the leader does not have (a namespace the leader deleted in the meantime stays: the recorded
    finding install-overlays-live-state). *)
Theorem ns_install_exact l f :
  ns_inv l -> ns_already l = false -> sm_get str_cmp (ns_data l) NS_MARK = None ->
  Forall wf_ns_entry (ns_data l) -> ns_inv f ->
  forall k, sm_get str_cmp (ns_data (ns_install f l)) k =
            match sm_get str_cmp (ns_data l) k with
            | Some v => Some v
            | None => sm_get str_cmp (ns_data f) k
            end.
Proof.
  intros I AF NM WB IF k. pose proof I as [W P U]. pose proof IF as [Wf Pf Uf].
  unfold ns_install, ns_snapshot. rewrite AF, app_nil_r.
  destruct (ns_load_fold (filter keep (ns_data l)) f) as [o E].
  - intros [id v] Hin. apply filter_In in Hin. destruct Hin as [Hin K]. cbn [fst snd].
    unfold keep in K. cbn [fst snd] in K. apply andb_prop in K. destruct K as [K1 _].
    assert (NE : id <> []) by (intros ->; discriminate).
    assert (G : sm_get str_cmp (ns_data l) id = Some v) by now apply (in_get_some _ SOK).
    destruct (U id v G NE) as [FU EP].
    split; [exact NE | split; [exact EP | split; [intros ->; congruence | split; [exact FU |]]]].
    rewrite Forall_forall in WB. apply (WB _ Hin).
  - intros id v G NE. apply (Uf id v G NE).
  - unfold keep in E. rewrite E. cbn [ns_data]. fold keep.
    rewrite (rebuild_get _ SOK) by now apply filter_wf. rewrite filter_get by exact W.
    destruct (sm_get str_cmp (ns_data l) k) as [v |] eqn:G; [| reflexivity].
    destruct k as [| c k].
    + rewrite P in G. injection G as <-. cbn. exact Pf.
    + destruct (U _ _ G ltac:(discriminate)) as [FU _]. unfold keep. cbn [fst snd str_is_empty]. rewrite FU. reflexivity.
Qed.

(** ** REFUTED without [ns_already = false] (finding C01:namespace-already-sync-marker): once
    InitFromOldValue was applied, the marker record is loaded back as an ordinary namespace *)
Definition ns_after_init : nsstate := ns_apply ns_init (NsInit []).

Lemma marker_loaded_as_namespace :
  ns_inv ns_after_init /\ ns_already ns_after_init = true /\
  sm_get str_cmp (ns_data ns_after_init) NS_MARK = None /\
  sm_get str_cmp (ns_data (ns_reload ns_after_init)) NS_MARK = Some (mkNs [] F_USER).
Proof.
  split; [apply ns_apply_inv; [apply ns_init_inv | exact I] |]. vm_compute. repeat split.
Qed.

(** non-vacuity of the law: two namespaces created, one renamed, one deleted *)
Definition nsb (s : string) : str := bytes_of_lit s.
Definition ns_example : nsstate :=
  fold_left ns_apply
    [NsSet (mkNsP (nsb "dev") (Some (nsb "Development")) (Some TY_USER));
     NsSet (mkNsP (nsb "prod") (Some (nsb "Production")) None);
     NsUpdate (mkNsP (nsb "dev") (Some (nsb "Dev 2")) None);
     NsAddOnly (mkNsP (nsb "prod") (Some (nsb "ignored")) None);
     NsDelete (nsb "prod"); NsDelete (nsb "nobody")] ns_init.

Example ns_example_in_scope :
  ns_inv ns_example /\ ns_already ns_example = false /\ sm_get str_cmp (ns_data ns_example) NS_MARK = None /\
  Forall wf_ns_entry (ns_data ns_example) /\
  ns_data ns_example = [([], mkNs NS_PUBLIC F_SYSTEM); (nsb "dev", mkNs (nsb "Dev 2") F_USER)] /\
  ns_data (ns_reload ns_example) = ns_data ns_example.
Proof.
  split.
  { unfold ns_example. cbn [fold_left].
    repeat (apply ns_apply_inv; [| first [exact I | discriminate]]). apply ns_init_inv. }
  split; [reflexivity |]. split; [reflexivity |].
  split; [| split; vm_compute; reflexivity].
  match goal with |- Forall _ ?l => let l' := eval vm_compute in l in change (Forall wf_ns_entry l') end.
  repeat first [ reflexivity | split | constructor ].
Qed.
