(** Regression: the UNREPAIRED set_tmp_config (r-nacos before "fix: SetTmpValue must not mark
    an unchanged config value as tmp"): an existing value is always marked tmp.  With it the
    history statement fails even for a LATE temporary value, i.e. under [tmp_in_order]:
    [Add k x; SetTmp k x; Add k x] yields two history entries (the leader has one). *)
From RN Require Import SM.ConfigKey SM.ConfigIndex SM.Config SM.ConfigSpec SM.ConfigHistProofs.
Local Open Scope N_scope.

Definition set_tmp_config_old (H : str -> str) (s : store) (k : key) (val : str) (now : N) : store :=
  match cache_get s k with
  | Some v =>
      mkStore (sm_put key_cmp (st_cache s) k
                 (mkVal val (H val) true (cv_hist v) (cv_type v) (cv_desc v) (cv_lastmod v)))
              (st_index s) (st_seq s)
  | None =>
      mkStore (sm_put key_cmp (st_cache s) k (mkVal val (H val) true [] None None now))
              (st_index s) (st_seq s)
  end.

Definition sstep_old (H : str -> str) (s : store) (o : sop) : store :=
  match o with
  | ORaft c => fst (apply_raft H s c)
  | OTmp k v now => set_tmp_config_old H s k v now
  end.

Definition srun_old (H : str -> str) (ops : list sop) : store := fold_left (sstep_old H) ops store_new.

Lemma old_code_history_refuted :
  let H := fun c : str => c in
  let ops := [w_add [1] 1; OTmp W_k [1] 0; w_add [1] 2] in
  tmp_in_order (fun _ => None) ops /\
  stored_hist (srun_old H ops) W_k <> last_n 100 (hist_spec ops W_k) /\
  stored_hist (srun H ops) W_k = last_n 100 (hist_spec ops W_k).
Proof.
  split; [|split].
  - cbn [tmp_in_order]. repeat split; auto;
      first [left; vm_compute; reflexivity | right; vm_compute; reflexivity].
  - vm_compute. discriminate.
  - vm_compute. reflexivity.
Qed.
