(** Regression: the UNREPAIRED SeqGroup::apply_range (r-nacos before "fix: SeqGroup::apply_range
    keeps the older range current"): when the current range is used up and the spare one still
    holds an older range, the new range is put into the CURRENT slot, is served first, and the
    older spare afterwards: the ids of one node go backwards (10,11,12 then 7,8,9). *)
From RN Require Import SM.Sequence.
Local Open Scope N_scope.

Inductive gop0 := G0Next | G0Apply (start len : N).

Fixpoint run_old (g : sgroup) (ops : list gop0) : list N :=
  match ops with
  | [] => []
  | G0Next :: r => match group_next_id g with
                   | (Some v, g') => v :: run_old g' r
                   | (None, g') => run_old g' r
                   end
  | G0Apply s l :: r => run_old (group_apply_range_old g s l) r
  end.

Fixpoint run_new (g : sgroup) (ops : list gop0) : list N :=
  match ops with
  | [] => []
  | G0Next :: r => match group_next_id g with
                   | (Some v, g') => v :: run_new g' r
                   | (None, g') => run_new g' r
                   end
  | G0Apply s l :: r => run_new (group_apply_range g s l) r
  end.

Definition backwards_script : list gop0 :=
  [G0Apply 1 3; G0Next; G0Apply 4 3; G0Next; G0Next; G0Next; G0Apply 7 3; G0Next; G0Next;
   G0Apply 10 3; G0Next; G0Next; G0Next; G0Next; G0Next; G0Next].

Lemma old_seqgroup_goes_backwards :
  run_old (group_new 3) backwards_script = [1; 2; 3; 4; 5; 6; 10; 11; 12; 7; 8; 9] /\
  run_new (group_new 3) backwards_script = [1; 2; 3; 4; 5; 6; 7; 8; 9; 10; 11; 12].
Proof. split; vm_compute; reflexivity. Qed.
