(** The vocabulary of property C16, written from the property text. *)
From RN Require Export Auth.OpenApi Auth.Grpc.
Local Open Scope string_scope.

(** "other than the login endpoints, /nacos/metrics and the file-gated
    /nacos/v1/raft/close-write": the two fixed paths, and a login endpoint is a path that the
    dispatcher maps to nothing but the [login] handler *)
Definition fixed_allowed : list string := [ "/nacos/metrics"; "/nacos/v1/raft/close-write" ].
Definition login_handler : string := "login".

(** [p] is served by nothing but the login handler, whatever the method *)
Definition only_login (p : string) : Prop :=
  forall m h, dispatch_decoded openapi_services (s2l p) m = Handler h -> h = login_handler.

Definition allowed_path (p : string) : Prop := In p fixed_allowed \/ only_login p.

(** "contains, ignoring case": [mid] is the literal up to case folding, character by character *)
Definition ci_equal (lit mid : str) : Prop := Forall2 (fun c x => ci_eqc c x = true) lit mid.

(** gRPC: requests that need no user session: the connection checks and the cluster-internal
    requests (those are protected by the cluster token instead) *)
Definition grpc_cluster_internal : list string :=
  [ "RaftAppendRequest"; "RaftSnapshotRequest"; "RaftVoteRequest"; "RaftRouteRequest"; "NamingRouteRequest" ].
Definition grpc_no_session_needed : list string :=
  [ "ServerCheckRequest"; "HealthCheckRequest" ] ++ grpc_cluster_internal.
