(** Proof of the endpoint sweep of C18 over the generated guard table (complete enumeration). *)
From RN Require Import Auth.StrX Auth.Privilege Auth.GuardSpec.

Definition guard_is_none (g : guard) : bool := match g with NoGuard => true | _ => false end.

Lemma endpoints_guarded_lemma : forall e,
  In e endpoint_guards -> is_data_endpoint e = true -> known_unguarded e = false -> ep_guard e <> NoGuard.
Proof.
  assert (H : forallb (fun e => negb (is_data_endpoint e) || known_unguarded e || negb (guard_is_none (ep_guard e)))
                      endpoint_guards = true) by (vm_compute; reflexivity).
  rewrite forallb_forall in H. intros e He Hd Hk. specialize (H e He). rewrite Hd, Hk in H. cbn [negb orb] in H.
  intro E. rewrite E in H. discriminate.
Qed.

(** the recorded list is exact: every recorded endpoint exists, is a data endpoint and really is unguarded *)
Lemma known_unguarded_exact_lemma : forall pm,
  In pm KnownUnguarded ->
  exists e, In e endpoint_guards /\ ep_path e = fst pm /\ ep_method e = snd pm /\ is_data_endpoint e = true /\ ep_guard e = NoGuard.
Proof.
  assert (H : forallb (fun pm => existsb (fun e => String.eqb (ep_path e) (fst pm) && String.eqb (ep_method e) (snd pm)
                                                  && is_data_endpoint e && guard_is_none (ep_guard e)) endpoint_guards)
                      KnownUnguarded = true) by (vm_compute; reflexivity).
  rewrite forallb_forall in H. intros pm Hp. specialize (H pm Hp). apply existsb_exists in H as [e [He Hx]].
  apply andb_true_iff in Hx as [Hx Hg]. apply andb_true_iff in Hx as [Hx Hd]. apply andb_true_iff in Hx as [H1 H2].
  apply String.eqb_eq in H1. apply String.eqb_eq in H2. exists e. repeat split; auto.
  destruct (ep_guard e); try discriminate. reflexivity.
Qed.

(** non-trivial: guarded and unguarded data endpoints both exist *)
Lemma data_endpoint_counts :
  (20 <= List.length (filter (fun e => is_data_endpoint e && negb (guard_is_none (ep_guard e))) endpoint_guards))%nat
  /\ List.length (filter (fun e => is_data_endpoint e && guard_is_none (ep_guard e)) endpoint_guards) = List.length KnownUnguarded.
Proof. split; vm_compute; [repeat constructor | reflexivity]. Qed.
