(** The hypotheses of the C16 theorems are satisfiable by concrete, non-trivial values. *)
From RN Require Import Auth.StrX Auth.StrXProofs Auth.Route Auth.OpenApi Auth.Grpc Auth.OpenApiSpec Auth.OpenApiProofs Auth.GrpcProofs.
Local Open Scope string_scope.

Example ex_spellings :
  ci_equal (s2l "/nacos/") (s2l "/NaCoS/") /\
  is_check_path true (s2l "//x/NaCoS//v1/cs/configs/") = true /\
  is_check_path true (s2l "/nacos/metrics") = false /\
  is_check_path true (s2l "/nacos/metrics/") = true /\
  is_check_path true (s2l "/rnacos/backup") = false.
Proof. split; [apply ci_equal_ascii_case; reflexivity | vm_compute; repeat split]. Qed.

Definition ex_cache : tcache := fun t => str_eqb t (s2l "good").

Example ex_tokens :
  let p := s2l "/nacos/v1/cs/configs" in
  middleware true ex_cache None None None None p (s2l "GET") = Forbidden /\
  middleware true ex_cache (Some (s2l "Bearer good")) None None None p (s2l "GET") = Pass /\
  middleware true ex_cache (Some (s2l "bearer	 good ")) None None None p (s2l "GET") = Pass /\
  middleware true ex_cache (Some (s2l "Basic good")) (Some (s2l "good")) (Some (s2l "good")) None p (s2l "GET") = Forbidden /\
  middleware true ex_cache None (Some (s2l "good")) None None p (s2l "GET") = Pass /\
  middleware true ex_cache None None (Some (s2l "good")) (Some (s2l "bad")) p (s2l "POST") = Pass /\
  middleware true ex_cache None None None (Some (s2l "good")) p (s2l "POST") = Pass /\
  middleware true ex_cache None None None (Some (s2l "good")) p (s2l "GET") = Forbidden /\
  middleware true ex_cache None None (Some []) (Some (s2l "good")) p (s2l "POST") = Forbidden /\
  middleware true ex_cache None None None None (s2l "/n%61cos/v1/cs/configs") (s2l "POST") = Forbidden.
Proof. vm_compute. repeat split. Qed.

Example ex_route : exists r,
  In r openapi_routes /\ under_prefix r = true /\ r_handler r = "add_config" /\
  pat_match (r_pat r) (requote (s2l "/n%61cos/v1/cs/configs")) = true.
Proof.
  destruct (find (fun r => String.eqb (r_handler r) "add_config" && String.eqb (r_method r) "POST") openapi_routes) as [r|] eqn:E;
    [|vm_compute in E; discriminate].
  pose proof E as E'. apply find_some in E as [Hin _]. exists r. split; [exact Hin|].
  vm_compute in E'. inversion E'; subst r. vm_compute. repeat split.
Qed.

Example ex_allowed :
  allowed_path "/nacos/metrics" /\ allowed_path "/nacos/v1/auth/login" /\
  dispatch_decoded openapi_services (s2l "/nacos/v1/auth/login") (s2l "POST") = Handler "login".
Proof.
  split; [left; vm_compute; tauto|]. split; [|reflexivity].
  right. apply only_login_sound. vm_compute. reflexivity.
Qed.

Example ex_grpc :
  In "ConfigPublishRequest" grpc_registered /\ ~ In "ConfigPublishRequest" grpc_no_session_needed /\
  request true [] ex_cache (s2l "ConfigPublishRequest") (Some (s2l "good")) None None = Dispatch /\
  request true [] ex_cache (s2l "ConfigPublishRequest") (Some (s2l "bad")) None None = Refused403 /\
  request true (s2l "ct") ex_cache (s2l "RaftVoteRequest") None None (Some (s2l "ct")) = Dispatch /\
  request true (s2l "ct") ex_cache (s2l "RaftVoteRequest") None None (Some (s2l "xx")) = Refused500 /\
  request true (s2l "ct") ex_cache (s2l "RaftVoteRequest") (Some (s2l "good")) None (Some (s2l "ct")) = Refused500 /\
  request true [] ex_cache (s2l "RaftVoteRequest") None None None = Dispatch /\
  request true [] ex_cache (s2l "ServerCheckRequest") None None None = ServerCheck.
Proof.
  split; [vm_compute; tauto|]. split; [|vm_compute; repeat split].
  intro H. vm_compute in H. repeat (destruct H as [H|H]; [discriminate|]). exact H.
Qed.
