(** The vocabulary of property C17, written from the property text (NOT derived from the
    code's own tables): which endpoints may be used without a session, what a visitor may
    post, which routes are user management / full-data transfer. *)
From RN Require Export Auth.Console.
Local Open Scope string_scope.

(** "every API call except the login endpoints (login, captcha, login configuration,
    OAuth2 callback) is refused without a valid session" *)
Definition login_endpoints : list string := [
  "/rnacos/api/console/login/login";
  "/rnacos/api/console/login/captcha";
  "/rnacos/api/console/v2/login/login";
  "/rnacos/api/console/v2/login/captcha";
  "/rnacos/api/console/v2/login/config";
  "/rnacos/api/console/v2/login/oauth2/login"
].

(** what a visitor may invoke with a method other than GET on a *registered* (path,
    method) pair: log in / out and change the own password *)
Definition visitor_self_service : list string := [
  "/rnacos/api/console/login/login";
  "/rnacos/api/console/login/logout";
  "/rnacos/api/console/user/reset_password";
  "/rnacos/api/console/v2/login/login";
  "/rnacos/api/console/v2/login/logout";
  "/rnacos/api/console/v2/login/oauth2/login";
  "/rnacos/api/console/v2/user/reset_password"
].

(** the same for *any* method string: the session-less endpoints are granted with every
    method although only one method is registered for them *)
Definition visitor_any_method : list string :=
  visitor_self_service ++ [
  "/rnacos/api/console/login/captcha";
  "/rnacos/api/console/v2/login/captcha";
  "/rnacos/api/console/v2/login/config"
].

(** user management = everything under .../user/ except the caller's own profile *)
Definition user_self_service : list string := [
  "/rnacos/api/console/user/info";
  "/rnacos/api/console/user/web_resources";
  "/rnacos/api/console/user/reset_password";
  "/rnacos/api/console/v2/user/info";
  "/rnacos/api/console/v2/user/web_resources";
  "/rnacos/api/console/v2/user/reset_password"
].

Definition mem_string (s : string) (l : list string) : bool := existsb (String.eqb s) l.

Definition is_user_mgmt (p : string) : bool :=
  (prefixb (s2l "/rnacos/api/console/user/") (s2l p) || prefixb (s2l "/rnacos/api/console/v2/user/") (s2l p))
  && negb (mem_string p user_self_service).

Definition is_transfer (p : string) : bool := containsb (s2l "/transfer/") (s2l p).

(** the one stale table entry on which visitor is NOT below developer; it is not a
    registered route (reported in the evidence) *)
Definition stale_visitor_only : list string := [ "/rnacos/api/console/download" ].

Definition GET : str := s2l "GET".
