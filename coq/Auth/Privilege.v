(** Model of src/common/model/privilege.rs (PrivilegeGroup, NamespacePrivilegeGroup), of the
    copy user record -> session (user/model.rs build_namespace_privilege) and of the listing
    filters of TenantIndex::query_config_page / NamespaceIndex::query_service_page.
    Executable definitions only. *)
From RN Require Export Auth.StrX.
Local Open Scope N_scope.

Record pgroup := mkPg {
  enabled : bool;
  wl_all : bool;                 (* whitelist_is_all *)
  wl : option (list str);        (* whitelist (a HashSet) *)
  bl_all : bool;                 (* blacklist_is_all *)
  bl : option (list str) }.      (* blacklist *)

Definition pg_all : pgroup := mkPg true true None false None.       (* PrivilegeGroup::all() = Default *)
Definition pg_empty : pgroup := mkPg true false None false None.    (* PrivilegeGroup::empty() *)

Definition at_whitelist (g : pgroup) (k : str) : bool :=
  if wl_all g then true else match wl g with Some l => mem k l | None => false end.

Definition at_blacklist (g : pgroup) (k : str) : bool :=
  if bl_all g then true else match bl g with Some l => mem k l | None => false end.

(** check_permission = at_whitelist && !at_blacklist — note: [enabled] is not consulted *)
Definition check_permission (g : pgroup) (k : str) : bool := at_whitelist g k && negb (at_blacklist g k).

Definition check_option_value_permission (g : pgroup) (k : option str) (empty_default : bool) : bool :=
  match k with Some k => check_permission g k | None => empty_default end.

Definition blacklist_is_empty (g : pgroup) : bool :=
  if bl_all g then false
  else match bl g with Some [] => true | Some (_ :: _) => false | None => true end.

Definition is_all (g : pgroup) : bool := enabled g && wl_all g && blacklist_is_empty g.

(** flags: ENABLE = 1, WHILE_LIST_IS_ALL = 2, BLACK_LIST_IS_ALL = 4 *)
Definition get_flags (g : pgroup) : N :=
  (if enabled g then 1 else 0) + (if wl_all g then 2 else 0) + (if bl_all g then 4 else 0).

Definition flag (flags bitval : N) : bool := negb (N.land flags bitval =? 0).

(** PrivilegeGroup::new(flags, whitelist, blacklist) *)
Definition pg_new (flags : N) (w b : option (list str)) : pgroup :=
  mkPg (flag flags 1) (flag flags 2) w (flag flags 4) b.

(** set_flags *)
Definition set_flags (g : pgroup) (flags : N) : pgroup :=
  mkPg (flag flags 1) (flag flags 2) (wl g) (flag flags 4) (bl g).

(** UserDo::build_namespace_privilege: the stored flags (u32 -> u8) and the two stored lists;
    a record without the ENABLE bit means "all" *)
Definition build_namespace_privilege (stored_flags : N) (wlist blist : list str) : pgroup :=
  let f := stored_flags mod 256 in
  if flag f 1 then pg_new f (Some wlist) (Some blist) else pg_all.

(** ---- NamespacePrivilegeGroup: the default namespace ("" or "public") is looked up as "" ---- *)
Definition default_namespace_key : str := [].                       (* DEFAULT_NAMESPACE_ARC_STRING *)
Definition is_default_namespace (k : str) : bool := is_empty k || str_eqb k (s2l "public").

Definition ns_key (k : str) : str := if is_default_namespace k then default_namespace_key else k.

Definition ns_check (g : pgroup) (k : str) : bool := check_permission g (ns_key k).

Definition ns_check_option (g : pgroup) (k : option str) (empty_default : bool) : bool :=
  match k with Some k => ns_check g k | None => empty_default end.

(** user_namespace_privilege!(req): the session's group, or Default (= all) without one *)
Definition session_privilege (p : option pgroup) : pgroup := match p with Some g => g | None => pg_all end.

(** ---- listing filters: an index is a list of (namespace, items) ---- *)
Definition index (A : Type) := list (str * list A).

Fixpoint index_get {A} (idx : index A) (k : str) : option (list A) :=
  match idx with
  | [] => None
  | (n, items) :: t => if str_eqb n k then Some items else index_get t k
  end.

(** query_config_page / query_service_page without the paging arithmetic: the (namespace,
    item) pairs that are returned *)
Definition query_page {A} (idx : index A) (g : pgroup) (param_ns : option str) : list (str * A) :=
  match param_ns with
  | Some k =>
      if ns_check g k then
        match index_get idx k with Some items => map (fun i => (k, i)) items | None => [] end
      else []
  | None =>
      List.concat (map (fun e => if ns_check g (fst e) then map (fun i => (fst e, i)) (snd e) else []) idx)
  end.

(** ---- what a guarded handler does with a request that names namespace [k] ---- *)
Inductive guard :=
| GuardCheck        (* user_namespace_privilege!(req) + check on the request's namespace, refusing before any data access *)
| GuardParam        (* privilege passed into the query parameter (filtering in the index) + check when a namespace is named *)
| GuardFilter       (* the result list is filtered by the privilege (namespace list) *)
| GuardIndex        (* privilege passed into the query parameter, NO explicit refusal: the index filter ([query_page])
                       decides — a request naming a forbidden namespace is answered with an empty result *)
| NoGuard.          (* no use of the caller's privilege *)

(** is a request naming namespace [k] (None = no namespace named) acted upon? *)
Definition acts (gd : guard) (g : pgroup) (k : option str) : bool :=
  match gd with
  | GuardCheck => match k with Some k => ns_check g k | None => ns_check g [] end
  | GuardParam => ns_check_option g k true
  | GuardFilter => true
  | GuardIndex => true
  | NoGuard => true
  end.

(** ---- the privilege WRITE path: UserManager::add_user / update_user (user/mod.rs) ----
    The stored record keeps the flags and the two lists; [pparam] is
    PrivilegeGroupOptionParam (every field optional: None = "not edited"). *)
Record pparam := mkPp {
  p_wl_all : option bool;
  p_wl : option (list str);
  p_bl_all : option bool;
  p_bl : option (list str) }.

Record urec := mkUr { u_flags : option N; u_wl : list str; u_bl : list str }.

Definition olist (o : option (list str)) : list str := match o with Some l => l | None => [] end.
Definition obool (o : option bool) (d : bool) : bool := match o with Some b => b | None => d end.

Definition store_group (g : pgroup) : urec := mkUr (Some (get_flags g)) (olist (wl g)) (olist (bl g)).

Definition urec_group (u : urec) : pgroup :=
  build_namespace_privilege (match u_flags u with Some f => f | None => 0 end) (u_wl u) (u_bl u).

(** add_user: PrivilegeGroup::all(), lists replaced by the parameter's (None included), the
    two booleans only when given *)
Definition add_user_priv (p : option pparam) : urec :=
  store_group (match p with
               | None => pg_all
               | Some p => mkPg true (obool (p_wl_all p) true) (p_wl p) (obool (p_bl_all p) false) (p_bl p)
               end).

(** update_user: without a parameter the stored privilege is untouched; with one every given
    field REPLACES the stored one (an empty list included), enabled := true *)
Definition update_user_priv (u : urec) (p : option pparam) : urec :=
  match p with
  | None => u
  | Some p =>
      let g := urec_group u in
      store_group (mkPg true (obool (p_wl_all p) (wl_all g))
                        (match p_wl p with Some l => Some l | None => wl g end)
                        (obool (p_bl_all p) (bl_all g))
                        (match p_bl p with Some l => Some l | None => bl g end))
  end.

(** ---- console namespace listing (console/api.rs query_namespace_list, v2/namespace_api.rs
    query_namespace_list): every namespace when [is_all], otherwise those whose id passes
    check_option_value_permission(id, false); an entry without an id is dropped ---- *)
Definition namespace_list (g : pgroup) (all : list (option str)) : list (option str) :=
  if is_all g then all else filter (fun id => ns_check_option g id false) all.
