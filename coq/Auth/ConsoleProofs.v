(** Proofs for property C17 (console: session required; roles cannot exceed their grants).

    Facts about the *generated* finite tables are established by complete evaluation in
    the kernel ([vm_compute] of a boolean checker over the whole table, then
    [forallb_forall]); everything that ranges over strings (paths, methods, tokens, role
    values) is proved in general and only *instantiated* with those table facts. *)
From RN Require Import Auth.StrX Auth.StrXProofs Auth.Route Auth.RouteProofs Auth.Console Auth.ConsoleSpec.
From Coq Require Import Lia.
Local Open Scope N_scope.

(** ------------------------------------------------------------------------------ *)
(** * generic list helpers *)

Lemma existsb_ext_in : forall (A : Type) (f g : A -> bool) (l : list A),
  (forall x, In x l -> f x = g x) -> existsb f l = existsb g l.
Proof.
  induction l as [|x l IH]; intro H; [reflexivity|]. cbn [existsb].
  rewrite (H x (or_introl eq_refl)), IH; [reflexivity|]. intros y Hy. apply H. right. exact Hy.
Qed.

Lemma existsb_false_in : forall (A : Type) (f : A -> bool) (l : list A),
  (forall x, In x l -> f x = false) -> existsb f l = false.
Proof.
  induction l as [|x l IH]; intro H; [reflexivity|]. cbn [existsb].
  rewrite (H x (or_introl eq_refl)), IH; [reflexivity|]. intros y Hy. apply H. right. exact Hy.
Qed.

Lemma imp_elim : forall b x : bool, b = true -> negb b || x = true -> x = true.
Proof. intros b x H. rewrite H. exact (fun h => h). Qed.

Lemma or_elim_false : forall b x : bool, b = false -> b || x = true -> x = true.
Proof. intros b x H. rewrite H. exact (fun h => h). Qed.

Lemma mem_string_In : forall s l, mem_string s l = true <-> In s l.
Proof.
  intros s l. unfold mem_string. rewrite existsb_exists. split.
  - intros [x [Hx E]]. apply String.eqb_eq in E. subst. exact Hx.
  - intro H. exists s. split; [exact H | apply String.eqb_refl].
Qed.

Lemma mem_string_false : forall s l, mem_string s l = false <-> ~ In s l.
Proof.
  intros s l. split.
  - intros H HI. apply mem_string_In in HI. congruence.
  - intro H. destruct (mem_string s l) eqn:E; [apply mem_string_In in E; contradiction | reflexivity].
Qed.

(** ------------------------------------------------------------------------------ *)
(** * the permission tables as one list of entries *)

Definition role_entries (r : user_role) : list (string * string) := List.concat (List.concat (role_resources r)).
Definition all_entries : list (string * string) := List.concat (map role_entries all_user_roles).
Fixpoint dedup (l : list str) : list str :=
  match l with
  | [] => []
  | x :: t => if mem x t then dedup t else x :: dedup t
  end.

Lemma dedup_In : forall x l, In x l -> In x (dedup l).
Proof.
  induction l as [|y t IH]; intro H; [exact H|]. cbn [dedup]. destruct H as [H|H].
  - subst y. destruct (mem x t) eqn:E; [apply IH, mem_In, E | left; reflexivity].
  - destruct (mem y t); [apply IH, H | right; apply IH, H].
Qed.

(** the distinct method strings that occur in the tables *)
Definition table_methods : list str := dedup (map (fun e => s2l (snd e)) all_entries).

Lemma all_user_roles_complete : forall r, In r all_user_roles.
Proof. intro r. destruct r; vm_compute; tauto. Qed.

Lemma role_entries_in_all : forall r e, In e (role_entries r) -> In e all_entries.
Proof.
  intros r e H. unfold all_entries. apply in_concat. exists (role_entries r). split; [|exact H].
  apply in_map, all_user_roles_complete.
Qed.

Lemma role_match_entries : forall r p m,
  role_match r p m = existsb (fun e => path_res_match e p m) (role_entries r).
Proof.
  intros r p m. unfold role_match, role_entries, group_match, module_match.
  induction (role_resources r) as [|g gs IH]; [reflexivity|].
  cbn [existsb List.concat map]. rewrite concat_app, existsb_app, IH. f_equal.
  clear IH. induction g as [|mo g IHg]; [reflexivity|].
  cbn [existsb List.concat]. rewrite existsb_app, IHg. reflexivity.
Qed.

(** PathResource::match_url = (method test) && (path test) *)
Definition method_ok (e : string * string) (m : str) : bool :=
  str_eqb (s2l (snd e)) (s2l HTTP_METHOD_ALL) || str_eqb (s2l (snd e)) m.
Definition path_ok (e : string * string) (p : str) : bool :=
  if is_empty p
  then str_eqb (s2l (fst e)) (s2l EMPTY_STR) || str_eqb (s2l (fst e)) (s2l "/")
  else str_eqb (s2l (fst e)) (s2l EMPTY_STR) || str_eqb (s2l (fst e)) p.

Lemma path_res_match_split : forall e p m, path_res_match e p m = method_ok e m && path_ok e p.
Proof. intros e p m. unfold path_res_match, method_ok, path_ok. destruct (is_empty p); reflexivity. Qed.

(** the decision depends on the method only through equality tests against the methods
    that occur in the tables *)
Definition same_class (m m' : str) : Prop := forall x, In x table_methods -> str_eqb x m = str_eqb x m'.

Lemma role_match_same_class : forall r p m m', same_class m m' -> role_match r p m = role_match r p m'.
Proof.
  intros r p m m' H. rewrite !role_match_entries. apply existsb_ext_in. intros e He.
  rewrite !path_res_match_split. f_equal. unfold method_ok. f_equal.
  apply H. unfold table_methods. apply dedup_In. apply in_map with (f := fun e => s2l (snd e)).
  apply role_entries_in_all with r. exact He.
Qed.

Lemma not_in_same_class : forall m m', ~ In m table_methods -> ~ In m' table_methods -> same_class m m'.
Proof.
  intros m m' H H' x Hx.
  assert (E : str_eqb x m = false) by (apply str_eqb_neq; intro; subst; contradiction).
  assert (E' : str_eqb x m' = false) by (apply str_eqb_neq; intro; subst; contradiction).
  congruence.
Qed.

(** a method string that occurs in no table: stands for "any other method" *)
Definition fresh_method : str := s2l "PROBE-OTHER".
Definition probe_methods : list str := table_methods ++ [fresh_method].

Lemma fresh_not_in_tables : mem fresh_method table_methods = false.
Proof. vm_compute. reflexivity. Qed.

(** a boolean statement about (role, path) that holds for every probe method holds for
    every method string *)
Lemma all_methods_by_probe : forall (f : str -> bool),
  (forall m m', same_class m m' -> f m = f m') ->
  forallb f probe_methods = true -> forall m, f m = true.
Proof.
  intros f Hc Hp m. rewrite forallb_forall in Hp.
  destruct (mem m table_methods) eqn:E.
  - apply mem_In in E. apply Hp. unfold probe_methods. apply in_or_app. left. exact E.
  - rewrite (Hc m fresh_method).
    + apply Hp. unfold probe_methods. apply in_or_app. right. left. reflexivity.
    + apply not_in_same_class; [apply mem_false, E | apply mem_false, fresh_not_in_tables].
Qed.

Lemma GET_in_tables : In GET table_methods.
Proof. apply mem_In. vm_compute. reflexivity. Qed.

Lemma same_class_GET : forall m m', same_class m m' -> str_eqb GET m = str_eqb GET m'.
Proof. intros m m' H. apply H, GET_in_tables. Qed.

(** ------------------------------------------------------------------------------ *)
(** * UserRole::new, match_url_by_roles *)

Lemma role_lookup_range : forall arms v, In (role_lookup arms v) (map snd arms ++ [role_new_default]).
Proof.
  induction arms as [|[k r] t IH]; intro v; cbn [role_lookup map app].
  - left. reflexivity.
  - destruct (str_eqb (s2l k) v); [left; reflexivity | right; apply IH].
Qed.

Lemma role_lookup_unknown : forall arms v,
  ~ In v (map (fun a => s2l (fst a)) arms) -> role_lookup arms v = role_new_default.
Proof.
  induction arms as [|[k r] t IH]; intros v H; cbn [role_lookup]; [reflexivity|].
  cbn [map fst In] in H. destruct (str_eqb (s2l k) v) eqn:E.
  - apply str_eqb_eq in E. exfalso. apply H. left. exact E.
  - apply IH. intro HI. apply H. right. exact HI.
Qed.

Lemma default_role_has_no_resources : role_resources role_new_default = [].
Proof. vm_compute. reflexivity. Qed.

Lemma new_arm_keys_are_ALL_ROLES : map (fun a => s2l (fst a)) role_new_arms = map s2l ALL_ROLES.
Proof. vm_compute. reflexivity. Qed.

Lemma role_constants_agree :
  USER_ROLE_MANAGER = MANAGER_VALUE /\ USER_ROLE_DEVELOPER = DEVELOPER_VALUE /\ USER_ROLE_VISITOR = VISITOR_VALUE.
Proof. repeat split; reflexivity. Qed.

Lemma role_match_default : forall p m, role_match role_new_default p m = false.
Proof. intros p m. unfold role_match. rewrite default_role_has_no_resources. reflexivity. Qed.

Lemma match_url_by_roles_app : forall r1 r2 p m,
  match_url_by_roles (r1 ++ r2) p m = match_url_by_roles r1 p m || match_url_by_roles r2 p m.
Proof. intros. unfold match_url_by_roles. apply existsb_app. Qed.

Lemma match_url_by_roles_union : forall roles p m,
  match_url_by_roles roles p m = existsb (fun v => match_url_by_roles [v] p m) roles.
Proof.
  intros roles p m. unfold match_url_by_roles. apply existsb_ext_in. intros v _.
  cbn [existsb]. rewrite orb_false_r. reflexivity.
Qed.

Lemma unknown_role_no_grant : forall v p m,
  ~ In v (map s2l ALL_ROLES) -> match_url_by_roles [v] p m = false.
Proof.
  intros v p m H. unfold match_url_by_roles. cbn [existsb]. rewrite orb_false_r.
  unfold role_new. rewrite role_lookup_unknown; [apply role_match_default|].
  rewrite new_arm_keys_are_ALL_ROLES. exact H.
Qed.

Lemma unknown_roles_ignored : forall roles p m,
  match_url_by_roles roles p m = match_url_by_roles (filter (fun v => mem v (map s2l ALL_ROLES)) roles) p m.
Proof.
  induction roles as [|v t IH]; intros p m; [reflexivity|].
  cbn [filter]. specialize (IH p m). pose proof (unknown_role_no_grant v p m) as U.
  unfold match_url_by_roles in *. cbn [existsb] in *. rewrite orb_false_r in U.
  destruct (mem v (map s2l ALL_ROLES)) eqn:E.
  - cbn [existsb]. rewrite IH. reflexivity.
  - rewrite U; [exact IH | apply mem_false, E].
Qed.

Lemma listed_nowhere_no_roles : forall p m,
  (forall r, role_match r p m = false) -> forall roles, match_url_by_roles roles p m = false.
Proof. intros p m H roles. unfold match_url_by_roles. apply existsb_false_in. intros v _. apply H. Qed.

(** ------------------------------------------------------------------------------ *)
(** * the middleware *)

Lemma no_session_refused_lemma : forall c cookie header path method,
  is_check_path path = true ->
  token_of cookie header = [] \/ c (token_of cookie header) = None ->
  middleware c cookie header path method = NoLogin (is_page path).
Proof.
  intros c cookie header path method Hc H. unfold middleware, decide. rewrite Hc.
  destruct H as [H|H].
  - rewrite H. reflexivity.
  - destruct (is_empty (token_of cookie header)); [reflexivity|]. rewrite H. reflexivity.
Qed.

Lemma forward_characterised : forall c cookie header path method,
  middleware c cookie header path method = Forward <->
  is_check_path path = false \/
  (token_of cookie header <> [] /\
   exists roles, c (token_of cookie header) = Some roles /\ match_url_by_roles roles path method = true).
Proof.
  intros c cookie header path method. unfold middleware, decide.
  destruct (is_check_path path); [|split; auto].
  destruct (token_of cookie header) as [|x t] eqn:Et; cbn [is_empty].
  - split; [discriminate|]. intros [H|[H _]]; [discriminate | contradiction].
  - destruct (c (x :: t)) as [roles|] eqn:Ec.
    + destruct (match_url_by_roles roles path method) eqn:Em.
      * split; [|reflexivity]. intros _. right. split; [discriminate|]. exists roles. auto.
      * split; [discriminate|]. intros [H|[_ [roles' [E1 E2]]]]; [discriminate|]. congruence.
    + split; [discriminate|]. intros [H|[_ [roles' [E1 E2]]]]; discriminate.
Qed.

Lemma token_cookie_first : forall ck hd, token_of (Some ck) hd = ck.
Proof. reflexivity. Qed.
Lemma token_header_second : forall hd, token_of None (Some hd) = hd.
Proof. reflexivity. Qed.
Lemma token_none : token_of None None = [].
Proof. reflexivity. Qed.

Lemma unlisted_unreachable_lemma : forall path method,
  is_check_path path = true ->
  (forall r, role_match r path method = false) ->
  forall c cookie header, middleware c cookie header path method <> Forward.
Proof.
  intros path method Hc H c cookie header HF. apply forward_characterised in HF.
  destruct HF as [HF|[_ [roles [_ Hm]]]]; [congruence|].
  rewrite (listed_nowhere_no_roles _ _ H) in Hm. discriminate.
Qed.

(** ------------------------------------------------------------------------------ *)
(** * facts about the generated route table (complete enumeration) *)

Definition rpath (r : route) : string := pat_text (r_pat r).

(** API routes: static pattern, and a session check unless a login endpoint *)
Definition chk_api_route (r : route) : bool :=
  negb (is_api_route r) ||
  (pat_is_exact (r_pat r) &&
   (mem_string (rpath r) login_endpoints ||
    (is_check_path (s2l (rpath r)) && negb (is_page (s2l (rpath r)))))).

Lemma chk_api_routes : forallb chk_api_route console_routes = true.
Proof. vm_compute. reflexivity. Qed.

(** routes with a dynamic tail are GET-only and none of them is an API route *)
Definition chk_tail_route (r : route) : bool :=
  pat_is_exact (r_pat r) || (String.eqb (r_method r) "GET" && negb (is_api_route r)).

Lemma chk_tail_routes : forallb chk_tail_route console_routes = true.
Proof. vm_compute. reflexivity. Qed.

Lemma api_routes_need_session_lemma : forall r,
  In r console_routes -> is_api_route r = true ->
  pat_is_exact (r_pat r) = true /\
  (~ In (rpath r) login_endpoints ->
   is_check_path (s2l (rpath r)) = true /\
   forall c cookie header,
     token_of cookie header = [] \/ c (token_of cookie header) = None ->
     middleware c cookie header (s2l (rpath r)) (s2l (r_method r)) = NoLogin false).
Proof.
  intros r Hr Ha. pose proof chk_api_routes as H. rewrite forallb_forall in H. specialize (H r Hr).
  unfold chk_api_route in H. rewrite Ha in H. cbn [negb orb] in H.
  apply andb_true_iff in H as [He H]. split; [exact He|]. intro Hn.
  apply orb_true_iff in H as [H|H]; [apply mem_string_In in H; contradiction|].
  apply andb_true_iff in H as [Hc Hp]. split; [exact Hc|]. intros c cookie header Ht.
  rewrite (no_session_refused_lemma c cookie header _ _ Hc Ht).
  apply negb_true_iff in Hp. rewrite Hp. reflexivity.
Qed.

(** visitor: registered (path, method) pairs *)
Definition chk_visitor_pair (r : route) : bool :=
  String.eqb (r_method r) "GET" || negb (pat_is_exact (r_pat r)) || mem_string (rpath r) visitor_self_service
  || negb (role_match RoleVisitor (s2l (rpath r)) (s2l (r_method r))).

Lemma chk_visitor_pairs : forallb chk_visitor_pair console_routes = true.
Proof. vm_compute. reflexivity. Qed.

Lemma visitor_cannot_mutate_lemma : forall r,
  In r console_routes -> r_method r <> "GET"%string -> ~ In (rpath r) visitor_self_service ->
  pat_is_exact (r_pat r) = true /\ role_match RoleVisitor (s2l (rpath r)) (s2l (r_method r)) = false.
Proof.
  intros r Hr Hm Hn.
  pose proof chk_tail_routes as Ht. rewrite forallb_forall in Ht. specialize (Ht r Hr). unfold chk_tail_route in Ht.
  assert (He : pat_is_exact (r_pat r) = true).
  { destruct (pat_is_exact (r_pat r)); [reflexivity|]. cbn [orb] in Ht. apply andb_true_iff in Ht as [Ht _].
    apply String.eqb_eq in Ht. contradiction. }
  split; [exact He|].
  pose proof chk_visitor_pairs as H. rewrite forallb_forall in H. specialize (H r Hr). unfold chk_visitor_pair in H.
  rewrite He in H. cbn [negb] in H. rewrite orb_false_r in H.
  apply orb_true_iff in H as [H|H]; [|apply negb_true_iff, H].
  apply orb_true_iff in H as [H|H]; [apply String.eqb_eq in H; contradiction | apply mem_string_In in H; contradiction].
Qed.

(** visitor: every registered path with EVERY method string other than GET *)
Definition vis_probe (p : str) (m : str) : bool := str_eqb GET m || negb (role_match RoleVisitor p m).

Definition chk_visitor_any (r : route) : bool :=
  negb (pat_is_exact (r_pat r)) || mem_string (rpath r) visitor_any_method
  || forallb (vis_probe (s2l (rpath r))) probe_methods.

Lemma chk_visitor_anys : forallb chk_visitor_any console_routes = true.
Proof. vm_compute. reflexivity. Qed.

Lemma visitor_cannot_mutate_any_method_lemma : forall r m,
  In r console_routes -> pat_is_exact (r_pat r) = true -> m <> GET -> ~ In (rpath r) visitor_any_method ->
  role_match RoleVisitor (s2l (rpath r)) m = false.
Proof.
  intros r m Hr He Hm Hn.
  pose proof chk_visitor_anys as H. rewrite forallb_forall in H. specialize (H r Hr). unfold chk_visitor_any in H.
  rewrite He in H. cbn [negb orb] in H.
  apply orb_true_iff in H as [H|H]; [apply mem_string_In in H; contradiction|].
  assert (P : vis_probe (s2l (rpath r)) m = true).
  { apply all_methods_by_probe; [|exact H]. intros a b Hab. unfold vis_probe.
    rewrite (same_class_GET _ _ Hab), (role_match_same_class _ _ _ _ Hab). reflexivity. }
  unfold vis_probe in P. apply orb_true_iff in P as [P|P]; [|apply negb_true_iff, P].
  apply str_eqb_eq in P. congruence.
Qed.

(** developer (and the legacy OldConsole role, which uses the developer group) *)
Definition dev_probe (p : str) (m : str) : bool :=
  negb (role_match RoleDeveloper p m) && negb (role_match RoleOldConsole p m).

Definition chk_developer (r : route) : bool :=
  negb (is_user_mgmt (rpath r) || is_transfer (rpath r)) || forallb (dev_probe (s2l (rpath r))) probe_methods.

Lemma chk_developers : forallb chk_developer console_routes = true.
Proof. vm_compute. reflexivity. Qed.

Lemma developer_no_user_mgmt_no_transfer_lemma : forall r m,
  In r console_routes -> is_user_mgmt (rpath r) = true \/ is_transfer (rpath r) = true ->
  role_match RoleDeveloper (s2l (rpath r)) m = false /\ role_match RoleOldConsole (s2l (rpath r)) m = false.
Proof.
  intros r m Hr Hu.
  pose proof chk_developers as H. rewrite forallb_forall in H. specialize (H r Hr). unfold chk_developer in H.
  assert (E : is_user_mgmt (rpath r) || is_transfer (rpath r) = true) by (apply orb_true_iff; exact Hu).
  apply (imp_elim _ _ E) in H.
  assert (P : dev_probe (s2l (rpath r)) m = true).
  { apply (all_methods_by_probe (dev_probe (s2l (rpath r)))); [|exact H]. intros a b Hab. unfold dev_probe.
    rewrite (role_match_same_class RoleDeveloper _ _ _ Hab), (role_match_same_class RoleOldConsole _ _ _ Hab).
    reflexivity. }
  unfold dev_probe in P. apply andb_true_iff in P as [P1 P2]. split; apply negb_true_iff; assumption.
Qed.

(** ------------------------------------------------------------------------------ *)
(** * role monotonicity: table subsumption, valid for ALL paths and methods *)

Definition subsumes (e e' : string * string) : bool :=
  (str_eqb (s2l (fst e')) (s2l EMPTY_STR) || str_eqb (s2l (fst e')) (s2l (fst e)))
  && (str_eqb (s2l (snd e')) (s2l HTTP_METHOD_ALL) || str_eqb (s2l (snd e')) (s2l (snd e))).

Lemma subsumes_sound : forall e e' p m,
  subsumes e e' = true -> path_res_match e p m = true -> path_res_match e' p m = true.
Proof.
  intros e e' p m Hs Hm. rewrite path_res_match_split in *. unfold subsumes in Hs.
  apply andb_true_iff in Hs as [Sp Sm]. apply andb_true_iff in Hm as [Mm Mp].
  apply andb_true_iff. split.
  - unfold method_ok in *. apply orb_true_iff in Sm as [Sm|Sm]; [rewrite Sm; reflexivity|].
    apply str_eqb_eq in Sm. rewrite Sm. exact Mm.
  - unfold path_ok in *. apply orb_true_iff in Sp as [Sp|Sp].
    + destruct (is_empty p); rewrite Sp; reflexivity.
    + apply str_eqb_eq in Sp. rewrite Sp. exact Mp.
Qed.

(** [except]: table entries of [lo] that need not be covered (their path must be a proper,
    non-root path, so that they can only match that very path) *)
Definition excepted (e : string * string) (except : list string) : bool :=
  mem_string (fst e) except && negb (str_eqb (s2l (fst e)) (s2l EMPTY_STR)) && negb (str_eqb (s2l (fst e)) (s2l "/")).

Definition chk_below (lo hi : user_role) (except : list string) : bool :=
  forallb (fun e => excepted e except || existsb (subsumes e) (role_entries hi)) (role_entries lo).

Lemma below_sound : forall lo hi except,
  chk_below lo hi except = true ->
  forall p m, ~ In p (map s2l except) -> role_match lo p m = true -> role_match hi p m = true.
Proof.
  intros lo hi except H p m Hp Hm. rewrite role_match_entries in *.
  apply existsb_exists in Hm as [e [He Hm]]. unfold chk_below in H. rewrite forallb_forall in H.
  specialize (H e He). apply orb_true_iff in H as [H|H].
  - (* an excepted entry can only match an excepted path *)
    exfalso. unfold excepted in H. apply andb_true_iff in H as [H N2]. apply andb_true_iff in H as [H N1].
    apply mem_string_In in H. apply negb_true_iff in N1. apply negb_true_iff in N2.
    rewrite path_res_match_split in Hm. apply andb_true_iff in Hm as [_ Hm].
    unfold path_ok in Hm. rewrite N1 in Hm. cbn [orb] in Hm.
    destruct (is_empty p); [congruence|].
    apply str_eqb_eq in Hm. apply Hp. rewrite <- Hm. apply in_map. exact H.
  - apply existsb_exists in H as [e' [He' Hs]]. apply existsb_exists. exists e'. split; [exact He'|].
    apply (subsumes_sound e e'); assumption.
Qed.

Lemma visitor_below_developer : chk_below RoleVisitor RoleDeveloper stale_visitor_only = true.
Proof. vm_compute. reflexivity. Qed.

Lemma developer_below_manager : chk_below RoleDeveloper RoleManager [] = true.
Proof. vm_compute. reflexivity. Qed.

Lemma role_monotone_all_paths_lemma : forall p m,
  (~ In p (map s2l stale_visitor_only) -> role_match RoleVisitor p m = true -> role_match RoleDeveloper p m = true)
  /\ (role_match RoleDeveloper p m = true -> role_match RoleManager p m = true).
Proof.
  intros p m. split.
  - apply (below_sound _ _ _ visitor_below_developer).
  - apply (below_sound _ _ _ developer_below_manager). intros [].
Qed.

(** no registered route (static or with a dynamic tail) serves a stale path *)
Definition chk_not_stale (r : route) : bool :=
  negb (existsb (fun s => pat_match (r_pat r) (s2l s)) stale_visitor_only).

Lemma chk_not_stales : forallb chk_not_stale console_routes = true.
Proof. vm_compute. reflexivity. Qed.

Lemma role_monotone_lemma : forall r path m,
  In r console_routes -> pat_match (r_pat r) path = true ->
  (role_match RoleVisitor path m = true -> role_match RoleDeveloper path m = true)
  /\ (role_match RoleDeveloper path m = true -> role_match RoleManager path m = true).
Proof.
  intros r path m Hr Hp. destruct (role_monotone_all_paths_lemma path m) as [H1 H2]. split; [|exact H2].
  apply H1. intro HI. apply in_map_iff in HI as [s [Es Hs]]. subst path.
  pose proof chk_not_stales as H. rewrite forallb_forall in H. specialize (H r Hr). unfold chk_not_stale in H.
  apply negb_true_iff in H.
  assert (X : existsb (fun s0 => pat_match (r_pat r) (s2l s0)) stale_visitor_only = true)
    by (apply existsb_exists; exists s; auto).
  congruence.
Qed.

(** ------------------------------------------------------------------------------ *)
(** * spellings: what the router decodes, the middleware does not *)

Definition has_percent (s : str) : bool := existsb (N.eqb percent) s.

Lemma has_percent_In : forall s, has_percent s = true <-> In percent s.
Proof.
  intro s. unfold has_percent. rewrite existsb_exists. split.
  - intros [x [Hx E]]. apply N.eqb_eq in E. subst. exact Hx.
  - intro H. exists percent. split; [exact H | apply N.eqb_refl].
Qed.

(** table paths are plain: non-empty and without '%'; ignore-list entries and API patterns too *)
Definition chk_plain_tables : bool :=
  forallb (fun e => negb (has_percent (s2l (fst e))) && negb (is_empty (s2l (fst e)))) all_entries
  && forallb (fun s => negb (has_percent (s2l s))) IGNORE_CHECK_LOGIN
  && forallb (forallb is_alnum) (map s2l STATIC_FILE_EXTS)
  && forallb (fun r => negb (is_api_route r) || negb (static_file_match (s2l (rpath r)))) console_routes.

Lemma plain_tables : chk_plain_tables = true.
Proof. vm_compute. reflexivity. Qed.

Lemma percent_path_matches_nothing : forall r raw m, In percent raw -> role_match r raw m = false.
Proof.
  intros r raw m HP. rewrite role_match_entries. apply existsb_false_in. intros e He.
  pose proof plain_tables as H. unfold chk_plain_tables in H.
  apply andb_true_iff in H as [H _]. apply andb_true_iff in H as [H _]. apply andb_true_iff in H as [H _].
  rewrite forallb_forall in H. specialize (H e (role_entries_in_all _ _ He)).
  apply andb_true_iff in H as [H1 H2]. apply negb_true_iff in H1. apply negb_true_iff in H2.
  rewrite path_res_match_split. apply andb_false_iff. right. unfold path_ok.
  destruct raw as [|x raw]; [destruct HP|]. cbn [is_empty].
  apply orb_false_iff. split.
  - apply str_eqb_neq. intro E. change (s2l EMPTY_STR) with (@nil N) in E. rewrite E in H2. discriminate.
  - apply str_eqb_neq. intro E. rewrite E in H1. apply has_percent_In in HP. congruence.
Qed.

Lemma percent_path_no_roles : forall roles raw m, In percent raw -> match_url_by_roles roles raw m = false.
Proof.
  intros roles raw m H. apply listed_nowhere_no_roles. intro r. apply percent_path_matches_nothing, H.
Qed.

Lemma spellings_fail_closed_lemma : forall r raw,
  In r console_routes -> is_api_route r = true ->
  pat_match (r_pat r) (requote raw) = true ->      (* the router maps [raw] to this API route *)
  raw <> s2l (rpath r) ->                          (* and [raw] is not the literal spelling *)
  is_check_path raw = true
  /\ (forall roles m, match_url_by_roles roles raw m = false)
  /\ (forall c cookie header m, middleware c cookie header raw m <> Forward).
Proof.
  intros r raw Hr Ha Hm Hne.
  destruct (api_routes_need_session_lemma r Hr Ha) as [He _].
  unfold rpath in *. destruct (r_pat r) as [s|s|es] eqn:Ep; try discriminate. cbn [pat_text pat_match] in *.
  apply str_eqb_eq in Hm.
  assert (HP : In percent raw).
  { apply requote_changed_has_percent. rewrite <- Hm. congruence. }
  pose proof plain_tables as H. unfold chk_plain_tables in H.
  apply andb_true_iff in H as [H H4]. apply andb_true_iff in H as [H H3]. apply andb_true_iff in H as [_ H2].
  assert (Hc : is_check_path raw = true).
  { unfold is_check_path. apply andb_true_iff. split; apply negb_true_iff.
    - apply mem_false. intro HI. apply in_map_iff in HI as [x [Ex Hx]].
      rewrite forallb_forall in H2. specialize (H2 x Hx). apply negb_true_iff in H2.
      rewrite Ex in H2. apply has_percent_In in HP. congruence.
    - destruct (static_file_match raw) eqn:Es; [|reflexivity]. exfalso.
      unfold static_file_match in Es. apply (re_dot_exts_requote _ _ H3) in Es. rewrite <- Hm in Es.
      rewrite forallb_forall in H4. specialize (H4 r Hr). rewrite Ha in H4. cbn [negb orb] in H4.
      apply negb_true_iff in H4. unfold rpath in H4. rewrite Ep in H4. cbn [pat_text] in H4.
      unfold static_file_match in H4. congruence. }
  split; [exact Hc|]. split.
  - intros roles m. apply percent_path_no_roles, HP.
  - intros c cookie header m HF. apply forward_characterised in HF.
    destruct HF as [HF|[_ [roles [_ HF]]]]; [congruence|].
    rewrite (percent_path_no_roles roles raw m HP) in HF. discriminate.
Qed.

(** ------------------------------------------------------------------------------ *)
(** * the flattened route list is what the dispatcher serves (general lemmas: RouteProofs.v) *)

Lemma dispatch_raw_sound : forall raw m h,
  dispatch_raw console_services raw m = Handler h ->
  exists r, In r console_routes /\ pat_match (r_pat r) (requote raw) = true /\ s2l (r_method r) = m /\ r_handler r = h.
Proof. intros raw m h H. apply dispatch_decoded_sound. exact H. Qed.
