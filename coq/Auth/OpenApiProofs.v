(** Proofs for property C16 (HTTP part): the string matcher (general, by induction), the
    decision, the token extraction order, and the finite facts about the generated tables. *)
From RN Require Import Auth.StrX Auth.StrXProofs Auth.Route Auth.RouteProofs Auth.OpenApi Auth.OpenApiSpec.
From Coq Require Import Lia ZifyBool ZifyN.
Local Open Scope N_scope.

(** ---- the matcher ---- *)
Lemma prefix_ci_of_ci_equal : forall lit mid post, ci_equal lit mid -> prefix_ci lit (mid ++ post) = true.
Proof.
  intros lit mid post H. induction H as [|c x lit mid Hc _ IH]; [reflexivity|].
  cbn [app prefix_ci]. rewrite Hc, IH. reflexivity.
Qed.

Lemma contains_ci_of_ci_equal : forall lit pre mid post,
  ci_equal lit mid -> contains_ci lit (pre ++ mid ++ post) = true.
Proof.
  intros lit pre mid post H. apply contains_ci_spec. exists pre, (mid ++ post).
  split; [reflexivity | apply prefix_ci_of_ci_equal, H].
Qed.

Lemma ci_equal_of_contains : forall lit s,
  contains_ci lit s = true -> exists pre mid post, s = pre ++ mid ++ post /\ ci_equal lit mid.
Proof.
  intros lit s H. apply contains_ci_spec in H as [pre [b [E Hb]]]. subst s.
  exists pre. revert b Hb. induction lit as [|c lit IH]; intros b Hb.
  - exists [], b. split; [reflexivity | constructor].
  - destruct b as [|x b]; cbn [prefix_ci] in Hb; [discriminate|].
    apply andb_true_iff in Hb as [H1 H2]. destruct (IH b H2) as [mid [post [E Hm]]].
    exists (x :: mid), post. split.
    + apply app_inv_head in E. subst b. reflexivity.
    + constructor; assumption.
Qed.

(** every ASCII case variant is [ci_equal] to a lower-case literal *)
Lemma ci_equal_ascii_case : forall lit mid,
  forallb (fun c => negb (is_upper c)) lit = true ->
  map ascii_lower mid = lit -> ci_equal lit mid.
Proof.
  intros lit mid Hl E. subst lit. induction mid as [|x mid IH]; [constructor|].
  cbn [map forallb] in *. apply andb_true_iff in Hl as [H1 H2]. constructor; [|apply IH, H2].
  clear IH H2. unfold ci_eqc, to_lower, ascii_lower, is_upper, is_lower in *.
  destruct ((65 <=? x) && (x <=? 90)) eqn:U.
  - assert (U' : (65 <=? x + 32) && (x + 32 <=? 90) = false) by lia. rewrite U'. lia.
  - rewrite U. lia.
Qed.

(** the words of the two generated regular expressions are the two prefixes of the property *)
Lemma api_words_literal :
  map (fun w => slash :: w ++ [slash]) (map s2l OPENAPI_API_PATH_WORDS) = [s2l "/nacos/"]
  /\ map (fun w => slash :: w ++ [slash]) (map s2l OPENAPI_RNACOS_PATH_WORDS) = [s2l "/rnacos/v1/"].
Proof. split; reflexivity. Qed.

Lemma api_match_nacos : forall path, api_match path = contains_ci (s2l "/nacos/") path.
Proof. intro path. unfold api_match, re_slash_words. cbn [OPENAPI_API_PATH_WORDS map existsb]. apply orb_false_r. Qed.

Lemma rnacos_api_match_v1 : forall path, rnacos_api_match path = contains_ci (s2l "/rnacos/v1/") path.
Proof. intro path. unfold rnacos_api_match, re_slash_words. cbn [OPENAPI_RNACOS_PATH_WORDS map existsb]. apply orb_false_r. Qed.

Lemma all_spellings_checked_lemma : forall path pre mid post,
  path = pre ++ mid ++ post ->
  ci_equal (s2l "/nacos/") mid \/ ci_equal (s2l "/rnacos/v1/") mid ->
  ~ In path (map s2l IGNORE_PATH) ->
  is_check_path true path = true.
Proof.
  intros path pre mid post E H Hn. unfold is_check_path. apply andb_true_iff. split.
  - apply orb_true_iff. destruct H as [H|H]; [left; rewrite api_match_nacos | right; rewrite rnacos_api_match_v1];
      subst path; apply contains_ci_of_ci_equal, H.
  - apply negb_true_iff, mem_false, Hn.
Qed.

(** and nothing else is checked: the decision is exactly this *)
Lemma is_check_path_spec : forall path,
  is_check_path true path = true <->
  ((exists pre mid post, path = pre ++ mid ++ post /\ (ci_equal (s2l "/nacos/") mid \/ ci_equal (s2l "/rnacos/v1/") mid))
   /\ ~ In path (map s2l IGNORE_PATH)).
Proof.
  intro path. split.
  - intro H. unfold is_check_path in H. apply andb_true_iff in H as [H1 H2].
    apply negb_true_iff, mem_false in H2. split; [|exact H2].
    apply orb_true_iff in H1 as [H1|H1].
    + rewrite api_match_nacos in H1. destruct (ci_equal_of_contains _ _ H1) as [a [b [c [E Hc]]]]. exists a, b, c. auto.
    + rewrite rnacos_api_match_v1 in H1. destruct (ci_equal_of_contains _ _ H1) as [a [b [c [E Hc]]]]. exists a, b, c. auto.
  - intros [[pre [mid [post [E H]]]] Hn]. apply (all_spellings_checked_lemma path pre mid post E H Hn).
Qed.

(** ---- the decision ---- *)
Lemma pass_requires_session_lemma : forall c path token,
  is_check_path true path = true -> pass true c path token = true -> token <> [] /\ c token = true.
Proof.
  intros c path token Hc H. unfold pass in H. rewrite Hc in H. cbn [negb orb] in H.
  destruct token as [|x t]; cbn [is_empty] in H; [discriminate|]. split; [discriminate | exact H].
Qed.

Lemma no_token_refused_lemma : forall c path token,
  is_check_path true path = true -> token = [] \/ c token = false -> pass true c path token = false.
Proof.
  intros c path token Hc H. unfold pass. rewrite Hc. cbn [negb orb].
  destruct H as [H|H]; [subst; reflexivity|]. destruct (is_empty token); [reflexivity | exact H].
Qed.

Lemma middleware_forbidden_lemma : forall c authorization access qtok btok raw method,
  is_check_path true (seen raw) = true ->
  (let t := extract_token authorization access qtok btok method in t = [] \/ c t = false) ->
  middleware true c authorization access qtok btok raw method = Forbidden.
Proof.
  intros c authorization access qtok btok raw method Hc H. unfold middleware. rewrite Hc. cbn [andb].
  rewrite (no_token_refused_lemma c _ _ Hc H). reflexivity.
Qed.

Lemma middleware_pass_lemma : forall c authorization access qtok btok raw method,
  middleware true c authorization access qtok btok raw method = Pass <->
  is_check_path true (seen raw) = false \/
  (extract_token authorization access qtok btok method <> [] /\ c (extract_token authorization access qtok btok method) = true).
Proof.
  intros c authorization access qtok btok raw method. unfold middleware.
  destruct (is_check_path true (seen raw)) eqn:Hc; cbn [andb].
  - destruct (pass true c (seen raw) (extract_token authorization access qtok btok method)) eqn:P.
    + split; [|reflexivity]. intros _. right. apply (pass_requires_session_lemma c _ _ Hc P).
    + split; [discriminate|]. intros [H|[H1 H2]]; [discriminate|].
      unfold pass in P. rewrite Hc in P. cbn [negb orb] in P.
      destruct (extract_token authorization access qtok btok method); [contradiction|]. cbn [is_empty] in P. congruence.
  - unfold pass. rewrite Hc. cbn [negb orb]. split; auto.
Qed.

(** auth switched off: everything passes (the property only speaks about "auth on") *)
Lemma auth_off_passes : forall c authorization access qtok btok raw method,
  middleware false c authorization access qtok btok raw method = Pass.
Proof. reflexivity. Qed.

(** ---- token extraction ---- *)
Lemma split_once_ws_none : forall v, forallb (fun c => negb (is_ws c)) v = true -> split_once_ws v = None.
Proof.
  induction v as [|c t IH]; intro H; [reflexivity|]. cbn [forallb] in H. apply andb_true_iff in H as [H1 H2].
  cbn [split_once_ws]. apply negb_true_iff in H1. rewrite H1, (IH H2). reflexivity.
Qed.

Lemma split_once_ws_app : forall a w b,
  forallb (fun c => negb (is_ws c)) a = true -> is_ws w = true -> split_once_ws (a ++ w :: b) = Some (a, b).
Proof.
  induction a as [|c t IH]; intros w b Ha Hw; cbn [app split_once_ws].
  - rewrite Hw. reflexivity.
  - cbn [forallb] in Ha. apply andb_true_iff in Ha as [H1 H2]. apply negb_true_iff in H1.
    rewrite H1, (IH _ _ H2 Hw). reflexivity.
Qed.

Lemma token_extraction_order_lemma :
  (forall v access qtok btok m, extract_token (Some v) access qtok btok m = bearer_strip v)
  /\ (forall a qtok btok m, extract_token None (Some a) qtok btok m = a)
  /\ (forall q btok m, extract_token None None (Some q) btok m = q)
  /\ (forall btok, extract_token None None None btok (s2l "GET") = [])
  /\ (forall b m, m <> s2l "GET" -> extract_token None None None (Some b) m = b)
  /\ (forall m, extract_token None None None None m = []).
Proof.
  repeat split; try reflexivity.
  - intros b m H. unfold extract_token. cbn [header_token].
    destruct (str_eqb m (s2l "GET")) eqn:E; [apply str_eqb_eq in E; contradiction | reflexivity].
  - intro m. unfold extract_token. cbn [header_token]. destruct (str_eqb m (s2l "GET")); reflexivity.
Qed.

Lemma bearer_strip_lemma :
  (forall v, forallb (fun c => negb (is_ws c)) v = true -> bearer_strip v = v)
  /\ (forall scheme w t, forallb (fun c => negb (is_ws c)) scheme = true -> is_ws w = true ->
        eq_ignore_ascii_case scheme (s2l "Bearer") = true -> bearer_strip (scheme ++ w :: t) = trim t)
  /\ (forall scheme w t, forallb (fun c => negb (is_ws c)) scheme = true -> is_ws w = true ->
        eq_ignore_ascii_case scheme (s2l "Bearer") = false -> bearer_strip (scheme ++ w :: t) = scheme ++ w :: t).
Proof.
  repeat split.
  - intros v H. unfold bearer_strip. rewrite (split_once_ws_none _ H). reflexivity.
  - intros scheme w t Hs Hw He. unfold bearer_strip. rewrite (split_once_ws_app _ _ _ Hs Hw), He. reflexivity.
  - intros scheme w t Hs Hw He. unfold bearer_strip. rewrite (split_once_ws_app _ _ _ Hs Hw), He. reflexivity.
Qed.

(** ---- the generated tables (complete enumeration) ---- *)
Lemma path_source_is_routed : auth_path_source = RoutedPath.
Proof. reflexivity. Qed.

(** methods that occur in the route table: a handler can only be reached with one of them *)
Definition route_methods : list string := map r_method openapi_routes.

Definition only_login_b (p : string) : bool :=
  forallb (fun m => match dispatch_decoded openapi_services (s2l p) (s2l m) with
                    | Handler h => String.eqb h login_handler
                    | _ => true
                    end) route_methods.

Lemma only_login_sound : forall p, only_login_b p = true -> only_login p.
Proof.
  intros p H m h Hd. destruct (dispatch_decoded_sound _ _ _ _ Hd) as [r [Hr [_ [Em _]]]].
  unfold only_login_b in H. rewrite forallb_forall in H.
  specialize (H (r_method r) (in_map r_method _ _ Hr)). rewrite Em, Hd in H. apply String.eqb_eq, H.
Qed.

Definition allowed_path_b (p : string) : bool := existsb (String.eqb p) fixed_allowed || only_login_b p.

Lemma ignore_list_is_allowed_lemma : forall p, In p IGNORE_PATH -> allowed_path p.
Proof.
  assert (H : forallb allowed_path_b IGNORE_PATH = true) by (vm_compute; reflexivity).
  rewrite forallb_forall in H. intros p Hp. specialize (H p Hp). unfold allowed_path_b in H.
  apply orb_true_iff in H as [H|H].
  - left. apply existsb_exists in H as [x [Hx E]]. apply String.eqb_eq in E. subst. exact Hx.
  - right. apply only_login_sound, H.
Qed.

Lemma prefixb_trans : forall a b c, prefixb a b = true -> prefixb b c = true -> prefixb a c = true.
Proof.
  intros a b c H1 H2. apply prefixb_spec in H1 as [r1 E1]. apply prefixb_spec in H2 as [r2 E2].
  apply prefixb_spec. exists (r1 ++ r2). subst. rewrite app_assoc. reflexivity.
Qed.

Lemma prefix_ci_of_prefixb : forall a p,
  forallb (fun c => negb (is_upper c)) a = true -> prefixb a p = true -> prefix_ci a p = true.
Proof.
  induction a as [|c a IH]; intros p Ha H; [reflexivity|].
  destruct p as [|x p]; cbn [prefixb] in H; [discriminate|]. apply andb_true_iff in H as [H1 H2].
  apply N.eqb_eq in H1. subst x. cbn [forallb] in Ha. apply andb_true_iff in Ha as [U Ha].
  cbn [prefix_ci]. rewrite (ci_eqc_lower_refl c (proj1 (negb_true_iff _) U)), (IH _ Ha H2). reflexivity.
Qed.

Lemma contains_of_prefixb : forall a p,
  forallb (fun c => negb (is_upper c)) a = true -> prefixb a p = true -> contains_ci a p = true.
Proof.
  intros a p Ha H. apply contains_ci_spec. exists [], p. split; [reflexivity | apply prefix_ci_of_prefixb; assumption].
Qed.

Lemma strip_prefix_prefixb : forall a s r, strip_prefix a s = Some r -> prefixb a s = true.
Proof.
  induction a as [|x a IH]; intros s r H; [reflexivity|]. destruct s as [|y s]; cbn [strip_prefix] in H; [discriminate|].
  destruct (x =? y) eqn:E; [|discriminate]. cbn [prefixb]. rewrite E. apply (IH _ _ H).
Qed.

Lemma pat_head_prefix : forall p path, pat_match p path = true -> prefixb (s2l (pat_head p)) path = true.
Proof.
  intros p path H. destruct p as [s|s|es]; cbn [pat_match pat_head] in *.
  - apply str_eqb_eq in H. subst. apply prefixb_spec. exists []. symmetry. apply app_nil_r.
  - exact H.
  - destruct es as [|[s| |] r]; try reflexivity. cbn [match_elems] in H.
    destruct (strip_prefix (s2l s) path) eqn:E; [|discriminate]. apply (strip_prefix_prefixb _ _ _ E).
Qed.

Lemma routes_covered_lemma : forall r raw,
  In r openapi_routes -> under_prefix r = true ->
  pat_match (r_pat r) (requote raw) = true ->
  ~ In (requote raw) (map s2l IGNORE_PATH) ->
  is_check_path true (seen raw) = true.
Proof.
  intros r raw _ Hu Hm Hn. unfold seen. rewrite path_source_is_routed. cbn [seen_with].
  pose proof (pat_head_prefix _ _ Hm) as Hp. unfold under_prefix in Hu.
  unfold is_check_path. apply andb_true_iff. split; [|apply negb_true_iff, mem_false, Hn].
  apply orb_true_iff in Hu as [Hu|Hu]; apply orb_true_iff.
  - left. rewrite api_match_nacos. apply contains_of_prefixb; [reflexivity|]. apply (prefixb_trans _ _ _ Hu Hp).
  - right. rewrite rnacos_api_match_v1. apply contains_of_prefixb; [reflexivity|]. apply (prefixb_trans _ _ _ Hu Hp).
Qed.

(** which routes are under the two prefixes at all (the others are listed in the evidence) *)
Definition routes_under_prefix : list route := filter under_prefix openapi_routes.

Lemma under_prefix_nonempty : (10 <= List.length routes_under_prefix)%nat.
Proof. vm_compute. repeat constructor. Qed.
