(** Proofs for property C16 (gRPC part), by complete enumeration of the generated request
    type lists; the request type, the tokens and the configured cluster token are arbitrary. *)
From RN Require Import Auth.StrX Auth.StrXProofs Auth.Grpc Auth.OpenApiSpec.
Local Open Scope N_scope.

(** every registered type that is not one of the property's "no session needed" types is
    subject to the session check *)
Lemma data_types_need_session :
  forallb (fun t => in_list (s2l t) grpc_no_session_needed || negb (in_list (s2l t) grpc_ignore_auth)) grpc_registered = true.
Proof. vm_compute. reflexivity. Qed.

Lemma registered_not_server_check : forallb (fun t => negb (str_eqb (s2l SERVER_CHECK_REQUEST) (s2l t))) grpc_registered = true.
Proof. vm_compute. reflexivity. Qed.

Lemma grpc_data_requests_refused_lemma : forall cluster_cfg t cluster_ok,
  In t grpc_registered -> ~ In t grpc_no_session_needed ->
  handle true cluster_cfg (s2l t) false cluster_ok = Refused403.
Proof.
  intros cluster_cfg t cluster_ok Hr Hn.
  pose proof data_types_need_session as H. rewrite forallb_forall in H. specialize (H t Hr).
  pose proof registered_not_server_check as H0. rewrite forallb_forall in H0. specialize (H0 t Hr).
  apply negb_true_iff in H0. unfold handle. rewrite H0.
  apply orb_true_iff in H as [H|H].
  - exfalso. apply Hn. unfold in_list in H. apply s2l_mem in H. exact H.
  - rewrite H. reflexivity.
Qed.

(** with the token handling of fill_token_session: no token, an empty token or a token
    without a live session all lead to the refusal *)
Lemma fill_no_session : forall enable cfg c access authorization hdr,
  grpc_token access authorization = [] \/ c (grpc_token access authorization) = false ->
  fst (fill enable cfg c access authorization hdr) = false.
Proof.
  intros enable cfg c access authorization hdr H. unfold fill. cbv zeta.
  remember (grpc_token access authorization) as token.
  destruct H as [H|H].
  - rewrite H. cbn [is_empty negb]. rewrite andb_false_r. destruct (negb (is_empty cfg)); reflexivity.
  - destruct (enable && negb (is_empty token)); [exact H|]. destruct (negb (is_empty cfg)); reflexivity.
Qed.

Lemma grpc_request_refused_lemma : forall cfg c t access authorization hdr,
  In t grpc_registered -> ~ In t grpc_no_session_needed ->
  grpc_token access authorization = [] \/ c (grpc_token access authorization) = false ->
  request true cfg c (s2l t) access authorization hdr = Refused403.
Proof.
  intros cfg c t access authorization hdr Hr Hn Ht. unfold request.
  pose proof (fill_no_session true cfg c access authorization hdr Ht) as F.
  destruct (fill true cfg c access authorization hdr) as [hs ck]. cbn [fst] in F. subst hs.
  apply grpc_data_requests_refused_lemma; assumption.
Qed.

(** cluster-internal requests: exempt from the session check, but never dispatched without
    a valid cluster token when one is configured *)
Lemma cluster_lists_agree :
  map s2l grpc_cluster_request = map s2l grpc_cluster_internal
  /\ forallb (fun t => in_list (s2l t) grpc_ignore_auth) grpc_cluster_request = true
  /\ forallb (fun t => negb (str_eqb (s2l SERVER_CHECK_REQUEST) (s2l t))) grpc_cluster_request = true.
Proof. repeat split; vm_compute; reflexivity. Qed.

Lemma grpc_cluster_needs_token_lemma : forall enable cfg t has_session,
  cfg <> [] -> In t grpc_cluster_internal ->
  handle enable cfg (s2l t) has_session false = Refused500.
Proof.
  intros enable cfg t has_session Hc Ht.
  destruct cluster_lists_agree as [E [H1 H2]].
  assert (Hin : In t grpc_cluster_request).
  { apply s2l_mem. apply mem_In. rewrite E. apply in_map, Ht. }
  rewrite forallb_forall in H1, H2. specialize (H1 t Hin). specialize (H2 t Hin). apply negb_true_iff in H2.
  unfold handle. rewrite H2, H1. cbn [negb]. rewrite andb_false_r. cbn [andb].
  assert (Hm : in_list (s2l t) grpc_cluster_request = true) by (unfold in_list; apply s2l_mem, Hin).
  rewrite Hm. destruct cfg; [contradiction|]. reflexivity.
Qed.

(** and the cluster token is only ever accepted when the header equals the configured one *)
Lemma fill_cluster_ok : forall enable cfg c access authorization hdr,
  snd (fill enable cfg c access authorization hdr) = true -> cfg <> [] /\ hdr = Some cfg.
Proof.
  intros enable cfg c access authorization hdr H. unfold fill in H.
  destruct (enable && negb (is_empty _)); [discriminate|].
  destruct cfg as [|x cfg]; cbn [is_empty negb] in H; [discriminate|]. cbn [snd] in H.
  destruct hdr as [t|]; [|discriminate]. apply str_eqb_eq in H. subst. split; [discriminate | reflexivity].
Qed.

Lemma grpc_cluster_dispatch_needs_header : forall enable cfg c t access authorization hdr,
  cfg <> [] -> In t grpc_cluster_internal ->
  request enable cfg c (s2l t) access authorization hdr = Dispatch -> hdr = Some cfg.
Proof.
  intros enable cfg c t access authorization hdr Hc Ht H. unfold request in H.
  destruct (fill enable cfg c access authorization hdr) as [hs ck] eqn:F.
  destruct ck.
  - assert (S : snd (fill enable cfg c access authorization hdr) = true) by (rewrite F; reflexivity).
    apply fill_cluster_ok in S. tauto.
  - rewrite (grpc_cluster_needs_token_lemma enable cfg t hs Hc Ht) in H. discriminate.
Qed.
