(** Model of src/openapi/middle/auth_middle.rs (ApiCheckAuthMiddleware::call, header_token,
    the token extraction order) over the tables of [Gen/OpenApiTables.v].  Executable
    definitions only. *)
From RN Require Export Auth.StrX Auth.Route Gen.OpenApiTables.
Local Open Scope N_scope.

(** the path the middleware looks at for a raw request path *)
Definition seen_with (src : path_source) (raw : str) : str :=
  match src with RawPath => raw | RoutedPath => requote raw end.
Definition seen (raw : str) : str := seen_with auth_path_source raw.

Definition api_match (path : str) : bool := re_slash_words (map s2l OPENAPI_API_PATH_WORDS) path.
Definition rnacos_api_match (path : str) : bool := re_slash_words (map s2l OPENAPI_RNACOS_PATH_WORDS) path.

(** let is_check_path = if enable_auth { (API_PATH.is_match(path) || R_NACOS_API_PATH.is_match(path))
                                         && !IGNORE_PATH.contains(&path) } else { true }; *)
Definition is_check_path (enable : bool) (path : str) : bool :=
  if enable then (api_match path || rnacos_api_match path) && negb (mem path (map s2l IGNORE_PATH)) else true.

(** ---- header_token ---- *)
(** char::is_whitespace (Unicode White_Space) *)
Definition is_ws (c : N) : bool :=
  ((9 <=? c) && (c <=? 13)) || (c =? 32) || (c =? 133) || (c =? 160) || (c =? 5760)
  || ((8192 <=? c) && (c <=? 8202)) || (c =? 8232) || (c =? 8233) || (c =? 8239) || (c =? 8287) || (c =? 12288).

(** str::split_once(char::is_whitespace) *)
Fixpoint split_once_ws (s : str) : option (str * str) :=
  match s with
  | [] => None
  | c :: t => if is_ws c then Some ([], t)
              else match split_once_ws t with Some (a, b) => Some (c :: a, b) | None => None end
  end.

Fixpoint trim_start (s : str) : str :=
  match s with [] => [] | c :: t => if is_ws c then trim_start t else s end.
Definition trim (s : str) : str := rev (trim_start (rev (trim_start s))).

(** eq_ignore_ascii_case *)
Definition ascii_lower (c : N) : N := if (65 <=? c) && (c <=? 90) then c + 32 else c.
Fixpoint eq_ignore_ascii_case (a b : str) : bool :=
  match a, b with
  | [], [] => true
  | x :: a', y :: b' => (ascii_lower x =? ascii_lower y) && eq_ignore_ascii_case a' b'
  | _, _ => false
  end.

(** value.split_once(char::is_whitespace).filter(|(scheme, _)| scheme.eq_ignore_ascii_case("Bearer"))
         .map_or(value, |(_, token)| token.trim()) *)
Definition bearer_strip (v : str) : str :=
  match split_once_ws v with
  | Some (scheme, rest) => if eq_ignore_ascii_case scheme (s2l "Bearer") then trim rest else v
  | None => v
  end.

(** header_token: the Authorization header wins over the accessToken header *)
Definition header_token (authorization access : option str) : option str :=
  match authorization with
  | Some v => Some (bearer_strip v)
  | None => access
  end.

(** the token: header, else the accessToken of the query string (when serde_urlencoded
    could parse one: [qtok]), else — for every method but GET — the accessToken of the
    url-encoded body ([btok]), else "" *)
Definition extract_token (authorization access qtok btok : option str) (method : str) : str :=
  match header_token authorization access with
  | Some t => t
  | None =>
      match qtok with
      | Some t => t
      | None => if str_eqb method (s2l "GET") then []
                else match btok with Some t => t | None => [] end
      end
  end.

(** the session cache for API tokens: token -> is there a live ApiTokenSession *)
Definition tcache := str -> bool.

Inductive verdict := Pass | Forbidden.

Definition pass (enable : bool) (c : tcache) (path token : str) : bool :=
  if negb enable || negb (is_check_path enable path) then true
  else if is_empty token then false
  else c token.

(** the whole middleware on a raw request *)
Definition middleware (enable : bool) (c : tcache) (authorization access qtok btok : option str) (raw method : str) : verdict :=
  let path := seen raw in
  let token := if enable && is_check_path enable path
               then extract_token authorization access qtok btok method else [] in
  if pass enable c path token then Pass else Forbidden.

(** ---- the registered routes of the 8848 port (auth enabled) ---- *)
Definition openapi_routes : list route := flatten openapi_services.

(** literal head of a pattern: every path it serves starts with it *)
Definition pat_head (p : pat) : string :=
  match p with
  | PExact s => s
  | PPrefix s => s
  | PSegs (PLit s :: _) => s
  | PSegs _ => EmptyString
  end.

Definition nacos_prefix : string := "/nacos/".
Definition rnacos_v1_prefix : string := "/rnacos/v1/".
Definition under_prefix (r : route) : bool :=
  prefixb (s2l nacos_prefix) (s2l (pat_head (r_pat r))) || prefixb (s2l rnacos_v1_prefix) (s2l (pat_head (r_pat r))).
