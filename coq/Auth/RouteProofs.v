(** General lemmas about the dispatch model of [Route.v]: a handler is only ever reached
    through an entry of the flattened route table. *)
From RN Require Import Auth.StrX Auth.StrXProofs Auth.Route.
Local Open Scope N_scope.

Lemma find_route_In : forall routes m h,
  find_route routes m = Handler h -> exists m', In (m', h) routes /\ s2l m' = m.
Proof.
  induction routes as [|[m0 h0] t IH]; intros m h H; cbn [find_route] in H; [discriminate|].
  destruct (str_eqb (s2l m0) m) eqn:E.
  - inversion H; subst. apply str_eqb_eq in E. exists m0. split; [left; reflexivity | exact E].
  - destruct (IH _ _ H) as [m' [Hi Em]]. exists m'. split; [right; exact Hi | exact Em].
Qed.

Lemma find_res_In : forall rs path m h,
  find_res rs path m = Handler h ->
  exists g p routes, In (Res g p routes) rs /\ pat_match p path = true /\ find_route routes m = Handler h.
Proof.
  induction rs as [|[g p routes] t IH]; intros path m h H; cbn [find_res] in H; [discriminate|].
  destruct (pat_match p path) eqn:E.
  - destruct (find_route routes m) as [h'| |] eqn:Ef.
    + inversion H; subst h'. exists g, p, routes. split; [left; reflexivity | auto].
    + destruct g; [|discriminate].
      destruct (IH _ _ _ H) as [g' [p' [routes' [Hi Hx]]]]. exists g', p', routes'. split; [right; exact Hi | exact Hx].
    + destruct g; [|discriminate].
      destruct (IH _ _ _ H) as [g' [p' [routes' [Hi Hx]]]]. exists g', p', routes'. split; [right; exact Hi | exact Hx].
  - destruct (IH _ _ _ H) as [g' [p' [routes' [Hi Hx]]]]. exists g', p', routes'. split; [right; exact Hi | exact Hx].
Qed.

Lemma strip_prefix_spec : forall p s r, strip_prefix p s = Some r -> s = p ++ r.
Proof.
  induction p as [|x p IH]; intros s r H; cbn [strip_prefix] in H.
  - inversion H. reflexivity.
  - destruct s as [|y s]; [discriminate|]. destruct (x =? y) eqn:E; [|discriminate].
    apply N.eqb_eq in E. subst. cbn [app]. f_equal. apply IH, H.
Qed.

Lemma strip_prefix_app : forall p r, strip_prefix p (p ++ r) = Some r.
Proof. induction p as [|x p IH]; intro r; cbn [app strip_prefix]; [reflexivity | rewrite N.eqb_refl; apply IH]. Qed.

Lemma strip_scope_spec : forall prefix path rest,
  strip_scope prefix path = Some rest -> path = s2l prefix ++ rest.
Proof.
  intros prefix path rest H. unfold strip_scope in H.
  destruct (strip_prefix (s2l prefix) path) as [[|c r]|] eqn:E; try discriminate.
  - inversion H; subst. apply strip_prefix_spec, E.
  - destruct (c =? slash); [|discriminate]. inversion H; subst. apply strip_prefix_spec, E.
Qed.

Lemma str_eqb_app_l : forall a b c, str_eqb (a ++ b) (a ++ c) = str_eqb b c.
Proof. induction a as [|x a IH]; intros b c; cbn [app str_eqb]; [reflexivity | rewrite N.eqb_refl, IH; reflexivity]. Qed.

Lemma prefixb_app_l : forall a b c, prefixb (a ++ b) (a ++ c) = prefixb b c.
Proof. induction a as [|x a IH]; intros b c; cbn [app prefixb]; [reflexivity | rewrite N.eqb_refl, IH; reflexivity]. Qed.

Lemma pat_match_prepend : forall prefix p rest,
  pat_match (pat_prepend prefix p) (s2l prefix ++ rest) = pat_match p rest.
Proof.
  intros prefix p rest. destruct p as [s|s|es]; cbn [pat_prepend pat_match].
  - rewrite s2l_app. apply str_eqb_app_l.
  - rewrite s2l_app. apply prefixb_app_l.
  - cbn [match_elems]. rewrite strip_prefix_app. reflexivity.
Qed.

Lemma pat_match_prepend_empty : forall p path, pat_match (pat_prepend EmptyString p) path = pat_match p path.
Proof. intros p path. apply (pat_match_prepend EmptyString p path). Qed.

Lemma flatten_res_In : forall prefix g p routes m' h,
  In (m', h) routes -> In (mkRoute (pat_prepend prefix p) m' h) (flatten_res prefix (Res g p routes)).
Proof.
  intros prefix g p routes m' h Hi. cbn [flatten_res].
  apply in_map with (f := fun mh => mkRoute (pat_prepend prefix p) (fst mh) (snd mh)) in Hi. exact Hi.
Qed.

Lemma dispatch_decoded_sound : forall ss path m h,
  dispatch_decoded ss path m = Handler h ->
  exists r, In r (flatten ss) /\ pat_match (r_pat r) path = true /\ s2l (r_method r) = m /\ r_handler r = h.
Proof.
  induction ss as [|s t IH]; intros path m h H; cbn [dispatch_decoded] in H; [discriminate|].
  unfold flatten. cbn [map List.concat]. fold (flatten t).
  assert (REC : dispatch_decoded t path m = Handler h ->
                exists r, In r (flatten_service s ++ flatten t) /\ pat_match (r_pat r) path = true
                          /\ s2l (r_method r) = m /\ r_handler r = h).
  { intro H'. destruct (IH _ _ _ H') as [r [Hr Hx]]. exists r. split; [apply in_or_app; right; exact Hr | exact Hx]. }
  destruct s as [[g p routes]|prefix rs].
  - destruct (pat_match p path) eqn:E; [|exact (REC H)].
    destruct (find_route routes m) as [h'| |] eqn:Ef.
    + inversion H; subst h'. destruct (find_route_In _ _ _ Ef) as [m' [Hi Em]].
      exists (mkRoute (pat_prepend EmptyString p) m' h). split.
      * apply in_or_app. left. cbn [flatten_service]. apply flatten_res_In, Hi.
      * cbn [r_pat r_method r_handler]. rewrite pat_match_prepend_empty. auto.
    + destruct g; [exact (REC H) | discriminate].
    + destruct g; [exact (REC H) | discriminate].
  - destruct (strip_scope prefix path) as [rest|] eqn:E; [|exact (REC H)].
    apply strip_scope_spec in E. destruct (find_res_In _ _ _ _ H) as [g [p [routes [Hi [Hp Hf]]]]].
    destruct (find_route_In _ _ _ Hf) as [m' [Hm Em]].
    exists (mkRoute (pat_prepend prefix p) m' h). split.
    + apply in_or_app. left. cbn [flatten_service]. apply in_concat.
      exists (flatten_res prefix (Res g p routes)). split; [apply in_map; exact Hi | apply flatten_res_In, Hm].
    + cbn [r_pat r_method r_handler]. subst path. rewrite pat_match_prepend. auto.
Qed.

