(** Executable glue for the correspondence check of C16 (no proofs depend on it). *)
From RN Require Import Auth.StrX Auth.Route Auth.OpenApi Auth.Grpc.
Local Open Scope N_scope.

Definition path_preds (s : str) : bool * bool * bool :=
  (api_match s, rnacos_api_match s, mem s (map s2l IGNORE_PATH)).

Definition tcache_of (valid : list str) : tcache := fun t => mem t valid.

Definition dispatch_code (d : dispatch) : N * string :=
  match d with
  | Handler h => (0, h)
  | NotFound => (1, EmptyString)
  | MethodNotAllowed => (2, EmptyString)
  end.

(** (authorization, accessToken header, query token, body token, raw path, method)
    -> (0 pass / 1 forbidden, dispatch) *)
Definition run_req (enable : bool) (valid : list str)
  (req : option str * option str * option str * option str * str * str) : N * (N * string) :=
  let '(authorization, access, qtok, btok, raw, method) := req in
  ((match middleware enable (tcache_of valid) authorization access qtok btok raw method with
    | Pass => 0 | Forbidden => 1 end),
   dispatch_code (dispatch_raw openapi_services raw method)).

Definition run_reqs (enable : bool) (valid : list str) reqs := map (run_req enable valid) reqs.

Definition gcode (g : gresult) : N :=
  match g with ServerCheck => 0 | Refused403 => 1 | Refused500 => 2 | Dispatch => 3 | NotFound302 => 4 end.

(** (type, accessToken, Authorization, ClusterToken) -> (has_session, cluster_ok, result) *)
Definition run_grpc (enable : bool) (cfg : str) (valid : list str)
  (req : str * option str * option str * option str) : bool * bool * N :=
  let '(t, access, authorization, hdr) := req in
  let f := fill enable cfg (tcache_of valid) access authorization hdr in
  (fst f, snd f, gcode (request enable cfg (tcache_of valid) t access authorization hdr)).

Definition run_grpcs (enable : bool) (cfg : str) (valid : list str) reqs := map (run_grpc enable cfg valid) reqs.
