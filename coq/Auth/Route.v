(** Route tables as written by the translators, and the part of actix-web's dispatch the
    authentication properties depend on.

    A service is a resource (pattern + routes by method) or a scope (prefix + resources).
    The application tries its services in registration order; the first service whose
    pattern (resource) or prefix (scope) matches takes the request.  A scope that took
    the request answers 404 itself when none of its resources matches (no fall-through
    to later services); a resource without a route for the method answers 405.
    The router sees the partially percent-decoded path ([requote]). *)
From RN Require Export Auth.StrX.
Local Open Scope N_scope.

(** patterns: a literal path, a literal prefix followed by a tail segment [{name:.*}], or a
    sequence of literal pieces, single dynamic segments [{name}] (one or more characters
    other than '/') and an optional tail *)
Inductive pelem := PLit (s : string) | PSeg | PTail.
Inductive pat := PExact (s : string) | PPrefix (s : string) | PSegs (es : list pelem).

(** [Res guarded p routes]: (METHOD, handler) routes of a resource.  [guarded = true]: the
    resource was registered through the #[get("..")] attribute macro: the method is a guard
    of the resource itself, so a request with another method is not taken by it at all (the
    following resources / services are tried) instead of being answered 405. *)
Inductive resource := Res (guarded : bool) (p : pat) (routes : list (string * string)).
Inductive service := SRes (r : resource) | SScope (prefix : string) (rs : list resource).

Fixpoint strip_prefix (p s : str) : option str :=
  match p, s with
  | [], _ => Some s
  | x :: p', y :: s' => if x =? y then strip_prefix p' s' else None
  | _ :: _, [] => None
  end.

(** longest prefix without '/' and the rest *)
Fixpoint take_seg (s : str) : str * str :=
  match s with
  | [] => ([], [])
  | c :: t => if c =? slash then ([], s) else let '(a, b) := take_seg t in (c :: a, b)
  end.

Fixpoint match_elems (es : list pelem) (path : str) : bool :=
  match es with
  | [] => is_empty path
  | PLit s :: r => match strip_prefix (s2l s) path with Some rest => match_elems r rest | None => false end
  | PSeg :: r => let '(seg, rest) := take_seg path in negb (is_empty seg) && match_elems r rest
  | PTail :: _ => true
  end.

Definition pat_match (p : pat) (path : str) : bool :=
  match p with
  | PExact s => str_eqb (s2l s) path
  | PPrefix s => prefixb (s2l s) path
  | PSegs es => match_elems es path
  end.

Inductive dispatch := Handler (h : string) | NotFound | MethodNotAllowed.

Fixpoint find_route (routes : list (string * string)) (method : str) : dispatch :=
  match routes with
  | [] => MethodNotAllowed
  | (m, h) :: t => if str_eqb (s2l m) method then Handler h else find_route t method
  end.

Fixpoint find_res (rs : list resource) (path method : str) : dispatch :=
  match rs with
  | [] => NotFound
  | Res guarded p routes :: t =>
      if pat_match p path then
        match find_route routes method with
        | Handler h => Handler h
        | other => if guarded then find_res t path method else other
        end
      else find_res t path method
  end.

(** [strip_scope prefix path]: the remainder when [path] = prefix or prefix ++ "/" ++ _ *)
Definition strip_scope (prefix : string) (path : str) : option str :=
  match strip_prefix (s2l prefix) path with
  | Some [] => Some []
  | Some (c :: r) => if c =? slash then Some (c :: r) else None
  | None => None
  end.

Fixpoint dispatch_decoded (ss : list service) (path method : str) : dispatch :=
  match ss with
  | [] => NotFound
  | SRes (Res guarded p routes) :: t =>
      if pat_match p path then
        match find_route routes method with
        | Handler h => Handler h
        | other => if guarded then dispatch_decoded t path method else other
        end
      else dispatch_decoded t path method
  | SScope prefix rs :: t =>
      match strip_scope prefix path with
      | Some rest => find_res rs rest method
      | None => dispatch_decoded t path method
      end
  end.

(** what the server does with a raw request path *)
Definition dispatch_raw (ss : list service) (raw method : str) : dispatch :=
  dispatch_decoded ss (requote raw) method.

(** flattened view: (full pattern, METHOD, handler), registration order *)
Fixpoint elems_text (es : list pelem) : string :=
  match es with
  | [] => EmptyString
  | PLit s :: r => String.append s (elems_text r)
  | PSeg :: r => String.append "{}"%string (elems_text r)
  | PTail :: r => String.append "{*}"%string (elems_text r)
  end.
Definition pat_text (p : pat) : string :=
  match p with PExact s => s | PPrefix s => s | PSegs es => elems_text es end.
Definition pat_is_exact (p : pat) : bool := match p with PExact _ => true | _ => false end.

Record route := mkRoute { r_pat : pat; r_method : string; r_handler : string }.

Definition pat_prepend (prefix : string) (p : pat) : pat :=
  match p with
  | PExact s => PExact (String.append prefix s)
  | PPrefix s => PPrefix (String.append prefix s)
  | PSegs es => PSegs (PLit prefix :: es)
  end.

Definition flatten_res (prefix : string) (r : resource) : list route :=
  match r with Res _ p routes => map (fun mh => mkRoute (pat_prepend prefix p) (fst mh) (snd mh)) routes end.

Definition flatten_service (s : service) : list route :=
  match s with
  | SRes r => flatten_res EmptyString r
  | SScope prefix rs => List.concat (map (flatten_res prefix) rs)
  end.

Definition flatten (ss : list service) : list route := List.concat (map flatten_service ss).
