(** Route tables as written by the translators, and the part of actix-web's dispatch the
    authentication properties depend on.

    A service is a resource (pattern + routes by method) or a scope (prefix + resources).
    The application tries its services in registration order; the first service whose
    pattern (resource) or prefix (scope) matches takes the request.  A scope that took
    the request answers 404 itself when none of its resources matches (no fall-through
    to later services); a resource without a route for the method answers 405 (a resource
    registered through the attribute macro is instead skipped when the method differs).
    The router sees the partially percent-decoded path ([requote]). *)
From RN Require Export Auth.StrX.
Local Open Scope N_scope.

Inductive pat := PExact (s : string) | PPrefix (s : string).
Inductive resource := Res (p : pat) (routes : list (string * string)).     (* (METHOD, handler) *)
(** [SGuarded]: a handler registered through the #[actix_web::get("..")] attribute macro: the
    method is a guard of the resource itself, so a request with another method is not taken
    by this service at all (the next services are tried) *)
Inductive service := SRes (r : resource) | SGuarded (r : resource) | SScope (prefix : string) (rs : list resource).

Definition pat_match (p : pat) (path : str) : bool :=
  match p with
  | PExact s => str_eqb (s2l s) path
  | PPrefix s => prefixb (s2l s) path
  end.

Inductive dispatch := Handler (h : string) | NotFound | MethodNotAllowed.

Fixpoint find_route (routes : list (string * string)) (method : str) : dispatch :=
  match routes with
  | [] => MethodNotAllowed
  | (m, h) :: t => if str_eqb (s2l m) method then Handler h else find_route t method
  end.

Fixpoint find_res (rs : list resource) (path method : str) : dispatch :=
  match rs with
  | [] => NotFound
  | Res p routes :: t => if pat_match p path then find_route routes method else find_res t path method
  end.

(** [strip_scope prefix path]: the remainder when [path] = prefix or prefix ++ "/" ++ _ *)
Fixpoint strip_prefix (p s : str) : option str :=
  match p, s with
  | [], _ => Some s
  | x :: p', y :: s' => if x =? y then strip_prefix p' s' else None
  | _ :: _, [] => None
  end.

Definition strip_scope (prefix : string) (path : str) : option str :=
  match strip_prefix (s2l prefix) path with
  | Some [] => Some []
  | Some (c :: r) => if c =? slash then Some (c :: r) else None
  | None => None
  end.

Fixpoint dispatch_decoded (ss : list service) (path method : str) : dispatch :=
  match ss with
  | [] => NotFound
  | SRes (Res p routes) :: t =>
      if pat_match p path then find_route routes method else dispatch_decoded t path method
  | SGuarded (Res p routes) :: t =>
      if pat_match p path then
        match find_route routes method with
        | Handler h => Handler h
        | _ => dispatch_decoded t path method
        end
      else dispatch_decoded t path method
  | SScope prefix rs :: t =>
      match strip_scope prefix path with
      | Some rest => find_res rs rest method
      | None => dispatch_decoded t path method
      end
  end.

(** what the server does with a raw request path *)
Definition dispatch_raw (ss : list service) (raw method : str) : dispatch :=
  dispatch_decoded ss (requote raw) method.

(** flattened view: (full pattern, METHOD, handler), registration order *)
Definition pat_text (p : pat) : string := match p with PExact s => s | PPrefix s => s end.
Definition pat_is_exact (p : pat) : bool := match p with PExact _ => true | PPrefix _ => false end.

Record route := mkRoute { r_pat : pat; r_method : string; r_handler : string }.

Definition pat_prepend (prefix : string) (p : pat) : pat :=
  match p with PExact s => PExact (String.append prefix s) | PPrefix s => PPrefix (String.append prefix s) end.

Definition flatten_res (prefix : string) (r : resource) : list route :=
  match r with Res p routes => map (fun mh => mkRoute (pat_prepend prefix p) (fst mh) (snd mh)) routes end.

Definition flatten_service (s : service) : list route :=
  match s with
  | SRes r => flatten_res EmptyString r
  | SGuarded r => flatten_res EmptyString r
  | SScope prefix rs => List.concat (map (flatten_res prefix) rs)
  end.

Definition flatten (ss : list service) : list route := List.concat (map flatten_service ss).
