(** The vocabulary of property C18 for the endpoint sweep, written from the property text:
    which console API routes are namespace-scoped data endpoints, and the recorded list of
    endpoints known to apply no namespace privilege (known_findings.json, one entry per
    (route, method); the check verifies that both lists agree). *)
From RN Require Export Auth.Privilege Gen.EndpointGuards.
Local Open Scope string_scope.

(** "configurations, services, instances, namespaces and MCP entries" of both API versions
    (and the full-data transfer): the route families below the two console API prefixes *)
Definition data_families : list string :=
  [ "/cs/configs"; "/configs"; "/config/"; "/ns/"; "/instances"; "/namespaces"; "/service/"; "/instance/"; "/mcp/"; "/transfer/" ].

Definition v1_prefix : string := "/rnacos/api/console".
Definition v2_prefix : string := "/rnacos/api/console/v2".

Fixpoint strip_prefix_str (p s : str) : option str :=
  match p, s with
  | [], _ => Some s
  | x :: p', y :: s' => if N.eqb x y then strip_prefix_str p' s' else None
  | _ :: _, [] => None
  end.

Definition in_family (rest : str) : bool :=
  existsb (fun f => str_eqb (s2l f) rest || prefixb (s2l f) rest) data_families.

Definition is_data_path (p : string) : bool :=
  match strip_prefix_str (s2l v2_prefix) (s2l p) with
  | Some rest => in_family rest
  | None => match strip_prefix_str (s2l v1_prefix) (s2l p) with
            | Some rest => in_family rest
            | None => false
            end
  end.

Definition is_data_endpoint (e : endpoint) : bool := is_data_path (ep_path e).

(** endpoints known to use no namespace privilege (recorded findings) *)
Definition KnownUnguarded : list (string * string) := [
  ("/rnacos/api/console/v2/transfer/export", "GET");
  ("/rnacos/api/console/v2/transfer/import", "POST");
  ("/rnacos/api/console/v2/mcp/toolspec/list", "GET");
  ("/rnacos/api/console/v2/mcp/toolspec/info", "GET");
  ("/rnacos/api/console/v2/mcp/toolspec/add", "POST");
  ("/rnacos/api/console/v2/mcp/toolspec/update", "POST");
  ("/rnacos/api/console/v2/mcp/toolspec/remove", "POST");
  ("/rnacos/api/console/v2/mcp/toolspec/batch_update", "POST");
  ("/rnacos/api/console/v2/mcp/toolspec/download", "GET");
  ("/rnacos/api/console/v2/mcp/server/list", "GET");
  ("/rnacos/api/console/v2/mcp/server/info", "GET");
  ("/rnacos/api/console/v2/mcp/server/add", "POST");
  ("/rnacos/api/console/v2/mcp/server/update", "POST");
  ("/rnacos/api/console/v2/mcp/server/remove", "POST");
  ("/rnacos/api/console/v2/mcp/server/history", "GET");
  ("/rnacos/api/console/v2/mcp/server/publish", "POST");
  ("/rnacos/api/console/v2/mcp/server/publish/history", "POST");
  ("/rnacos/api/console/v2/mcp/server/download", "GET");
  ("/rnacos/api/console/cs/configs", "GET");
  ("/rnacos/api/console/cs/configs", "POST");
  ("/rnacos/api/console/cs/configs", "PUT");
  ("/rnacos/api/console/cs/configs", "DELETE");
  ("/rnacos/api/console/ns/service", "POST");
  ("/rnacos/api/console/ns/service", "PUT");
  ("/rnacos/api/console/ns/service", "DELETE");
  ("/rnacos/api/console/ns/service", "GET");
  ("/rnacos/api/console/ns/service/subscribers", "GET");
  ("/rnacos/api/console/ns/instance", "GET");
  ("/rnacos/api/console/ns/instance", "POST");
  ("/rnacos/api/console/ns/instance", "PUT");
  ("/rnacos/api/console/ns/instance", "DELETE");
  ("/rnacos/api/console/config/download", "POST");
  ("/rnacos/api/console/config/history", "GET");
  ("/rnacos/api/console/transfer/export", "GET");
  ("/rnacos/api/console/transfer/import", "POST")
].

Definition known_unguarded (e : endpoint) : bool :=
  existsb (fun pm => String.eqb (fst pm) (ep_path e) && String.eqb (snd pm) (ep_method e)) KnownUnguarded.
