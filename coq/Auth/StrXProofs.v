(** Lemmas about the string functions of [StrX.v]. *)
From RN Require Import Auth.StrX.
From Coq Require Import Lia ZifyBool ZifyN Wf_nat Arith.
Local Open Scope N_scope.

Lemma str_eqb_refl : forall a, str_eqb a a = true.
Proof. induction a as [|x a IH]; cbn [str_eqb]; [reflexivity|]. rewrite N.eqb_refl, IH. reflexivity. Qed.

Lemma str_eqb_eq : forall a b, str_eqb a b = true <-> a = b.
Proof.
  induction a as [|x a IH]; intros [|y b]; cbn [str_eqb]; split; intro H; try reflexivity; try discriminate.
  - apply andb_true_iff in H as [H1 H2]. apply N.eqb_eq in H1. apply IH in H2. congruence.
  - inversion H; subst. rewrite N.eqb_refl. apply str_eqb_refl.
Qed.

Lemma str_eqb_neq : forall a b, str_eqb a b = false <-> a <> b.
Proof.
  intros a b. split.
  - intros H E. apply str_eqb_eq in E. congruence.
  - intro H. destruct (str_eqb a b) eqn:E; [apply str_eqb_eq in E; contradiction | reflexivity].
Qed.

Lemma str_eqb_sym : forall a b, str_eqb a b = str_eqb b a.
Proof.
  intros a b. destruct (str_eqb a b) eqn:E.
  - apply str_eqb_eq in E. subst. symmetry. apply str_eqb_refl.
  - symmetry. apply str_eqb_neq. apply str_eqb_neq in E. congruence.
Qed.

Lemma mem_In : forall s l, mem s l = true <-> In s l.
Proof.
  intros s l. unfold mem. rewrite existsb_exists. split.
  - intros [x [Hx E]]. apply str_eqb_eq in E. subst. exact Hx.
  - intro H. exists s. split; [exact H | apply str_eqb_refl].
Qed.

Lemma mem_false : forall s l, mem s l = false <-> ~ In s l.
Proof.
  intros s l. split.
  - intros H HI. apply mem_In in HI. congruence.
  - intro H. destruct (mem s l) eqn:E; [apply mem_In in E; contradiction | reflexivity].
Qed.

Lemma N_of_ascii_inj : forall a b, N_of_ascii a = N_of_ascii b -> a = b.
Proof. intros a b H. rewrite <- (ascii_N_embedding a), <- (ascii_N_embedding b), H. reflexivity. Qed.

Lemma s2l_inj : forall a b, s2l a = s2l b -> a = b.
Proof.
  induction a as [|x a IH]; intros [|y b] H; cbn [s2l] in H; try reflexivity; try discriminate.
  inversion H as [[H1 H2]]. apply N_of_ascii_inj in H1. apply IH in H2. congruence.
Qed.

Lemma s2l_app : forall a b, s2l (String.append a b) = s2l a ++ s2l b.
Proof. induction a as [|x a IH]; intro b; cbn [String.append s2l app]; [reflexivity | rewrite IH; reflexivity]. Qed.

Lemma s2l_mem : forall (s : string) (l : list string), mem (s2l s) (map s2l l) = true <-> In s l.
Proof.
  intros s l. rewrite mem_In, in_map_iff. split.
  - intros [x [E Hx]]. apply s2l_inj in E. subst. exact Hx.
  - intro H. exists s. auto.
Qed.

(** ---- prefix / substring ---- *)
Lemma prefixb_spec : forall p s, prefixb p s = true <-> exists r, s = p ++ r.
Proof.
  induction p as [|x p IH]; intros s; cbn [prefixb].
  - split; [intros _; exists s; reflexivity | reflexivity].
  - destruct s as [|y s].
    + split; [discriminate | intros [r H]; discriminate].
    + rewrite andb_true_iff, N.eqb_eq, IH. split.
      * intros [E [r H]]. subst. exists r. reflexivity.
      * intros [r H]. inversion H; subst. split; [reflexivity | exists r; reflexivity].
Qed.

Lemma contains_ci_cons : forall p x s, contains_ci p s = true -> contains_ci p (x :: s) = true.
Proof. intros p x s H. cbn [contains_ci]. rewrite H. apply orb_true_r. Qed.

Lemma contains_ci_app_l : forall p a s, contains_ci p s = true -> contains_ci p (a ++ s) = true.
Proof. induction a as [|x a IH]; intros s H; cbn [app]; [exact H | apply contains_ci_cons, IH, H]. Qed.

Lemma contains_ci_spec : forall p s,
  contains_ci p s = true <-> exists a b, s = a ++ b /\ prefix_ci p b = true.
Proof.
  intros p s. split.
  - induction s as [|x s IH]; cbn [contains_ci]; intro H.
    + rewrite orb_false_r in H. exists [], []. auto.
    + apply orb_true_iff in H as [H|H].
      * exists [], (x :: s). auto.
      * destruct (IH H) as [a [b [E Hb]]]. exists (x :: a), b. subst. auto.
  - intros [a [b [E Hb]]]. subst. apply contains_ci_app_l.
    destruct b; cbn [contains_ci]; rewrite Hb; reflexivity.
Qed.

Lemma prefix_ci_app : forall p b r, prefix_ci p b = true -> prefix_ci p (b ++ r) = true.
Proof.
  induction p as [|c p IH]; intros b r H; [reflexivity|].
  destruct b as [|x b]; cbn [prefix_ci] in H; [discriminate|].
  apply andb_true_iff in H as [H1 H2]. cbn [app prefix_ci]. rewrite H1, (IH _ _ H2). reflexivity.
Qed.

Lemma contains_ci_app_r : forall p s r, contains_ci p s = true -> contains_ci p (s ++ r) = true.
Proof.
  intros p s r H. apply contains_ci_spec in H as [a [b [E Hb]]]. subst.
  apply contains_ci_spec. exists a, (b ++ r). rewrite app_assoc. split; [reflexivity | apply prefix_ci_app, Hb].
Qed.

(** ---- case folding on one character ---- *)
Lemma ci_eqc_lower_refl : forall c, is_upper c = false -> ci_eqc c c = true.
Proof. intros c H. unfold ci_eqc, to_lower. rewrite H, N.eqb_refl. reflexivity. Qed.

(** a pattern character that is not a letter matches only itself *)
Lemma ci_eqc_nonletter : forall c x, is_lower c = false -> is_upper c = false -> ci_eqc c x = true -> x = c.
Proof.
  intros c x H1 H2. unfold ci_eqc, to_lower. rewrite H2, H1. cbn [andb orb].
  unfold is_lower, is_upper in *. lia.
Qed.

(** what a letter or digit of a pattern can match is never '%' and never '.' *)
Lemma ci_eqc_alnum_not_percent : forall c x, is_alnum c = true -> ci_eqc c x = true -> x <> percent.
Proof.
  intros c x H. unfold ci_eqc, to_lower. destruct (is_upper c) eqn:U;
    unfold is_alnum, is_lower, is_upper, percent in *; lia.
Qed.

Lemma ci_eqc_dot : forall x, ci_eqc dot x = true -> x = dot.
Proof.
  intros x. unfold ci_eqc, to_lower. replace (is_upper dot) with false by reflexivity.
  unfold is_lower, dot. lia.
Qed.

Lemma hexval_dot : hexval dot = None.
Proof. reflexivity. Qed.

(** ---- requote ---- *)
Lemma requote_no_percent : forall s, ~ In percent s -> requote s = s.
Proof.
  induction s as [|c t IH]; intro H; [reflexivity|].
  cbn [requote]. destruct (c =? percent) eqn:E.
  - apply N.eqb_eq in E. exfalso. apply H. left. exact E.
  - rewrite IH; [reflexivity|]. intro HI. apply H. right. exact HI.
Qed.

Lemma requote_changed_has_percent : forall s, requote s <> s -> In percent s.
Proof.
  intros s H. destruct (in_dec N.eq_dec percent s) as [HI|HI]; [exact HI|].
  exfalso. apply H. apply requote_no_percent. exact HI.
Qed.

(** a literal run of letters/digits at the head of a string survives decoding *)
Lemma prefix_ci_requote : forall e t,
  forallb is_alnum e = true -> prefix_ci e t = true -> prefix_ci e (requote t) = true.
Proof.
  induction e as [|c e IH]; intros t He H; [reflexivity|].
  destruct t as [|x t]; cbn [prefix_ci] in H; [discriminate|].
  cbn [forallb] in He. apply andb_true_iff in He as [Hc He].
  apply andb_true_iff in H as [H1 H2].
  pose proof (ci_eqc_alnum_not_percent _ _ Hc H1) as NP.
  cbn [requote]. destruct (x =? percent) eqn:E; [apply N.eqb_eq in E; contradiction|].
  cbn [prefix_ci]. rewrite H1. cbn [andb]. apply IH; assumption.
Qed.

(** [".ext"] found in the raw path is still found in the decoded path: a decoded triple
    [%XY] consists of '%' and two hex digits, none of which can be the '.' that starts
    the match, and the letters after the '.' cannot be a '%'. *)
Lemma contains_dot_requote : forall e s,
  forallb is_alnum e = true ->
  contains_ci (dot :: e) s = true -> contains_ci (dot :: e) (requote s) = true.
Proof.
  intros e s He. 
  (* strong induction on the length, because decoding skips three characters *)
  remember (List.length s) as n eqn:Hn. revert s Hn.
  induction n as [n IHn] using lt_wf_ind. intros s Hn H.
  destruct s as [|c t]; [exact H|].
  cbn [contains_ci] in H. apply orb_true_iff in H as [H|H].
  - (* the match starts here: c = '.' *)
    cbn [prefix_ci] in H. apply andb_true_iff in H as [H1 H2].
    apply ci_eqc_dot in H1. subst c.
    cbn [requote]. replace (dot =? percent) with false by reflexivity.
    cbn [contains_ci prefix_ci]. replace (ci_eqc dot dot) with true by reflexivity.
    cbn [andb]. rewrite (prefix_ci_requote _ _ He H2). reflexivity.
  - (* the match is further right *)
    assert (IHt : contains_ci (dot :: e) (requote t) = true).
    { apply (IHn (List.length t)); [subst n; cbn [List.length]; lia | reflexivity | exact H]. }
    cbn [requote]. destruct (c =? percent) eqn:Ec; [|apply contains_ci_cons, IHt].
    destruct t as [|h1 [|h2 t']]; try (apply contains_ci_cons, IHt).
    destruct (decode_triple h1 h2) eqn:Ed; [|apply contains_ci_cons, IHt].
    (* decoded: h1 h2 are hex digits, so the match cannot start at h1 or h2 *)
    apply contains_ci_cons.
    unfold decode_triple in Ed.
    destruct (hexval h1) eqn:E1; [|discriminate]. destruct (hexval h2) eqn:E2; [|discriminate].
    cbn [contains_ci] in H. apply orb_true_iff in H as [H|H].
    { cbn [prefix_ci] in H. apply andb_true_iff in H as [Hd _]. apply ci_eqc_dot in Hd. subst h1.
      rewrite hexval_dot in E1. discriminate. }
    apply orb_true_iff in H as [H|H].
    { cbn [prefix_ci] in H. apply andb_true_iff in H as [Hd _]. apply ci_eqc_dot in Hd. subst h2.
      rewrite hexval_dot in E2. discriminate. }
    apply (IHn (List.length t')); [subst n; cbn [List.length]; lia | reflexivity | exact H].
Qed.

Lemma re_dot_exts_requote : forall exts s,
  forallb (forallb is_alnum) exts = true ->
  re_dot_exts exts s = true -> re_dot_exts exts (requote s) = true.
Proof.
  intros exts s He H. unfold re_dot_exts in *. apply existsb_exists in H as [e [Hin Hc]].
  apply existsb_exists. exists e. split; [exact Hin|].
  apply contains_dot_requote; [|exact Hc].
  rewrite forallb_forall in He. apply He, Hin.
Qed.
