(** Executable glue for the correspondence check of C17 (no proofs depend on it):
    compact encodings of the model's answers for batches of cases. *)
From RN Require Import Auth.StrX Auth.Route Auth.Console.
Local Open Scope N_scope.

(** cross product of match_url_by_roles: rows[role set][path] = list of bits over methods *)
Definition match_rows (rolesets : list (list str)) (paths methods : list str) : list (list (list bool)) :=
  map (fun rs => map (fun p => map (fun m => match_url_by_roles rs p m) methods) paths) rolesets.

(** the three path predicates of the middleware on a string given as code points *)
Definition path_preds (s : str) : bool * bool * bool :=
  (static_file_match s, api_path_match s, mem s (map s2l IGNORE_CHECK_LOGIN)).

(** session cache from an association list token -> roles *)
Fixpoint cache_of (l : list (str * list str)) : cache :=
  fun t => match l with
           | [] => None
           | (k, roles) :: r => if str_eqb k t then Some roles else cache_of r t
           end.

Definition outcome_code (o : outcome) : N :=
  match o with
  | Forward => 0
  | NoLogin false => 1
  | NoLogin true => 2
  | NoPermission false => 3
  | NoPermission true => 4
  end.

Definition dispatch_code (d : dispatch) : N * string :=
  match d with
  | Handler h => (0, h)
  | NotFound => (1, EmptyString)
  | MethodNotAllowed => (2, EmptyString)
  end.

(** one HTTP request: (cookie token, header token, raw path, method) -> (middleware, dispatch) *)
Definition run_req (sessions : list (str * list str)) (req : option str * option str * str * str)
  : N * (N * string) :=
  let '(cookie, header, raw, method) := req in
  (outcome_code (middleware (cache_of sessions) cookie header raw method),
   dispatch_code (dispatch_raw console_services raw method)).

Definition run_reqs (sessions : list (str * list str)) (reqs : list (option str * option str * str * str)) :=
  map (run_req sessions) reqs.
