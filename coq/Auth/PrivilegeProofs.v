(** Proofs about the privilege model (all groups, all namespace strings, all indexes). *)
From RN Require Import Auth.StrX Auth.StrXProofs Auth.Privilege.
From Coq Require Import Lia.
Local Open Scope N_scope.

(** declarative reading of the two lists *)
Definition whitelisted (g : pgroup) (k : str) : Prop :=
  wl_all g = true \/ exists l, wl g = Some l /\ In k l.
Definition blacklisted (g : pgroup) (k : str) : Prop :=
  bl_all g = true \/ exists l, bl g = Some l /\ In k l.

Lemma at_whitelist_spec : forall g k, at_whitelist g k = true <-> whitelisted g k.
Proof.
  intros g k. unfold at_whitelist, whitelisted. destruct (wl_all g).
  - split; auto.
  - destruct (wl g) as [l|].
    + rewrite mem_In. split.
      * intro H. right. exists l. auto.
      * intros [H|[l' [E H]]]; [discriminate|]. inversion E; subst. exact H.
    + split; [discriminate|]. intros [H|[l' [E _]]]; discriminate.
Qed.

Lemma at_blacklist_spec : forall g k, at_blacklist g k = true <-> blacklisted g k.
Proof.
  intros g k. unfold at_blacklist, blacklisted. destruct (bl_all g).
  - split; auto.
  - destruct (bl g) as [l|].
    + rewrite mem_In. split.
      * intro H. right. exists l. auto.
      * intros [H|[l' [E H]]]; [discriminate|]. inversion E; subst. exact H.
    + split; [discriminate|]. intros [H|[l' [E _]]]; discriminate.
Qed.

(** permission = whitelisted and not blacklisted; in particular the blacklist wins *)
Lemma check_sound_complete_lemma : forall g k,
  check_permission g k = true <-> (whitelisted g k /\ ~ blacklisted g k).
Proof.
  intros g k. unfold check_permission. rewrite andb_true_iff, negb_true_iff, at_whitelist_spec.
  split; intros [H1 H2]; split; try exact H1.
  - intro B. apply at_blacklist_spec in B. congruence.
  - destruct (at_blacklist g k) eqn:E; [|reflexivity]. apply at_blacklist_spec in E. contradiction.
Qed.

Lemma blacklist_wins_lemma : forall g k, blacklisted g k -> check_permission g k = false.
Proof.
  intros g k B. destruct (check_permission g k) eqn:E; [|reflexivity].
  apply check_sound_complete_lemma in E. tauto.
Qed.

(** the [enabled] flag plays no role in the decision ... *)
Lemma enabled_irrelevant_lemma : forall e1 e2 wa w ba b k,
  check_permission (mkPg e1 wa w ba b) k = check_permission (mkPg e2 wa w ba b) k.
Proof. reflexivity. Qed.

(** ... and the [is_all] shortcut is taken only when every namespace is permitted anyway *)
Lemma is_all_permits_everything_lemma : forall g, is_all g = true -> forall k, check_permission g k = true.
Proof.
  intros g H k. unfold is_all in H. apply andb_true_iff in H as [H Hb]. apply andb_true_iff in H as [_ Hw].
  unfold check_permission, at_whitelist, at_blacklist. rewrite Hw. cbn [andb].
  unfold blacklist_is_empty in Hb. destruct (bl_all g); [discriminate|].
  destruct (bl g) as [[|x l]|]; try discriminate; reflexivity.
Qed.

(** the default namespace is named "" or "public" and is looked up under one key; apart from
    that it is treated like every other namespace *)
Lemma default_namespace_lemma : forall g,
  ns_check g [] = ns_check g (s2l "public") /\ ns_check g [] = check_permission g default_namespace_key.
Proof. intro g. split; reflexivity. Qed.

Lemma other_namespace_lemma : forall g k,
  k <> [] -> k <> s2l "public" -> ns_check g k = check_permission g k.
Proof.
  intros g k H1 H2. unfold ns_check, ns_key, is_default_namespace.
  destruct k as [|x t]; [contradiction|]. cbn [is_empty orb].
  destruct (str_eqb (x :: t) (s2l "public")) eqn:E; [apply str_eqb_eq in E; contradiction | reflexivity].
Qed.

Lemma ns_check_spec_lemma : forall g k,
  ns_check g k = true <-> (whitelisted g (ns_key k) /\ ~ blacklisted g (ns_key k)).
Proof. intros g k. unfold ns_check. apply check_sound_complete_lemma. Qed.

(** a session without a privilege group (and a request without a session) means "all" *)
Lemma default_privilege_is_all : is_all (session_privilege None) = true.
Proof. reflexivity. Qed.

(** ---- flags ---- *)
Lemma flags_roundtrip_lemma : forall g,
  pg_new (get_flags g) (wl g) (bl g) = g /\ set_flags g (get_flags g) = g /\ get_flags g < 8.
Proof.
  intros [e wa w ba b]. unfold pg_new, set_flags, get_flags, flag. cbn [enabled wl_all wl bl_all bl].
  destruct e, wa, ba; vm_compute; repeat split.
Qed.

Lemma flags_of_new_lemma : forall f w b, f < 8 -> get_flags (pg_new f w b) = f.
Proof.
  intros f w b H. unfold get_flags, pg_new, flag. cbn [enabled wl_all bl_all].
  assert (C : f = 0 \/ f = 1 \/ f = 2 \/ f = 3 \/ f = 4 \/ f = 5 \/ f = 6 \/ f = 7) by lia.
  destruct C as [C|[C|[C|[C|[C|[C|[C|C]]]]]]]; subst f; reflexivity.
Qed.

(** the stored record -> session copy: a record with the ENABLE bit reproduces the stored
    flags and lists; a record without it (old data) means "all" *)
Lemma build_namespace_privilege_lemma : forall f wlist blist,
  (flag (f mod 256) 1 = true ->
     build_namespace_privilege f wlist blist = pg_new (f mod 256) (Some wlist) (Some blist))
  /\ (flag (f mod 256) 1 = false -> build_namespace_privilege f wlist blist = pg_all).
Proof. intros f wlist blist. unfold build_namespace_privilege. split; intro H; rewrite H; reflexivity. Qed.

(** ---- listings ---- *)
Lemma listing_only_permitted_lemma : forall (A : Type) (idx : index A) g param_ns ns item,
  In (ns, item) (query_page idx g param_ns) -> ns_check g ns = true.
Proof.
  intros A idx g param_ns ns item H. unfold query_page in H. destruct param_ns as [k|].
  - destruct (ns_check g k) eqn:E; [|destruct H].
    destruct (index_get idx k) as [items|]; [|destruct H].
    apply in_map_iff in H as [i [Ei _]]. inversion Ei; subst. exact E.
  - apply in_concat in H as [l [Hl Hi]]. apply in_map_iff in Hl as [[n items] [El _]]. subst l.
    cbn [fst snd] in Hi. destruct (ns_check g n) eqn:E; [|destruct Hi].
    apply in_map_iff in Hi as [i [Ei _]]. inversion Ei; subst. exact E.
Qed.

Lemma listing_complete_lemma : forall (A : Type) (idx : index A) g ns items item,
  In (ns, items) idx -> In item items -> ns_check g ns = true -> In (ns, item) (query_page idx g None).
Proof.
  intros A idx g ns items item Hidx Hitem Hc. unfold query_page. apply in_concat.
  exists (map (fun i => (ns, i)) items). split.
  - apply in_map_iff. exists (ns, items). cbn [fst snd]. rewrite Hc. auto.
  - apply in_map. exact Hitem.
Qed.

(** ---- guards ---- *)
Lemma guarded_acts_only_in_permitted_lemma : forall gd g k,
  gd = GuardCheck \/ gd = GuardParam -> acts gd g (Some k) = true -> ns_check g k = true.
Proof. intros gd g k [H|H] A; subst gd; exact A. Qed.

(** ---- the privilege write path (add_user / update_user) ---- *)
Lemma urec_group_store_enabled : forall wa w ba b,
  urec_group (store_group (mkPg true wa w ba b)) = mkPg true wa (Some (olist w)) ba (Some (olist b)).
Proof. intros wa w ba b. destruct wa, ba; reflexivity. Qed.

Lemma update_sets_exactly_lemma : forall u p,
  let g := urec_group u in
  urec_group (update_user_priv u (Some p)) =
  mkPg true (obool (p_wl_all p) (wl_all g))
       (Some (match p_wl p with Some l => l | None => olist (wl g) end))
       (obool (p_bl_all p) (bl_all g))
       (Some (match p_bl p with Some l => l | None => olist (bl g) end)).
Proof.
  intros u p g. unfold update_user_priv. fold g. rewrite urec_group_store_enabled.
  destruct (p_wl p), (p_bl p); reflexivity.
Qed.

Lemma update_none_keeps_lemma : forall u, update_user_priv u None = u.
Proof. reflexivity. Qed.

Lemma add_sets_exactly_lemma : forall p,
  urec_group (add_user_priv (Some p)) =
  mkPg true (obool (p_wl_all p) true) (Some (olist (p_wl p))) (obool (p_bl_all p) false) (Some (olist (p_bl p)))
  /\ urec_group (add_user_priv None) = mkPg true true (Some []) false (Some []).
Proof. intro p. split; [apply urec_group_store_enabled | reflexivity]. Qed.

(** revoking: after an update that gives the whitelist [l] (the empty list included) and
    switches "all" off, exactly the namespaces of [l] that are not blacklisted remain *)
Lemma update_revokes_lemma : forall u p l k,
  p_wl p = Some l -> p_wl_all p = Some false -> ~ In k l ->
  check_permission (urec_group (update_user_priv u (Some p))) k = false.
Proof.
  intros u p l k Hl Ha Hk. rewrite update_sets_exactly_lemma. rewrite Hl, Ha. cbn [obool].
  destruct (check_permission _ k) eqn:E; [|reflexivity].
  apply check_sound_complete_lemma in E. destruct E as [[W|[l' [W1 W2]]] _]; cbn in *.
  - discriminate.
  - inversion W1; subst. contradiction.
Qed.

Lemma update_blacklists_lemma : forall u p l k,
  p_bl p = Some l -> In k l ->
  check_permission (urec_group (update_user_priv u (Some p))) k = false.
Proof.
  intros u p l k Hl Hk. rewrite update_sets_exactly_lemma. rewrite Hl.
  apply blacklist_wins_lemma. right. exists l. split; [reflexivity|exact Hk].
Qed.

(** ---- the namespace listing (round 7) ---- *)
Lemma namespace_list_only_permitted_lemma : forall g all id,
  In (Some id) (namespace_list g all) -> In (Some id) all /\ ns_check g id = true.
Proof.
  intros g all id H. unfold namespace_list in H. destruct (is_all g) eqn:E.
  - split; [exact H|]. unfold ns_check. apply is_all_permits_everything_lemma. exact E.
  - apply filter_In in H as [H1 H2]. split; [exact H1|exact H2].
Qed.

Lemma namespace_list_complete_lemma : forall g all id,
  In (Some id) all -> ns_check g id = true -> In (Some id) (namespace_list g all).
Proof.
  intros g all id H C. unfold namespace_list. destruct (is_all g); [exact H|].
  apply filter_In. split; [exact H|exact C].
Qed.

(** the listing is the permitted sub-list in the stored order (nothing is reordered or duplicated) *)
Lemma namespace_list_is_filter_lemma : forall g all,
  filter (fun e => match e with Some _ => true | None => false end) (namespace_list g all) =
  filter (fun e => match e with Some id => ns_check g id | None => false end) all.
Proof.
  intros g all. unfold namespace_list. destruct (is_all g) eqn:E.
  - induction all as [|[id|] t IH]; cbn [filter]; [reflexivity| |exact IH].
    unfold ns_check. rewrite (is_all_permits_everything_lemma g E). f_equal. exact IH.
  - induction all as [|[id|] t IH]; cbn [filter ns_check_option]; [reflexivity| |exact IH].
    destruct (ns_check g id); cbn [filter]; [f_equal|]; exact IH.
Qed.

(** the [||]-for-[&&] slip in blacklist_is_empty (seeded change C18h-m1) is exactly what the
    shortcut must not do: a whitelist-all group with a non-empty blacklist is not [is_all] *)
Lemma is_all_needs_empty_blacklist_lemma : forall g k, is_all g = true -> at_blacklist g k = false.
Proof.
  intros g k H. pose proof (is_all_permits_everything_lemma g H k) as C.
  unfold check_permission in C. apply andb_true_iff in C as [_ C]. apply negb_true_iff in C. exact C.
Qed.

Example namespace_list_example :
  namespace_list (mkPg true true None false (Some [s2l "ns-b"])) [Some []; Some (s2l "ns-a"); Some (s2l "ns-b"); None]
  = [Some []; Some (s2l "ns-a")].
Proof. vm_compute. reflexivity. Qed.
