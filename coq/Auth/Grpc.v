(** Model of the gRPC authorisation decision: RequestServerImpl::fill_token_session
    (src/grpc/server.rs) and InvokerHandler::handle (src/grpc/handler/mod.rs) over the
    tables of [Gen/GrpcTables.v].  Executable definitions only. *)
From RN Require Export Auth.StrX Gen.GrpcTables.
Local Open Scope N_scope.

Definition in_list (t : str) (l : list string) : bool := mem t (map s2l l).

(** fill_token_session: token = accessToken header, else Authorization header, else "";
    if auth is enabled and the token is not empty the session is looked up, *else* (only
    else) a configured cluster token is compared with the ClusterToken header *)
Definition grpc_token (access authorization : option str) : str :=
  match access with
  | Some v => v
  | None => match authorization with Some v => v | None => [] end
  end.

Definition fill (enable : bool) (cluster_cfg : str) (c : str -> bool)
                (access authorization cluster_hdr : option str) : bool * bool :=
  let token := grpc_token access authorization in
  if enable && negb (is_empty token) then (c token, false)
  else if negb (is_empty cluster_cfg)
       then (false, match cluster_hdr with Some t => str_eqb t cluster_cfg | None => false end)
       else (false, false).

Inductive gresult :=
| ServerCheck          (* answered by the invoker itself *)
| Refused403           (* "unknown user!" *)
| Refused500           (* "request cluster token is invalid" *)
| Dispatch             (* passed to the registered handler *)
| NotFound302.         (* no handler registered *)

Definition handle (enable : bool) (cluster_cfg : str) (t : str) (has_session cluster_ok : bool) : gresult :=
  if str_eqb (s2l SERVER_CHECK_REQUEST) t then ServerCheck
  else if enable && negb (in_list t grpc_ignore_auth) && negb has_session then Refused403
  else if negb (is_empty cluster_cfg) && in_list t grpc_cluster_request && negb cluster_ok then Refused500
  else if in_list t grpc_registered then Dispatch
  else NotFound302.

Definition request (enable : bool) (cluster_cfg : str) (c : str -> bool)
                   (t : str) (access authorization cluster_hdr : option str) : gresult :=
  let '(has_session, cluster_ok) := fill enable cluster_cfg c access authorization cluster_hdr in
  handle enable cluster_cfg t has_session cluster_ok.
