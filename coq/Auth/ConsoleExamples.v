(** The hypotheses of the C17 theorems are satisfiable by concrete, non-trivial values. *)
From RN Require Import Auth.StrX Auth.StrXProofs Auth.Route Auth.Console Auth.ConsoleSpec Auth.ConsoleProofs.
Local Open Scope string_scope.

Definition ex_route (p m : string) : route -> bool :=
  fun r => String.eqb (rpath r) p && String.eqb (r_method r) m.

Lemma find_some_In : forall (f : route -> bool) r, find f console_routes = Some r -> In r console_routes /\ f r = true.
Proof. intros f r H. apply find_some in H. exact H. Qed.

(** an API route that is not a login endpoint: POST /rnacos/api/console/v2/user/add *)
Example ex_api_route : exists r,
  In r console_routes /\ is_api_route r = true /\ ~ In (rpath r) login_endpoints /\ r_method r = "POST".
Proof.
  destruct (find (ex_route "/rnacos/api/console/v2/user/add" "POST") console_routes) as [r|] eqn:E;
    [|vm_compute in E; discriminate].
  pose proof E as E'. apply find_some_In in E as [Hin _]. exists r. split; [exact Hin|].
  vm_compute in E'. inversion E'; subst r. repeat split; try reflexivity.
  apply mem_string_false. vm_compute. reflexivity.
Qed.

(** a checked path with a garbage token and a cache that knows one session *)
Definition ex_cache : cache := fun t => if str_eqb t (s2l "good") then Some [s2l "2"] else None.

Example ex_no_session :
  is_check_path (s2l "/rnacos/api/console/v2/config/list") = true /\
  ex_cache (token_of None (Some (s2l "garbage"))) = None /\
  middleware ex_cache None (Some (s2l "garbage")) (s2l "/rnacos/api/console/v2/config/list") GET = NoLogin false /\
  middleware ex_cache None (Some (s2l "good")) (s2l "/rnacos/api/console/v2/config/list") GET = Forward /\
  middleware ex_cache (Some (s2l "good")) (Some (s2l "garbage")) (s2l "/rnacos/api/console/v2/config/add") (s2l "POST")
    = NoPermission false.
Proof. vm_compute. repeat split. Qed.

(** visitor: a registered non-GET route outside the self-service list (denied), and one inside (granted) *)
Example ex_visitor :
  role_match RoleVisitor (s2l "/rnacos/api/console/v2/config/add") (s2l "POST") = false /\
  role_match RoleVisitor (s2l "/rnacos/api/console/v2/user/reset_password") (s2l "POST") = true /\
  role_match RoleVisitor (s2l "/rnacos/api/console/v2/config/list") GET = true /\
  ~ In "/rnacos/api/console/v2/config/add" visitor_any_method.
Proof. repeat split; try (vm_compute; reflexivity). apply mem_string_false. vm_compute. reflexivity. Qed.

(** developer: user management and transfer routes exist; the manager is granted them *)
Example ex_developer :
  is_user_mgmt "/rnacos/api/console/v2/user/add" = true /\
  is_transfer "/rnacos/api/console/transfer/export" = true /\
  role_match RoleManager (s2l "/rnacos/api/console/v2/user/add") (s2l "POST") = true /\
  role_match RoleManager (s2l "/rnacos/api/console/transfer/export") GET = true /\
  role_match RoleDeveloper (s2l "/rnacos/api/console/v2/config/add") (s2l "POST") = true.
Proof. vm_compute. repeat split. Qed.

(** monotone: strict at both steps; the stale entry is a genuine exception *)
Example ex_monotone :
  role_match RoleVisitor (s2l "/rnacos/api/console/download") GET = true /\
  role_match RoleDeveloper (s2l "/rnacos/api/console/download") GET = false /\
  dispatch_raw console_services (s2l "/rnacos/api/console/download") GET = NotFound.
Proof. vm_compute. repeat split. Qed.

(** unlisted: registered routes that no role lists (nobody reaches them) *)
Example ex_unlisted : forall r,
  role_match r (s2l "/rnacos/api/console/connections") GET = false /\
  role_match r (s2l "/rnacos/api/console/v2/transfer/export") GET = false.
Proof. intro r. destruct r; vm_compute; split; reflexivity. Qed.

Example ex_unlisted_registered :
  dispatch_raw console_services (s2l "/rnacos/api/console/connections") GET = Handler "query_grpc_connection" /\
  is_check_path (s2l "/rnacos/api/console/connections") = true.
Proof. vm_compute. split; reflexivity. Qed.

(** unknown / several roles *)
Example ex_roles :
  ~ In (s2l "3") (map s2l ALL_ROLES) /\ ~ In (s2l "admin") (map s2l ALL_ROLES) /\ ~ In (s2l "") (map s2l ALL_ROLES) /\
  match_url_by_roles [s2l "3"; s2l "2"] (s2l "/rnacos/api/console/v2/config/list") GET = true /\
  match_url_by_roles [s2l "2"; s2l "1"] (s2l "/rnacos/api/console/v2/config/add") (s2l "POST") = true /\
  match_url_by_roles [s2l "2"] (s2l "/rnacos/api/console/v2/config/add") (s2l "POST") = false.
Proof. repeat split; try (apply mem_false); vm_compute; reflexivity. Qed.

(** spellings: an encoded spelling that the router maps to an API route *)
Example ex_spelling :
  let raw := s2l "/rnacos/api/console/v2/user/%61dd" in
  dispatch_raw console_services raw (s2l "POST") = Handler "v2::user_api::add_user" /\
  raw <> s2l "/rnacos/api/console/v2/user/add" /\
  middleware (fun _ => Some [s2l "0"]) None (Some (s2l "t")) raw (s2l "POST") = NoPermission false.
Proof. vm_compute. repeat split. discriminate. Qed.
