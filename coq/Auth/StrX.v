(** Strings for the authentication models.

    A string is the list of its Unicode scalar values ([N]); Rust [&str] values are
    converted by [chars()] in the harness.  Literals of the Rust source are ASCII (the
    translators refuse anything else) and are written as Coq [string]s in [Gen/*.v];
    [s2l] converts them.

    The only regular expressions of the authentication code have two shapes (the
    translators refuse every other shape):

      (?i)/(w1|...|wn)/.*       [re_slash_words]   (also  (?i)/lit/.*  with one word)
      (?i).*\.(e1|...|en)       [re_dot_exts]

    used through [Regex::is_match], i.e. *unanchored* search.  Both are therefore
    case-insensitive substring searches.  The regex crate is in Unicode mode, where (?i)
    means simple case folding: besides the other ASCII case, [k] also matches U+212A
    (KELVIN SIGN) and [s] also matches U+017F (LONG S).  [ci_eqc] models exactly that;
    the harness validates it against the real [Regex] statics.

    This file contains the executable definitions only. *)
From Coq Require Export List NArith Bool String Ascii.
Export ListNotations.
Local Open Scope N_scope.

Definition str := list N.

Fixpoint s2l (s : string) : str :=
  match s with
  | EmptyString => []
  | String a t => N_of_ascii a :: s2l t
  end.

Fixpoint str_eqb (a b : str) : bool :=
  match a, b with
  | [], [] => true
  | x :: a', y :: b' => (x =? y) && str_eqb a' b'
  | _, _ => false
  end.

Definition is_empty (s : str) : bool := match s with [] => true | _ => false end.

Definition mem (s : str) (l : list str) : bool := existsb (str_eqb s) l.

(** exact prefix / substring *)
Fixpoint prefixb (p s : str) : bool :=
  match p, s with
  | [], _ => true
  | x :: p', y :: s' => (x =? y) && prefixb p' s'
  | _ :: _, [] => false
  end.

Fixpoint containsb (p s : str) : bool :=
  prefixb p s || match s with [] => false | _ :: t => containsb p t end.

(** (?i) on one literal character [c] of the pattern against one character [x] of the
    haystack: Unicode simple case folding restricted to what can fold onto ASCII. *)
Definition is_lower (c : N) : bool := (97 <=? c) && (c <=? 122).
Definition is_upper (c : N) : bool := (65 <=? c) && (c <=? 90).
Definition to_lower (c : N) : N := if is_upper c then c + 32 else c.

Definition ci_eqc (c x : N) : bool :=
  let c := to_lower c in
  (x =? c)
  || (is_lower c && (x =? c - 32))
  || ((c =? 107) && (x =? 8490))      (* k ~ KELVIN SIGN *)
  || ((c =? 115) && (x =? 383)).      (* s ~ LATIN SMALL LETTER LONG S *)

Fixpoint prefix_ci (p s : str) : bool :=
  match p, s with
  | [], _ => true
  | c :: p', x :: s' => ci_eqc c x && prefix_ci p' s'
  | _ :: _, [] => false
  end.

Fixpoint contains_ci (p s : str) : bool :=
  prefix_ci p s || match s with [] => false | _ :: t => contains_ci p t end.

Definition slash : N := 47.
Definition dot : N := 46.
Definition percent : N := 37.

(** [(?i)/(w1|...|wn)/.*] under [is_match] *)
Definition re_slash_words (words : list str) (s : str) : bool :=
  existsb (fun w => contains_ci (slash :: w ++ [slash]) s) words.

(** [(?i).*\.(e1|...|en)] under [is_match] *)
Definition re_dot_exts (exts : list str) (s : str) : bool :=
  existsb (fun e => contains_ci (dot :: e) s) exts.

(** ASCII letters/digits only — the translators accept only such words inside the
    regular expressions, so no regex meta character can hide in a word. *)
Definition is_alnum (c : N) : bool :=
  is_lower c || is_upper c || ((48 <=? c) && (c <=? 57)).

(** Partial percent-decoding of actix-router 0.5 ([Quoter::requote] with the protected
    set [%/+]): the router matches resource patterns against the decoded path while both
    middlewares look at the raw path.  [%XY] with two hex digits is decoded unless it
    denotes a protected ASCII character; everything else is copied.  (Bytes >= 128 are
    produced as single values here; the real function then applies a lossy UTF-8
    conversion, which never produces an ASCII character, so matching against the ASCII
    route patterns is unaffected.) *)
Definition hexval (c : N) : option N :=
  if (48 <=? c) && (c <=? 57) then Some (c - 48)
  else if (97 <=? c) && (c <=? 102) then Some (c - 87)
  else if (65 <=? c) && (c <=? 70) then Some (c - 55)
  else None.

Definition protected_char (c : N) : bool := (c =? 37) || (c =? 47) || (c =? 43).

Definition decode_triple (h1 h2 : N) : option N :=
  match hexval h1, hexval h2 with
  | Some a, Some b =>
      let ch := a * 16 + b in
      if (ch <? 128) && protected_char ch then None else Some ch
  | _, _ => None
  end.

Fixpoint requote (s : str) : str :=
  match s with
  | [] => []
  | c :: t =>
      if c =? percent then
        match t with
        | h1 :: h2 :: t' =>
            match decode_triple h1 h2 with
            | Some ch => ch :: requote t'
            | None => c :: requote t
            end
        | _ => c :: requote t
        end
      else c :: requote t
  end.
