(** Regression: the defect repaired by repo commit "fix: OpenAPI auth middleware checks the
    percent-decoded path the router matches".  With the decision taken on the RAW request
    path (the old code), a percent-encoded spelling that the router serves as a data route is
    not a checked path: the statement of [C16_routes_covered] is false for [RawPath]. *)
From RN Require Import Auth.StrX Auth.Route Auth.OpenApi.

Lemma raw_path_decision_refuted :
  exists raw m h,
    dispatch_raw openapi_services raw m = Handler h
    /\ requote raw = s2l "/nacos/v1/cs/configs"
    /\ is_check_path true (seen_with RawPath raw) = false
    /\ is_check_path true (seen_with RoutedPath raw) = true.
Proof.
  exists (s2l "/n%61cos/v1/cs/configs"), (s2l "POST"), "add_config"%string.
  vm_compute. repeat split.
Qed.
