(** The hypotheses of the C18 theorems are satisfiable by concrete, non-trivial values. *)
From RN Require Import Auth.StrX Auth.StrXProofs Auth.Privilege Auth.PrivilegeProofs Auth.GuardSpec Auth.GuardProofs.
Local Open Scope string_scope.

Definition ex_group : pgroup := mkPg true false (Some [s2l "ns-a"; s2l ""]) false (Some [s2l "ns-b"; s2l "ns-a2"]).
Definition ex_group_both : pgroup := mkPg true true None false (Some [s2l "ns-b"]).

Example ex_check :
  check_permission ex_group (s2l "ns-a") = true /\ check_permission ex_group (s2l "ns-b") = false /\
  check_permission ex_group (s2l "ns-c") = false /\
  ns_check ex_group (s2l "public") = true /\ ns_check ex_group (s2l "") = true /\
  check_permission ex_group_both (s2l "ns-b") = false /\ check_permission ex_group_both (s2l "anything") = true /\
  whitelisted ex_group_both (s2l "ns-b") /\ blacklisted ex_group_both (s2l "ns-b") /\
  is_all ex_group_both = false /\ is_all pg_all = true.
Proof.
  repeat split; try (vm_compute; reflexivity).
  - left. reflexivity.
  - right. exists [s2l "ns-b"]. split; [reflexivity | left; reflexivity].
Qed.

Definition ex_index : index nat := [ (s2l "", [1; 2]%nat); (s2l "ns-a", [3]%nat); (s2l "ns-b", [4; 5]%nat) ].

Example ex_listing :
  query_page ex_index ex_group None = [ (s2l "", 1%nat); (s2l "", 2%nat); (s2l "ns-a", 3%nat) ] /\
  query_page ex_index ex_group (Some (s2l "ns-b")) = [] /\
  query_page ex_index pg_all (Some (s2l "ns-b")) = [ (s2l "ns-b", 4%nat); (s2l "ns-b", 5%nat) ].
Proof. vm_compute. repeat split. Qed.

Example ex_endpoints : exists e1 e2,
  In e1 endpoint_guards /\ is_data_endpoint e1 = true /\ known_unguarded e1 = false /\ ep_guard e1 = GuardCheck /\
  In e2 endpoint_guards /\ is_data_endpoint e2 = true /\ known_unguarded e2 = true /\ ep_guard e2 = NoGuard.
Proof.
  destruct (find (fun e => String.eqb (ep_path e) "/rnacos/api/console/v2/config/add") endpoint_guards) as [e1|] eqn:E1;
    [|vm_compute in E1; discriminate].
  destruct (find (fun e => String.eqb (ep_path e) "/rnacos/api/console/v2/mcp/server/add") endpoint_guards) as [e2|] eqn:E2;
    [|vm_compute in E2; discriminate].
  exists e1, e2. pose proof E1 as F1. pose proof E2 as F2.
  apply find_some in E1 as [H1 _]. apply find_some in E2 as [H2 _].
  vm_compute in F1. inversion F1; subst e1. vm_compute in F2. inversion F2; subst e2.
  repeat split; try assumption; vm_compute; reflexivity.
Qed.
