(** Model of the console authorisation code (executable definitions only):

      src/user/permission.rs               PathResource::match_url, GroupResource::match_url,
                                           UserRole::{new, get_resources, match_url, match_url_by_roles}
      src/console/middle/login_middle.rs   CheckLoginMiddleware::call

    The literal tables, role constants, ignore list, regex words and the route table come
    from [Gen/ConsoleTables.v], regenerated from the Rust source on every run. *)
From RN Require Export Auth.StrX Auth.Route Gen.ConsoleTables.
Local Open Scope N_scope.

(** PathResource::match_url — transcribed literally, including the branch on an empty
    request path *)
Definition path_res_match (pr : string * string) (path method : str) : bool :=
  let p := s2l (fst pr) in
  let m := s2l (snd pr) in
  let is_match_all_path := str_eqb p (s2l EMPTY_STR) in
  let is_match_all_method := str_eqb m (s2l HTTP_METHOD_ALL) in
  let match_method := is_match_all_method || str_eqb m method in
  if is_empty path
  then match_method && (is_match_all_path || str_eqb p (s2l "/"))
  else match_method && (is_match_all_path || str_eqb p path).

(** ModuleResource / GroupResource: a HashSet of PathResource; match_url = "some element
    matches", so the set is modelled by the concatenated list *)
Definition module_match (m : list (string * string)) (path method : str) : bool :=
  existsb (fun pr => path_res_match pr path method) m.

Definition group_match (g : list (list (string * string))) (path method : str) : bool :=
  existsb (fun m => module_match m path method) g.

(** UserRole::new *)
Fixpoint role_lookup (arms : list (string * user_role)) (v : str) : user_role :=
  match arms with
  | [] => role_new_default
  | (k, r) :: t => if str_eqb (s2l k) v then r else role_lookup t v
  end.
Definition role_new (v : str) : user_role := role_lookup role_new_arms v.

(** UserRole::match_url *)
Definition role_match (r : user_role) (path method : str) : bool :=
  existsb (fun g => group_match g path method) (role_resources r).

(** UserRole::match_url_by_roles *)
Definition match_url_by_roles (roles : list str) (path method : str) : bool :=
  existsb (fun v => role_match (role_new v) path method) roles.

(** ---- CheckLoginMiddleware::call ---- *)
Definition static_file_match (path : str) : bool := re_dot_exts (map s2l STATIC_FILE_EXTS) path.
Definition api_path_match (path : str) : bool := re_slash_words (map s2l API_PATH_WORDS) path.

Definition is_check_path (path : str) : bool :=
  negb (mem path (map s2l IGNORE_CHECK_LOGIN)) && negb (static_file_match path).
Definition is_page (path : str) : bool := negb (api_path_match path).

(** token = cookie "token", else header "Token", else "" *)
Definition token_of (cookie header : option str) : str :=
  match cookie with
  | Some c => c
  | None => match header with Some h => h | None => [] end
  end.

(** the session cache: token -> roles of the session (None = no such session: never
    issued, garbage, logged out or expired) *)
Definition cache := str -> option (list str).

Inductive outcome :=
| Forward            (* the request is passed to the router / handler *)
| NoLogin (page : bool)        (* page: 302 to the login page; api: 200 + header No-Login *)
| NoPermission (page : bool).  (* page: 302 to /rnacos/nopermission; api: 200 + header No-Permission *)

Definition decide (c : cache) (token path method : str) : outcome :=
  if is_check_path path then
    if is_empty token then NoLogin (is_page path)
    else match c token with
         | Some roles =>
             if match_url_by_roles roles path method then Forward else NoPermission (is_page path)
         | None => NoLogin (is_page path)
         end
  else Forward.

Definition middleware (c : cache) (cookie header : option str) (path method : str) : outcome :=
  decide c (token_of cookie header) path method.

(** ---- the registered routes ---- *)
Definition console_routes : list route := flatten console_services.

(** an API route: pattern under /rnacos/api/ *)
Definition api_prefix : string := "/rnacos/api/".
Definition is_api_route (r : route) : bool := prefixb (s2l api_prefix) (s2l (pat_text (r_pat r))).
