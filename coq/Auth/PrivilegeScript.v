(** Executable glue for the correspondence check of C18 (no proofs depend on it). *)
From RN Require Import Auth.StrX Auth.Privilege.
Local Open Scope N_scope.

(** one privilege case: group, key -> (check_permission, namespace check_permission,
    check_option(None,true), is_all, get_flags, namespace check of the group rebuilt from its flags) *)
Definition priv_case (g : pgroup) (k : str) : bool * bool * bool * bool * N * bool :=
  (check_permission g k, ns_check g k, ns_check_option g None true, is_all g, get_flags g,
   ns_check (pg_new (get_flags g) (wl g) (bl g)) k).

Definition priv_cases (g : pgroup) (ks : list str) := map (priv_case g) ks.

(** record -> session copy *)
Definition record_case (flags : N) (wlist blist : list str) (k : str) : bool * bool * N :=
  let g := build_namespace_privilege flags wlist blist in (ns_check g k, is_all g, get_flags g).

Definition guard_code (gd : guard) : N :=
  match gd with GuardCheck => 0 | GuardParam => 1 | GuardFilter => 2 | NoGuard => 3 | GuardIndex => 4 end.

(** the model's verdict for a request: does a handler with guard [gd] act for group [g] on [k] *)
Definition acts_cases (gd : guard) (g : pgroup) (ks : list (option str)) : list bool := map (acts gd g) ks.

(** the console namespace listing over the namespaces [ids] that exist: for each, is it listed *)
Definition nslist_flags (g : pgroup) (ids : list str) : list bool :=
  let l := namespace_list g (map Some ids) in
  map (fun id => existsb (fun e => match e with Some x => str_eqb x id | None => false end) l) ids.

(** the privilege write path: a script of add / update operations on ONE user record; after
    every operation the observation over [ks] of the group the next login would get *)
Inductive uop := UAdd (p : option pparam) | UUpd (p : option pparam).

Definition uobs (u : urec) (ks : list str) : N * list (bool * bool * bool) :=
  let g := urec_group u in
  (get_flags g, map (fun k => (mem k (olist (wl g)), mem k (olist (bl g)), ns_check g k)) ks).

Fixpoint urun (u : option urec) (ops : list uop) (ks : list str) : list (option (N * list (bool * bool * bool))) :=
  match ops with
  | [] => []
  | UAdd p :: t => let u' := add_user_priv p in Some (uobs u' ks) :: urun (Some u') t ks
  | UUpd p :: t =>
      match u with
      | None => None :: urun None t ks                      (* "not found user" *)
      | Some u0 => let u' := update_user_priv u0 p in Some (uobs u' ks) :: urun (Some u') t ks
      end
  end.
