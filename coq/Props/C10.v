(** C10 — Config change notification is complete: no listener waits on a stale md5.
    This file contains statements only; every proof is [exact <lemma>].
    [grun H ms] runs the ConfigActor model from its initial state over the message sequence
    [ms] and returns the final actor together with the (ghost) list of LISTENER registrations
    (version, items = [(key, held md5)], deadline, request id); [pending a v] says that the
    oneshot sender of version [v] has not been used yet.  [H] is md5 (arbitrary). *)
From RN Require Import SM.ConfigKey SM.Config SM.ConfigSpec SM.ConfigProofs SM.Listener SM.ListenerProofs SM.SubscriberProofs.
Local Open Scope N_scope.

(** INVARIANT over all sequences of registrations, subscriptions, unsubscriptions, disconnects,
    publishes, removes and ticks: every pending listener entry (k, m) holds the current md5 of k *)
Theorem C10_pending_never_stale : forall H ms,
  (forall m, In m ms -> not_import m /\ not_tmp m) ->
  forall v items t lid, In (v, items, t, lid) (snd (grun H ms)) -> pending (fst (grun H ms)) v ->
  forall k m, In (k, m) items -> md5_now (a_store (fst (grun H ms))) k = m.
Proof. exact pending_never_stale. Qed.

(** with routed temporary values (SetTmpValue) in the sequence: stale only while the value of the
    key is temporary, i.e. while a committed-but-unapplied write of that key is outstanding *)
Theorem C10_pending_stale_only_while_tmp : forall H ms,
  (forall m, In m ms -> not_import m) ->
  forall v items t lid, In (v, items, t, lid) (snd (grun H ms)) -> pending (fst (grun H ms)) v ->
  forall k m, In (k, m) items ->
    md5_now (a_store (fst (grun H ms))) k = m \/ tmp_now (a_store (fst (grun H ms))) k = true.
Proof. exact pending_stale_only_while_tmp. Qed.

(** a LISTENER request holding an md5 that differs from the current one is answered in the same
    step with exactly the differing keys, and is not registered *)
Theorem C10_immediate_if_differs : forall H a lid items time,
  (exists k m, In (k, m) items /\ md5_now (a_store a) k <> m) ->
  step H a (MListen lid items time) = (a, [EAnswer lid (LData (changes (a_store a) items))])
  /\ changes (a_store a) items <> []
  /\ (forall k, In k (changes (a_store a) items) <-> exists m, In (k, m) items /\ md5_now (a_store a) k <> m).
Proof. exact immediate_if_differs. Qed.

(** ... otherwise (all md5s current, positive deadline) it is registered as pending *)
Theorem C10_registration_is_pending : forall H a lid items time,
  changes (a_store a) items = [] -> (0 < time)%Z ->
  registers a (MListen lid items time) = Some (l_version (a_l a) + 1, items, time, lid) /\
  sm_get N.compare (l_sender (a_l (fst (step H a (MListen lid items time))))) (l_version (a_l a) + 1) = Some lid /\
  snd (step H a (MListen lid items time)) = [].
Proof. exact registration_is_pending. Qed.

(** every later change of a listened key (a publish or remove that changes its md5) answers the
    pending listener in that very step, naming the key: no ordering makes a change go unreported *)
Theorem C10_every_later_change_reported : forall H ms c,
  (forall m, In m ms -> not_import m) -> not_import (MRaft c) ->
  let a := fst (grun H ms) in
  forall v items t lid k m, In (v, items, t, lid) (snd (grun H ms)) -> pending a v -> In (k, m) items ->
  md5_now (a_store (fst (step H a (MRaft c)))) k <> md5_now (a_store a) k ->
  In (EAnswer lid (LData [k])) (snd (step H a (MRaft c))).
Proof. exact every_later_change_reported. Qed.

(** a pending long-poll is answered (NULL) at the first tick after its deadline (logical clock;
    the code examines at most TAKE = 10000 deadline buckets per tick) *)
Theorem C10_answered_by_timeout : forall H ms now,
  (forall m, In m ms -> not_import m) ->
  let a := fst (grun H ms) in
  (length (l_time (a_l a)) <= TAKE)%nat ->
  forall v items t lid, In (v, items, t, lid) (snd (grun H ms)) -> pending a v -> (t < now)%Z ->
  In (EAnswer lid LNull) (snd (step H a (MTick now))) /\ ~ pending (fst (step H a (MTick now))) v.
Proof. exact answered_by_timeout. Qed.

(** the Subscribe request reports the differing keys at once (same comparison) *)
Theorem C10_subscribe_reports_differences : forall H a client items,
  snd (step H a (MSub client items)) =
  match changes (a_store a) items with [] => [] | ch => [EChanged client ch] end.
Proof. exact subscribe_reports_differences. Qed.

(** for ALL message sequences the two subscriber maps (key -> clients, client -> keys) mirror
    each other: add / remove / remove_client / remove_config_key *)
Theorem C10_subscriber_maps_mirrored : forall H ms,
  let s := a_s (fst (run H actor_new ms)) in
  forall k c, rel_l s k c = rel_c s c k.
Proof. exact subscriber_maps_mirrored. Qed.

(** a command that changes the md5 of its key notifies ... *)
Theorem C10_change_is_notified : forall H s c k,
  store_inv H s -> not_import (MRaft c) -> raft_key c = k ->
  md5_now (sstep H s (ORaft c)) k <> md5_now s k -> snd (apply_raft H s c) = Some k.
Proof. exact change_is_notified. Qed.

(** ... and a notification of key k hands BiStreamManage a NotifyConfig for exactly the clients
    subscribed to k *)
Theorem C10_subscriber_notified_on_change : forall H a c k,
  sinv (a_s a) -> snd (apply_raft H (a_store a) c) = Some k ->
  forall client, rel_c (a_s a) client k = true ->
  exists clients, In (ENotify k clients) (snd (step H a (MRaft c))) /\
                  forall c', In c' clients <-> rel_c (a_s a) c' k = true.
Proof. exact subscriber_notified_on_change. Qed.

(** OUTSIDE the quantifier of C10, kept visible: a full-value import changes the md5 silently *)
Theorem C10_import_silent_refuted :
  let Hid := fun c : str => c in
  let k := mkKey [100] [103] [] in
  let ms := [MRaft (ConfigAdd (build_key k) [1] None None 1 None 0 None);
             MListen 1 [(k, [1])] 5%Z;
             MRaft (SetFullValue k (mkDO [2] [] None None) None)] in
  exists v, sm_get N.compare (l_sender (a_l (fst (fold_left (fun a m => (fst (step Hid (fst a) m), tt)) ms (actor_new, tt))))) v = Some 1
            /\ md5_now (a_store (fst (fold_left (fun a m => (fst (step Hid (fst a) m), tt)) ms (actor_new, tt)))) k <> [1].
Proof. exact import_silent_refuted. Qed.

(** REFUTED outside [not_tmp] + in-order delivery (known finding tmp-overtake): after
    [apply v1; apply v2; SetTmpValue v1] a listener holding md5(v1) is pending while v2 is committed *)
Theorem C10_tmp_overtake_refuted :
  let Hid := fun c : str => c in
  let k := mkKey [100] [103] [] in
  let add c hid := MRaft (ConfigAdd (build_key k) c None None hid None 0 None) in
  let ms := [add [1] 1; add [2] 2; MTmp k [1] 0; MListen 9 [(k, [1])] 5%Z] in
  pending (fst (grun Hid ms)) 1 /\
  md5_now (a_store (fst (grun Hid (filter (fun m => match m with MTmp _ _ _ => false | _ => true end) ms)))) k = [2] /\
  snd (grun Hid (filter (fun m => match m with MTmp _ _ _ => false | _ => true end) ms)) = [].
Proof. exact tmp_overtake_refuted. Qed.
