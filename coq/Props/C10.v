(** C10 — Config change notification is complete: no listener waits on a stale md5.
    This file contains statements only; every proof is [exact <lemma>]. *)
From RN Require Import SM.ConfigKey SM.Config SM.Listener SM.ListenerProofs.
Local Open Scope N_scope.

(** a LISTENER request holding an md5 that differs from the current one is answered in the same
    step with exactly the differing keys, and is not registered *)
Theorem C10_immediate_if_differs : forall H a lid items time,
  (exists k m, In (k, m) items /\ md5_now (a_store a) k <> m) ->
  step H a (MListen lid items time) = (a, [EAnswer lid (LData (changes (a_store a) items))])
  /\ changes (a_store a) items <> []
  /\ (forall k, In k (changes (a_store a) items) <-> exists m, In (k, m) items /\ md5_now (a_store a) k <> m).
Proof. exact immediate_if_differs. Qed.
