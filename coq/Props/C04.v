(** C04 — Raft store is crash-consistent at every file-write boundary (PARTIAL: index file and
    append histories of one log file at full strength, the two composed for last_applied; the crash points
    of a COMPACTION at the level of which snapshot / log suffix the restart reads; delete-from crash images
    and rollover across log files are not covered by a theorem).
    Statements only; every proof is [exact <lemma>].

    [journal sh ops] is the sequence of file mutations (create, write at offset) that the index
    file of a node started in an empty directory issues while executing ANY history [ops] of
    writer operations and reopens; [crash_fs j k] is the directory after the first k of them
    (each mutation atomic, applied in issue order); [recover] is the restart. *)
From RN Require Import Base.Res Base.Fs Codec.Varint RaftLog.IndexFile RaftLog.AddrMapProofs
  RaftLog.IndexCodecProofs RaftLog.IndexFileProofs RaftLog.Crash RaftLog.CrashProofs
  RaftLog.CrashAck RaftLog.CrashAckProofs
  RaftLog.LogFile RaftLog.Layout RaftLog.WriteProofs RaftLog.InitProofs RaftLog.LogCrash RaftLog.LogCrashProofs
  RaftLog.StoreCrash RaftLog.StoreCrashProofs.
Local Open Scope N_scope.

(** every crash state reopens without error, to exactly the state after some prefix of the
    history: term, vote, membership, addresses, catalogue and last_applied are values written
    before the crash (and all but last_applied come from the SAME prefix: no torn mixture) *)
Theorem C04_crash_safe_index : forall sh, shuffles sh -> forall ops k,
  Forall wf_op ops -> fits (ri_default, 0) ops -> (k <= length (journal sh ops))%nat ->
  exists st j, recover sh (crash_fs (journal sh ops) k) = Ok st /\ (j <= length ops)%nat /\
    i_index st = fst (arun (firstn j ops)) /\ i_applied st = snd (arun (firstn j ops)).
Proof. exact crash_safe_index. Qed.

Theorem C04_crash_safe_index_fields : forall sh ops k,
  shuffles sh -> Forall wf_op ops -> fits (ri_default, 0) ops -> (k <= length (journal sh ops))%nat ->
  exists st j, recover sh (crash_fs (journal sh ops) k) = Ok st /\ (j <= length ops)%nat /\
    (ri_current_term (i_index st), ri_voted_for (i_index st)) = last_hard_state (firstn j ops) (0, 0) /\
    (ri_member (i_index st), ri_mac (i_index st)) = last_membership (firstn j ops) ([], []) /\
    ri_node_addrs (i_index st) = last_addrs (firstn j ops) [] /\
    ri_logs (i_index st) = last_logs (firstn j ops) [] /\
    ri_snapshots (i_index st) = last_snaps (firstn j ops) [] /\
    i_applied st = last_applied (firstn j ops) 0.
Proof. exact crash_safe_index_fields. Qed.

(** last_applied never points past what can be reproduced: composition with ANY model of the
    snapshot + log files ([reproducible] abstract), for ANY journal [J] of the whole store *)
Theorem C04_applied_never_past_reproducible : forall (reproducible : fs -> N) J,
  header_of [] <= reproducible [] -> applied_covered reproducible J ->
  forall k, (k <= length J)%nat -> header_of (crash_fs J k) <= reproducible (crash_fs J k).
Proof. exact applied_never_past_reproducible. Qed.

(** mutations of other files never change what the index file recovers to *)
Theorem C04_other_files_independent : forall n m s,
  mut_touches m n = false -> fs_get n (apply_mut s m) = fs_get n s.
Proof. exact apply_mut_other. Qed.

(** with acknowledgements in the journal (a record save answers only after its rewrite, as the
    repaired handler does): every crash state reopens to the state after j operations, and every
    save acknowledged before the crash point is among those j (nothing acknowledged is lost) *)
Theorem C04_crash_safe_acked : forall sh, shuffles sh -> forall ops k,
  Forall wf_op ops -> fits (ri_default, 0) ops -> (k <= length (ejournal sh ops))%nat ->
  exists st j, recover sh (apply_muts [] (muts_of (firstn k (ejournal sh ops)))) = Ok st /\ (j <= length ops)%nat /\
    i_index st = fst (arun (firstn j ops)) /\ i_applied st = snd (arun (firstn j ops)) /\
    forall i, In (EAck i) (firstn k (ejournal sh ops)) -> (i < j)%nat.
Proof. exact crash_safe_acked. Qed.

(** * the log file (model of LogInnerManager in RaftLog/LogFile.v, after the crash repairs)

    [log_journal limit start pre split xs]: the file mutations, in program order, of a log file
    that is created fresh and receives the appends [xs] (set_len when it must grow, the data write,
    the index entry when a block of 128 completes).  For EVERY history of accepted appends
    (all payloads, counts, block boundaries, file growth) and EVERY prefix k, init on the crashed
    file succeeds and the log it exposes consists of exactly the first j submitted records, j = the
    number of data writes in the prefix: contiguous, only submitted records with their original
    term and payload, and every record whose write completed is there. *)
Theorem C04_crash_safe_log_append : forall limit start pre split xs k,
  limit <= 4096 -> appendable (c_fresh limit start pre split) xs ->
  (k <= length (log_journal limit start pre split xs))%nat ->
  exists s, init (crash_log (log_journal limit start pre split xs) k) limit start pre split = Ok s /\
            recovered s start (firstn (data_writes (firstn k (log_journal limit start pre split xs))) xs).
Proof. exact crash_safe_log_append. Qed.

(** the interesting image: the data write that completes an index block is in the file, its index
    entry is not; the repaired init rebuilds the entry and continues as on the complete file *)
Theorem C04_init_lagging_index : forall c x limit pre split,
  wfc c -> writable c x -> wfc (c_push c x) -> completes c x = true ->
  init (Some (lag_file c x)) limit (c_first c) pre split =
  init (Some (c_file (c_push c x))) limit (c_first c) pre split.
Proof. exact init_lag. Qed.

(** log file and last_applied header together, Raft applying only what it appended: in EVERY
    crash state the log reopens as above and last_applied is 0 or below the recovered end index:
    it never points past what the log reproduces (no snapshot involved) *)
Theorem C04_crash_safe_store : forall limit start pre split ops k,
  limit <= 4096 -> appendable (c_fresh limit start pre split) (appends ops) -> applied_ok start ops ->
  (k <= length (full_journal limit start pre split ops))%nat ->
  let P := firstn k (full_journal limit start pre split ops) in
  let j := data_writes (log_muts P) in
  exists s, init (apply_lmuts None (log_muts P)) limit start pre split = Ok s /\
            recovered s start (firstn j (appends ops)) /\
            (header_after P 0 = 0 \/ header_after P 0 < start + N.of_nat j).
Proof. exact crash_safe_store. Qed.

(** * a node killed DURING a compaction (SM/Replay.v [crash_restart]).  Three successive compaction points
    k00 <= k0 <= k; the log is always cut one snapshot behind.  After the new snapshot file is complete and
    the oldest one removed, the catalogue save (fire-and-forget to the index actor) and the log cut at k0
    (log actor) reach the disk in either order: [catalogued], [cut] say which of them had.  For EVERY
    history, all compaction points, all four combinations and whatever interrupted attempts left at the
    snapshot paths, the node restarts to a state equivalent, on every component, to the one that ran the
    history.  Component premises as in C01 (discharged there for config / sequence / table / namespace). *)
From RN Require Import SM.Snapshot SM.Replay SM.ReplayProofs RaftLog.SnapFile.
Local Open Scope nat_scope.

Theorem C04_compaction_crash_points_harmless :
  forall (S M : Type)
         (capply : comp -> S -> M -> S) (csnap : comp -> S -> list record)
         (cload : comp -> load_msg -> S -> record -> S) (cinit : comp -> S)
         (ceq : comp -> S -> S -> Prop),
    (forall c s1 s2 s3, ceq c s1 s2 -> ceq c s2 s3 -> ceq c s1 s3) ->
    (forall c s1 s2 m, ceq c s1 s2 -> ceq c (capply c s1 m) (capply c s2 m)) ->
    forall (cinv : comp -> S -> Prop) (mok : comp -> M -> Prop) (cok : comp -> S -> Prop),
    (forall c s, cinv c s -> ceq c s s) ->
    (forall c, cinv c (cinit c)) ->
    (forall c s m, cinv c s -> mok c m -> cinv c (capply c s m)) ->
    (forall c s r, cinv c s -> cok c s -> In r (csnap c s) -> routed_to c (rtree r) (rkey r)) ->
    (forall c s, cinv c s -> cok c s -> ceq c (fold_left (cload_routed S cload c) (csnap c s) (cinit c)) s) ->
    forall (enc : record -> list N) (dec_frame : list N -> option record)
           (catalogued cut : bool) (hist : list (entry M)) (k00 k0 k : nat) (leftover0 hdr0 leftover hdr : list N),
      k00 <= k0 -> k0 <= k -> k <= length hist -> Forall (entry_ok M mok) hist ->
      (forall c, cok c (run S M capply (firstn k0 hist) (init_node S cinit) c)) ->
      codec_ok enc dec_frame hdr0 (build_snapshot S csnap (run S M capply (firstn k0 hist) (init_node S cinit))) ->
      (forall c, cok c (run S M capply (firstn k hist) (init_node S cinit) c)) ->
      codec_ok enc dec_frame hdr (build_snapshot S csnap (run S M capply (firstn k hist) (init_node S cinit))) ->
      exists nd,
        crash_restart S M capply csnap cload cinit enc dec_frame write_truncate catalogued cut
                      leftover0 hdr0 leftover hdr hist k00 k0 k = Ok nd /\
        forall c, ceq c (nd c) (run S M capply hist (init_node S cinit) c).
Proof. exact compaction_crash_points_harmless. Qed.

(** the lag of the log cut is necessary: a cut at the NEW snapshot's index while the catalogue still names
    the previous snapshot loses the entries in between (witness on the register node of SM/SnapshotInst.v) *)
From RN Require Import SM.SnapshotInst.
Theorem C04_cut_at_new_snapshot_refuted :
  let live := run N N rapply reg_hist (init_node N rinit) in
  let restarted :=
      start_up_cut N N rapply rload rinit
                   (Some (2, build_snapshot N rsnap (run N N rapply (firstn 2 reg_hist) (init_node N rinit))))
                   6 (skipn 6 reg_hist) (length reg_hist) in
  live KTable = 7%N /\ restarted KTable = 0%N /\
  (forall c, start_up_cut N N rapply rload rinit
                   (Some (2, build_snapshot N rsnap (run N N rapply (firstn 2 reg_hist) (init_node N rinit))))
                   2 (skipn 2 reg_hist) (length reg_hist) c = live c).
Proof. exact cut_at_new_snapshot_refuted. Qed.
