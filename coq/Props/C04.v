(** C04 — Raft store is crash-consistent at every file-write boundary (PARTIAL: index file at
    full strength; the log / snapshot files enter only through an abstract interface).
    Statements only; every proof is [exact <lemma>].

    [journal sh ops] is the sequence of file mutations (create, write at offset) that the index
    file of a node started in an empty directory issues while executing ANY history [ops] of
    writer operations and reopens; [crash_fs j k] is the directory after the first k of them
    (each mutation atomic, applied in issue order); [recover] is the restart. *)
From RN Require Import Base.Res Base.Fs Codec.Varint RaftLog.IndexFile RaftLog.AddrMapProofs
  RaftLog.IndexCodecProofs RaftLog.IndexFileProofs RaftLog.Crash RaftLog.CrashProofs
  RaftLog.CrashAck RaftLog.CrashAckProofs.
Local Open Scope N_scope.

(** every crash state reopens without error, to exactly the state after some prefix of the
    history: term, vote, membership, addresses, catalogue and last_applied are values written
    before the crash (and all but last_applied come from the SAME prefix: no torn mixture) *)
Theorem C04_crash_safe_index : forall sh, shuffles sh -> forall ops k,
  Forall wf_op ops -> fits (ri_default, 0) ops -> (k <= length (journal sh ops))%nat ->
  exists st j, recover sh (crash_fs (journal sh ops) k) = Ok st /\ (j <= length ops)%nat /\
    i_index st = fst (arun (firstn j ops)) /\ i_applied st = snd (arun (firstn j ops)).
Proof. exact crash_safe_index. Qed.

Theorem C04_crash_safe_index_fields : forall sh ops k,
  shuffles sh -> Forall wf_op ops -> fits (ri_default, 0) ops -> (k <= length (journal sh ops))%nat ->
  exists st j, recover sh (crash_fs (journal sh ops) k) = Ok st /\ (j <= length ops)%nat /\
    (ri_current_term (i_index st), ri_voted_for (i_index st)) = last_hard_state (firstn j ops) (0, 0) /\
    (ri_member (i_index st), ri_mac (i_index st)) = last_membership (firstn j ops) ([], []) /\
    ri_node_addrs (i_index st) = last_addrs (firstn j ops) [] /\
    ri_logs (i_index st) = last_logs (firstn j ops) [] /\
    ri_snapshots (i_index st) = last_snaps (firstn j ops) [] /\
    i_applied st = last_applied (firstn j ops) 0.
Proof. exact crash_safe_index_fields. Qed.

(** last_applied never points past what can be reproduced: composition with ANY model of the
    snapshot + log files ([reproducible] abstract), for ANY journal [J] of the whole store *)
Theorem C04_applied_never_past_reproducible : forall (reproducible : fs -> N) J,
  header_of [] <= reproducible [] -> applied_covered reproducible J ->
  forall k, (k <= length J)%nat -> header_of (crash_fs J k) <= reproducible (crash_fs J k).
Proof. exact applied_never_past_reproducible. Qed.

(** mutations of other files never change what the index file recovers to *)
Theorem C04_other_files_independent : forall n m s,
  mut_touches m n = false -> fs_get n (apply_mut s m) = fs_get n s.
Proof. exact apply_mut_other. Qed.

(** with acknowledgements in the journal (a record save answers only after its rewrite, as the
    repaired handler does): every crash state reopens to the state after j operations, and every
    save acknowledged before the crash point is among those j (nothing acknowledged is lost) *)
Theorem C04_crash_safe_acked : forall sh, shuffles sh -> forall ops k,
  Forall wf_op ops -> fits (ri_default, 0) ops -> (k <= length (ejournal sh ops))%nat ->
  exists st j, recover sh (apply_muts [] (muts_of (firstn k (ejournal sh ops)))) = Ok st /\ (j <= length ops)%nat /\
    i_index st = fst (arun (firstn j ops)) /\ i_applied st = snd (arun (firstn j ops)) /\
    forall i, In (EAck i) (firstn k (ejournal sh ops)) -> (i < j)%nat.
Proof. exact crash_safe_acked. Qed.
