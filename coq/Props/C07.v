(** C07 — Leader apply, follower replication and restart replay yield the same state.
    This file contains statements only; every proof is [exact <lemma>].

    Model: SM/Dispatch.v (actors = deterministic FIFO mailbox machines; what each path sends is
    read off Gen/DispatchTables.v, generated from src/raft/filestore/raftdata.rs on every run). *)
From RN Require Import SM.Dispatch SM.DispatchProofs SM.DispatchInst SM.Concrete SM.DispatchConcrete.
From Coq Require Import NArith.

(** The three generated tables (apply_log_to_state_machine, do_send_log, load_log) handle every
    variant of enum ClientRequest, with the same preparation, target actor, message constructor
    and field wiring; they differ only in the delivery mode (kernel computation over the 11
    variants). *)
Theorem C07_tables_equal :
  tables_agree leader_table follower_table /\ tables_agree leader_table replay_table /\
  modes_as_documented /\ well_prepped leader_table /\
  (forall v, In v enum_variants) /\ NoDup enum_variants.
Proof.
  exact (conj leader_follower_agree (conj leader_replay_agree (conj modes_hold
        (conj leader_well_prepped (conj enum_complete enum_nodup))))).
Qed.

(** For EVERY committed request sequence, EVERY batching of the follower path, EVERY
    scheduling of the actors (the [sched] arguments) and arbitrary handlers [step] (generic:
    Config, Sequence, Namespace, Table, Naming, Mcp, Cache, Index are all instances):
    at quiescence the leader path, the follower path and the replay path leave every actor in
    the same state, namely the fold of its handler over its sub-sequence of messages in log
    order.  In scope: every ConfigFullValue decodes ([prep_ok], evaluated by the harness too)
    and no request triggers a handler-to-handler forward ([no_forward]: the T_CACHE
    compatibility forward of TableManager).  Both hypotheses are necessary: see the two
    refuted statements below. *)
Theorem C07_same_sequence_same_state :
  forall (payload M S : Type)
         (build : list (string * string) -> prep -> ctor -> list (string * string) -> payload -> M)
         (step : actor -> S -> M -> S) (fwd : actor -> M -> list (actor * M))
         (decodable : payload -> bool)
         (reqs : list (req payload)) (batching : list nat) (w : @world M S)
         (n1 n2 n3 : nat) (sched1 sched2 sched3 : list (list actor)),
    clean M S fwd w -> (1 <= n1)%nat -> (1 <= n2)%nat -> (1 <= n3)%nat ->
    forallb (prep_ok payload decodable) reqs = true ->
    Forall (no_forward payload M build fwd decodable) reqs ->
    let wl := final_leader payload M S build step fwd decodable n1 sched1 reqs w in
    let wf := final_follower payload M S build step fwd decodable n2 sched2 (Dispatch.split batching reqs) w in
    let wr := final_replay payload M S build step fwd decodable n3 sched3 reqs w in
    quiescent M S wl /\ quiescent M S wf /\ quiescent M S wr /\
    forall a, wst wl a = wst wf a /\ wst wl a = wst wr a /\
              wst wl a = spec_actor payload M S build step decodable leader_table a reqs
                                    (pending M S step w a).
Proof. exact same_sequence_same_state. Qed.

(** every list of batches is a [split]: the quantification over [batching] covers all
    batchings *)
Theorem C07_split_covers_all_batchings :
  forall (A : Type) (sizes : list nat) (l : list A), List.concat (Dispatch.split sizes l) = l.
Proof. exact (fun A => @concat_split A). Qed.

(** ApplyRequest / ApplyBatchRequest record the last applied index identically. *)
Theorem C07_last_applied_tracks :
  forall (payload M : Type)
         (build : list (string * string) -> prep -> ctor -> list (string * string) -> payload -> M)
         (decodable handler_ok : payload -> bool)
         (entries : list (N * req payload)) (batching : list nat) (am : apply_mgr),
    entries <> [] -> forallb (prep_ok payload decodable) (map snd entries) = true ->
    forallb (fun r => handler_ok (q_payload r)) (map snd entries) = true ->
    let idx := last_index payload entries (am_last am) in
    let al := leader_applied payload M build decodable handler_ok entries am in
    let af := follower_applied payload M build decodable (Dispatch.split batching entries) am in
    am_last al = idx /\ last (am_saved al) 0%N = idx /\
    am_last af = idx /\ last (am_saved af) 0%N = idx.
Proof. exact last_applied_tracks. Qed.

(** the hypotheses are satisfiable by a sequence using all 11 variants, with a non-trivial
    outcome *)
Theorem C07_hypotheses_satisfiable :
  clean tmsg tstate tfwd tinit /\
  forallb (prep_ok tpayload tdecodable) sample_reqs = true /\
  Forall (no_forward tpayload tmsg tbuild tfwd tdecodable) sample_reqs /\
  (forall a, wst (t_leader 1 [] sample_reqs) a <> []) /\
  wst (t_leader 1 [] sample_reqs) AConfig
  = [(CConfigAdd, 3); (CSetFullValue, 4); (CConfigRemove, 5); (CConfigAdd, 13)].
Proof. exact sample_in_scope. Qed.

(** REFUTED without [prep_ok] (known finding C07:poison-fullvalue): an undecodable
    ConfigFullValue entry is skipped by the leader and by the replay, but aborts the rest of
    the follower's batch. *)
Theorem C07_same_state_without_prep_ok_refuted :
  exists reqs batching,
    Forall (no_forward tpayload tmsg tbuild tfwd tdecodable) reqs /\
    wst (t_leader 1 [] reqs) AConfig = wst (t_replay 1 [] reqs) AConfig /\
    wst (t_leader 1 [] reqs) AConfig <> wst (t_follower 1 [] (Dispatch.split batching reqs)) AConfig.
Proof. exact poison_refuted. Qed.

(** REFUTED without [no_forward] (known finding C07:tcache-forward-race): a T_CACHE table
    write and a direct cache request in one follower batch reach the cache actor in the
    opposite order. *)
Theorem C07_same_state_without_no_forward_refuted :
  exists reqs batching,
    forallb (prep_ok tpayload tdecodable) reqs = true /\
    quiescent tmsg tstate (t_leader 2 [] reqs) /\
    quiescent tmsg tstate (t_follower 2 [] (Dispatch.split batching reqs)) /\
    wst (t_leader 2 [] reqs) ACache <> wst (t_follower 2 [] (Dispatch.split batching reqs)) ACache.
Proof. exact forward_refuted. Qed.

(** * Round 2: concrete handlers *)

(** C07 with CONCRETE handlers instead of abstract ones: the ConfigActor store (builder E's
    SM/Config.v: cache, index, history, sequence), SequenceDbManager and the TableManager rows.
    For every request sequence in scope ([cscope], a boolean on each request: a ConfigFullValue
    value decodes; no non-default tenant in a config key and no T_CACHE row — the two
    notifications recorded as findings), every batching and every scheduling, the three paths
    leave the config store, the sequence counters and the table rows IDENTICAL. *)
Theorem C07_same_state_config_seq :
  forall (H : str -> str) (reqs : list (req cpayload)) (batching : list nat)
         (n1 n2 n3 : nat) (sched1 sched2 sched3 : list (list actor)),
    (1 <= n1)%nat -> (1 <= n2)%nat -> (1 <= n3)%nat ->
    forallb cscope reqs = true ->
    let wl := final_leader cpayload cdmsg cstate cbuild (cstep H) cfwd cdecodable n1 sched1 reqs cinit_world in
    let wf := final_follower cpayload cdmsg cstate cbuild (cstep H) cfwd cdecodable n2 sched2 (Dispatch.split batching reqs) cinit_world in
    let wr := final_replay cpayload cdmsg cstate cbuild (cstep H) cfwd cdecodable n3 sched3 reqs cinit_world in
    quiescent cdmsg cstate wl /\ quiescent cdmsg cstate wf /\ quiescent cdmsg cstate wr /\
    forall a, wst wl a = wst wf a /\ wst wl a = wst wr a.
Proof. exact same_state_config_seq. Qed.

(** non-vacuity: eight requests over config (publish, import, remove), sequence and table are in
    scope, and the leader path ends with the expected contents; a tenant key and a T_CACHE row
    are out of scope *)
Theorem C07_config_seq_satisfiable :
  forallb cscope dreqs = true /\
  (let w := final_leader cpayload cdmsg cstate cbuild (cstep Hrev) cfwd cdecodable 1 [] dreqs cinit_world in
   wst w ASequence = SSeq [(bl "seq1", 102%N)] /\
   match wst w AConfig with
   | SCfg s => option_map (fun v => cv_content v) (cache_get s (key_of_string dkey)) = Some (bl "a: 2") /\
               option_map (fun v => cv_content v) (cache_get s (key_of_string (bl "k2" ++ [2%N] ++ bl "g"))) = Some (bl "full")
   | _ => False
   end) /\
  cscope (mkReq VConfigRemove (PRemove (bl "d" ++ [2%N] ++ bl "g" ++ [2%N] ++ bl "t1"))) = false /\
  cscope (mkReq VTableManagerReq (PTab (TSet T_CACHE_B (bl "k") (bl "v")))) = false.
Proof. exact (conj dreqs_in_scope (conj dreqs_outcome tenant_key_out_of_scope)). Qed.
