(** C18 — Namespace-scoped users never see or change data outside their namespaces.
    Statements only; every proof is [exact <lemma>].

    [check_permission], [ns_check], [is_all], [query_page] ... model privilege.rs and the
    index filters (Auth/Privilege.v); [endpoint_guards] is the guard table generated from
    the console handlers on every run (Gen/EndpointGuards.v); [KnownUnguarded] is the
    recorded list of endpoints without any namespace check (known findings). *)
From RN Require Import Auth.StrX Auth.Privilege Auth.PrivilegeProofs Auth.GuardSpec Auth.GuardProofs.

(** permission = whitelisted and not blacklisted, for every group and every namespace *)
Theorem C18_check_sound_complete : forall g k,
  check_permission g k = true <-> (whitelisted g k /\ ~ blacklisted g k).
Proof. exact check_sound_complete_lemma. Qed.

Theorem C18_blacklist_wins : forall g k, blacklisted g k -> check_permission g k = false.
Proof. exact blacklist_wins_lemma. Qed.

(** the default namespace: "" and "public" are one namespace (key ""); every other id is
    looked up as it is — the default namespace is treated like any other *)
Theorem C18_default_namespace : forall g,
  ns_check g [] = ns_check g (s2l "public") /\ ns_check g [] = check_permission g default_namespace_key.
Proof. exact default_namespace_lemma. Qed.

Theorem C18_other_namespace : forall g k,
  k <> [] -> k <> s2l "public" -> ns_check g k = check_permission g k.
Proof. exact other_namespace_lemma. Qed.

(** the [enabled] flag is not consulted by the decision, and the [is_all] shortcut (which
    does consult it) is only taken when everything is permitted anyway *)
Theorem C18_enabled_irrelevant : forall e1 e2 wa w ba b k,
  check_permission (mkPg e1 wa w ba b) k = check_permission (mkPg e2 wa w ba b) k.
Proof. exact enabled_irrelevant_lemma. Qed.

Theorem C18_is_all_permits_everything : forall g, is_all g = true -> forall k, check_permission g k = true.
Proof. exact is_all_permits_everything_lemma. Qed.

(** listings never include an item of a namespace that is not permitted, and include every
    item of the permitted ones *)
Theorem C18_listing_only_permitted : forall (A : Type) (idx : index A) g param_ns ns item,
  In (ns, item) (query_page idx g param_ns) -> ns_check g ns = true.
Proof. exact listing_only_permitted_lemma. Qed.

Theorem C18_listing_complete : forall (A : Type) (idx : index A) g ns items item,
  In (ns, items) idx -> In item items -> ns_check g ns = true -> In (ns, item) (query_page idx g None).
Proof. exact listing_complete_lemma. Qed.

(** the namespace listing of the console (both API versions) names exactly the permitted namespaces
    that exist, in the stored order — the [is_all] shortcut included *)
Theorem C18_namespace_list_only_permitted : forall g all id,
  In (Some id) (namespace_list g all) -> In (Some id) all /\ ns_check g id = true.
Proof. exact namespace_list_only_permitted_lemma. Qed.

Theorem C18_namespace_list_complete : forall g all id,
  In (Some id) all -> ns_check g id = true -> In (Some id) (namespace_list g all).
Proof. exact namespace_list_complete_lemma. Qed.

Theorem C18_namespace_list_is_filter : forall g all,
  filter (fun e => match e with Some _ => true | None => false end) (namespace_list g all) =
  filter (fun e => match e with Some id => ns_check g id | None => false end) all.
Proof. exact namespace_list_is_filter_lemma. Qed.

Theorem C18_is_all_needs_empty_blacklist : forall g k, is_all g = true -> at_blacklist g k = false.
Proof. exact is_all_needs_empty_blacklist_lemma. Qed.

(** flags <-> group round trip, and the copy user record -> session *)
Theorem C18_flags_roundtrip : forall g,
  pg_new (get_flags g) (wl g) (bl g) = g /\ set_flags g (get_flags g) = g /\ (get_flags g < 8)%N.
Proof. exact flags_roundtrip_lemma. Qed.

Theorem C18_session_copy : forall f wlist blist,
  (flag (f mod 256) 1 = true ->
     build_namespace_privilege f wlist blist = pg_new (f mod 256) (Some wlist) (Some blist))
  /\ (flag (f mod 256) 1 = false -> build_namespace_privilege f wlist blist = pg_all).
Proof. exact build_namespace_privilege_lemma. Qed.

(** a handler with a check guard acts on a named namespace only when it is permitted *)
Theorem C18_guarded_acts_only_in_permitted : forall gd g k,
  gd = GuardCheck \/ gd = GuardParam -> acts gd g (Some k) = true -> ns_check g k = true.
Proof. exact guarded_acts_only_in_permitted_lemma. Qed.

(** the endpoint sweep: every console data endpoint of both API versions applies the
    caller's namespace privilege, except the recorded ones *)
Theorem C18_endpoints_guarded : forall e,
  In e endpoint_guards -> is_data_endpoint e = true -> known_unguarded e = false -> ep_guard e <> NoGuard.
Proof. exact endpoints_guarded_lemma. Qed.

(** ... and the recorded list is exact (no stale entry) *)
Theorem C18_known_unguarded_exact : forall pm,
  In pm KnownUnguarded ->
  exists e, In e endpoint_guards /\ ep_path e = fst pm /\ ep_method e = snd pm /\ is_data_endpoint e = true /\ ep_guard e = NoGuard.
Proof. exact known_unguarded_exact_lemma. Qed.

(** the privilege WRITE path (UserManager::add_user / update_user): every field an update gives
    REPLACES the stored one — an empty list included — and the session group built from the
    stored record is exactly that; so a namespace dropped from the whitelist, or put on the
    blacklist, is refused from the next login on *)
Theorem C18_update_sets_exactly : forall u p,
  let g := urec_group u in
  urec_group (update_user_priv u (Some p)) =
  mkPg true (obool (p_wl_all p) (wl_all g))
       (Some (match p_wl p with Some l => l | None => olist (wl g) end))
       (obool (p_bl_all p) (bl_all g))
       (Some (match p_bl p with Some l => l | None => olist (bl g) end)).
Proof. exact update_sets_exactly_lemma. Qed.

Theorem C18_update_revokes : forall u p l k,
  p_wl p = Some l -> p_wl_all p = Some false -> ~ In k l ->
  check_permission (urec_group (update_user_priv u (Some p))) k = false.
Proof. exact update_revokes_lemma. Qed.

Theorem C18_update_blacklists : forall u p l k,
  p_bl p = Some l -> In k l ->
  check_permission (urec_group (update_user_priv u (Some p))) k = false.
Proof. exact update_blacklists_lemma. Qed.

Theorem C18_update_none_keeps : forall u, update_user_priv u None = u.
Proof. exact update_none_keeps_lemma. Qed.
