(** C16 — With auth on, no data endpoint (HTTP or gRPC) is served without a valid token.
    Statements only; every proof is [exact <lemma>].

    [is_check_path], [extract_token], [pass], [middleware] model auth_middle.rs over the
    tables of Gen/OpenApiTables.v; [handle], [fill], [request] model grpc/handler/mod.rs and
    grpc/server.rs over Gen/GrpcTables.v (both regenerated from the Rust source on every
    run).  Paths, methods, tokens, request types range over ALL strings; bounded
    quantifiers range over the generated tables only. *)
From RN Require Import Auth.StrX Auth.Route Auth.OpenApi Auth.Grpc Auth.OpenApiSpec
  Auth.OpenApiProofs Auth.GrpcProofs.

(** over ALL strings: a path that contains "/nacos/" or "/rnacos/v1/" in any spelling of
    letter case — wherever it occurs, whatever surrounds it (duplicate slashes, trailing
    slash, extra segments, any other characters) — is a checked path unless it is literally
    one of the ignore entries *)
Theorem C16_all_spellings_checked : forall path pre mid post,
  path = pre ++ mid ++ post ->
  ci_equal (s2l "/nacos/") mid \/ ci_equal (s2l "/rnacos/v1/") mid ->
  ~ In path (map s2l IGNORE_PATH) ->
  is_check_path true path = true.
Proof. exact all_spellings_checked_lemma. Qed.

(** every ASCII case variant of the literal is such a spelling *)
Theorem C16_ascii_case_variants : forall lit mid,
  forallb (fun c => negb (is_upper c)) lit = true -> map ascii_lower mid = lit -> ci_equal lit mid.
Proof. exact ci_equal_ascii_case. Qed.

(** every ignore entry is one the property allows: /nacos/metrics, the file-gated
    /nacos/v1/raft/close-write, or a path served by nothing but the login handler *)
Theorem C16_ignore_list_is_allowed : forall p, In p IGNORE_PATH -> allowed_path p.
Proof. exact ignore_list_is_allowed_lemma. Qed.

(** a checked request passes only with a non-empty token that has a live session *)
Theorem C16_pass_requires_session : forall c path token,
  is_check_path true path = true -> pass true c path token = true -> token <> [] /\ c token = true.
Proof. exact pass_requires_session_lemma. Qed.

(** an empty token and a token without a live session (wrong, expired, logged out) are
    treated exactly like no token: the request is answered 403 by the middleware itself *)
Theorem C16_empty_garbage_expired_is_no_token : forall c authorization access qtok btok raw method,
  is_check_path true (seen raw) = true ->
  (let t := extract_token authorization access qtok btok method in t = [] \/ c t = false) ->
  middleware true c authorization access qtok btok raw method = Forbidden.
Proof. exact middleware_forbidden_lemma. Qed.

Theorem C16_pass_characterised : forall c authorization access qtok btok raw method,
  middleware true c authorization access qtok btok raw method = Pass <->
  is_check_path true (seen raw) = false \/
  (extract_token authorization access qtok btok method <> [] /\ c (extract_token authorization access qtok btok method) = true).
Proof. exact middleware_pass_lemma. Qed.

(** where the token is taken from: Authorization header (Bearer stripped), else accessToken
    header, else query, else — not for GET — the url-encoded body *)
Theorem C16_token_extraction_order :
  (forall v access qtok btok m, extract_token (Some v) access qtok btok m = bearer_strip v)
  /\ (forall a qtok btok m, extract_token None (Some a) qtok btok m = a)
  /\ (forall q btok m, extract_token None None (Some q) btok m = q)
  /\ (forall btok, extract_token None None None btok (s2l "GET") = [])
  /\ (forall b m, m <> s2l "GET" -> extract_token None None None (Some b) m = b)
  /\ (forall m, extract_token None None None None m = []).
Proof. exact token_extraction_order_lemma. Qed.

Theorem C16_bearer_strip :
  (forall v, forallb (fun c => negb (is_ws c)) v = true -> bearer_strip v = v)
  /\ (forall scheme w t, forallb (fun c => negb (is_ws c)) scheme = true -> is_ws w = true ->
        eq_ignore_ascii_case scheme (s2l "Bearer") = true -> bearer_strip (scheme ++ w :: t) = trim t)
  /\ (forall scheme w t, forallb (fun c => negb (is_ws c)) scheme = true -> is_ws w = true ->
        eq_ignore_ascii_case scheme (s2l "Bearer") = false -> bearer_strip (scheme ++ w :: t) = scheme ++ w :: t).
Proof. exact bearer_strip_lemma. Qed.

(** every registered route under /nacos/ or /rnacos/v1/ (static, with dynamic segments or a
    dynamic tail): whatever RAW path the router maps to it (the router decodes %XY first),
    the middleware treats the request as checked unless the routed path is an ignore entry *)
Theorem C16_routes_covered : forall r raw,
  In r openapi_routes -> under_prefix r = true ->
  pat_match (r_pat r) (requote raw) = true ->
  ~ In (requote raw) (map s2l IGNORE_PATH) ->
  is_check_path true (seen raw) = true.
Proof. exact routes_covered_lemma. Qed.

(** gRPC: with auth on, every registered request type other than the connection checks and
    the cluster-internal requests is refused (403) when the request carries no token, an
    empty token or a token without a live session *)
Theorem C16_grpc_data_requests_refused : forall cfg c t access authorization hdr,
  In t grpc_registered -> ~ In t grpc_no_session_needed ->
  grpc_token access authorization = [] \/ c (grpc_token access authorization) = false ->
  request true cfg c (s2l t) access authorization hdr = Refused403.
Proof. exact grpc_request_refused_lemma. Qed.

(** cluster-internal requests are never dispatched without the configured cluster token *)
Theorem C16_grpc_cluster_needs_token : forall enable cfg c t access authorization hdr,
  cfg <> [] -> In t grpc_cluster_internal ->
  request enable cfg c (s2l t) access authorization hdr = Dispatch -> hdr = Some cfg.
Proof. exact grpc_cluster_dispatch_needs_header. Qed.

Theorem C16_grpc_cluster_refused : forall enable cfg t has_session,
  cfg <> [] -> In t grpc_cluster_internal ->
  handle enable cfg (s2l t) has_session false = Refused500.
Proof. exact grpc_cluster_needs_token_lemma. Qed.
