(** C15 — Registry converges: after quiescence every node returns the same instances.
    Statements only; every proof is [exact <lemma>].  PARTIAL: the logical diff/merge steps of the
    cluster synchronisation of gRPC instances and the fixpoint argument are proved here; liveness
    under real message delay / loss and the failure-detection timing are runtime matters. *)
From RN Require Import Naming.Sync Naming.SyncProofs Naming.SyncTheorems.
Local Open Scope N_scope.

(** the delay actor sends, for every key, exactly the LAST operation notified since the previous
    flush (as an update or as a removal, never both) *)
Theorem C15_batch_last_op_wins : forall (ns : list note) k i,
  match fst (delay_flush (delay_notify_all [] ns)) with
  | Some (MBatch upd rem) =>
      (In (k, i) upd <-> last_bind k ns = Some (i, true)) /\
      (In (k, i) rem <-> last_bind k ns = Some (i, false))
  | Some _ => False
  | None => ns = []
  end.
Proof. exact batch_last_op_wins. Qed.

(** applying a batch: updates are stored attributed to the sender; a removal is honoured only
    for an instance held under the same client id *)
Theorem C15_batch_apply : forall R s upd rem k,
  NoDup (map fst upd) ->
  let R' := fst (fst (recv R s (MBatch upd rem))) in
  (forall i, In (k, i) upd -> aget k (sn_reg R') = Some (reset_from s i)) /\
  (~ In k (map fst upd) ->
     aget k (sn_reg R') =
     match aget k (sn_reg R) with
     | Some o => if existsb (fun p => (fst p =? k) && cid_eqb (si_client o) (si_client (snd p))) rem
                 then None else Some o
     | None => None
     end).
Proof. exact batch_apply. Qed.

(** pointwise effect of one anti-entropy exchange (SyncDistroClientInstances ->
    QueryDistroInstanceSnapshot -> Snapshot) on the receiver *)
Theorem C15_exchange_spec : forall S R k,
  sn_id S <> sn_id R -> wf_own S -> wf_recv R ->
  aget k (sn_reg (exchange S R)) =
  match own S k with
  | Some (c, v) =>
      match aget k (sn_reg R) with
      | Some o => if cid_eqb (si_client o) c then Some o else Some (mkInst v (sn_id S) c)
      | None => Some (mkInst v (sn_id S) c)
      end
  | None =>
      match aget k (sn_reg R) with
      | Some o => if fst (si_client o) =? sn_id S then None else Some o
      | None => None
      end
  end.
Proof. exact exchange_spec. Qed.

Theorem C15_exchange_preserves_wf : forall S R,
  sn_id S <> sn_id R -> wf_own S -> wf_recv R -> wf_recv (exchange S R).
Proof. exact exchange_wf_recv. Qed.

(** after one round without concurrent operations the receiver's view of the sender's gRPC
    clients has the sender's keys under the sender's clients; equal payloads where no update
    batch was lost *)
Theorem C15_distro_round_repairs : forall S R,
  sn_id S <> sn_id R -> wf_own S -> wf_recv R ->
  let R' := exchange S R in
  (forall k, option_map fst (held_for (sn_id S) R' k) = option_map fst (own S k)) /\
  (forall k c v, own S k = Some (c, v) -> held_for (sn_id S) R k <> Some (c, v) ->
                 (forall v', held_for (sn_id S) R k <> Some (c, v')) ->
                 held_for (sn_id S) R' k = Some (c, v)) /\
  (vals_synced S R -> forall k, held_for (sn_id S) R' k = own S k).
Proof. exact distro_round_repairs. Qed.

(** KNOWN FINDING (distro-diff-ignores-values): the hypothesis [vals_synced] cannot be dropped —
    the exchange compares key sets only, a payload missed with a lost batch stays stale *)
Theorem C15_distro_round_keeps_stale_value :
  exists S R,
    sn_id S <> sn_id R /\ wf_own S /\ wf_recv R /\
    own S 7 = Some ((1, 5), 200) /\ held_for (sn_id S) (exchange S R) 7 = Some ((1, 5), 100).
Proof. exact distro_round_keeps_stale_value. Qed.

(** quiescence + one anti-entropy round => all live nodes answer the same for every key *)
Theorem C15_quiescent_fixpoint : forall ns : list snode,
  NoDup (map sn_id ns) ->
  (forall n, In n ns -> sn_id n <> 0 /\ wf_own n /\ wf_recv n) ->
  (forall S R, In S ns -> In R ns -> sn_id S <> sn_id R -> vals_synced S R) ->
  (forall S1 S2 k, In S1 ns -> In S2 ns -> own S1 k <> None -> own S2 k <> None -> S1 = S2) ->
  (forall R k i, In R ns -> aget k (sn_reg R) = Some i -> exists S, In S ns /\ sn_id S = fst (si_client i)) ->
  forall k,
    (forall S c v R, In S ns -> own S k = Some (c, v) -> In R ns ->
       gview (exchange_all (others ns R) R) k = Some (sn_id S, c, v)) /\
    ((forall S, In S ns -> own S k = None) ->
       forall R, In R ns -> gview (exchange_all (others ns R) R) k = None) /\
    (forall R1 R2, In R1 ns -> In R2 ns ->
       gview (exchange_all (others ns R1) R1) k = gview (exchange_all (others ns R2) R2) k).
Proof. exact quiescent_fixpoint. Qed.

(** receiving exchanges does not change what a node registers itself (so the data a node sends
    in a round does not depend on the exchanges it has already received) *)
Theorem C15_exchange_keeps_own : forall S R k,
  sn_id S <> sn_id R -> wf_own S -> wf_recv R ->
  (own S k = None \/ own R k = None) -> own (exchange S R) k = own R k.
Proof. exact exchange_keeps_own. Qed.

(** node death => client_invalid_instance removes exactly the dead node's client instances *)
Theorem C15_dead_node_clients_removed : forall R d k,
  d <> sn_id R -> wf_recv R ->
  aget k (sn_reg (fst (mark_dead R d))) =
  match aget k (sn_reg R) with
  | Some o => if fst (si_client o) =? d then None else Some o
  | None => None
  end.
Proof. exact dead_node_clients_removed. Qed.

(** a (re)joining node receives the others' data *)
Theorem C15_rejoin_receives_snapshot : forall J S k c v,
  sn_id S <> 0 -> wf_own S -> own S k = Some (c, v) ->
  aget k (sn_reg (join_pull J S)) = Some (mkInst v (sn_id S) c) /\
  peers_has (sn_id S) c (sn_peers (join_pull J S)) = true.
Proof. exact rejoin_receives_snapshot. Qed.
