(** C15 — Registry converges: after quiescence every node returns the same instances.
    Statements only; every proof is [exact <lemma>].  PARTIAL: the logical diff/merge steps of the
    cluster synchronisation of gRPC instances and the fixpoint argument are proved here; liveness
    under real message delay / loss and the failure-detection timing are runtime matters. *)
From RN Require Import Naming.Distro Naming.Sync Naming.SyncProofs Naming.SyncTheorems Naming.SyncHttp.
Local Open Scope N_scope.

(** the delay actor sends, for every key, exactly the LAST operation notified since the previous
    flush (as an update or as a removal, never both) *)
Theorem C15_batch_last_op_wins : forall (ns : list note) k i,
  match fst (delay_flush (delay_notify_all [] ns)) with
  | Some (MBatch upd rem) =>
      (In (k, i) upd <-> last_bind k ns = Some (i, true)) /\
      (In (k, i) rem <-> last_bind k ns = Some (i, false))
  | Some _ => False
  | None => ns = []
  end.
Proof. exact batch_last_op_wins. Qed.

(** applying a batch: updates are stored attributed to the sender; a removal is honoured only
    for an instance held under the same client id *)
Theorem C15_batch_apply : forall R s upd rem k,
  NoDup (map fst upd) ->
  let R' := fst (fst (recv R s (MBatch upd rem))) in
  (forall i, In (k, i) upd -> aget k (sn_reg R') = Some (reset_from s i)) /\
  (~ In k (map fst upd) ->
     aget k (sn_reg R') =
     match aget k (sn_reg R) with
     | Some o => if existsb (fun p => (fst p =? k) && cid_eqb (si_client o) (si_client (snd p))) rem
                 then None else Some o
     | None => None
     end).
Proof. exact batch_apply. Qed.

(** pointwise effect of one anti-entropy exchange (SyncDistroClientInstances ->
    QueryDistroInstanceSnapshot -> Snapshot) on the receiver *)
Theorem C15_exchange_spec : forall S R k,
  sn_id S <> sn_id R -> wf_own S -> wf_recv R ->
  aget k (sn_reg (exchange S R)) =
  match own S k with
  | Some (c, v) =>
      match aget k (sn_reg R) with
      | Some o => if cid_eqb (si_client o) c then Some o else Some (mkInst v (sn_id S) c)
      | None => Some (mkInst v (sn_id S) c)
      end
  | None =>
      match aget k (sn_reg R) with
      | Some o => if fst (si_client o) =? sn_id S then None else Some o
      | None => None
      end
  end.
Proof. exact exchange_spec. Qed.

Theorem C15_exchange_preserves_wf : forall S R,
  sn_id S <> sn_id R -> wf_own S -> wf_recv R -> wf_recv (exchange S R).
Proof. exact exchange_wf_recv. Qed.

(** after one round without concurrent operations the receiver's view of the sender's gRPC
    clients has the sender's keys under the sender's clients; equal payloads where no update
    batch was lost *)
Theorem C15_distro_round_repairs : forall S R,
  sn_id S <> sn_id R -> wf_own S -> wf_recv R ->
  let R' := exchange S R in
  (forall k, option_map fst (held_for (sn_id S) R' k) = option_map fst (own S k)) /\
  (forall k c v, own S k = Some (c, v) -> held_for (sn_id S) R k <> Some (c, v) ->
                 (forall v', held_for (sn_id S) R k <> Some (c, v')) ->
                 held_for (sn_id S) R' k = Some (c, v)) /\
  (vals_synced S R -> forall k, held_for (sn_id S) R' k = own S k).
Proof. exact distro_round_repairs. Qed.

(** KNOWN FINDING (distro-diff-ignores-values): the hypothesis [vals_synced] cannot be dropped —
    the exchange compares key sets only, a payload missed with a lost batch stays stale *)
Theorem C15_distro_round_keeps_stale_value :
  exists S R,
    sn_id S <> sn_id R /\ wf_own S /\ wf_recv R /\
    own S 7 = Some ((1, 5), 200) /\ held_for (sn_id S) (exchange S R) 7 = Some ((1, 5), 100).
Proof. exact distro_round_keeps_stale_value. Qed.

(** quiescence + one anti-entropy round => all live nodes answer the same for every key *)
Theorem C15_quiescent_fixpoint : forall ns : list snode,
  NoDup (map sn_id ns) ->
  (forall n, In n ns -> sn_id n <> 0 /\ wf_own n /\ wf_recv n) ->
  (forall S R, In S ns -> In R ns -> sn_id S <> sn_id R -> vals_synced S R) ->
  (forall S1 S2 k, In S1 ns -> In S2 ns -> own S1 k <> None -> own S2 k <> None -> S1 = S2) ->
  (forall R k i, In R ns -> aget k (sn_reg R) = Some i -> exists S, In S ns /\ sn_id S = fst (si_client i)) ->
  forall k,
    (forall S c v R, In S ns -> own S k = Some (c, v) -> In R ns ->
       gview (exchange_all (others ns R) R) k = Some (sn_id S, c, v)) /\
    ((forall S, In S ns -> own S k = None) ->
       forall R, In R ns -> gview (exchange_all (others ns R) R) k = None) /\
    (forall R1 R2, In R1 ns -> In R2 ns ->
       gview (exchange_all (others ns R1) R1) k = gview (exchange_all (others ns R2) R2) k).
Proof. exact quiescent_fixpoint. Qed.

(** receiving exchanges does not change what a node registers itself (so the data a node sends
    in a round does not depend on the exchanges it has already received) *)
Theorem C15_exchange_keeps_own : forall S R k,
  sn_id S <> sn_id R -> wf_own S -> wf_recv R ->
  (own S k = None \/ own R k = None) -> own (exchange S R) k = own R k.
Proof. exact exchange_keeps_own. Qed.

(** node death => client_invalid_instance removes exactly the dead node's client instances *)
Theorem C15_dead_node_clients_removed : forall R d k,
  d <> sn_id R -> wf_recv R ->
  aget k (sn_reg (fst (mark_dead R d))) =
  match aget k (sn_reg R) with
  | Some o => if fst (si_client o) =? d then None else Some o
  | None => None
  end.
Proof. exact dead_node_clients_removed. Qed.

(** a (re)joining node receives the others' data *)
Theorem C15_rejoin_receives_snapshot : forall J S k c v,
  sn_id S <> 0 -> wf_own S -> own S k = Some (c, v) ->
  aget k (sn_reg (join_pull J S)) = Some (mkInst v (sn_id S) c) /\
  peers_has (sn_id S) c (sn_peers (join_pull J S)) = true.
Proof. exact rejoin_receives_snapshot. Qed.

(** ... and when that node dies afterwards, the rejoined node - which learnt the instance through the
    SNAPSHOT only - drops it like everybody else (the snapshot arm records the sender's client ids) *)
Theorem C15_rejoin_then_death_clean : forall J S k c v,
  sn_id S <> 0 -> wf_own S -> own S k = Some (c, v) ->
  aget k (sn_reg (fst (mark_dead (join_pull J S) (sn_id S)))) = None.
Proof. exact rejoin_then_death_clean. Qed.

(** * HTTP instances (routed writes, batches from the owner); all live nodes share the view [v] *)

(** a registration handed to ANY live node is, after the owner's batch, held by EVERY live node: locally
    owned and time-out supervised on the owner, a copy attributed to the owner elsewhere *)
Theorem C15_http_register_converges : forall (v : view) (hash : N -> N), NoDup (ids v) ->
  forall E k val n (r : sreg),
    live v E -> live v n ->
    exists ow, route_target v E (hash k) = Some ow /\ live v ow /\
      let r' := after_flush v hash n ow [http_write_note k val] (http_write_at v hash n E k val r) in
      aget k r' = Some (hinst val (if n =? ow then 0 else ow)) /\
      (timeout_enabled (hinst val (if n =? ow then 0 else ow)) = true <-> n = ow \/ ow = 0).
Proof. exact http_register_converges. Qed.

Theorem C15_http_register_all_agree : forall (v : view) (hash : N -> N), NoDup (ids v) ->
  forall E k val n1 n2 (r1 r2 : sreg),
    live v E -> live v n1 -> live v n2 -> (forall n, live v n -> n <> 0) ->
    forall ow, route_target v E (hash k) = Some ow ->
      gview (mkNode n1 (after_flush v hash n1 ow [http_write_note k val] (http_write_at v hash n1 E k val r1)) []) k =
      gview (mkNode n2 (after_flush v hash n2 ow [http_write_note k val] (http_write_at v hash n2 E k val r2)) []) k.
Proof. exact http_register_all_agree. Qed.

(** after a deregistration handed to any live node and the owner's batch NO live node holds the instance *)
Theorem C15_http_deregister_converges : forall (v : view) (hash : N -> N),
  forall E k n (rn row : sreg) val,
    live v E -> live v n ->
    forall ow, route_target v E (hash k) = Some ow ->
      aget k row = Some (hinst val 0) ->
      (forall i, aget k rn = Some i -> si_client i = no_client) ->
      (n = ow -> rn = row) ->
      aget k (after_flush v hash n ow (http_delete_notes ow k row) (http_delete_at v hash n E k rn)) = None.
Proof. exact http_deregister_converges. Qed.

(** interplay with [batch_last_op_wins]: update and remove of one key inside one 500 ms window *)
Theorem C15_http_register_then_deregister_in_one_window : forall (v : view) (hash : N -> N),
  forall k val n ow (rn : sreg),
    n <> ow -> (forall i, aget k rn = Some i -> si_client i = no_client) ->
    aget k (after_flush v hash n ow [http_write_note k val; (k, (hinst val 0, false))] rn) = None.
Proof. exact http_register_then_deregister_in_one_window. Qed.

Theorem C15_http_deregister_then_register_in_one_window : forall (v : view) (hash : N -> N),
  forall k val old n ow (rn : sreg),
    n <> ow -> owns v n (hash k) = false ->
    aget k (after_flush v hash n ow [(k, (hinst old 0, false)); http_write_note k val] rn) = Some (hinst val ow).
Proof. exact http_deregister_then_register_in_one_window. Qed.

(** KNOWN FINDINGS (keys http-sync-stale-state:snapshot and :ownership): snapshots and update batches are applied unconditionally —
    one built before a deregistration / update and applied after it restores the older state *)
Theorem C15_stale_snapshot_restores_deregistered :
  exists (R : snode) (k ow : N) (is : list (N * sinst)),
    aget k (sn_reg R) = None /\
    aget k (sn_reg (fst (fst (recv R ow (MSnapshot is))))) <> None /\
    aget k (sn_reg (fst (fst (recv R ow (MBatch is []))))) <> None.
Proof. exact stale_snapshot_restores_deregistered. Qed.

Theorem C15_stale_snapshot_overwrites_update :
  exists (R : snode) (k ow : N) (is : list (N * sinst)),
    aget k (sn_reg R) = Some (hinst 7 1) /\
    aget k (sn_reg (fst (fst (recv R ow (MSnapshot is))))) = Some (hinst 8 1).
Proof. exact stale_snapshot_overwrites_update. Qed.
