(** C12 — Registry queries return exactly live registrations; disconnect removes own only.
    Statements only; every proof is [exact <lemma>].  [Inv] is the registry invariant of C11 (it
    holds in every reachable state, C11_Inv_reachable). *)
From Coq Require Import QArith.
From RN Require Import Base.Res Base.AMap Naming.Service Naming.ServiceProofs Naming.Filter Naming.Actor
  Naming.IndexProofs Naming.ActorProofs Naming.FilterProofs Naming.OwnershipProofs Naming.Script Naming.ScriptProofs
  Naming.ConvProofs Naming.Regression.
Local Open Scope N_scope.

(** QueryList / QueryListString: the hosts returned are precisely the instances currently stored
    for the service that are enabled ([live]); under the protection threshold all of them, shown
    healthy; otherwise all of them, or only the healthy ones when healthy-only is requested; each
    address at most once *)
Theorem C12_query_exact : forall a k s b,
  Inv a -> sget k (a_svcs a) = Some s ->
  let reached := protect_reached (live s) (s_thr s) in
  (forall i', In i' (get_instance_list a k b) <->
              exists i, In i (live s) /\
                        (if reached then i' = mark i else i' = i /\ (b = true -> i_healthy i = true))) /\
  NoDup (map i_key (get_instance_list a k b)).
Proof. exact query_exact. Qed.

Theorem C12_live_is_registered_and_enabled : forall a k s i,
  Inv a -> sget k (a_svcs a) = Some s ->
  (In i (live s) <-> exists ik, stored a k ik = Some i /\ i_enabled i = true).
Proof. exact live_spec. Qed.

Theorem C12_query_absent_service : forall a k b, sget k (a_svcs a) = None -> get_instance_list a k b = [].
Proof. exact query_absent_service. Qed.

(** QueryServiceInfo returns the same hosts and reports whether protection was reached *)
Theorem C12_service_info_exact : forall a k s b,
  sget k (a_svcs a) = Some s ->
  get_service_info a k b = (get_instance_list a k b, protect_reached (live s) (s_thr s)).
Proof. exact service_info_exact. Qed.

(** the protection test is healthy/total <= threshold over exact rationals (threshold = num/den);
    binary32 rounding is not modelled: the two agree for thresholds k/4 and < 2^20 instances *)
Theorem C12_protect_threshold_rational : forall l num den, den <> 0 ->
  (protect_reached l (num, den) = true <->
   l <> [] /\
   (Z.of_N (healthy_count l) # N.succ_pos (N.pred (N.of_nat (length l))) <= Z.of_N num # N.succ_pos (N.pred den))%Q).
Proof. exact protect_reached_rational. Qed.

(** a newly registered instance carries the address, ephemeral flag, enabled flag and weight it was
    registered with (any origin, any tag) *)
Theorem C12_registered_fields_kept : forall c hashf a k i0 tg fs,
  stored a k (i_key i0) = None ->
  exists n, stored (fst (update_instance c hashf a k i0 tg fs)) k (i_key i0) = Some n /\
            i_key n = i_key i0 /\ i_ephemeral n = i_ephemeral i0 /\ i_enabled n = i_enabled i0 /\
            i_weight n = i_weight i0 /\ i_healthy n = i_healthy i0 /\ i_lm n = a_now a.
Proof. exact registered_fields_kept. Qed.

(** a deregistration carrying another client id leaves an ephemeral instance (and everything
    else) untouched; with the owner's id, no id, or for a persistent instance it removes exactly it *)
Theorem C12_foreign_deregister_refused : forall c a k ik cl i,
  stored a k ik = Some i -> i_ephemeral i = true -> cl <> 0 -> i_client i <> cl ->
  forall k' ik', stored (fst (fst (remove_instance c a k ik (Some cl)))) k' ik' = stored a k' ik'.
Proof. exact foreign_deregister_refused. Qed.

Theorem C12_own_deregister_removes : forall c a k ik cl i,
  stored a k ik = Some i -> (i_ephemeral i = false \/ cl = 0 \/ i_client i = cl) ->
  stored (fst (fst (remove_instance c a k ik (Some cl)))) k ik = None /\
  forall k' ik', (k', ik') <> (k, ik) -> stored (fst (fst (remove_instance c a k ik (Some cl)))) k' ik' = stored a k' ik'.
Proof. exact own_deregister_removes. Qed.

(** when a gRPC connection ends (RemoveClient), every stored instance is either left exactly as it
    was or it disappears and was an EPHEMERAL instance of THAT client: no persistent instance and
    no instance of another client is removed, nothing is added *)
Theorem C12_disconnect_removes_own_ephemeral_only : forall c a cl,
  Inv a ->
  (forall k ik, stored a k ik = None -> stored (remove_client_instance c a cl) k ik = None) /\
  (forall k ik i, stored a k ik = Some i ->
     stored (remove_client_instance c a cl) k ik = Some i \/
     (stored (remove_client_instance c a cl) k ik = None /\ i_ephemeral i = true /\ i_client i = cl)).
Proof. exact disconnect_removes_own_ephemeral_only. Qed.

(** ... and every ephemeral instance recorded for the connection is removed; a gRPC registration
    is recorded for its connection and stored as belonging to it *)
Theorem C12_disconnect_removes_recorded_ephemeral : forall c a cl ks k ik i,
  Inv a -> cget cl (a_clients a) = Some ks -> In (k, ik) ks -> stored a k ik = Some i -> i_ephemeral i = true ->
  stored (remove_client_instance c a cl) k ik = None.
Proof. exact disconnect_removes_recorded_ephemeral. Qed.

Theorem C12_grpc_registration_recorded : forall c hashf a k i0 tg fs,
  i_grpc i0 = true -> i_client i0 <> 0 ->
  let a' := fst (update_instance c hashf a k i0 tg fs) in
  (exists ks, cget (i_client i0) (a_clients a') = Some ks /\ In (k, i_key i0) ks) /\
  (exists n, stored a' k (i_key i0) = Some n /\ i_client n = i_client i0 /\ i_grpc n = true).
Proof. exact grpc_registration_recorded. Qed.

(** completeness at full strength.  [conv a dead]: every stored instance that carries a client id
    is recorded for that client in client_instance_set, unless that connection has already been
    removed ([dead]); it is preserved by every op and holds after every history, with [dead] = the
    connections removed by the history *)
Theorem C12_conv_step : forall c hashf a o d,
  op_wf o -> Inv a -> conv a d -> conv (fst (step c hashf a o)) (removed_clients o ++ d).
Proof. exact conv_step. Qed.

Theorem C12_conv_reachable : forall c hashf ops t0,
  Forall op_wf ops -> conv (run_all c hashf (actor_init t0) ops) (dead_of ops).
Proof. exact conv_reachable. Qed.

(** for a connection that has not been removed, the record IS the set of stored instances that
    carry its id (both inclusions) *)
Theorem C12_recorded_iff_owned : forall c hashf ops t0 cl k ik,
  Forall op_wf ops -> cl <> 0 -> ~ In cl (dead_of ops) ->
  let a := run_all c hashf (actor_init t0) ops in
  (recorded (a_clients a) cl (k, ik) <-> exists i, stored a k ik = Some i /\ i_client i = cl).
Proof. exact recorded_iff_owned. Qed.

(** after ANY history of in-domain ops ([op_wfb]), RemoveClient of a connection that has not been
    removed before ([alive_b]: a connection id is not reused after its RemoveClient) removes every
    ephemeral instance that carries its id and leaves every other instance exactly as it was *)
Theorem C12_disconnect_removes_ALL_own_ephemeral : forall c hashf ops t0 cl k ik i,
  forallb op_wfb ops = true -> negb (cl =? 0) && alive_b cl ops = true ->
  let a := run_all c hashf (actor_init t0) ops in
  stored a k ik = Some i -> i_client i = cl -> i_ephemeral i = true ->
  stored (fst (step c hashf a (OpRemoveClient cl))) k ik = None.
Proof. exact disconnect_removes_all_own_ephemeral_b. Qed.

Theorem C12_disconnect_exact : forall c hashf ops t0 cl k ik i,
  forallb op_wfb ops = true -> negb (cl =? 0) && alive_b cl ops = true ->
  let a := run_all c hashf (actor_init t0) ops in
  stored a k ik = Some i ->
  stored (fst (step c hashf a (OpRemoveClient cl))) k ik =
  if i_ephemeral i && (i_client i =? cl) then None else Some i.
Proof. exact disconnect_exact. Qed.

(** the code before the repair violated the statement (regression model): a persistent instance
    registered over gRPC was removed by RemoveClient *)
Theorem C12_old_code_removed_persistent_refuted :
  exists a k ik i, a = run_all cfg0 (fun _ => 0) (actor_init 1000000) persistent_over_grpc /\
                   stored a k ik = Some i /\ i_ephemeral i = false /\
                   stored (remove_client_instance_old cfg0 a 1) k ik = None.
Proof. exact disconnect_removes_persistent_refuted. Qed.

(** metadata precedence: metadata set from the console is recorded and overrides SDK metadata *)
Theorem C12_console_metadata_recorded : forall s old i1 t,
  t_metadata t = true -> t_from_update t = true ->
  mget (i_key i1) (snd (fst (fst (merge_tag s old i1 (Some t))))) = Some (i_meta i1).
Proof. exact console_metadata_recorded. Qed.

Theorem C12_console_metadata_wins : forall s old i1 t pm,
  mget (i_key i1) (s_meta s) = Some pm -> t_metadata t = true -> t_from_update t = false ->
  i_meta (fst (fst (fst (merge_tag s old i1 (Some t))))) = pm.
Proof. exact console_metadata_wins. Qed.
