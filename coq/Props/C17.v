(** C17 — Console: every API needs a login session; roles cannot exceed their grants.
    Statements only; every proof is [exact <lemma>].

    Vocabulary: [console_routes] is the flattened route table generated from
    console_config (web_config.rs, console/api.rs); [role_match], [match_url_by_roles],
    [middleware] model permission.rs / login_middle.rs over the generated tables
    (Gen/ConsoleTables.v); [login_endpoints], [visitor_self_service], [is_user_mgmt], ...
    are the property's own lists (Auth/ConsoleSpec.v).  Paths, methods, tokens and role
    values range over ALL strings; the only bounded quantifier is "r in console_routes"
    (the generated table, enumerated completely in the kernel). *)
From RN Require Import Auth.StrX Auth.Route Auth.Console Auth.ConsoleSpec Auth.ConsoleProofs.

(** every registered API route is a static pattern, and unless it is one of the login
    endpoints it is subject to the session check and refused (API-style NO_LOGIN answer)
    when the request has no token or a token without a live session *)
Theorem C17_api_routes_need_session : forall r,
  In r console_routes -> is_api_route r = true ->
  pat_is_exact (r_pat r) = true /\
  (~ In (rpath r) login_endpoints ->
   is_check_path (s2l (rpath r)) = true /\
   forall c cookie header,
     token_of cookie header = [] \/ c (token_of cookie header) = None ->
     middleware c cookie header (s2l (rpath r)) (s2l (r_method r)) = NoLogin false).
Proof. exact api_routes_need_session_lemma. Qed.

(** whatever the path and method: no token, a garbage token, a logged-out or an expired
    token (all: no cached session) are refused on every checked path *)
Theorem C17_no_session_refused : forall c cookie header path method,
  is_check_path path = true ->
  token_of cookie header = [] \/ c (token_of cookie header) = None ->
  middleware c cookie header path method = NoLogin (is_page path).
Proof. exact no_session_refused_lemma. Qed.

(** a request is passed on exactly when the path is exempt from the check or a live
    session exists one of whose roles is granted the (path, method) *)
Theorem C17_forward_characterised : forall c cookie header path method,
  middleware c cookie header path method = Forward <->
  is_check_path path = false \/
  (token_of cookie header <> [] /\
   exists roles, c (token_of cookie header) = Some roles /\ match_url_by_roles roles path method = true).
Proof. exact forward_characterised. Qed.

(** a visitor cannot use any registered route whose method is not GET, except logging
    in/out and changing the own password *)
Theorem C17_visitor_cannot_mutate : forall r,
  In r console_routes -> r_method r <> "GET"%string -> ~ In (rpath r) visitor_self_service ->
  pat_is_exact (r_pat r) = true /\ role_match RoleVisitor (s2l (rpath r)) (s2l (r_method r)) = false.
Proof. exact visitor_cannot_mutate_lemma. Qed.

(** ... and on every registered path, whatever method STRING other than GET is sent *)
Theorem C17_visitor_cannot_mutate_any_method : forall r m,
  In r console_routes -> pat_is_exact (r_pat r) = true -> m <> GET -> ~ In (rpath r) visitor_any_method ->
  role_match RoleVisitor (s2l (rpath r)) m = false.
Proof. exact visitor_cannot_mutate_any_method_lemma. Qed.

(** a developer (and the legacy old-console role) is granted no user-management route and
    no transfer export/import route, with any method string *)
Theorem C17_developer_no_user_mgmt_no_transfer : forall r m,
  In r console_routes -> is_user_mgmt (rpath r) = true \/ is_transfer (rpath r) = true ->
  role_match RoleDeveloper (s2l (rpath r)) m = false /\ role_match RoleOldConsole (s2l (rpath r)) m = false.
Proof. exact developer_no_user_mgmt_no_transfer_lemma. Qed.

(** visitor <= developer <= manager on every path served by a registered route (static
    or with a dynamic tail) and every method string *)
Theorem C17_role_monotone : forall r path m,
  In r console_routes -> pat_match (r_pat r) path = true ->
  (role_match RoleVisitor path m = true -> role_match RoleDeveloper path m = true)
  /\ (role_match RoleDeveloper path m = true -> role_match RoleManager path m = true).
Proof. exact role_monotone_lemma. Qed.

(** the same for ALL paths, registered or not, except the one stale visitor-only entry *)
Theorem C17_role_monotone_all_paths : forall p m,
  (~ In p (map s2l stale_visitor_only) -> role_match RoleVisitor p m = true -> role_match RoleDeveloper p m = true)
  /\ (role_match RoleDeveloper p m = true -> role_match RoleManager p m = true).
Proof. exact role_monotone_all_paths_lemma. Qed.

(** a (path, method) listed for no role is reachable by nobody, whatever session *)
Theorem C17_unlisted_route_unreachable : forall path method,
  is_check_path path = true ->
  (forall r, role_match r path method = false) ->
  forall c cookie header, middleware c cookie header path method <> Forward.
Proof. exact unlisted_unreachable_lemma. Qed.

(** several roles grant exactly the union of what each role grants *)
Theorem C17_multi_role_is_union : forall roles p m,
  match_url_by_roles roles p m = existsb (fun v => match_url_by_roles [v] p m) roles.
Proof. exact match_url_by_roles_union. Qed.

(** a role value other than the three known constants grants nothing, alone or in a list *)
Theorem C17_unknown_role_grants_nothing : forall v p m,
  ~ In v (map s2l ALL_ROLES) -> match_url_by_roles [v] p m = false.
Proof. exact unknown_role_no_grant. Qed.

Theorem C17_unknown_roles_ignored : forall roles p m,
  match_url_by_roles roles p m = match_url_by_roles (filter (fun v => mem v (map s2l ALL_ROLES)) roles) p m.
Proof. exact unknown_roles_ignored. Qed.

(** spellings: the router decodes %XY before matching, the middleware does not.  Any raw
    path that the router maps to an API route without being its literal spelling is still
    subject to the check and is granted to no role set — it never reaches the handler *)
Theorem C17_spellings_fail_closed : forall r raw,
  In r console_routes -> is_api_route r = true ->
  pat_match (r_pat r) (requote raw) = true ->
  raw <> s2l (rpath r) ->
  is_check_path raw = true
  /\ (forall roles m, match_url_by_roles roles raw m = false)
  /\ (forall c cookie header m, middleware c cookie header raw m <> Forward).
Proof. exact spellings_fail_closed_lemma. Qed.

(** a handler is only ever reached through an entry of the flattened route table *)
Theorem C17_dispatch_through_table : forall raw m h,
  dispatch_raw console_services raw m = Handler h ->
  exists r, In r console_routes /\ pat_match (r_pat r) (requote raw) = true /\ s2l (r_method r) = m /\ r_handler r = h.
Proof. exact dispatch_raw_sound. Qed.
