(** C19 — Issued sequence ids are unique and increasing across restarts and nodes.
    This file contains statements only; every proof is [exact <lemma>]. *)
From RN Require Import Base.SMap SM.ConfigKey SM.Sequence SM.SequenceProofs SM.SeqGroupProofs SM.HistorySys SM.HistorySysProofs.
Local Open Scope N_scope.

(** replicated counters (SequenceDbManager): along every history that does not explicitly reset
    key k, the ids / ranges drawn from k never overlap and each later one lies above every
    earlier one *)
Theorem C19_db_ids_unique_increasing : forall k m rs,
  sm_wf str_cmp m -> (forall r, In r rs -> resets k r = false) ->
  forall i j si li sj lj, (i < j)%nat ->
    nth_error (draws_of k m rs) i = Some (si, li) -> nth_error (draws_of k m rs) j = Some (sj, lj) ->
    si + li <= sj.
Proof. exact db_draws_disjoint_increasing. Qed.

(** what a request returns is exactly what it draws *)
Theorem C19_db_result_is_draw : forall m r,
  snd (db_apply m r) =
  match r with
  | RNextId k => SNextId (next_free m k)
  | RNextRange k step => SNextRange (next_free m k) step
  | _ => SNone
  end.
Proof. exact db_apply_result. Qed.

(** snapshot + load restores the counters; replaying exactly the suffix reproduces the live state *)
Theorem C19_db_restart_replay_exact : forall L1 L3,
  db_run (db_load (db_snapshot (db_run [] L1))) L3 = db_run [] (L1 ++ L3).
Proof. exact db_restart_replay_exact. Qed.

(** ... and when a part L2 of the log is applied a SECOND time after the snapshot: the counter of
    every key not reset in L2 ++ L3 ends at or above the live one, so every id drawn afterwards
    lies above every id drawn live: gaps, never duplicates *)
Theorem C19_db_restart_replay_overlap : forall k L1 L2 L3,
  (forall r, In r (L2 ++ L3) -> resets k r = false) ->
  let live := db_run [] (L1 ++ L2 ++ L3) in
  let restarted := db_run (db_load (db_snapshot (db_run [] (L1 ++ L2)))) (L2 ++ L3) in
  next_free live k <= next_free restarted k /\
  (forall s len, In (s, len) (draws_of k (db_run [] L1) (L2 ++ L3)) -> s + len <= next_free restarted k) /\
  (forall more s len, (forall r, In r more -> resets k r = false) ->
     In (s, len) (draws_of k restarted more) -> next_free live k <= s).
Proof. exact db_restart_replay_overlap. Qed.

(** a snapshot installed into a RUNNING node whose counters lag: every counter the leader has is taken
    over exactly, so what that node draws afterwards lies at or above everything the leader handed
    out before the snapshot (no id twice after a leader change that follows a snapshot install) *)
Theorem C19_db_install_next_free : forall leader follower k, sm_wf str_cmp leader ->
  next_free (db_install follower (db_snapshot leader)) k =
  match sm_get str_cmp leader k with Some v => v | None => next_free follower k end.
Proof. exact db_install_next_free. Qed.

Theorem C19_db_install_continues : forall k leader follower more,
  sm_wf str_cmp leader -> sm_wf str_cmp follower -> sm_get str_cmp leader k <> None ->
  (forall r, In r more -> resets k r = false) ->
  forall s len, In (s, len) (draws_of k (db_install follower (db_snapshot leader)) more) -> next_free leader k <= s.
Proof. exact db_install_continues. Qed.

(** per-node cache (SeqGroup, repaired apply_range), fed with the ranges the counter hands out
    (each at or above the end of the previous one): the ids one node returns strictly increase
    (never twice, never backwards) and each lies inside a range the node was given *)
Theorem C19_seqgroup_ids_increasing : forall step ops, disciplined 0 ops ->
  (forall i j x y, (i < j)%nat -> nth_error (grun (group_new step) ops) i = Some x ->
                   nth_error (grun (group_new step) ops) j = Some y -> x < y) /\
  (forall id, In id (grun (group_new step) ops) -> exists s l, In (s, l) (applied_of ops) /\ s <= id < s + l).
Proof. exact seqgroup_ids_increasing. Qed.

(** ranges handed to different nodes are disjoint (C19_db_ids_unique_increasing), hence two nodes
    never return the same id *)
Theorem C19_seqgroup_no_overlap : forall step1 step2 ops1 ops2,
  disciplined 0 ops1 -> disciplined 0 ops2 ->
  (forall s1 l1 s2 l2, In (s1, l1) (applied_of ops1) -> In (s2, l2) (applied_of ops2) ->
                       s1 + l1 <= s2 \/ s2 + l2 <= s1) ->
  forall id, In id (grun (group_new step1) ops1) -> In id (grun (group_new step2) ops2) -> False.
Proof. exact seqgroup_no_overlap. Qed.

(** config history ids: for every history of the multi-node system model (allocations that commit
    or are lost, applies in log order on every node, snapshot restarts / installs, empty restarts,
    leader changes) that satisfies
      marks_committed  (a write that opens a new id block is committed) and
      issuer_caught_up (a node whose write commits has applied the whole log),
    the committed history ids are pairwise different and strictly increasing in log order *)
Theorem C19_history_ids_unique : forall evs, run_ok ev_ok hsys_new evs ->
  forall i j x y, (i < j)%nat ->
    nth_error (log_ids (hrun hsys_new evs)) i = Some x -> nth_error (log_ids (hrun hsys_new evs)) j = Some y -> x < y.
Proof. exact history_ids_unique. Qed.

(** REFUTED without marks_committed (known finding history-mark-lost; replayed on real
    ConfigActors by runner/checks/c19.py): ids 2,3,4 then 1,2 *)
Theorem C19_history_ids_unique_refuted :
  run_ok ev_caught_up hsys_new lost_mark_witness /\
  log_ids (hrun hsys_new lost_mark_witness) = [2; 3; 4; 1; 2].
Proof. exact history_ids_unique_refuted. Qed.

(** ---- round 7: the issuer of config history ids over EVERY history of publish (next_state), import
    (next_section) and arriving replicated marks (set_valid_last_id): ids strictly increase, every id is
    at or below the highest replicated mark, and a node rebuilt from the marks continues strictly above
    every id handed out ---- *)
From RN Require Import SM.IssuerProofs.

Theorem C19_issuer_ids_increase_and_covered : forall l b ops st,
  0 < b -> irun (mkI (sseq_new l b) None []) ops = Some st ->
  strictly_desc (i_ids st) /\
  (forall x, In x (i_ids st) -> exists m, i_top st = Some m /\ x <= m) /\
  (forall x m, In x (i_ids st) -> i_top st = Some m ->
     forall s' id upd, next_state (set_valid_last_id (sseq_new 0 b) m) = Some (s', (id, upd)) -> x < id).
Proof. exact issuer_ids_increase_and_covered. Qed.

(** false of an import that keeps the reserved window (seeded change C18h-m4) *)
Theorem C19_issuer_keepcache_refuted : exists s0 s1 s2 a b id upd m,
  next_state (sseq_new 100 7) = Some (s0, (101, Some m)) /\
  next_section_keepcache s0 10 = (s1, (a, b)) /\ next_state s1 = Some (s2, (id, upd)) /\
  upd = None /\ N.max m b < id.
Proof. exact keepcache_refuted. Qed.
