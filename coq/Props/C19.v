(** C19 — Issued sequence ids are unique and increasing across restarts and nodes.
    This file contains statements only; every proof is [exact <lemma>]. *)
From RN Require Import Base.SMap SM.ConfigKey SM.Sequence SM.SequenceProofs.
Local Open Scope N_scope.

(** replicated counters (SequenceDbManager): along every history that does not explicitly reset
    key k, the ids / ranges drawn from k never overlap and each later one lies above every
    earlier one *)
Theorem C19_db_ids_unique_increasing : forall k m rs,
  sm_wf str_cmp m -> (forall r, In r rs -> resets k r = false) ->
  forall i j si li sj lj, (i < j)%nat ->
    nth_error (draws_of k m rs) i = Some (si, li) -> nth_error (draws_of k m rs) j = Some (sj, lj) ->
    si + li <= sj.
Proof. exact db_draws_disjoint_increasing. Qed.

(** what a request returns is exactly what it draws *)
Theorem C19_db_result_is_draw : forall m r,
  snd (db_apply m r) =
  match r with
  | RNextId k => SNextId (next_free m k)
  | RNextRange k step => SNextRange (next_free m k) step
  | _ => SNone
  end.
Proof. exact db_apply_result. Qed.

(** snapshot + load restores the counters; replaying exactly the suffix reproduces the live state *)
Theorem C19_db_restart_replay_exact : forall L1 L3,
  db_run (db_load (db_snapshot (db_run [] L1))) L3 = db_run [] (L1 ++ L3).
Proof. exact db_restart_replay_exact. Qed.

(** ... and when a part L2 of the log is applied a SECOND time after the snapshot: the counter of
    every key not reset in L2 ++ L3 ends at or above the live one, so every id drawn afterwards
    lies above every id drawn live: gaps, never duplicates *)
Theorem C19_db_restart_replay_overlap : forall k L1 L2 L3,
  (forall r, In r (L2 ++ L3) -> resets k r = false) ->
  let live := db_run [] (L1 ++ L2 ++ L3) in
  let restarted := db_run (db_load (db_snapshot (db_run [] (L1 ++ L2)))) (L2 ++ L3) in
  next_free live k <= next_free restarted k /\
  (forall s len, In (s, len) (draws_of k (db_run [] L1) (L2 ++ L3)) -> s + len <= next_free restarted k) /\
  (forall more s len, (forall r, In r more -> resets k r = false) ->
     In (s, len) (draws_of k restarted more) -> next_free live k <= s).
Proof. exact db_restart_replay_overlap. Qed.
