(** C14 — Distro ownership: each service has exactly one owner and routing agrees.
    This file contains statements only; every proof is [exact <lemma>].
    The model (Naming/Distro.v) follows the repaired code; Naming/DistroRegression.v models the
    code before the repair and keeps the refutation. *)
From RN Require Import Naming.Distro Naming.DistroProofs Naming.DistroRegression.
Local Open Scope N_scope.

(** For EVERY cluster view (any size) without duplicate ids and with at least one live node,
    and every hash value: there is a live node that considers itself the owner, it is the only
    one, and every live node with that view routes the key to it. *)
Theorem C14_one_owner_and_route_agrees : forall v h,
  NoDup (ids v) -> (exists n, live v n) ->
  exists n,
    (live v n /\ owns v n h = true) /\
    (forall n', live v n' -> owns v n' h = true -> n' = n) /\
    (forall m, live v m -> route_target v m h = Some n).
Proof. exact one_owner_and_route_agrees. Qed.

(** the same over sorted views (the order of the BTreeMap), in [exists!] form *)
Theorem C14_one_owner_and_route_agrees_sorted : forall v h,
  ascending (ids v) = true -> (exists n, live v n) ->
  exists! n, live v n /\ owns v n h = true /\ (forall m, live v m -> route_target v m h = Some n).
Proof. exact one_owner_and_route_agrees_sorted. Qed.

Theorem C14_exactly_one_owner : forall v h,
  NoDup (ids v) -> (exists n, live v n) -> exists! n, live v n /\ owns v n h = true.
Proof. exact exactly_one_owner. Qed.

(** an HTTP write is routed to [n] precisely when [n] is live and considers itself the owner *)
Theorem C14_route_hits_owner : forall v h m n,
  NoDup (ids v) -> live v m ->
  (route_target v m h = Some n <-> live v n /\ owns v n h = true).
Proof. exact route_hits_owner. Qed.

(** all live nodes with the same view agree on the target *)
Theorem C14_all_live_nodes_agree : forall v h m1 m2,
  NoDup (ids v) -> live v m1 -> live v m2 -> route_target v m1 h = route_target v m2 h.
Proof. exact all_live_nodes_agree. Qed.

(** the list of self-declared owners among the live nodes is a singleton (what the check's
    oracle evaluates on the implementation) *)
Theorem C14_owners_singleton : forall v h,
  NoDup (ids v) -> (exists n, live v n) ->
  exists n, owners v h = [n] /\ forall m, live v m -> route_target v m h = Some n.
Proof. exact owners_singleton. Qed.

(** no key loses its owner because a node goes down *)
Theorem C14_node_down_still_one_owner : forall v d h,
  NoDup (ids v) -> (exists n, n <> d /\ live v n) ->
  exists! n, live (mark_down d v) n /\ owns (mark_down d v) n h = true.
Proof. exact node_down_still_one_owner. Qed.

(** before the first UpdateNodes the node owns every key and routes to itself *)
Theorem C14_empty_view_self_owner : forall local h,
  owns [] local h = true /\ route [] local h = RTo 0 local true.
Proof. exact empty_view_self_owner. Qed.

(** the [unwrap] in route_addr cannot panic *)
Theorem C14_route_no_panic : forall v m h, route v m h <> RPanic.
Proof. exact route_no_panic. Qed.

(** regression: the statement is false of the code before the repair (view {1 down, 2, 3},
    hash 0 has no owner at all) *)
Theorem C14_old_code_refuted :
  exists v h,
    ascending (ids v) = true /\ NoDup (ids v) /\ (exists n, live v n) /\
    ~ (exists n, live v n /\ is_range (range_of_old v n) h = true).
Proof. exact one_owner_refuted. Qed.

(** regression, kernel sweep over sizes 1..5 x all subsets down x residues 0..59: the repaired
    model has no failing view; the old one fails exactly when a dead node precedes a live one
    and two or more nodes are live *)
Theorem C14_sweep_1_to_5 :
  failing range_of = [] /\
  forallb (fun v => Bool.eqb (negb (view_ok range_of_old v)) (old_failure_class v)) sweep_views = true /\
  length (failing range_of_old) = 32%nat.
Proof. exact (conj sweep_fixed_ok (conj sweep_old_failure_class (f_equal (@length _) sweep_old_failing_views))). Qed.
