(** C02 — Raft log: acknowledged entries survive reopen unchanged; none are invented.
    Statements only; every proof is [exact <lemma>].  The theorems are about the model
    [RaftLog.LogFile] (LogInnerManager after the repairs recorded in known_findings.json) and hold
    for EVERY operation history and EVERY payload (sizes enter only through the proved framing
    layer: Codec.ScanProofs for chunk-boundary coincidences, varint_sizeof for offset widths, the
    full-file lemma for rollover). *)
From RN Require Import Base.Res Codec.Varint Codec.BufReader Codec.ScanProofs
  RaftLog.LogFile RaftLog.Spec RaftLog.Layout RaftLog.RecordProofs RaftLog.InitProofs
  RaftLog.Refine RaftLog.Corollaries RaftLog.ManagerProofs RaftLog.Examples
  RaftLog.LogManager RaftLog.ManagerInv RaftLog.ManagerSpec RaftLog.ManagerRefine RaftLog.ManagerExamples.
Local Open Scope N_scope.

(** the representation invariant is established by creating a log file (any start index, term,
    split-off, and any rollover limit up to the real 4096) *)
Theorem C02_fresh_file_represents_empty_log : forall limit start pre split,
  limit <= 4096 ->
  init None limit start pre split = Ok (conc (c_fresh limit start pre split)) /\
  RepS (conc (c_fresh limit start pre split)) (a_empty start, N.max split start).
Proof. exact fresh_rep. Qed.

(** forward simulation: for every history over {append, batch, delete-from, reopen, read} every
    answer of the log file is the one the abstract log demands, and the invariant is kept *)
Theorem C02_logfile_refines_alog : forall ops s st,
  RepS s st -> Forall (fop_ok (a_first (fst st))) ops ->
  let '(s', outs) := frun s ops in
  outs_ok st ops outs /\ RepS s' (aruns st ops outs).
Proof. exact logfile_refines_alog. Qed.

(** after any history, close + reopen returns exactly the acknowledged and not removed entries
    (same index, term, payload), and reports the last of them as last log index and term *)
Theorem C02_reopen_returns_exactly_acked : forall ops s st pre split lo hi,
  RepS s st -> Forall (fop_ok (a_first (fst st))) ops ->
  let '(s1, outs) := frun s ops in
  let st1 := aruns st ops outs in
  let '(s2, o2) := fstep s1 (FReopen pre split) in
  let '(s3, o3) := fstep s2 (FRead lo hi) in
  outs_ok st ops outs /\
  o2 = RInfo (a_last (fst st1) pre) /\
  exists l, o3 = RRecs l /\
            map to_ent l = a_get (fst st1) (N.max lo (N.max split (a_first (fst st1)))) hi.
Proof. exact reopen_returns_exactly_acked. Qed.

Theorem C02_last_index_term_is_last_acked : forall s st pre split,
  RepS s st ->
  let '(s', o) := fstep s (FReopen pre split) in
  out_ok st (FReopen pre split) o /\ RepS s' (apply_out st (FReopen pre split) o).
Proof. intros s st pre split H. exact (fstep_refines s st (FReopen pre split) H I). Qed.

Theorem C02_no_invented_entry : forall s st lo hi s' l x,
  RepS s st -> fstep s (FRead lo hi) = (s', RRecs l) -> In x l ->
  In (r_term x, r_value x) (a_ents (fst st)).
Proof. exact no_invented_entry. Qed.

(** the log an observer reconstructs from the acknowledgements contains only initial entries and
    submitted records *)
Theorem C02_acked_only : forall ops outs st e,
  In e (a_ents (fst (aruns st ops outs))) ->
  In e (a_ents (fst st)) \/ exists op, In op ops /\ submitted op e.
Proof. exact acked_only. Qed.

Theorem C02_entries_contiguous_in_order : forall a lo hi n,
  (n < length (a_get a lo hi))%nat ->
  e_index (nth n (a_get a lo hi) (mkEnt 0 0 [])) = N.max lo (a_first a) + N.of_nat n.
Proof. exact entries_contiguous_in_order. Qed.

(** the record encoding loses nothing: decode (encode r) = r, hence "same index, term, payload" *)
Theorem C02_record_roundtrip : forall r, rec_ok r -> dec_frame (rec_frame r) = Ok r.
Proof. exact dec_frame_roundtrip. Qed.

(** rollover: a file refuses appends only when full, and the index area fills up only at the
    end of a 128-record block *)
Theorem C02_full_only_at_block_end : forall c,
  wfc c -> c_da c <= HDR_LEN + nlen (ienc (c_blocks c)) + 10 -> nlen (c_all c) mod 128 = 0.
Proof. exact full_only_at_block_end. Qed.

(** the manager layer (catalogue of files): routing of reads over a well-formed catalogue; see
    RaftLog/ManagerProofs.v for what is proved and what is left to the correspondence *)
Theorem C02_manager_query_partial : forall m lo hi,
  mgr_wf m -> mgr_query_spec m lo hi.
Proof. exact mgr_query_refines. Qed.

(** the hypotheses above are satisfiable by a non-trivial state (130 appends, a cut across the index
    boundary, 31 re-appends, reopen) *)
Theorem C02_hypotheses_satisfiable : exists s st,
  RepS s st /\ a_first (fst st) = 1 /\ a_len (fst st) = 131 /\ a_last (fst st) 0 = (131, 2).
Proof. exact rep_example. Qed.

(** * the manager layer: the whole catalogue of log files refines ONE abstract log *)

(** a store that never wrote anything represents the empty state (any rollover limit up to 4096) *)
Theorem C02_manager_init : forall limit,
  HDR_LEN + 10 < limit <= 4096 -> MRep (mgr_init limit) (mkMst None 0 None).
Proof. exact MRep_init. Qed.

(** forward simulation over every history of {append, batch, delete-from, query, last index,
    snapshot pointer (install / install ahead of the log / build), restart}: every answer is the one the
    abstract log demands; the catalogue invariant (distinct increasing ids, one well-formed actor
    per range, closed ranges with exact counts, CONTIGUITY of the visible parts, current = last open
    range, saved catalogue = in-memory catalogue) is re-established.  Scope ([mops_ok]): well-formed
    non-empty records, delete-from and new pointers not below the newest snapshot pointer. *)
Theorem C02_mgr_refines_alog : forall ops m st,
  MRep m st ->
  let '(m', outs) := mrun m ops in
  mops_ok st ops outs -> exists st', mspecs st ops outs st' /\ MRep m' st'.
Proof. exact mgr_refines_alog. Qed.

Theorem C02_manager_query : forall m st lo hi,
  MRep m st -> lo < U64MAX ->
  let '(m', out) := mstep m (OQuery lo hi) in
  MRep m' st /\ exists l, out = MRecs l /\
    map to_ent l = match ms_log st with Some a => a_get a lo hi | None => [] end.
Proof. exact manager_query. Qed.

Theorem C02_reopen_returns_exactly_acked_multi_file : forall ops m st lo hi,
  MRep m st -> lo < U64MAX ->
  let '(m1, outs) := mrun m ops in
  mops_ok st ops outs ->
  exists st1, mspecs st ops outs st1 /\
    let '(m2, o2) := mstep m1 OReopen in
    let '(m3, o3) := mstep m2 (OQuery lo hi) in
    o2 = MDone /\ exists l, o3 = MRecs l /\
      map to_ent l = match ms_log st1 with Some a => a_get a lo hi | None => [] end.
Proof. exact reopen_returns_exactly_acked_multi_file. Qed.

(** non-vacuity: a history through rollover (two files), a pointer, a cut, a re-append and a restart
    is in scope and ends in the expected log *)
Theorem C02_manager_hypotheses_satisfiable : exists m st,
  MRep m st /\ mspecs (mkMst None 0 None) mx_ops mx_outs st /\
  ms_floor st = 6 /\
  match ms_log st with
  | Some a => a_first a = 5 /\ a_len a = 96 /\ a_last a 0 = (100, 2)
  | None => False
  end.
Proof. exact manager_example. Qed.
