(** C11 — Registry bookkeeping: counters, indexes, reverse maps always match instances.
    Statements only; every proof is [exact <lemma>].

    [Inv a] (Naming/ActorProofs.v) says, for the NamingActor state [a]:
      - every service: [instance_size] = number of instances, [healthy_instance_size] = number of
        healthy instances, [perpetual_host_set] = the keys of the non-ephemeral instances (no
        duplicates), every instance is stored under its own address;
      - [namespace_index] lists exactly the keys of [service_map], each once, and its
        [service_size] counters equal the number of listed services;
      - every (client, key) in [client_instance_set] names an existing instance whose [client_id]
        is that client;
      - (input domain carried along) stored instances that are not from gRPC have no client id. *)
From RN Require Import Base.Res Base.AMap Naming.Service Naming.ServiceProofs Naming.Filter Naming.Actor
  Naming.IndexProofs Naming.ActorProofs Naming.Script Naming.ScriptProofs.
Local Open Scope N_scope.

Theorem C11_Inv_init : forall t0, Inv (actor_init t0).
Proof. exact Inv_init. Qed.

(** every operation of the registry (register/update from any origin and with any tag, heartbeat,
    deregister, batch sync, snapshot, client removal, health time-outs, perpetual-instance probes,
    ephemeral<->persistent flips, empty-service clean-up, metadata clean-up, take-over, raft
    requests, distro diff, queries) preserves the invariant *)
Theorem C11_Inv_step : forall c hashf a o, op_wf o -> Inv a -> Inv (fst (step c hashf a o)).
Proof. exact Inv_step. Qed.

(** hence it holds after every history *)
Theorem C11_Inv_reachable : forall c hashf ops t0,
  Forall op_wf ops -> Inv (run_all c hashf (actor_init t0) ops).
Proof. exact Inv_reachable. Qed.

(** what the invariant gives for the observations of the property *)
Theorem C11_counters_match_listing : forall a k s,
  Inv a -> sget k (a_svcs a) = Some s ->
  s_size s = Z.of_nat (length (query_all_instances a k)) /\
  s_hsize s = Z.of_nat (length (filter i_healthy (query_all_instances a k))).
Proof. exact counters_match_listing. Qed.

Theorem C11_perpetual_set_is_non_ephemeral : forall a k s ik,
  Inv a -> sget k (a_svcs a) = Some s ->
  NoDup (s_perp s) /\ (In ik (s_perp s) <-> exists i, iget ik (s_insts s) = Some i /\ i_ephemeral i = false).
Proof. exact perpetual_set_is_non_ephemeral. Qed.

Theorem C11_index_lists_each_service_once : forall a,
  Inv a ->
  NoDup (ni_keys (a_index a)) /\
  (forall k, In k (ni_keys (a_index a)) <-> sget k (a_svcs a) <> None) /\
  ni_size (a_index a) = N.of_nat (length (ni_keys (a_index a))).
Proof. exact index_lists_each_service_once. Qed.

Theorem C11_client_records_exist_and_belong : forall a c0 ks k ik,
  Inv a -> cget c0 (a_clients a) = Some ks -> In (k, ik) ks ->
  exists i, stored a k ik = Some i /\ i_client i = c0.
Proof. exact client_records_exist_and_belong. Qed.

Theorem C11_dropped_only_when_empty : forall c hashf a o k s,
  Inv a -> sget k (a_svcs a) = Some s -> sget k (a_svcs (fst (step c hashf a o))) = None ->
  s_insts s = [].
Proof. exact dropped_only_when_empty. Qed.

(** ---- the same, stated directly "at every moment": after EVERY history of well-formed operations ---- *)
Theorem C11_history_counters_match : forall c hashf ops t0,
  Forall op_wf ops -> forall k s,
  let a := run_all c hashf (actor_init t0) ops in
  sget k (a_svcs a) = Some s ->
  s_size s = Z.of_nat (length (query_all_instances a k)) /\
  s_hsize s = Z.of_nat (length (filter i_healthy (query_all_instances a k))).
Proof. exact history_counters_match. Qed.

Theorem C11_history_perpetual_set : forall c hashf ops t0,
  Forall op_wf ops -> forall k s ik,
  let a := run_all c hashf (actor_init t0) ops in
  sget k (a_svcs a) = Some s ->
  NoDup (s_perp s) /\ (In ik (s_perp s) <-> exists i, iget ik (s_insts s) = Some i /\ i_ephemeral i = false).
Proof. exact history_perpetual_set. Qed.

Theorem C11_history_index_once : forall c hashf ops t0,
  Forall op_wf ops ->
  let a := run_all c hashf (actor_init t0) ops in
  NoDup (ni_keys (a_index a)) /\
  (forall k, In k (ni_keys (a_index a)) <-> sget k (a_svcs a) <> None) /\
  ni_size (a_index a) = N.of_nat (length (ni_keys (a_index a))).
Proof. exact history_index_once. Qed.

Theorem C11_history_client_records : forall c hashf ops t0,
  Forall op_wf ops -> forall c0 ks k ik,
  let a := run_all c hashf (actor_init t0) ops in
  cget c0 (a_clients a) = Some ks -> In (k, ik) ks ->
  exists i, stored a k ik = Some i /\ i_client i = c0.
Proof. exact history_client_records. Qed.

Theorem C11_history_dropped_only_when_empty : forall c hashf ops t0,
  Forall op_wf ops -> forall o k s,
  let a := run_all c hashf (actor_init t0) ops in
  sget k (a_svcs a) = Some s -> sget k (a_svcs (fst (step c hashf a o))) = None -> s_insts s = [].
Proof. exact history_dropped_only_when_empty. Qed.
