(** C03 — Raft log: truncation removes exactly the suffix; the log stays appendable.
    Statements only; every proof is [exact <lemma>]. *)
From RN Require Import Base.Res Codec.Varint Codec.BufReader
  RaftLog.LogFile RaftLog.Spec RaftLog.Layout RaftLog.RecordProofs RaftLog.StripProofs
  RaftLog.Refine RaftLog.Corollaries RaftLog.ManagerProofs
  RaftLog.LogManager RaftLog.ManagerInv RaftLog.ManagerSpec RaftLog.ManagerRefine.
Local Open Scope N_scope.

(** delete-from k keeps exactly the entries below k, for every log and every k >= first index
    (inside the file, on and across 128-record index boundaries, k = first, k >= end) *)
Theorem C03_truncate_exact : forall s st k,
  RepS s st -> a_first (fst st) <= k ->
  exists s', fstep s (FTruncate k) = (s', RUnit) /\ RepS s' (a_truncate (fst st) k, snd st).
Proof. exact truncate_exact. Qed.

(** the next append at k is accepted *)
Theorem C03_append_after_truncate_accepted : forall c k x,
  wfc c -> c_first c <= k < c_first c + nlen (c_all c) ->
  rec_ok x -> rec_nonempty x -> r_index x = k ->
  c_dcur (c_truncate c k) < DATA_MAX ->
  exists c' m, write (conc (c_truncate c k)) x = (conc c', m) /\ accepted m = true /\ wfc c' /\
               c_all c' = firstn (N.to_nat (k - c_first c)) (c_all c) ++ [x].
Proof. exact append_after_truncate_accepted. Qed.

(** the bytes of the removed suffix are gone from the data area and from the index area *)
Theorem C03_removed_bytes_gone : forall c k,
  wfc c -> c_first c <= k < c_first c + nlen (c_all c) ->
  strip_log_to (conc c) k = Ok (conc (c_truncate c k)) /\
  f_data (l_file (conc (c_truncate c k))) = fr (firstn (N.to_nat (k - c_first c)) (c_all c)) /\
  exists z, f_idx (l_file (conc (c_truncate c k))) =
            ienc (firstn (N.to_nat (k - c_first c) / 128) (c_blocks c)) ++ repeat 0 z.
Proof. exact removed_bytes_gone. Qed.

(** truncate, re-append anything (shorter / equal / longer), reopen: exactly the abstract log *)
Theorem C03_removed_bytes_never_reparse : forall s st k xs pre split lo hi,
  RepS s st -> a_first (fst st) <= k ->
  Forall rec_ok xs -> Forall rec_nonempty xs ->
  let ops := FTruncate k :: map FAppend xs in
  let '(s1, outs) := frun s ops in
  let st1 := aruns st ops outs in
  let '(s2, o2) := fstep s1 (FReopen pre split) in
  let '(s3, o3) := fstep s2 (FRead lo hi) in
  outs_ok st ops outs /\
  o2 = RInfo (a_last (fst st1) pre) /\
  exists l, o3 = RRecs l /\
            map to_ent l = a_get (fst st1) (N.max lo (N.max split (a_first (fst st1)))) hi.
Proof. exact removed_bytes_never_reparse. Qed.

Theorem C03_truncate_then_reopen : forall s st k pre split lo hi,
  RepS s st -> a_first (fst st) <= k ->
  let '(s1, o1) := fstep s (FTruncate k) in
  let '(s2, o2) := fstep s1 (FReopen pre split) in
  let '(s3, o3) := fstep s2 (FRead lo hi) in
  o1 = RUnit /\ o2 = RInfo (a_last (a_truncate (fst st) k) pre) /\
  exists l, o3 = RRecs l /\
            map to_ent l = a_get (a_truncate (fst st) k) (N.max lo (N.max split (a_first (fst st)))) hi.
Proof. exact truncate_then_reopen. Qed.

(** the manager layer: which files a delete-from touches (after the repairs of defects 4 and 7) *)
Theorem C03_manager_truncate_partial : forall m k,
  mgr_wf m -> mgr_first m <= k -> mgr_truncate_spec m k.
Proof. exact mgr_truncate_refines. Qed.

(** * the manager layer (several files, pointer files, split-off positions) *)

(** delete-from k (k at or above the first entry and above the newest snapshot pointer) leaves
    exactly the abstract prefix below k - whichever files it touches, drops or reopens - and the
    catalogue invariant holds again *)
Theorem C03_truncate_exact_multi_file : forall m st k,
  MRep m st -> mop_ok st (OTruncate k) ->
  let '(m', out) := mstep m (OTruncate k) in
  out = MAck true /\
  MRep m' (mkMst (match ms_log st with Some a => Some (a_truncate a k) | None => None end)
                 (ms_floor st) (ms_pend st)).
Proof. exact truncate_exact_multi_file. Qed.

Theorem C03_manager_truncate : forall m st k,
  MRep m st -> mop_ok st (OTruncate k) ->
  let '(m', out) := mstep m (OTruncate k) in
  out = MAck true /\
  MRep m' (mkMst (match ms_log st with Some a => Some (a_truncate a k) | None => None end)
                 (ms_floor st) (ms_pend st)).
Proof. exact truncate_exact_multi_file. Qed.

(** the next append at k is acknowledged (a full file rolls over to a new one) *)
Theorem C03_append_after_truncate_accepted_multi_file : forall m st a k x,
  MRep m st -> ms_log st = Some a -> mop_ok st (OTruncate k) -> k < a_end a ->
  rec_in x -> r_index x = k ->
  let '(m1, _) := mstep m (OTruncate k) in
  let '(m2, o2) := mstep m1 (OAppend x) in
  o2 = MAck true.
Proof. exact append_after_truncate_accepted_multi_file. Qed.

(** truncate, then any further history, restart, query: the abstract log (corollary of the simulation) *)
Theorem C03_truncate_then_history_then_reopen_multi_file : forall ops m st lo hi,
  MRep m st -> lo < U64MAX ->
  let '(m1, outs) := mrun m ops in
  mops_ok st ops outs ->
  exists st1, mspecs st ops outs st1 /\
    let '(m2, o2) := mstep m1 OReopen in
    let '(m3, o3) := mstep m2 (OQuery lo hi) in
    o2 = MDone /\ exists l, o3 = MRecs l /\
      map to_ent l = match ms_log st1 with Some a => a_get a lo hi | None => [] end.
Proof. exact reopen_returns_exactly_acked_multi_file. Qed.
