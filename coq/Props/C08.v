(** C08 — A node caught up by snapshot install serves the same data as the leader.
    Statements only.  The snapshot transfer itself (async-raft-ext InstallSnapshot RPCs) is
    trusted; [faithful] is the snapshot round-trip law of the components (C01). *)
From RN Require Import Base.Res Cluster.Install Cluster.InstallProofs.
Local Open Scope N_scope.

(** a node that joins late serves exactly the leader's data once the snapshot is installed *)
Theorem C08_install_fresh_state : forall leader recs,
  (forall k, find_last recs k = leader k) -> forall k, install recs st_init k = leader k.
Proof. exact install_fresh_state. Qed.

(** ... and any follower does so after a restart, whatever it held before *)
Theorem C08_install_then_restart_serves : forall leader recs,
  (forall k, find_last recs k = leader k) -> forall k, restart_after_install recs k = leader k.
Proof. exact install_then_restart_serves. Qed.

(** a LIVE follower: exact characterisation, and the proved part of the property *)
Theorem C08_install_live_state_exact : forall leader recs,
  (forall k, find_last recs k = leader k) -> forall live k,
  install recs live k = match leader k with Some v => Some v | None => live k end.
Proof. exact install_live_state_exact. Qed.

Theorem C08_install_live_state_partial : forall leader recs,
  (forall k, find_last recs k = leader k) -> forall live,
  (forall k, live k <> None -> leader k <> None) -> forall k, install recs live k = leader k.
Proof. exact install_live_state_partial. Qed.

(** the full statement (any live state) is false of the code: recorded finding *)
Theorem C08_install_live_state_refuted : exists leader recs live k,
  (forall k, find_last recs k = leader k) /\ install recs live k <> leader k.
Proof. exact install_live_state_refuted. Qed.

(** before the repair nothing of the snapshot was served *)
Theorem C08_install_old_refuted : exists leader recs k,
  (forall k, find_last recs k = leader k) /\ install_old recs st_init k <> leader k.
Proof. exact install_old_refuted. Qed.

Theorem C08_install_membership_from_header : forall cur cached header,
  install_membership cur cached header = header.
Proof. exact install_membership_from_header. Qed.
