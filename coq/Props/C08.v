(** C08 — A node caught up by snapshot install serves the same data as the leader.
    Statements only.  The snapshot transfer itself (async-raft-ext InstallSnapshot RPCs) is
    trusted; [faithful] is the snapshot round-trip law of the components (C01). *)
From RN Require Import Base.Res Cluster.Install Cluster.InstallProofs.
From RN Require Import RaftLog.LogFile RaftLog.Layout RaftLog.RecordProofs RaftLog.LogManager RaftLog.InstallLogProofs.
Local Open Scope N_scope.

(** a node that joins late serves exactly the leader's data once the snapshot is installed *)
Theorem C08_install_fresh_state : forall leader recs,
  (forall k, find_last recs k = leader k) -> forall k, install recs st_init k = leader k.
Proof. exact install_fresh_state. Qed.

(** ... and any follower does so after a restart, whatever it held before *)
Theorem C08_install_then_restart_serves : forall leader recs,
  (forall k, find_last recs k = leader k) -> forall k, restart_after_install recs k = leader k.
Proof. exact install_then_restart_serves. Qed.

(** a LIVE follower: exact characterisation, and the proved part of the property *)
Theorem C08_install_live_state_exact : forall leader recs,
  (forall k, find_last recs k = leader k) -> forall live k,
  install recs live k = match leader k with Some v => Some v | None => live k end.
Proof. exact install_live_state_exact. Qed.

Theorem C08_install_live_state_partial : forall leader recs,
  (forall k, find_last recs k = leader k) -> forall live,
  (forall k, live k <> None -> leader k <> None) -> forall k, install recs live k = leader k.
Proof. exact install_live_state_partial. Qed.

(** the full statement (any live state) is false of the code: recorded finding *)
Theorem C08_install_live_state_refuted : exists leader recs live k,
  (forall k, find_last recs k = leader k) /\ install recs live k <> leader k.
Proof. exact install_live_state_refuted. Qed.

(** before the repair nothing of the snapshot was served *)
Theorem C08_install_old_refuted : exists leader recs k,
  (forall k, find_last recs k = leader k) /\ install_old recs st_init k <> leader k.
Proof. exact install_old_refuted. Qed.

Theorem C08_install_membership_from_header : forall cur cached header,
  install_membership cur cached header = header.
Proof. exact install_membership_from_header. Qed.

(** ---- round 7: what happens AFTER the install ---- *)

(** a retried install of the same snapshot changes nothing *)
Theorem C08_install_idempotent : forall recs live k,
  install recs (install recs live) k = install recs live k.
Proof. exact install_idempotent. Qed.

(** a node that falls behind twice: exact state after the second install *)
Theorem C08_install_twice_exact : forall leader1 recs1 leader2 recs2,
  (forall k, find_last recs1 k = leader1 k) -> (forall k, find_last recs2 k = leader2 k) ->
  forall live k,
  install recs2 (install recs1 live) k =
  match leader2 k with
  | Some v => Some v
  | None => match leader1 k with Some v => Some v | None => live k end
  end.
Proof. exact install_twice_exact. Qed.

Theorem C08_install_twice_serves : forall leader1 recs1 leader2 recs2,
  (forall k, find_last recs1 k = leader1 k) -> (forall k, find_last recs2 k = leader2 k) ->
  (forall k, leader1 k <> None -> leader2 k <> None) ->
  forall k, install recs2 (install recs1 st_init) k = leader2 k.
Proof. exact install_twice_serves. Qed.

(** "and keeps doing so": the committed writes after the snapshot keep follower and leader equal,
    on the live node and after a restart at any later time *)
Theorem C08_install_then_follow : forall leader recs ws live,
  (forall k, find_last recs k = leader k) ->
  (forall k, live k <> None -> leader k <> None) ->
  forall k, apply_writes ws (install recs live) k = apply_writes ws leader k.
Proof. exact install_then_follow. Qed.

Theorem C08_restart_then_follow : forall leader recs ws,
  (forall k, find_last recs k = leader k) ->
  forall k, apply_writes ws (restart_after_install recs) k = apply_writes ws leader k.
Proof. exact restart_then_follow. Qed.

(** the recorded finding is confined: a key can differ from the leader after an install only if the
    leader dropped it and the follower still held it, and a restart heals it *)
Theorem C08_install_stale_only_dropped : forall leader recs live k,
  (forall k, find_last recs k = leader k) ->
  install recs live k <> leader k ->
  leader k = None /\ live k <> None /\ restart_after_install recs k = None.
Proof. exact install_stale_only_dropped. Qed.

(** The log side of an install whose snapshot covers the whole local log (delete_through = None ->
    SplitOff(u64::MAX), then InstallSnapshotPointerLog), on the RaftLogManager model, for EVERY tidy
    manager state: the catalogue becomes one fresh file that starts at the snapshot index and holds
    the pointer record, and the next append is accepted.  (Before repair b4420c3 the stale open
    file stayed current, the append was rejected and async-raft shut the Raft core down.) *)
Theorem C08_install_covering_log_then_append : forall m ptr x,
  mgr_tidy m -> HDR_LEN + 10 < m_limit m <= 4096 ->
  rec_ok ptr /\ rec_nonempty ptr ->
  rec_ok x /\ rec_nonempty x /\ r_index x = r_index ptr + 1 ->
  DATA0 + nlen (rec_frame ptr) + nlen (rec_frame x) < DATA_MAX ->
  let m1 := mgr_save_pointer (mgr_split_off m U64MAX) ptr in
  m_logs m1 = [fresh_range ptr] /\ m_saved m1 = [fresh_range ptr] /\
  snd (mgr_write 3 m1 x true) = WOk.
Proof. exact install_covering_log_then_append. Qed.

(** the abstract statement above on two CONCRETE components (round 3):

    NamespaceActor (literal model SM/ConcreteNs.v, incl. the snapshot codec): a RUNNING node in any
    reachable state [f] that loads the leader's snapshot holds, for every namespace the leader has,
    exactly the leader's entry (name, flag) and keeps its own entry elsewhere *)
From RN Require Import Base.SMap SM.ConfigKey SM.ConcreteNs SM.ConcreteNsProofs SM.Sequence SM.SequenceProofs.

Theorem C08_namespace_install_exact : forall l f,
  ns_inv l -> ns_already l = false -> sm_get str_cmp (ns_data l) NS_MARK = None ->
  Forall wf_ns_entry (ns_data l) -> ns_inv f ->
  forall k, sm_get str_cmp (ns_data (ns_install f l)) k =
            match sm_get str_cmp (ns_data l) k with
            | Some v => Some v
            | None => sm_get str_cmp (ns_data f) k
            end.
Proof. exact ns_install_exact. Qed.

(** SequenceDbManager: every counter the leader has is taken over exactly (stated under C19 as well) *)
Theorem C08_sequence_install_exact : forall leader follower k, sm_wf str_cmp leader ->
  next_free (db_install follower (db_snapshot leader)) k =
  match sm_get str_cmp leader k with Some v => v | None => next_free follower k end.
Proof. exact db_install_next_free. Qed.
