(** C01 — Served state survives restart: snapshot plus log replay reproduces it exactly.
    This file contains statements only; every proof is [exact <lemma>].

    Models: RaftLog/SnapFile.v (snapshot file writer/reader over the framing of C20),
    SM/Snapshot.v (build_snapshot / load_snapshot fan-out over Gen/SnapshotTables.v, generated
    from src/raft/filestore/raftdata.rs and the component sources on every run),
    SM/Replay.v (StateApplyManager start-up: load_index -> load_snapshot -> load_log).
    Components enter through the interface {apply; snapshot; load_record; observe(=ceq)} with
    their round-trip law as hypothesis (MCP, direct cache, naming, ... are validated by the
    `restart` harness only).  Round 2 (end of this file): the premises are discharged for the
    concrete Config / Sequence / Table components (SM/Concrete.v over builder E's store model,
    SM/SnapCodec.v over builder B's protobuf wire layer) and the C20 framing theorem. *)
From RN Require Import SM.Replay SM.ReplayProofs RaftLog.SnapFileProofs Codec.BufReaderProofs SM.SnapshotInst
     SM.Concrete SM.SnapCodecProofs SM.ConcreteProofs SM.ConcreteInst SM.ConcreteNs SM.ConcreteNsProofs Base.SMap SM.ConfigKey.

(** Every tree name that a component's source writes is dispatched back to that component by
    the generated load_snapshot table (finite check over the Gen tables); the generated
    build order contains each of the seven components exactly once.  The two exceptions are
    explicit in [closed_entry]: a key reserved by another component's constant-key record
    (T_SEQUENCE/"SEQ_CONFIG") and TableManager tables other than T_USER / T_CACHE. *)
Theorem C01_tree_names_closed :
  (forall c ws w, In (c, ws) writes -> In w ws -> closed_entry c w) /\
  (forall c, In c build_order) /\ NoDup build_order /\ map fst writes = build_order.
Proof.
  exact (conj tree_names_closed (conj build_order_complete (conj build_order_nodup writes_cover_build_order))).
Qed.

(** the exceptions are real (a sequence named SEQ_CONFIG would be loaded into Config; a table
    with another name is dropped by load_snapshot) — both are outside the served state *)
Theorem C01_tree_name_exceptions :
  route load_arms (bytes_of_lit "T_SEQUENCE") (bytes_of_lit "SEQ_CONFIG") = Some (KConfig, LInnerSetLastId) /\
  (forall key, route load_arms (bytes_of_lit "T_OTHER") key = None).
Proof. exact (conj seq_config_key_misrouted other_table_dropped). Qed.

(** Snapshot file round trip through the framing layer: what SnapshotWriter wrote is what
    SnapshotReader returns, whatever an earlier file of the same name contained (repaired
    writer).  The framing layer is the C20 theorem chunking_invariance (no premise left);
    [rec_ok] = non-empty body of bytes, shorter than 2^64. *)
Theorem C01_snapshot_file_roundtrip :
  forall (leftover hdr : list N) (recs : list (list N)),
    rec_ok hdr -> Forall rec_ok recs -> (length (frame hdr) <= 1024)%nat ->
    snap_read (write_truncate leftover (snap_image hdr recs)) = Ok (frame hdr, map frame recs).
Proof. exact snap_roundtrip_over_leftover. Qed.

(** For EVERY history of committed component messages, EVERY compaction point k and EVERY
    content left at the snapshot path by an interrupted earlier attempt: the node restarted
    from (snapshot file written at k, log, last_applied = length of the history) is
    observationally equivalent, on every component, to the node that ran the history. *)
Theorem C01_restart_reproduces :
  forall (S M : Type)
         (capply : comp -> S -> M -> S) (csnap : comp -> S -> list record)
         (cload : comp -> load_msg -> S -> record -> S) (cinit : comp -> S)
         (ceq : comp -> S -> S -> Prop),
    (forall c s1 s2 s3, ceq c s1 s2 -> ceq c s2 s3 -> ceq c s1 s3) ->
    (forall c s1 s2 m, ceq c s1 s2 -> ceq c (capply c s1 m) (capply c s2 m)) ->
    (* invariant of reachable component states / messages in scope / snapshot-encodable states *)
    forall (cinv : comp -> S -> Prop) (mok : comp -> M -> Prop) (cok : comp -> S -> Prop),
    (forall c s, cinv c s -> ceq c s s) ->
    (forall c, cinv c (cinit c)) ->
    (forall c s m, cinv c s -> mok c m -> cinv c (capply c s m)) ->
    (* component laws *)
    (forall c s r, cinv c s -> cok c s -> In r (csnap c s) -> routed_to c (rtree r) (rkey r)) ->
    (forall c s, cinv c s -> cok c s -> ceq c (fold_left (cload_routed S cload c) (csnap c s) (cinit c)) s) ->
    forall (enc : record -> list N) (dec_frame : list N -> option record)
           (hist : list (entry M)) (k : nat) (leftover hdr : list N),
      (k <= length hist)%nat -> Forall (entry_ok M mok) hist ->
      (forall c, cok c (run S M capply (firstn k hist) (init_node S cinit) c)) ->
      codec_ok enc dec_frame hdr
               (build_snapshot S csnap (run S M capply (firstn k hist) (init_node S cinit))) ->
      exists nd,
        restart S M capply csnap cload cinit enc dec_frame write_truncate leftover hdr hist k = Ok nd /\
        forall c, ceq c (nd c) (run S M capply hist (init_node S cinit) c).
Proof. exact restart_reproduces. Qed.

(** record level, without the file layer *)
Theorem C01_restart_state :
  forall (S M : Type)
         (capply : comp -> S -> M -> S) (csnap : comp -> S -> list record)
         (cload : comp -> load_msg -> S -> record -> S) (cinit : comp -> S)
         (ceq : comp -> S -> S -> Prop),
    (forall c s1 s2 s3, ceq c s1 s2 -> ceq c s2 s3 -> ceq c s1 s3) ->
    (forall c s1 s2 m, ceq c s1 s2 -> ceq c (capply c s1 m) (capply c s2 m)) ->
    forall (cinv : comp -> S -> Prop) (mok : comp -> M -> Prop) (cok : comp -> S -> Prop),
    (forall c s, cinv c s -> ceq c s s) ->
    (forall c, cinv c (cinit c)) ->
    (forall c s m, cinv c s -> mok c m -> cinv c (capply c s m)) ->
    (forall c s r, cinv c s -> cok c s -> In r (csnap c s) -> routed_to c (rtree r) (rkey r)) ->
    (forall c s, cinv c s -> cok c s -> ceq c (fold_left (cload_routed S cload c) (csnap c s) (cinit c)) s) ->
    forall (hist : list (entry M)) (k : nat), (k <= length hist)%nat -> Forall (entry_ok M mok) hist ->
    (forall c, cok c (run S M capply (firstn k hist) (init_node S cinit) c)) ->
    forall c, ceq c (start_up S M capply cload cinit
                              (Some (k, build_snapshot S csnap (run S M capply (firstn k hist) (init_node S cinit))))
                              hist (length hist) c)
                    (run S M capply hist (init_node S cinit) c).
Proof. exact restart_state. Qed.

(** An interrupted earlier compaction attempt (whatever it left at the snapshot path) has no
    effect on the restart — full strength for the repaired writer (truncate(true)). *)
Theorem C01_interrupted_compaction_harmless :
  forall (S M : Type)
         (capply : comp -> S -> M -> S) (csnap : comp -> S -> list record)
         (cload : comp -> load_msg -> S -> record -> S) (cinit : comp -> S)
         (enc : record -> list N) (dec_frame : list N -> option record)
         (hist : list (entry M)) (k : nat) (leftover hdr : list N),
    restart S M capply csnap cload cinit enc dec_frame write_truncate leftover hdr hist k
    = restart S M capply csnap cload cinit enc dec_frame write_truncate [] hdr hist k.
Proof. exact interrupted_compaction_harmless. Qed.

(** REFUTED for the writer before the repair (create(true) without truncate): users a, b, c
    created, compaction attempt interrupted, c deleted, next compaction (same id) writes a, b
    over the leftover a, b, c: after the restart the deleted c is served again. *)
Theorem C01_interrupted_compaction_harmless_refuted :
  exists (hist : list (entry kvmsg)) (k : nat) (leftover hdr : list N),
    res_map (fun nd => lookupk (kb "c") (nd KTable))
            (restart kvstate kvmsg kapply ksnap kload kinit enc_rec dec_frame1 write_in_place leftover hdr hist k)
    <> res_map (fun nd => lookupk (kb "c") (nd KTable))
               (restart kvstate kvmsg kapply ksnap kload kinit enc_rec dec_frame1 write_in_place [] hdr hist k).
Proof. exact interrupted_compaction_harmless_refuted. Qed.

(** the regression pair on the concrete key-value node: old writer resurrects c, repaired
    writer serves exactly the pre-stop state *)
Theorem C01_regression_pair :
  (served (kv_restart write_in_place) (kb "c") = Ok (Some [3]%N)) /\
  (served (kv_restart write_truncate) (kb "a") = Ok (Some [1]%N) /\
   served (kv_restart write_truncate) (kb "b") = Ok (Some [2]%N) /\
   served (kv_restart write_truncate) (kb "c") = Ok None) /\
  snap_read (write_in_place (snap_image w_hdr [w_a; w_b; w_c]) (snap_image w_hdr [w_a; w_b]))
  = Ok (frame w_hdr, [frame w_a; frame w_b; frame w_c]).
Proof.
  exact (conj (proj2 (proj2 kv_in_place_resurrects)) (conj kv_truncate_exact in_place_keeps_stale_tail)).
Qed.

(** the hypotheses of C01_restart_reproduces are satisfiable: a node of seven registers, a
    history over all components, compaction at index 6 *)
Theorem C01_hypotheses_satisfiable :
  (forall c s r, In r (rsnap c s) -> routed_to c (rtree r) (rkey r)) /\
  (forall c s, req_ c (fold_left (cload_routed N rload c) (rsnap c s) (rinit c)) s) /\
  (6 <= length reg_hist)%nat /\
  codec_ok enc_rec dec_frame1 reg_hdr
           (build_snapshot N rsnap (run N N rapply (firstn 6 reg_hist) (init_node N rinit))) /\
  run N N rapply reg_hist (init_node N rinit) KConfig = 7%N /\
  run N N rapply reg_hist (init_node N rinit) KSequence = 2%N.
Proof. exact (conj reg_snap_routed (conj reg_roundtrip reg_in_scope)). Qed.

(** NOT covered by C01_restart_reproduces (partial): compaction concurrent with apply.  If a
    component writes its records after entries beyond the header's last_index were applied,
    the restart applies those entries twice.  With exact snapshots (j = 0) the restart is
    exact; with j = 1 on an accumulating component it is not (witness; the harness samples
    the real race). *)
Theorem C01_concurrent_compaction_refuted :
  run N N rapply racy_hist (init_node N rinit) KConfig = 7%N /\
  restart_racy N N rapply rsnap rload rinit racy_hist 1 (fun _ => 0%nat) KConfig = 7%N /\
  restart_racy N N rapply rsnap rload rinit racy_hist 1 (fun c => match c with KConfig => 1%nat | _ => 0%nat end) KConfig = 9%N.
Proof. exact concurrent_compaction_double_applies. Qed.

(** Partial coverage of that race: on every REPLAY-IDEMPOTENT component (re-applying a block of
    messages to a state that has just applied it changes nothing observable) the restart is
    still exact, however far each component's records ran ahead of the header's last_index. *)
Theorem C01_restart_racy_idempotent :
  forall (S M : Type)
         (capply : comp -> S -> M -> S) (csnap : comp -> S -> list record)
         (cload : comp -> load_msg -> S -> record -> S) (cinit : comp -> S)
         (ceq : comp -> S -> S -> Prop),
    (forall c s1 s2 s3, ceq c s1 s2 -> ceq c s2 s3 -> ceq c s1 s3) ->
    (forall c s1 s2 m, ceq c s1 s2 -> ceq c (capply c s1 m) (capply c s2 m)) ->
    forall (cinv : comp -> S -> Prop) (mok : comp -> M -> Prop) (cok : comp -> S -> Prop),
    (forall c s, cinv c s -> ceq c s s) ->
    (forall c, cinv c (cinit c)) ->
    (forall c s m, cinv c s -> mok c m -> cinv c (capply c s m)) ->
    (forall c s r, cinv c s -> cok c s -> In r (csnap c s) -> routed_to c (rtree r) (rkey r)) ->
    (forall c s, cinv c s -> cok c s -> ceq c (fold_left (cload_routed S cload c) (csnap c s) (cinit c)) s) ->
    forall (hist : list (entry M)) (k : nat) (j : comp -> nat) (c : comp),
      Forall (entry_ok M mok) hist ->
      replay_idempotent S M capply ceq c ->
      (forall d, cok d (run S M capply (firstn (k + j d) hist) (init_node S cinit) d)) ->
      ceq c (restart_racy S M capply csnap cload cinit hist k j c)
            (run S M capply hist (init_node S cinit) c).
Proof. exact restart_racy_idempotent. Qed.

(** last-write-wins key-value components (tables, config contents, namespaces by id) are
    replay-idempotent; an accumulating register (sequence counter, history list) is not *)
Theorem C01_replay_idempotence_instances :
  (forall c, replay_idempotent kvstate kvmsg kapply keq c) /\
  (forall c s1 s2 m, keq c s1 s2 -> keq c (kapply c s1 m) (kapply c s2 m)) /\
  ~ replay_idempotent N N rapply req_ KConfig.
Proof. exact (conj kv_replay_idempotent (conj keq_apply_cong reg_not_replay_idempotent)). Qed.

(** * Round 2: the component premises discharged by concrete models *)

(** The record codec (LogSnapshotItem over the protobuf wire layer): what SnapshotWriter writes
    for a record is decoded back to the same record by SnapshotReader::read_record. *)
Theorem C01_record_codec_roundtrip :
  forall r, wf_record r -> dec_item_frame (frame (enc_item r)) = Some r /\ rec_ok (enc_item r).
Proof. exact (fun r W => conj (item_roundtrip r W) (item_rec_ok r W)). Qed.

(** ConfigValueDO (prost) round trip: content, every history item (id, content, time, user, in
    order), type and description survive to_bytes / from_bytes; and a value as the committed
    commands leave it (not temporary, md5 = H content, normalised type, last_modified = time of
    the newest history item) is rebuilt EXACTLY by From<ConfigValueDO> — md5 recomputed,
    tmp = false, type re-normalised, last_modified re-derived. *)
Theorem C01_config_value_roundtrip :
  forall (H : str -> str) (v : cvalue),
    wf_value v -> canon v -> cv_md5 v = H (cv_content v) ->
    res_map (value_of_do H) (dec_value (enc_value v)) = Ok v.
Proof.
  exact (fun H v W C M => eq_trans (f_equal (res_map (value_of_do H)) (value_roundtrip v W))
                                   (f_equal Ok (value_do_id H v C M))).
Qed.

(** The config store's snapshot round-trip law: loading its own snapshot (one T_CONFIG record
    per key + the SEQ_CONFIG record) into a fresh ConfigActor gives the same cache (content,
    md5, type, desc, history, last_modified of every key), the same set of listed keys and the
    same history-id high-water mark.  [cfg_inv] holds in every state reached by committed
    commands on a node without temporary (follower-routed) values. *)
Theorem C01_config_snapshot_roundtrip :
  forall (H : str -> str) (s : store),
    cfg_inv H s -> cfg_ok s ->
    exists s', fold_left (cload_routed cstate (n_load H) KConfig) (n_snap KConfig (SCfg s)) (n_init KConfig) = SCfg s'
               /\ cfg_eqw s' s.
Proof. exact cfg_roundtrip. Qed.

(** all seven concrete components (Config, Sequence, Table; the other four are unit) *)
Theorem C01_component_roundtrip_laws :
  forall (H : str -> str) (c : comp) (st : cstate),
    n_inv H c st -> n_ok c st ->
    n_eq c (fold_left (cload_routed cstate (n_load H) c) (n_snap c st) (n_init c)) st.
Proof. exact n_roundtrip. Qed.

(** C01 WITHOUT component premises, framing premise or codec premise: for every history of
    committed config (ConfigSet / ConfigFullValue / ConfigRemove), sequence and table
    requests, every compaction point k and every leftover of an interrupted attempt, the node
    restarted from the snapshot FILE BYTES + log serves the same config cache, listed keys,
    history-id high-water mark, sequence counters and table rows as the node that ran the
    history.  Remaining hypotheses: the requests are in scope ([n_mok]: imported keys are
    ConfigKeys, sequence key <> "SEQ_CONFIG", tables T_USER / T_CACHE), and the state at the
    compaction point is encodable ([n_ok]: byte strings, ids and counters below 2^64). *)
Theorem C01_restart_reproduces_config_seq :
  forall (H : str -> str) (hist : list (entry cmsg)) (k : nat) (leftover hdr : list N),
    (k <= length hist)%nat ->
    Forall (entry_ok cmsg n_mok) hist ->
    (forall c, n_ok c (run cstate cmsg (n_apply H) (firstn k hist) (init_node cstate n_init) c)) ->
    rec_ok hdr -> (length (frame hdr) <= 1024)%nat ->
    exists nd,
      restart cstate cmsg (n_apply H) n_snap (n_load H) n_init enc_item dec_item_frame
              write_truncate leftover hdr hist k = Ok nd /\
      forall c, n_eq c (nd c) (run cstate cmsg (n_apply H) hist (init_node cstate n_init) c).
Proof. exact restart_reproduces_config_seq. Qed.

(** its hypotheses are satisfiable: a history over the three components, compaction at 4 *)
Theorem C01_config_seq_satisfiable :
  Forall (entry_ok cmsg n_mok) ex_hist /\ (forall c, n_ok c (ex_state 4 c)) /\
  (rec_ok ex_hdr /\ (length (frame ex_hdr) <= 1024)%nat) /\
  ex_state 9 KSequence = SSeq [(b "seq1", 102%N)].
Proof. exact (conj ex_entries_ok (conj ex_ok_at_4 (conj ex_hdr_ok (proj1 (proj2 ex_outcome))))). Qed.

(** the exclusion in [cfg_inv] is real: a temporary (SetTmpValue) value does not survive a
    snapshot as temporary, and the history item of its later commit is lost on the restarted
    node (model-level; see SM/ConcreteInst.v) *)
Theorem C01_tmp_value_snapshot_refuted :
  ti_mem (st_index tmp_store) tmp_key = false /\
  option_map (fun v => length (cv_hist v)) (cache_get (cfg_apply H0 tmp_store tmp_add) tmp_key) = Some 1%nat /\
  match reload tmp_store with
  | SCfg s' => ti_mem (st_index s') tmp_key = true /\
               option_map cv_tmp (cache_get s' tmp_key) = Some false /\
               option_map (fun v => length (cv_hist v)) (cache_get (cfg_apply H0 s' tmp_add) tmp_key) = Some 0%nat
  | _ => False
  end.
Proof. exact tmp_value_snapshot_refuted. Qed.

(** NamespaceActor (concrete model SM/ConcreteNs.v, literal incl. the marker): the snapshot
    round-trip law with its EXACT exclusions.  For a state reached by raft requests on non-empty
    ids ([ns_inv]: "" = public/SYSTEM, every other id has exactly the USER flag — i.e. no weak
    CONFIG/NAMING flags), before InitFromOldValue was applied and with byte-string ids/names:
    the reloaded actor has the same namespaces (id -> name, flag) and the same already_sync
    flag.  The list ORDER is not part of the law (build_snapshot iterates a HashMap). *)
Theorem C01_namespace_snapshot_roundtrip :
  forall s : nsstate,
    ns_inv s -> ns_already s = false -> sm_get str_cmp (ns_data s) NS_MARK = None ->
    Forall wf_ns_entry (ns_data s) ->
    ns_data (ns_reload s) = ns_data s /\ ns_already (ns_reload s) = false.
Proof. exact ns_snapshot_roundtrip. Qed.

(** [ns_inv] is preserved by every raft request that names a non-empty id *)
Theorem C01_namespace_invariant :
  ns_inv ns_init /\ forall s r, ns_inv s -> ns_mok r -> ns_inv (ns_apply s r).
Proof. exact (conj ns_init_inv ns_apply_inv). Qed.

(** REFUTED without [ns_already = false] (known finding C01:namespace-already-sync-marker):
    after InitFromOldValue the marker record comes back as an ordinary namespace *)
Theorem C01_namespace_marker_refuted :
  ns_inv ns_after_init /\ ns_already ns_after_init = true /\
  sm_get str_cmp (ns_data ns_after_init) NS_MARK = None /\
  sm_get str_cmp (ns_data (ns_reload ns_after_init)) NS_MARK = Some (mkNs [] F_USER).
Proof. exact marker_loaded_as_namespace. Qed.

(** the law's hypotheses are satisfiable (create, rename, add-only, delete) *)
Theorem C01_namespace_law_satisfiable :
  ns_inv ns_example /\ ns_already ns_example = false /\ sm_get str_cmp (ns_data ns_example) NS_MARK = None /\
  Forall wf_ns_entry (ns_data ns_example) /\
  ns_data ns_example = [([], mkNs NS_PUBLIC F_SYSTEM); (nsb "dev", mkNs (nsb "Dev 2") F_USER)] /\
  ns_data (ns_reload ns_example) = ns_data ns_example.
Proof. exact ns_example_in_scope. Qed.

(** * Round 3: C01 for the NAMESPACE component without component, framing or codec premises
    (SM/ConcreteNsNode.v: the node of SM/Replay.v with the literal NamespaceActor model for KNamespace).
    For every history of namespace requests in scope ([ns_mok]: non-empty ids), every compaction point k and
    every leftover of an interrupted attempt, the node restarted from the snapshot FILE BYTES + log serves
    the same namespaces (id -> name, flag) and the same already_sync flag as the node that ran the history.
    Remaining hypotheses, at the compaction point only ([nn_ok]): InitFromOldValue not yet applied and the
    marker id not a namespace (the recorded finding otherwise), byte-string ids / names, records < 2^64. *)
From RN Require Import SM.ConcreteNsNode.

Theorem C01_restart_reproduces_namespace :
  forall (hist : list (entry nsreq)) (k : nat) (leftover hdr : list N),
    (k <= length hist)%nat ->
    Forall (entry_ok nsreq nn_mok) hist ->
    (forall c, nn_ok c (run nsstate nsreq nn_apply (firstn k hist) (init_node nsstate nn_init) c)) ->
    rec_ok hdr -> (length (frame hdr) <= 1024)%nat ->
    exists nd,
      restart nsstate nsreq nn_apply nn_snap nn_load nn_init enc_item dec_item_frame
              write_truncate leftover hdr hist k = Ok nd /\
      forall c, nn_eq c (nd c) (run nsstate nsreq nn_apply hist (init_node nsstate nn_init) c).
Proof. exact restart_reproduces_namespace. Qed.

Theorem C01_namespace_node_satisfiable :
  Forall (entry_ok nsreq nn_mok) nn_hist /\
  (forall c, nn_ok c (run nsstate nsreq nn_apply (firstn 4 nn_hist) (init_node nsstate nn_init) c)) /\
  rec_ok nn_hdr /\ (length (frame nn_hdr) <= 1024)%nat /\
  ns_data (run nsstate nsreq nn_apply nn_hist (init_node nsstate nn_init) KNamespace) =
    [([], mkNs NS_PUBLIC F_SYSTEM); (nsb "dev", mkNs (nsb "Dev 2") F_USER); (nsb "qa", mkNs (nsb "QA") F_USER)].
Proof. exact nn_satisfiable. Qed.
