(** C13 — Ephemeral HTTP instances expire without heartbeats, never while heart-beating.
    Statements only; every proof is [exact <lemma>].

    The clock is logical ([a_now]); [time_check] is one run of the 2 s driver
    (NamingCmd::PeekListenerTimeout).  [is_enable_timeout i] is "ephemeral, not from gRPC, owned by
    this node" (model.rs:47-50).  [cfg_ok]: health time-out <= instance time-out <= now.
    What is NOT proved here (runtime, sampled by the check / node harness): the wall-clock jitter
    of the 2 s driver and the propagation of an expiry to the other nodes ("then everywhere"). *)
From RN Require Import Base.Res Base.AMap Naming.Service Naming.ServiceProofs Naming.Timeout Naming.Filter
  Naming.Actor Naming.IndexProofs Naming.ActorProofs Naming.BudgetProofs Naming.OwnershipProofs Naming.ExpiryProofs Naming.Script
  Naming.ScriptProofs Naming.ExpiryTraceProofs Naming.ArmedProofs Naming.Regression Naming.OwnerKeptProofs.
Local Open Scope N_scope.

(** safety of one tick: an instance modified less than the health time-out ago is untouched *)
Theorem C13_never_expired_while_beating : forall c a k ik i,
  cfg_ok c a -> stored a k ik = Some i -> a_now a < i_lm i + c_health c ->
  stored (time_check c a) k ik = Some i.
Proof. exact never_expired_while_beating. Qed.

(** safety over histories: in any interleaving of clock advances, heartbeats of the instance,
    time checks and traffic on other addresses, if every time check happens less than the health
    time-out after the last heartbeat, the instance stays present and healthy *)
Theorem C13_never_expired_while_beating_trace : forall c hashf k ik ops a i,
  c_health c <= c_inst c -> c_inst c <= a_now a ->
  stored a k ik = Some i -> is_enable_timeout i = true -> i_healthy i = true ->
  beating c k ik (i_lm i) (a_now a) ops ->
  exists i', stored (run_all c hashf a ops) k ik = Some i' /\ is_enable_timeout i' = true /\ i_healthy i' = true.
Proof. exact never_expired_while_beating_trace. Qed.

(** a tick changes an instance only by marking it unhealthy, only if the clock applies to it and
    the health time-out has passed since its last modification *)
Theorem C13_unhealthy_only_after_silence : forall c a k ik i i',
  cfg_ok c a -> stored a k ik = Some i -> stored (time_check c a) k ik = Some i' -> i' <> i ->
  i' = set_healthy i false /\ is_enable_timeout i = true /\ i_healthy i = true /\ i_lm i + c_health c <= a_now a.
Proof. exact unhealthy_only_after_silence. Qed.

(** a tick removes an instance only if the clock applies to it and the instance time-out has passed *)
Theorem C13_removed_only_after_silence : forall c a k ik i,
  cfg_ok c a -> stored a k ik = Some i -> stored (time_check c a) k ik = None ->
  is_enable_timeout i = true /\ i_lm i + c_inst c <= a_now a.
Proof. exact removed_only_after_silence. Qed.

(** persistent, gRPC-connected (and remotely owned) instances are never expired by the clock *)
Theorem C13_persistent_and_grpc_never_expired : forall c a k ik i,
  stored a k ik = Some i -> (i_ephemeral i = false \/ i_grpc i = true \/ i_cluster i <> 0) ->
  stored (time_check c a) k ik = Some i.
Proof. exact persistent_and_grpc_never_expired. Qed.

(** ... and an instance registered by a gRPC connection STAYS that connection's instance when an HTTP /
    console write that names it ephemeral touches it, whatever the update tag says (the keep-owner rule of
    Service::update_instance): it does not come under the clock that way *)
Theorem C13_grpc_owner_kept_by_http_write : forall s i0 tg fs old,
  iget (i_key i0) (s_insts s) = Some old -> i_grpc old = true ->
  i_ephemeral i0 = true -> i_grpc i0 = false ->
  exists i2, iget (i_key i0) (s_insts (fst (fst (fst (svc_update s i0 tg fs))))) = Some i2 /\
             i_grpc i2 = true /\ i_client i2 = i_client old /\ is_enable_timeout i2 = false.
Proof. exact svc_update_keeps_grpc_owner. Qed.

(** the invariant "every healthy instance under the clock has its entry (last_modified, key) in
    the healthy time-out set" is preserved by every op whose cluster-synced updates satisfy
    [sync_ok] (they are from gRPC, or remotely owned and outside this node's range), and holds
    after every such history *)
Theorem C13_armed_step : forall c hashf a o,
  op_wf o -> sync_ok hashf a o -> Inv a -> armed_all a -> armed_all (fst (step c hashf a o)).
Proof. exact armed_step. Qed.

Theorem C13_armed_reachable : forall c hashf ops t0,
  Forall op_wf ops -> sync_ok_trace c hashf (actor_init t0) ops ->
  armed_all (run_all c hashf (actor_init t0) ops).
Proof. exact armed_reachable. Qed.

Theorem C13_armed_entry : forall a k ik i,
  armed_all a -> stored a k ik = Some i -> is_enable_timeout i = true -> i_healthy i = true ->
  In (i_lm i, ik) (hset_of a k).
Proof. exact armed_entry. Qed.

(** a direct registration or heartbeat stamps the current time and arms the clock *)
Theorem C13_update_arms : forall c hashf a k i0 tg,
  let a' := fst (update_instance c hashf a k i0 tg false) in
  exists n, stored a' k (i_key i0) = Some n /\ i_lm n = a_now a /\ a_now a' = a_now a /\
            (is_enable_timeout n = true -> In (a_now a, i_key i0) (hset_of a' k)).
Proof. exact update_arms. Qed.

(** liveness: a healthy instance under the clock whose entry is queued and that falls silent is
    reported unhealthy (or already removed) by the first tick at or after last_modified + health
    time-out, and removed by a later tick at or after last_modified + instance time-out, whatever
    traffic on other addresses happens in between *)
Theorem C13_expires_after_silence : forall c hashf a k ik i q1 q2,
  c_health c <= c_inst c -> c_inst c <= a_now a ->
  stored a k ik = Some i -> is_enable_timeout i = true -> i_healthy i = true -> In (i_lm i, ik) (hset_of a k) ->
  Forall (quiet (k, ik)) q1 -> Forall (quiet (k, ik)) q2 ->
  let a1 := run_all c hashf a q1 in
  i_lm i + c_health c <= a_now a1 ->
  let a2 := time_check c a1 in
  let a3 := run_all c hashf a2 q2 in
  (stored a2 k ik = None \/ stored a2 k ik = Some (set_healthy i false)) /\
  (i_lm i + c_inst c <= a_now a3 -> stored (time_check c a3) k ik = None).
Proof. exact expires_after_silence. Qed.

(** the per-round budget once_time_check_size ([time_check_budget c n order]: services visited in
    the iteration order [order] of the service map - any order - until the number of handled keys
    reaches [n]).  No due entry is ever dropped: a round handles a service completely, exactly as
    the unbudgeted tick does, or leaves it (instances and both time-out sets) untouched *)
Theorem C13_budget_never_drops_due_entries : forall c n order a k s,
  sget k (a_svcs a) = Some s ->
  let a' := time_check_budget c n order a in
  (In k (visited c n order a) /\ sget k (a_svcs a') = Some (fst (fst (tc_svc c (a_now a) s)))) \/
  (~ In k (visited c n order a) /\ sget k (a_svcs a') = Some s).
Proof. exact budget_never_drops_due_entries. Qed.

(** the first service in the order is always handled, and a round that leaves a service out has
    handled at least [n] keys *)
Theorem C13_budget_first_visited : forall c n k r a,
  sget k (a_svcs a) <> None -> In k (visited c n (k :: r) a).
Proof. exact budget_first_visited. Qed.

Theorem C13_budget_incomplete_costs : forall c n order a,
  NoDup order -> NoDup (akeys (a_svcs a)) -> (forall k, sget k (a_svcs a) <> None -> In k order) ->
  complete c n order a = false -> (N.to_nat n <= handled c n order a)%nat.
Proof. exact budget_incomplete_costs. Qed.

(** a round that visits every service is the unbudgeted tick (to which all theorems above apply) *)
Theorem C13_budget_complete_is_time_check : forall c n order a,
  NoDup (akeys (a_svcs a)) ->
  (forall k, sget k (a_svcs a) <> None -> In k (visited c n order a)) ->
  a_svcs (time_check_budget c n order a) = a_svcs (time_check c a).
Proof. exact budget_complete_is_time_check. Qed.

(** during silence (only the clock and the driver run), whatever the orders: budget * (number of
    rounds cut short) <= Phi = sum over services of 2*|healthy set| + |unhealthy set|; so among
    any Phi/n + 1 consecutive rounds one is complete and every due instance is handled by it *)
Theorem C13_budget_rounds_bound : forall c n sched a,
  Inv a -> Forall (fun r => order_ok a (snd r)) sched ->
  (N.to_nat n * incomplete_rounds c n a sched <= Phi a)%nat.
Proof. exact budget_rounds_bound. Qed.

(** take-over (after the repair 0b8b679): an instance synced from another node, in a service of
    the range this node takes over, becomes locally owned, comes under the clock and is queued *)
Theorem C13_refresh_rearms : forall hashf a r k ik i,
  Inv a -> stored a k ik = Some i -> i_grpc i = false -> i_cluster i <> 0 -> is_range r (hashf k) = true ->
  let a' := refresh_process_range hashf a r in
  stored a' k ik = Some (localise i) /\
  is_enable_timeout (localise i) = i_ephemeral i /\
  In (i_lm i, ik) (hset_of a' k) /\
  (i_healthy i = false -> In (i_lm i, ik) (uset_of a' k)).
Proof. exact refresh_rearms. Qed.

(** the code before the repair: the taken-over instance was still present and healthy after 1.6 s of
    silence with 300/600 ms time-outs *)
Theorem C13_old_take_over_refuted :
  exists a, a = refresh_process_range_old (fun _ => 0) (run_all cfg0 (fun _ => 0) (actor_init 1000000) synced_from_node_2) (0, 1) /\
            option_map i_healthy (stored (run_all cfg0 (fun _ => 0) a silence) (1,1,1) 0) = Some true.
Proof. exact refresh_rearms_refuted. Qed.

(** KNOWN FINDING C13:sync-into-own-range-unarmed (current code, not repaired): without [sync_ok]
    the invariant fails - a snapshot received for this node's own range stores a locally owned,
    healthy instance that is in no time-out set and survives 1.6 s of silence *)
Theorem C13_sync_into_own_range_unarmed_refuted :
  exists ops, ops = snapshot_into_own_range ++ silence /\
              option_map (fun i => (is_enable_timeout i, i_healthy i))
                         (stored (run_all cfg0 (fun _ => 0) (actor_init 1000000) ops) (1,1,1) 0) = Some (true, true).
Proof. exact sync_into_own_range_unarmed_refuted. Qed.
