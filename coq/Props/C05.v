(** C05 — Raft vote, term, membership and node addresses are durable, never regress.
    Statements only; every proof is [exact <lemma>].

    [run sh ops] is the index file of a node started in an empty directory and driven through
    ANY interleaving [ops] of the writers of RaftIndexManager (hard state, membership incl. the
    install-snapshot form, node address, log catalogue, snapshot catalogue, last-applied) and
    reopen, with the address HashMap iterated in ANY order [sh k] at the k-th write.
    [last_* ops] is the last value of that field saved in [ops], ignoring every other op. *)
From RN Require Import Base.Res Codec.Varint RaftLog.IndexFile RaftLog.AddrMapProofs
  RaftLog.IndexCodecProofs RaftLog.IndexFileProofs RaftLog.Regression.
Local Open Scope N_scope.

Theorem C05_hard_state_durable : forall sh, shuffles sh -> forall ops,
  Forall wf_op ops -> fits (ri_default, 0) ops ->
  exists st, run sh ops = Ok st /\
    (ri_current_term (i_index st), ri_voted_for (i_index st)) = last_hard_state ops (0, 0).
Proof. exact hard_state_durable. Qed.

Theorem C05_membership_durable : forall sh, shuffles sh -> forall ops,
  Forall wf_op ops -> fits (ri_default, 0) ops ->
  exists st, run sh ops = Ok st /\
    (ri_member (i_index st), ri_mac (i_index st)) = last_membership ops ([], []).
Proof. exact membership_durable. Qed.

Theorem C05_addr_durable : forall sh, shuffles sh -> forall ops,
  Forall wf_op ops -> fits (ri_default, 0) ops ->
  exists st, run sh ops = Ok st /\
    forall id, amap_get id (ri_node_addrs (i_index st)) = amap_get id (last_addrs ops []).
Proof. exact addr_durable. Qed.

(** the catalogue and last-applied share the file and are equally independent *)
Theorem C05_catalogue_durable : forall sh, shuffles sh -> forall ops,
  Forall wf_op ops -> fits (ri_default, 0) ops ->
  exists st, run sh ops = Ok st /\
    ri_logs (i_index st) = last_logs ops [] /\ ri_snapshots (i_index st) = last_snaps ops [] /\
    i_applied st = last_applied ops 0.
Proof. exact catalogue_durable. Qed.

Theorem C05_never_vote_twice : forall sh h1 t v h2,
  shuffles sh -> Forall wf_op (h1 ++ OpHardState t v :: h2) ->
  fits (ri_default, 0) (h1 ++ OpHardState t v :: h2) -> no_hard_state h2 ->
  exists st, run sh (h1 ++ OpHardState t v :: h2) = Ok st /\
             ri_current_term (i_index st) = t /\ ri_voted_for (i_index st) = v.
Proof. exact never_vote_twice. Qed.

Theorem C05_shorter_after_longer_ok : forall s r f,
  permutes s -> wf_index r -> amap_sorted (ri_node_addrs r) -> rec_size r < rec_limit ->
  all_bytes f -> (8 <= length f)%nat ->
  read_index_record (write_at f 8 (index_record s r)) = Ok r /\
  (length f <= length (write_at f 8 (index_record s r)))%nat.
Proof. exact shorter_after_longer_ok. Qed.

(** the record codec: decoding what was written gives the record, for every HashMap order *)
Theorem C05_record_roundtrip : forall s r,
  permutes s -> wf_index r -> amap_sorted (ri_node_addrs r) -> rec_size r < 2 ^ 64 ->
  decode_index (enc_index (to_do s r)) = Ok r.
Proof. exact decode_index_record. Qed.

(** why the repairs matter: the same statements are false of the model of the OLD init
    (fresh iff len <= 20, header written with a length prefix, zero length = read error) *)
Theorem C05_hard_state_durable_refuted_old :
  exists ops, Forall wf_op ops /\ fits (ri_default, 0) ops /\
    exists st, run_old (fun _ l => l) ops = Ok st /\
      (ri_current_term (i_index st), ri_voted_for (i_index st)) <> last_hard_state ops (0, 0).
Proof. exact hard_state_durable_refuted. Qed.

Theorem C05_last_applied_refuted_old :
  exists ops, Forall wf_op ops /\ fits (ri_default, 0) ops /\
    exists st, run_old (fun _ l => l) ops = Ok st /\ i_applied st <> last_applied ops 0.
Proof. exact last_applied_refuted. Qed.

Theorem C05_reopen_fails_refuted_old :
  exists ops, Forall wf_op ops /\ fits (ri_default, 0) ops /\ run_old (fun _ l => l) ops = Err.
Proof. exact reopen_fails_refuted. Qed.
