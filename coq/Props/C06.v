(** C06 — Cluster: acknowledged config writes are never lost; all nodes converge.
    Statements only.  async-raft-ext is trusted: its answer to client_write is an input of
    the answer chain ([world]), and "every node applies the committed log in order" is the
    premise under which the convergence theorems speak about [run log]. *)
From RN Require Import Base.Res Cluster.Ack Cluster.Converge Cluster.AckProofs Cluster.ConvergeProofs
  Cluster.CommitRule Cluster.CommitRuleProofs.
Local Open Scope N_scope.

(** A publish/remove answered with success went through raft.client_write with an Ok answer —
    for every route (local / remote / unknown), every failure of mailbox, rpc, parsing,
    sequence and client_write *)
Theorem C06_ack_implies_committed : forall is_add w,
  w_raft_present w = true -> acked (answer is_add w) = true -> committed (answer is_add w) = true.
Proof. exact ack_implies_committed. Qed.

(** A request that could not be committed is answered with an error, not with success *)
Theorem C06_not_committed_is_error : forall is_add w,
  w_raft_present w = true -> committed (answer is_add w) = false -> acked (answer is_add w) = false.
Proof. exact not_committed_is_error. Qed.

Theorem C06_tmp_only_after_commit : forall is_add w,
  w_raft_present w = true ->
  (match answer is_add w with (_, _, t) => t end) = true ->
  acked (answer is_add w) = true /\ committed (answer is_add w) = true /\ is_add = true.
Proof. exact tmp_only_after_commit. Qed.

(** Every node that has applied the committed log serves, for every key, the last write of
    the log: an acknowledged write is served unless a later entry wrote the same key *)
Theorem C06_served_is_last_write : forall log k,
  serve (run log) k = served_of (last_write log k).
Proof. exact served_is_last_write. Qed.

Theorem C06_acked_set_served_or_overwritten : forall pre post k v,
  serve (run (pre ++ WSet k v :: post)) k =
  match last_write post k with Some x => x | None => Some v end.
Proof. exact acked_set_served_or_overwritten. Qed.

Theorem C06_acked_del_served_or_overwritten : forall pre post k,
  serve (run (pre ++ WDel k :: post)) k =
  match last_write post k with Some x => x | None => None end.
Proof. exact acked_del_served_or_overwritten. Qed.

(** A follower that also records temporary values (SetTmpValue after a routed write) serves
    exactly what the log says, provided each temporary value is later overwritten by an
    applied entry or equals the log's value at that moment.  Without that proviso the
    statement is false: see [C06_tmp_overtake_refuted] (recorded finding). *)
Theorem C06_follower_settles : forall tr,
  settled_from [] tr -> forall k, serve (run_f tr) k = serve (run (applies tr)) k.
Proof. exact follower_settles. Qed.

Theorem C06_tmp_overtake_refuted : exists tr k,
  serve (run_f tr) k <> serve (run (applies tr)) k.
Proof. exact tmp_overtake_refuted. Qed.

(** the chain as it was before the repair acknowledged writes Raft had refused *)
Theorem C06_ack_refuted_old : exists is_add w,
  w_raft_present w = true /\ acked (answer_old is_add w) = true /\ committed (answer_old is_add w) = false.
Proof. exact ack_refuted_old. Qed.

(** The premise "client_write Ok => committed by a majority" at the level of the library's own
    commit rule (async-raft-ext 0.6.3 [calculate_new_commit_index] / [replicate_client_request]):
    a commit index chosen by the rule is matched by a strict majority of the entries it was computed
    from; with every voting member tracked in [nodes] (what an ELECTED leader sets up) that is a
    majority of the cluster. *)
Theorem C06_new_commit_majority : forall es cur t,
  cur < new_commit es cur t -> (length es < 2 * matched_by (new_commit es cur t) es)%nat.
Proof. exact new_commit_majority. Qed.

Theorem C06_commit_needs_majority_when_tracked : forall nodes members self_last cur t,
  nodes <> [] ->
  (forall p, In p nodes -> mem (fst p) members = true) ->
  length members = S (length nodes) ->
  cur < commit_of_write nodes members self_last cur t ->
  (length members < 2 * matched_by (commit_of_write nodes members self_last cur t)
                                    (leader_entries nodes members self_last))%nat.
Proof. exact commit_needs_majority_when_tracked. Qed.

(** ... and false when the joined voters are still tracked as non-voters ([nodes] empty): the first
    leader of a cluster formed by joins commits alone — recorded finding
    `ack-without-majority:first-leader`, reproduced on the real binary *)
Theorem C06_commit_without_majority_refuted : exists members self_last cur t,
  length members = 3%nat /\
  commit_of_write [] members self_last cur t = fst self_last /\ cur < fst self_last /\
  matched_by (fst self_last) [self_last] = 1%nat.
Proof. exact commit_without_majority_refuted. Qed.
