(** C20 — Length-prefixed record streams decode identically under every chunking.
    This file contains statements only; every proof is [exact <lemma>]. *)
From RN Require Import Base.Res Codec.Varint Codec.BufReader Codec.VarintBits Codec.VarintProofs Codec.ScanProofs.
Local Open Scope N_scope.

(** the varint writer and reader agree on every 64-bit value, at every offset, whatever
    bytes surround the encoding *)
Theorem C20_varint_roundtrip : forall v pre rest,
  v < 2 ^ 64 -> all_bytes pre -> all_bytes rest ->
  read_varint (pre ++ write_varint v ++ rest) (length pre) = Ok v.
Proof. exact varint_roundtrip. Qed.

(** the size function agrees with the writer on every 64-bit value *)
Theorem C20_varint_sizeof : forall v,
  v < 2 ^ 64 -> length (write_varint v) = sizeof_varint v.
Proof. exact varint_sizeof. Qed.

(** canonical, prefix-free form: all bytes but the last carry the continuation bit *)
Theorem C20_varint_canonical : forall v,
  v < 2 ^ 64 ->
  exists cs last, write_varint v = cs ++ [last] /\ cont_bytes cs /\ last < 128 /\ (length cs <= 9)%nat.
Proof. exact varint_canonical. Qed.

(** the unrolled 10-byte reader is the LEB128 loop truncated to 64 bits, on every input:
    Err after ten continuation bytes, Panic (index out of range) on a short slice *)
Theorem C20_reader_is_leb128_loop : forall bs off,
  all_bytes bs -> read_varint bs off = res_map trunc64 (dec_loop 10 (skipn off bs)).
Proof. exact read_varint_loop. Qed.

(** Reading stops at the first zero length and never earlier: the end-of-log scan
    ([move_to_index_by_count] with the repaired end-marker test) counts every record and returns the
    byte length of the record area, for EVERY chunking of the stream (record ending exactly on a
    chunk boundary, varint split across chunks, records larger than the buffer ...) *)
Theorem C20_scan_stops_at_first_zero : forall bodies tail chunks count cur0,
  Forall body_ok bodies -> all_bytes tail ->
  Forall (fun ch => ch <> []) chunks ->
  concat chunks = frames bodies ++ 0 :: tail ->
  blen bodies < count ->
  scan_by_count mbr_at_end_marker chunks mbr_new 0 count cur0
    = Ok (cur0 + blen (frames bodies), blen bodies).
Proof. exact scan_stops_at_first_zero. Qed.

(** ... and stops after exactly [count] records when asked to (strip_log_to) *)
Theorem C20_scan_stops_at_count : forall bodies tail chunks count cur0,
  Forall body_ok bodies -> all_bytes tail ->
  Forall (fun ch => ch <> []) chunks ->
  concat chunks = frames bodies ++ tail ->
  0 < count <= blen bodies ->
  scan_by_count mbr_at_end_marker chunks mbr_new 0 count cur0
    = Ok (cur0 + blen (frames (firstn (N.to_nat count) bodies)), count).
Proof. exact scan_stops_at_count. Qed.

(** the unrepaired end test ([MessageBufReader::is_empty], which also fires on a merely drained
    buffer) violates it: a record framed to exactly 1024 bytes read as one chunk (defect 1) *)
Theorem C20_scan_stops_at_first_zero_refuted : exists bodies tail chunks count,
  Forall body_ok bodies /\ all_bytes tail /\ Forall (fun ch => ch <> []) chunks /\
  concat chunks = frames bodies ++ 0 :: tail /\ blen bodies < count /\
  scan_by_count mbr_is_empty chunks mbr_new 0 count 0 <> Ok (0 + blen (frames bodies), blen bodies).
Proof. exact scan_stops_at_first_zero_refuted. Qed.
