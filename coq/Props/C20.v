(** C20 — Length-prefixed record streams decode identically under every chunking.
    This file contains statements only; every proof is [exact <lemma>]. *)
From RN Require Import Base.Res Codec.Varint Codec.BufReader Codec.VarintBits Codec.VarintProofs
  Codec.BufReaderProofs Codec.FileReaderProofs Codec.ScanProofs.
Local Open Scope N_scope.

(** the varint writer and reader agree on every 64-bit value, at every offset, whatever
    bytes surround the encoding *)
Theorem C20_varint_roundtrip : forall v pre rest,
  v < 2 ^ 64 -> all_bytes pre -> all_bytes rest ->
  read_varint (pre ++ write_varint v ++ rest) (length pre) = Ok v.
Proof. exact varint_roundtrip. Qed.

(** the size function agrees with the writer on every 64-bit value *)
Theorem C20_varint_sizeof : forall v,
  v < 2 ^ 64 -> length (write_varint v) = sizeof_varint v.
Proof. exact varint_sizeof. Qed.

(** canonical, prefix-free form: all bytes but the last carry the continuation bit *)
Theorem C20_varint_canonical : forall v,
  v < 2 ^ 64 ->
  exists cs last, write_varint v = cs ++ [last] /\ cont_bytes cs /\ last < 128 /\ (length cs <= 9)%nat.
Proof. exact varint_canonical. Qed.

(** the unrolled 10-byte reader is the LEB128 loop truncated to 64 bits, on every input:
    Err after ten continuation bytes, Panic (index out of range) on a short slice *)
Theorem C20_reader_is_leb128_loop : forall bs off,
  all_bytes bs -> read_varint bs off = res_map trunc64 (dec_loop 10 (skipn off bs)).
Proof. exact read_varint_loop. Qed.

(** Chunking invariance.  [recs] are the record bodies (non-empty, bytes, length < 2^64),
    [pad] is what follows the last record: nothing, or a zero length followed by arbitrary
    bytes.  For EVERY partition [chunks] of the byte stream the EOF-terminated consumer
    loop over the literal MessageBufReader model (reused buffer, stale bytes, doubling
    expansion) returns exactly the written frames in order: nothing dropped, nothing
    added, nothing after the first zero length. *)
Theorem C20_chunking_invariance : forall recs pad chunks,
  Forall rec_ok recs -> pad_ok pad -> concat chunks = stream recs pad ->
  feed_drain chunks mbr_new = Ok (map frame recs).
Proof. exact chunking_invariance. Qed.

Theorem C20_chunking_independent : forall recs pad chunks1 chunks2,
  Forall rec_ok recs -> pad_ok pad ->
  concat chunks1 = stream recs pad -> concat chunks2 = stream recs pad ->
  feed_drain chunks1 mbr_new = feed_drain chunks2 mbr_new.
Proof. exact chunking_independent. Qed.

(** FileMessageReader: the k-th record of a stream that starts at offset [length pre] is
    reported at the sum of the preceding frame lengths with its full frame length, for
    every record list and every k *)
Theorem C20_file_reader_positions : forall k recs pad pre b,
  Forall rec_ok recs -> all_bytes pad -> nth_error recs k = Some b ->
  let file := pre ++ stream recs pad in
  let off := (length pre + length (concat (map frame (firstn k recs))))%nat in
  fmr_read_index_position k (mkFmr file (length pre) (length pre))
  = Ok ((N.of_nat off, N.of_nat (length (frame b))),
        mkFmr file (off + length (frame b)) (off + length (frame b))).
Proof. exact file_reader_positions. Qed.

Theorem C20_file_reader_read_next : forall pre b tail,
  rec_ok b -> all_bytes tail ->
  fmr_read_next (mkFmr (pre ++ frame b ++ tail) (length pre) (length pre))
  = Ok (frame b, mkFmr (pre ++ frame b ++ tail) (length pre + length (frame b)) (length pre + length (frame b))).
Proof. exact file_reader_read_next. Qed.

(** reading stops at the first zero length and at end of file *)
Theorem C20_file_reader_end : forall pre pad,
  pad_ok pad -> fmr_read_len (mkFmr (pre ++ pad) (length pre) (length pre)) = Err.
Proof. exact file_reader_end. Qed.

(** Reading stops at the first zero length and never earlier: the end-of-log scan
    ([move_to_index_by_count] with the repaired end-marker test) counts every record and returns the
    byte length of the record area, for EVERY chunking of the stream (record ending exactly on a
    chunk boundary, varint split across chunks, records larger than the buffer ...) *)
Theorem C20_scan_stops_at_first_zero : forall bodies tail chunks count cur0,
  Forall body_ok bodies -> all_bytes tail ->
  Forall (fun ch => ch <> []) chunks ->
  concat chunks = frames bodies ++ 0 :: tail ->
  blen bodies < count ->
  scan_by_count mbr_at_end_marker chunks mbr_new 0 count cur0
    = Ok (cur0 + blen (frames bodies), blen bodies).
Proof. exact scan_stops_at_first_zero. Qed.

(** ... and stops after exactly [count] records when asked to (strip_log_to) *)
Theorem C20_scan_stops_at_count : forall bodies tail chunks count cur0,
  Forall body_ok bodies -> all_bytes tail ->
  Forall (fun ch => ch <> []) chunks ->
  concat chunks = frames bodies ++ tail ->
  0 < count <= blen bodies ->
  scan_by_count mbr_at_end_marker chunks mbr_new 0 count cur0
    = Ok (cur0 + blen (frames (firstn (N.to_nat count) bodies)), count).
Proof. exact scan_stops_at_count. Qed.

(** the unrepaired end test ([MessageBufReader::is_empty], which also fires on a merely drained
    buffer) violates it: a record framed to exactly 1024 bytes read as one chunk (defect 1) *)
Theorem C20_scan_stops_at_first_zero_refuted : exists bodies tail chunks count,
  Forall body_ok bodies /\ all_bytes tail /\ Forall (fun ch => ch <> []) chunks /\
  concat chunks = frames bodies ++ 0 :: tail /\ blen bodies < count /\
  scan_by_count mbr_is_empty chunks mbr_new 0 count 0 <> Ok (0 + blen (frames bodies), blen bodies).
Proof. exact scan_stops_at_first_zero_refuted. Qed.
