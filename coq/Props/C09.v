(** C09 — Config store: last write wins, md5 matches content, listings match store.
    This file contains statements only; every proof is [exact <lemma>]. *)
From RN Require Import SM.ConfigKey SM.ConfigKeyProofs.
Local Open Scope N_scope.

(** the key string used in log entries and snapshots parses back to the key, for every key
    whose fields do not contain the separator byte \x02 *)
Theorem C09_key_roundtrip : forall k, wf_key k = true -> key_of_string (build_key k) = k.
Proof. exact key_roundtrip. Qed.

(** ... and fields accepted by the API validator (param_utils::is_valid) never contain it *)
Theorem C09_validated_fields_are_wf : forall s, is_valid_nec s = true -> wf_field s = true.
Proof. exact is_valid_nec_wf. Qed.
