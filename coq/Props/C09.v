(** C09 — Config store: last write wins, md5 matches content, listings match store.
    This file contains statements only; every proof is [exact <lemma>].
    [H] is md5: an arbitrary function (the theorems hold for every H; where content identity
    matters, injectivity of H on contents is an explicit premise).
    [srun H ops] is the store of one node after the operation history [ops] (committed
    publishes / removes / full-value imports in log order, plus routed temporary values). *)
From RN Require Import SM.ConfigKey SM.ConfigKeyProofs SM.ConfigIndex SM.ConfigIndexProofs
     SM.Config SM.ConfigSpec SM.ConfigProofs SM.ConfigListProofs SM.ConfigHistProofs.
Local Open Scope N_scope.

(** reading a key returns content/md5/type/description determined by the LAST write of that key
    (and by nothing written to other keys afterwards) *)
Theorem C09_get_is_last_write : forall H, (forall a b, H a = H b -> a = b) ->
  forall pre o post,
  (forall o', In o' post -> op_key o' <> op_key o) ->
  get4 (srun H (pre ++ o :: post)) (op_key o) = expected H (get4 (srun H pre) (op_key o)) o.
Proof. exact get_is_last_write. Qed.

(** ... and not-found for a key never written *)
Theorem C09_get_never_written : forall H ops k,
  (forall o, In o ops -> op_key o <> k) -> get4 (srun H ops) k = None.
Proof. exact get_never_written. Qed.

(** the md5 returned with a content is H of that content, for every history *)
Theorem C09_md5_matches_content : forall H ops k c m t d lm,
  get_config (srun H ops) k = Some (c, m, t, d, lm) -> m = H c.
Proof. exact md5_matches_content. Qed.

(** the index lists exactly the keys whose last committed operation is a publish or import ... *)
Theorem C09_index_eq_dom : forall H ops k,
  In k (ti_keys (st_index (srun H ops))) <-> listed_spec ops k = true.
Proof. exact index_eq_dom. Qed.

(** ... each exactly once ... *)
Theorem C09_index_no_dup : forall H ops, NoDup (ti_keys (st_index (srun H ops))).
Proof. exact index_no_dup. Qed.

(** ... every listed key is stored, and (without routed temporary values) every stored key is listed *)
Theorem C09_listed_is_stored : forall H ops k,
  listed_spec ops k = true -> get_config (srun H ops) k <> None.
Proof. exact listed_is_stored. Qed.

Theorem C09_stored_is_listed : forall H ops k,
  (forall o, In o ops -> is_tmp o = false) ->
  get_config (srun H ops) k <> None -> listed_spec ops k = true.
Proof. exact stored_is_listed. Qed.

(** one page = the slice [offset, offset+limit) of the filtered keys of the tenant in index
    order, the total = the number of filtered keys (single-tenant queries: every API constructor
    sets a tenant) *)
Theorem C09_page_is_slice : forall t p tenant,
  q_tenant p = Some tenant -> q_perm p tenant = true ->
  ti_query_page t p =
  let fl := filter (match_key p) (tenant_keys t tenant) in
  (N.of_nat (length fl), slice (q_offset p) (q_limit p) fl).
Proof. exact ti_query_page_slice. Qed.

(** for ALL page sizes: consecutive pages concatenate to the filtered key list, every page
    reports the same correct total *)
Theorem C09_pages_partition : forall t p tenant (size : N) (n : nat),
  q_tenant p = Some tenant -> q_perm p tenant = true ->
  let fl := filter (match_key p) (tenant_keys t tenant) in
  (forall i, fst (ti_query_page t (with_page p (N.of_nat i * size) size)) = N.of_nat (length fl)) /\
  concat (map (fun i => snd (ti_query_page t (with_page p (N.of_nat i * size) size))) (seq 0 n))
  = firstn (n * N.to_nat size) fl /\
  ((length fl <= n * N.to_nat size)%nat ->
   concat (map (fun i => snd (ti_query_page t (with_page p (N.of_nat i * size) size))) (seq 0 n)) = fl).
Proof. exact pages_partition. Qed.

(** the keys of a tenant in the index are exactly the listed keys with that tenant *)
Theorem C09_tenant_keys_are_listed : forall H ops tenant k,
  In k (tenant_keys (st_index (srun H ops)) tenant) <-> k_tenant k = tenant /\ listed_spec ops k = true.
Proof. exact tenant_keys_are_listed. Qed.

(** page rows carry the stored content and its md5 *)
Theorem C09_page_rows_carry_stored_value : forall H ops p k desc c m,
  In (k, desc, Some (c, m)) (snd (get_config_info_page (srun H ops) p)) ->
  m = H c /\ exists t lm, get_config (srun H ops) k = Some (c, m, t, desc, lm).
Proof. exact page_rows_carry_stored_value. Qed.

(** a removed key is not found, not in the index and in no page, until it is written again *)
Theorem C09_removed_never_listed : forall H pre ks post p tenant,
  let k := key_of_string ks in
  (forall o, In o post -> op_key o <> k) ->
  let s := srun H (pre ++ ORaft (ConfigRemove ks) :: post) in
  get_config s k = None /\ ~ In k (ti_keys (st_index s)) /\
  (q_tenant p = Some tenant -> q_perm p tenant = true -> ~ In k (snd (ti_query_page (st_index s) p))).
Proof. exact removed_never_listed. Qed.

(** the history page is the slice of the stored history, NEWEST FIRST, with the stored length as total *)
Theorem C09_history_newest_first : forall s k off lim,
  get_history_page s k (Some off) (Some lim) =
  (N.of_nat (length (stored_hist s k)), firstn (N.to_nat lim) (skipn (N.to_nat off) (rev (stored_hist s k)))).
Proof. exact history_page_newest_first. Qed.

(** the stored history is the LAST 100 entries of the chronological list with ONE ENTRY PER
    PUBLISH THAT CHANGED THE CONTENT (hist_spec), for every history whose imports carry at most
    100 entries and whose routed temporary values are in order (tmp_in_order: late, or directly
    ahead of their own commit) *)
Theorem C09_history_one_per_change : forall H, (forall a b, H a = H b -> a = b) ->
  forall ops k,
  (forall o, In o ops -> import_bounded o) -> tmp_in_order (fun _ => None) ops ->
  stored_hist (srun H ops) k = last_n 100 (hist_spec ops k).
Proof. exact history_one_per_change. Qed.

Theorem C09_history_bounded_100 : forall H, (forall a b, H a = H b -> a = b) ->
  forall ops k,
  (forall o, In o ops -> import_bounded o) -> tmp_in_order (fun _ => None) ops ->
  (length (stored_hist (srun H ops) k) <= 100)%nat.
Proof. exact history_bounded_100. Qed.

(** the key string used in log entries and snapshots parses back to the key, for every key
    whose fields do not contain the separator byte \x02 ... *)
Theorem C09_key_roundtrip : forall k, wf_key k = true -> key_of_string (build_key k) = k.
Proof. exact key_roundtrip. Qed.

(** ... and fields accepted by the API validator (param_utils::is_valid) never contain it *)
Theorem C09_validated_fields_are_wf : forall s, is_valid_nec s = true -> wf_field s = true.
Proof. exact is_valid_nec_wf. Qed.

(** REFUTED outside the hypotheses (known finding tmp-overtake; witnesses replayed on the real
    ConfigActor by runner/checks/c09.py) *)
Theorem C09_tmp_overtake_refuted :
  let H := fun c : str => c in
  let ops := [w_add [1] 1; w_add [2] 2; OTmp W_k [1] 0] in
  get4 (srun H ops) W_k <> get4 (srun H (filter (fun o => negb (is_tmp o)) ops)) W_k
  /\ ~ tmp_in_order (fun _ => None) ops.
Proof. exact tmp_overtake_refuted. Qed.

Theorem C09_history_one_per_change_refuted :
  let H := fun c : str => c in
  let ops := [w_add [1] 1; w_add [2] 2; OTmp W_k [1] 0; w_add [2] 3] in
  stored_hist (srun H ops) W_k <> last_n 100 (hist_spec ops W_k).
Proof. exact history_one_per_change_refuted. Qed.

Theorem C09_history_tmp_ahead_refuted :
  let H := fun c : str => c in
  let ops := [w_add [1] 1; OTmp W_k [2] 0; w_add [1] 2; w_add [2] 3] in
  stored_hist (srun H ops) W_k <> last_n 100 (hist_spec ops W_k).
Proof. exact history_tmp_ahead_refuted. Qed.

Theorem C09_key_roundtrip_refuted : exists k, key_of_string (build_key k) <> k.
Proof. exact key_roundtrip_refuted. Qed.
