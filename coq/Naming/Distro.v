(** Model of the distro ownership computation of r-nacos (C14), after the repairs
    `fix: distro process range index is the position among valid nodes`:

      src/naming/cluster/node_manage.rs  InnerNodeManage::get_current_process_range,
                                         get_all_nodes, NodeManage::get_all_valid_nodes,
                                         NodeManage::route_addr, ClusterInnerNode::is_valid
      src/naming/cluster/model.rs        ProcessRange::is_range

    A *view* is the content of [all_nodes : BTreeMap<u64, ClusterInnerNode>] reduced to
    (id, status == Valid), in map (= ascending id) order.  The hash of the service key
    ([DefaultHasher], src/common/hash_utils.rs) is an input: an arbitrary [N].
    Executable model only; the proofs are in DistroProofs.v. *)
From Coq Require Export List NArith Bool Arith Lia.
Export ListNotations.
Local Open Scope N_scope.

Definition view := list (N * bool).

Definition ids (v : view) : list N := map fst v.

(** nodes with [status == Valid], in map order (what [get_all_valid_nodes] keeps) *)
Definition live_ids (v : view) : list N := map fst (filter snd v).

(** [ClusterInnerNode::is_valid]: [self.is_local || self.status == NodeStatus::Valid] *)
Definition valid_for (local : N) (p : N * bool) : bool := (fst p =? local) || snd p.

(** [Iterator::position] *)
Fixpoint position (n : N) (l : list N) : option nat :=
  match l with
  | [] => None
  | x :: l' => if x =? n then Some O else option_map S (position n l')
  end.

(** [ProcessRange] = (index, len) *)
Definition range := (N * N)%type.

(** [get_current_process_range] (repaired): index = position of the local id among the valid
    nodes, len = number of valid nodes; [(0,1)] before the first UpdateNodes *)
Definition range_of (v : view) (local : N) : range :=
  match v with
  | [] => (0, 1)
  | _ =>
      let valid_ids := map fst (filter (valid_for local) v) in
      (match position local valid_ids with Some i => N.of_nat i | None => 0 end,
       N.of_nat (length valid_ids))
  end.

(** [ProcessRange::is_range]: [self.len < 2 || (hash_value % self.len) == self.index];
    the degenerate arm [len < 2] (0 or 1 valid node) accepts every hash and never divides *)
Definition is_range (r : range) (h : N) : bool :=
  (snd r <? 2) || (h mod snd r =? fst r).

(** [ProcessRange::is_range_at_list] *)
Definition is_range_at_list (h : N) (rs : list range) : bool := existsb (fun r => is_range r h) rs.

(** [get_all_nodes]: an empty map answers the node itself (status Valid, is_local) *)
Definition all_nodes (v : view) (local : N) : view :=
  match v with [] => [(local, true)] | _ => v end.

Inductive route_res :=
| RLocal0                            (* no valid node at all: NamingRouteAddr::Local(0) *)
| RTo (index : N) (id : N) (is_local : bool)   (* Local(index) / Remote(index, addr of id) *)
| RPanic.                            (* nodes.get(index).unwrap() — unreachable, see proofs *)

(** [route_addr]: [hash % nodes.len()] among the nodes with status Valid *)
Definition route (v : view) (local : N) (h : N) : route_res :=
  let nodes := live_ids (all_nodes v local) in
  match nodes with
  | [] => RLocal0
  | _ =>
      let i := h mod N.of_nat (length nodes) in
      match nth_error nodes (N.to_nat i) with
      | Some id => RTo i id (id =? local)
      | None => RPanic
      end
  end.

(** the node an HTTP write is handed to *)
Definition route_target (v : view) (local : N) (h : N) : option N :=
  match route v local h with
  | RTo _ id _ => Some id
  | RLocal0 => Some local
  | RPanic => None
  end.

(** well-formed view of a running node: ids strictly ascending (BTreeMap), and the local node
    is present with status Valid (nothing ever marks the local node invalid) *)
Fixpoint ascending (l : list N) : bool :=
  match l with
  | [] => true
  | x :: l' => match l' with [] => true | y :: _ => (x <? y) && ascending l' end
  end.

Definition live (v : view) (n : N) : Prop := In n (live_ids v).
Definition liveb (v : view) (n : N) : bool := existsb (N.eqb n) (live_ids v).

(** the node [n] "considers itself owner" of hash [h] *)
Definition owns (v : view) (n : N) (h : N) : bool := is_range (range_of v n) h.

(** the live nodes that consider themselves owner of [h] *)
Definition owners (v : view) (h : N) : list N := filter (fun n => owns v n h) (live_ids v).
