(** Proofs about the synchronisation model (C15): last-op-wins batching, the pointwise effect of
    every receive step, one anti-entropy exchange, the quiescent fixpoint, removal of a dead node's
    client instances, and the snapshot a (re)joining node receives. *)
From RN Require Import Naming.Sync.
From Coq Require Import ZArith ZifyBool ZifyNat ZifyN.
Ltac Zify.zify_post_hook ::= Z.div_mod_to_equations.
Local Open Scope N_scope.

(** * association lists *)

Lemma cid_eqb_eq : forall a b, cid_eqb a b = true <-> a = b.
Proof.
  intros [a1 a2] [b1 b2]. unfold cid_eqb. cbn [fst snd]. rewrite andb_true_iff, !N.eqb_eq.
  split; [intros [? ?]; subst; reflexivity|intros H; inversion H; auto].
Qed.

Lemma cid_eqb_refl : forall a, cid_eqb a a = true.
Proof. intros a. apply cid_eqb_eq. reflexivity. Qed.

Lemma cid_eqb_neq : forall a b, cid_eqb a b = false <-> a <> b.
Proof.
  intros a b. split.
  - intros H E. apply cid_eqb_eq in E. congruence.
  - intros H. destruct (cid_eqb a b) eqn:E; [apply cid_eqb_eq in E; contradiction|reflexivity].
Qed.

Lemma cid_eqb_sym : forall a b, cid_eqb a b = cid_eqb b a.
Proof.
  intros a b. destruct (cid_eqb a b) eqn:E.
  - apply cid_eqb_eq in E. subst. symmetry. apply cid_eqb_refl.
  - symmetry. apply cid_eqb_neq. apply cid_eqb_neq in E. congruence.
Qed.

Lemma aget_adel_eq : forall k r, aget k (adel k r) = None.
Proof.
  induction r as [|[k' i] r IH]; [reflexivity|]. unfold adel in *. cbn [filter fst].
  destruct (k' =? k) eqn:E; cbn [negb]; [exact IH|]. cbn [aget]. rewrite E. exact IH.
Qed.

Lemma aget_adel_neq : forall k k' r, k' <> k -> aget k (adel k' r) = aget k r.
Proof.
  intros k k' r Hne. induction r as [|[k2 i] r IH]; [reflexivity|]. unfold adel in *. cbn [filter fst aget].
  destruct (k2 =? k') eqn:E; cbn [negb].
  - apply N.eqb_eq in E. subst k2. apply N.eqb_neq in Hne. rewrite Hne. exact IH.
  - cbn [aget]. destruct (k2 =? k); [reflexivity|exact IH].
Qed.

Lemma aget_adel : forall k k' r, aget k (adel k' r) = if k' =? k then None else aget k r.
Proof.
  intros k k' r. destruct (k' =? k) eqn:E.
  - apply N.eqb_eq in E. subst. apply aget_adel_eq.
  - apply aget_adel_neq. apply N.eqb_neq. exact E.
Qed.

Lemma aget_aset : forall k k' i r, aget k (aset k' i r) = if k' =? k then Some i else aget k r.
Proof.
  intros k k' i r. unfold aset. cbn [aget]. destruct (k' =? k) eqn:E; [reflexivity|].
  rewrite aget_adel, E. reflexivity.
Qed.

Lemma aget_In_keys : forall k r i, aget k r = Some i -> In k (map fst r).
Proof.
  induction r as [|[k' j] r IH]; cbn [aget map fst In]; intros i H; [discriminate|].
  destruct (k' =? k) eqn:E; [left; apply N.eqb_eq; exact E|right; eapply IH; eassumption].
Qed.

Lemma memb_In : forall k ks, memb k ks = true <-> In k ks.
Proof.
  intros k ks. unfold memb. rewrite existsb_exists. split.
  - intros [x [Hin E]]. apply N.eqb_eq in E. subst. exact Hin.
  - intros H. exists k. split; [exact H|apply N.eqb_refl].
Qed.

Lemma cid_mem_In : forall c l, cid_mem c l = true <-> In c l.
Proof.
  intros c l. unfold cid_mem. rewrite existsb_exists. split.
  - intros [x [Hin E]]. apply cid_eqb_eq in E. subst. exact Hin.
  - intros H. exists c. split; [exact H|apply cid_eqb_refl].
Qed.

Lemma cid_dedup_In : forall c l, In c (cid_dedup l) <-> In c l.
Proof.
  induction l as [|a l IH]; [tauto|]. cbn [cid_dedup]. destruct (cid_mem a l) eqn:E.
  - rewrite IH. cbn [In]. split; [tauto|]. intros [H|H]; [subst; apply cid_mem_In; exact E|exact H].
  - cbn [In]. rewrite IH. tauto.
Qed.

(** * the naming actor, pointwise *)

Lemma keys_of_client_In : forall c r k,
  In k (keys_of_client c r) <-> exists i, aget k r = Some i /\ si_client i = c.
Proof.
  intros c r k. unfold keys_of_client. rewrite filter_In. split.
  - intros [_ H]. destruct (aget k r) as [i|]; [|discriminate]. exists i. split; [reflexivity|].
    apply cid_eqb_eq. exact H.
  - intros [i [H Hc]]. split; [eapply aget_In_keys; eassumption|]. rewrite H. subst. apply cid_eqb_refl.
Qed.

Lemma aget_reg_remove : forall r k' oc k,
  aget k (fst (reg_remove r k' oc)) =
  if k' =? k then match aget k r with
                  | Some o => if refused o oc then Some o else None
                  | None => None
                  end
  else aget k r.
Proof.
  intros r k' oc k. unfold reg_remove. destruct (k' =? k) eqn:E.
  - apply N.eqb_eq in E. subst k'. destruct (aget k r) as [o|] eqn:G; cbn [fst]; [|exact G].
    destruct (refused o oc); cbn [fst]; [exact G|apply aget_adel_eq].
  - destruct (aget k' r) as [o|]; cbn [fst]; [|reflexivity].
    destruct (refused o oc); cbn [fst]; [reflexivity|]. rewrite aget_adel, E. reflexivity.
Qed.

Lemma reg_remove_list_cons : forall r k ks oc,
  fst (reg_remove_list r (k :: ks) oc) = fst (reg_remove_list (fst (reg_remove r k oc)) ks oc).
Proof.
  intros r k ks oc. cbn [reg_remove_list]. destruct (reg_remove r k oc) as [r1 n1]. cbn [fst].
  destruct (reg_remove_list r1 ks oc) as [r2 n2]. reflexivity.
Qed.

Lemma aget_reg_remove_list : forall ks r oc k,
  aget k (fst (reg_remove_list r ks oc)) =
  match aget k r with
  | Some o => if memb k ks && negb (refused o oc) then None else Some o
  | None => None
  end.
Proof.
  induction ks as [|k' ks IH]; intros r oc k.
  - cbn [reg_remove_list fst memb existsb andb]. destruct (aget k r); reflexivity.
  - rewrite reg_remove_list_cons, IH, aget_reg_remove. unfold memb. cbn [existsb].
    rewrite (N.eqb_sym k k'). destruct (k' =? k) eqn:E; cbn [orb].
    + destruct (aget k r) as [o|]; [|reflexivity]. destruct (refused o oc) eqn:Rf; cbn [negb andb].
      * rewrite Rf. cbn [negb]. rewrite andb_false_r. reflexivity.
      * reflexivity.
    + reflexivity.
Qed.

Lemma aget_reg_remove_client : forall r c k,
  aget k (fst (reg_remove_client r c)) =
  match aget k r with
  | Some o => if cid_eqb (si_client o) c then None else Some o
  | None => None
  end.
Proof.
  intros r c k. unfold reg_remove_client. rewrite aget_reg_remove_list.
  destruct (aget k r) as [o|] eqn:G; [|reflexivity]. unfold refused.
  destruct (cid_eqb (si_client o) c) eqn:E; cbn [negb].
  - assert (M : memb k (keys_of_client c r) = true).
    { apply memb_In. apply keys_of_client_In. exists o. split; [exact G|apply cid_eqb_eq; exact E]. }
    rewrite M. reflexivity.
  - rewrite andb_false_r. reflexivity.
Qed.

Lemma reg_remove_clients_cons : forall r c cs,
  fst (reg_remove_clients r (c :: cs)) = fst (reg_remove_clients (fst (reg_remove_client r c)) cs).
Proof.
  intros r c cs. cbn [reg_remove_clients]. destruct (reg_remove_client r c) as [r1 n1]. cbn [fst].
  destruct (reg_remove_clients r1 cs) as [r2 n2]. reflexivity.
Qed.

Lemma aget_reg_remove_clients : forall cs r k,
  aget k (fst (reg_remove_clients r cs)) =
  match aget k r with
  | Some o => if cid_mem (si_client o) cs then None else Some o
  | None => None
  end.
Proof.
  induction cs as [|c cs IH]; intros r k.
  - cbn [reg_remove_clients fst cid_mem existsb]. destruct (aget k r); reflexivity.
  - rewrite reg_remove_clients_cons, IH, aget_reg_remove_client. unfold cid_mem. cbn [existsb].
    destruct (aget k r) as [o|]; [|reflexivity].
    destruct (cid_eqb (si_client o) c); cbn [orb]; reflexivity.
Qed.

(** the last binding of a key in a list of (key, value) pairs *)
Fixpoint last_bind {A : Type} (k : skey) (l : list (skey * A)) : option A :=
  match l with
  | [] => None
  | (k', a) :: l' => match last_bind k l' with Some x => Some x | None => if k' =? k then Some a else None end
  end.

Lemma aget_reg_receive : forall is r k,
  aget k (reg_receive r is) = match last_bind k is with Some i => Some i | None => aget k r end.
Proof.
  unfold reg_receive. induction is as [|[k' i] is IH]; intros r k; [reflexivity|].
  cbn [fold_left fst snd last_bind]. rewrite IH. destruct (last_bind k is); [reflexivity|].
  rewrite aget_aset. destruct (k' =? k); reflexivity.
Qed.

Lemma reg_delete_batch_cons : forall r p rem,
  fst (reg_delete_batch r (p :: rem)) =
  fst (reg_delete_batch (fst (reg_remove r (fst p) (Some (si_client (snd p))))) rem).
Proof.
  intros r p rem. cbn [reg_delete_batch]. destruct (reg_remove r (fst p) (Some (si_client (snd p)))) as [r1 n1].
  cbn [fst]. destruct (reg_delete_batch r1 rem) as [r2 n2]. reflexivity.
Qed.

(** a batch removal is refused unless some removal entry for the key names the stored client *)
Lemma aget_reg_delete_batch : forall rem r k,
  aget k (fst (reg_delete_batch r rem)) =
  match aget k r with
  | Some o => if existsb (fun p => (fst p =? k) && cid_eqb (si_client o) (si_client (snd p))) rem
              then None else Some o
  | None => None
  end.
Proof.
  induction rem as [|p rem IH]; intros r k.
  - cbn [reg_delete_batch fst existsb]. destruct (aget k r); reflexivity.
  - rewrite reg_delete_batch_cons, IH, aget_reg_remove. unfold refused.
    destruct (aget k r) as [o|] eqn:G.
    + cbn [existsb]. destruct (fst p =? k) eqn:E; cbn [andb orb].
      * destruct (cid_eqb (si_client o) (si_client (snd p))) eqn:C; cbn [negb orb]; reflexivity.
      * reflexivity.
    + destruct (fst p =? k); reflexivity.
Qed.

(** * the delay actor: the last operation on a key wins *)

Definition dget (k : skey) (d : dmap) : option (sinst * bool) := last_bind k (rev d).

Lemma last_bind_app : forall (A : Type) k (l1 l2 : list (skey * A)),
  last_bind k (l1 ++ l2) = match last_bind k l2 with Some x => Some x | None => last_bind k l1 end.
Proof.
  induction l1 as [|[k' a] l1 IH]; intros l2; cbn [app last_bind].
  - destruct (last_bind k l2); reflexivity.
  - rewrite IH. destruct (last_bind k l2); reflexivity.
Qed.

(** keys of the pending map are pairwise distinct *)
Definition dkeys_nodup (d : dmap) : Prop := NoDup (map fst d).

Lemma delay_notify_nodup : forall d nt, dkeys_nodup d -> dkeys_nodup (delay_notify d nt).
Proof.
  unfold dkeys_nodup, delay_notify. intros d nt ND. cbn [map]. constructor.
  - rewrite in_map_iff. intros [x [Hx Hin]]. apply filter_In in Hin. destruct Hin as [_ Hf].
    rewrite Hx, N.eqb_refl in Hf. discriminate.
  - induction d as [|p d IH]; [constructor|]. cbn [map] in ND. inversion ND as [|? ? Hn ND']; subst.
    cbn [filter]. destruct (negb (fst p =? fst nt)); [|auto]. cbn [map]. constructor; [|auto].
    rewrite in_map_iff. intros [x [Hx Hin]]. apply filter_In in Hin. apply Hn. apply in_map_iff. exists x. tauto.
Qed.

Lemma delay_notify_all_nodup : forall ns d, dkeys_nodup d -> dkeys_nodup (delay_notify_all d ns).
Proof.
  unfold delay_notify_all. induction ns as [|nt ns IH]; intros d ND; [exact ND|].
  cbn [fold_left]. apply IH. apply delay_notify_nodup. exact ND.
Qed.

(** lookup in a map with distinct keys *)
Fixpoint dfind (k : skey) (d : dmap) : option (sinst * bool) :=
  match d with
  | [] => None
  | p :: d' => if fst p =? k then Some (snd p) else dfind k d'
  end.

Lemma dfind_filter_neq : forall k k' d, k' <> k ->
  dfind k (filter (fun p => negb (fst p =? k')) d) = dfind k d.
Proof.
  intros k k' d Hne. induction d as [|p d IH]; [reflexivity|]. cbn [filter dfind].
  destruct (fst p =? k') eqn:E; cbn [negb].
  - apply N.eqb_eq in E. rewrite E. apply N.eqb_neq in Hne. rewrite Hne. exact IH.
  - cbn [dfind]. destruct (fst p =? k); [reflexivity|exact IH].
Qed.

Lemma dfind_delay_notify : forall d nt k,
  dfind k (delay_notify d nt) = if fst nt =? k then Some (snd nt) else dfind k d.
Proof.
  intros d nt k. unfold delay_notify. cbn [dfind]. destruct (fst nt =? k) eqn:E; [reflexivity|].
  apply dfind_filter_neq. apply N.eqb_neq. exact E.
Qed.

Lemma dfind_delay_notify_all : forall ns d k,
  dfind k (delay_notify_all d ns) = match last_bind k ns with Some x => Some x | None => dfind k d end.
Proof.
  unfold delay_notify_all. induction ns as [|[k' x] ns IH]; intros d k; [reflexivity|].
  cbn [fold_left last_bind]. rewrite IH. destruct (last_bind k ns); [reflexivity|].
  rewrite dfind_delay_notify. cbn [fst snd]. destruct (k' =? k); reflexivity.
Qed.

Lemma dfind_In : forall d k x, dkeys_nodup d -> (In (k, x) d <-> dfind k d = Some x).
Proof.
  unfold dkeys_nodup. induction d as [|p d IH]; intros k x ND; cbn [In dfind]; [split; [tauto|discriminate]|].
  cbn [map] in ND. inversion ND as [|? ? Hn ND']; subst. destruct (fst p =? k) eqn:E.
  - apply N.eqb_eq in E. split.
    + intros [H|H]; [subst p; reflexivity|]. exfalso. apply Hn. apply in_map_iff. exists (k, x). split; [symmetry; exact E|exact H].
    + intros H. inversion H. left. destruct p; cbn [fst snd] in *. subst. reflexivity.
  - rewrite <- (IH k x ND'). split; [|tauto]. intros [H|H]; [|exact H]. subst p. cbn [fst] in E. rewrite N.eqb_refl in E. discriminate.
Qed.

Lemma delay_notify_all_nonempty : forall ns d nt, delay_notify_all d (nt :: ns) <> [].
Proof.
  unfold delay_notify_all. induction ns as [|a l IH]; intros d nt.
  - cbn [fold_left]. unfold delay_notify. discriminate.
  - change (fold_left delay_notify (nt :: a :: l) d) with (fold_left delay_notify (a :: l) (delay_notify d nt)).
    apply IH.
Qed.

(** [batch_last_op_wins]: whatever sequence of update/remove notifications the delay actor
    receives between two flushes, the batch it sends lists a key among the updates exactly when
    the LAST notification for that key was an update (with that instance), among the removals
    exactly when it was a removal, and in at most one of the two *)
Theorem batch_last_op_wins : forall (ns : list note) k i,
  match fst (delay_flush (delay_notify_all [] ns)) with
  | Some (MBatch upd rem) =>
      (In (k, i) upd <-> last_bind k ns = Some (i, true)) /\
      (In (k, i) rem <-> last_bind k ns = Some (i, false))
  | Some _ => False
  | None => ns = []
  end.
Proof.
  intros ns k i. set (d := delay_notify_all [] ns).
  assert (ND : dkeys_nodup d) by (apply delay_notify_all_nodup; constructor).
  assert (F : forall x, In (k, x) d <-> last_bind k ns = Some x).
  { intros x. rewrite (dfind_In d k x ND). unfold d. rewrite dfind_delay_notify_all.
    cbn [dfind]. destruct (last_bind k ns); tauto. }
  unfold delay_flush. destruct d as [|p d'] eqn:Ed.
  - cbn [fst]. destruct ns as [|nt ns']; [reflexivity|]. exfalso.
    apply (delay_notify_all_nonempty ns' [] nt). exact Ed.
  - cbn [fst]. rewrite <- Ed in *. clear Ed p d'. split.
    + rewrite in_map_iff. split.
      * intros [[k' [i' b]] [Heq Hin]]. apply filter_In in Hin. cbn [fst snd] in *. destruct Hin as [Hin Hb].
        inversion Heq; subst. apply F. exact Hin.
      * intros H. apply F in H. exists (k, (i, true)). split; [reflexivity|]. apply filter_In. split; [exact H|reflexivity].
    + rewrite in_map_iff. split.
      * intros [[k' [i' b]] [Heq Hin]]. apply filter_In in Hin. cbn [fst snd] in *. destruct Hin as [Hin Hb].
        inversion Heq; subst. apply negb_true_iff in Hb. subst. apply F. exact Hin.
      * intros H. apply F in H. exists (k, (i, false)). split; [reflexivity|]. apply filter_In. split; [exact H|reflexivity].
Qed.

(** * well-formedness *)

(** the instances a node holds under its own clients are managed by it ([from_cluster == 0]) *)
Definition wf_own (S : snode) : Prop :=
  forall k i, aget k (sn_reg S) = Some i -> fst (si_client i) = sn_id S -> si_from i = 0.

(** on a receiving node: an instance under a client of another node is attributed to that node
    and its client id is known for that node in [client_set] (so that [client_invalid_instance]
    finds it); known client ids carry the id of their node *)
Definition wf_recv (R : snode) : Prop :=
  (forall k i, aget k (sn_reg R) = Some i -> fst (si_client i) <> sn_id R ->
     si_from i = fst (si_client i) /\ peers_has (fst (si_client i)) (si_client i) (sn_peers R) = true) /\
  (forall s c, In (s, c) (sn_peers R) -> fst c = s).

(** the payloads of the instances both nodes know under the same client agree (no update batch
    was lost: the anti-entropy exchange compares key sets only, see [distro_round_keeps_stale_value]) *)
Definition vals_synced (S R : snode) : Prop :=
  forall k c v v', own S k = Some (c, v) -> held_for (sn_id S) R k = Some (c, v') -> v = v'.

(** * peers bookkeeping *)

Lemma peers_has_In : forall n c p, peers_has n c p = true <-> In (n, c) p.
Proof.
  intros n c p. unfold peers_has. rewrite existsb_exists. split.
  - intros [[n' c'] [Hin H]]. cbn [fst snd] in H. apply andb_true_iff in H. destruct H as [H1 H2].
    apply N.eqb_eq in H1. apply cid_eqb_eq in H2. subst. exact Hin.
  - intros H. exists (n, c). split; [exact H|]. cbn [fst snd]. rewrite N.eqb_refl, cid_eqb_refl. reflexivity.
Qed.

Lemma peers_of_In : forall n c p, In c (peers_of n p) <-> In (n, c) p.
Proof.
  intros n c p. unfold peers_of. rewrite in_map_iff. split.
  - intros [[n' c'] [Hc Hin]]. apply filter_In in Hin. cbn [fst snd] in *. destruct Hin as [Hin E].
    apply N.eqb_eq in E. subst. exact Hin.
  - intros H. exists (n, c). split; [reflexivity|]. apply filter_In. split; [exact H|]. cbn [fst]. apply N.eqb_refl.
Qed.

Lemma peers_add1_In : forall n c p x, In x (peers_add1 n c p) <-> x = (n, c) \/ In x p.
Proof.
  intros n c p x. unfold peers_add1. destruct (peers_has n c p) eqn:E.
  - apply peers_has_In in E. split; [tauto|]. intros [H|H]; [subst; exact E|exact H].
  - cbn [In]. split; intros [H|H]; auto.
Qed.

Lemma peers_add_In : forall cs n p x, In x (peers_add n cs p) <-> (exists c, In c cs /\ x = (n, c)) \/ In x p.
Proof.
  unfold peers_add. induction cs as [|c cs IH]; intros n p x; cbn [fold_left].
  - split; [tauto|]. intros [[c [[] _]]|H]; exact H.
  - rewrite IH, peers_add1_In. split.
    + intros [[c' [Hc Hx]]|[Hx|Hx]]; [left; exists c'; split; [right; exact Hc|exact Hx]|left; exists c; split; [left; reflexivity|exact Hx]|right; exact Hx].
    + intros [[c' [[Hc|Hc] Hx]]|Hx]; [subst c'; right; left; exact Hx|left; exists c'; tauto|right; right; exact Hx].
Qed.

Lemma peers_remove_In : forall n cs p x,
  In x (peers_remove n cs p) <-> In x p /\ ~ (fst x = n /\ In (snd x) cs).
Proof.
  intros n cs p x. unfold peers_remove. rewrite filter_In. split; intros [H1 H2]; split; try exact H1.
  - intros [Hn Hc]. apply negb_true_iff in H2. apply andb_false_iff in H2. destruct H2 as [H2|H2].
    + apply N.eqb_neq in H2. contradiction.
    + apply cid_mem_In in Hc. congruence.
  - apply negb_true_iff. apply andb_false_iff. destruct (fst x =? n) eqn:E; [|left; reflexivity].
    right. apply N.eqb_eq in E. destruct (cid_mem (snd x) cs) eqn:M; [|reflexivity].
    exfalso. apply H2. split; [exact E|apply cid_mem_In; exact M].
Qed.

(** * membership in the data of the exchange *)

Lemma own_clients_In : forall id r c,
  In c (own_clients id r) <-> exists k i, aget k r = Some i /\ si_client i = c /\ fst c = id.
Proof.
  intros id r c. unfold own_clients. rewrite cid_dedup_In, in_flat_map. split.
  - intros [k [Hk H]]. destruct (aget k r) as [i|] eqn:G; [|contradiction].
    destruct (fst (si_client i) =? id) eqn:E; [|contradiction]. destruct H as [H|[]].
    exists k, i. apply N.eqb_eq in E. subst c. tauto.
  - intros [k [i [G [Hc Hid]]]]. exists k. split; [eapply aget_In_keys; eassumption|].
    rewrite G. subst c. apply N.eqb_eq in Hid. rewrite Hid. left. reflexivity.
Qed.

Lemma own_Some : forall S k c v,
  own S k = Some (c, v) <->
  exists i, aget k (sn_reg S) = Some i /\ si_client i = c /\ si_val i = v /\ fst c = sn_id S.
Proof.
  intros S k c v. unfold own. destruct (aget k (sn_reg S)) as [i|].
  - destruct (fst (si_client i) =? sn_id S) eqn:E.
    + apply N.eqb_eq in E. split.
      * intros H. inversion H; subst. exists i. tauto.
      * intros [i' [H [Hc [Hv _]]]]. inversion H; subst. reflexivity.
    + split; [discriminate|]. intros [i' [H [Hc [_ Hid]]]]. inversion H; subst.
      apply N.eqb_neq in E. contradiction.
  - split; [discriminate|]. intros [i' [H _]]. discriminate.
Qed.

Lemma own_None : forall S k i,
  own S k = None -> aget k (sn_reg S) = Some i -> fst (si_client i) <> sn_id S.
Proof.
  intros S k i H G. unfold own in H. rewrite G in H.
  destruct (fst (si_client i) =? sn_id S) eqn:E; [discriminate|]. apply N.eqb_neq. exact E.
Qed.

Lemma distro_data_clients : forall id r, map fst (distro_data id r) = own_clients id r.
Proof. intros id r. unfold distro_data. rewrite map_map. cbn [fst]. apply map_id. Qed.

Lemma diff_new_In : forall S r k,
  In k (diff_new r (distro_data (sn_id S) (sn_reg S))) <->
  exists c v, own S k = Some (c, v) /\
              (forall o, aget k r = Some o -> si_client o <> c).
Proof.
  intros S r k. unfold diff_new, distro_data. rewrite in_flat_map. split.
  - intros [cd [Hcd H]]. apply in_map_iff in Hcd. destruct Hcd as [c [Hc Hown]]. subst cd. cbn [fst snd] in H.
    apply filter_In in H. destruct H as [Hk Hn]. apply keys_of_client_In in Hk. destruct Hk as [i [G Hi]].
    apply own_clients_In in Hown. destruct Hown as [_ [_ [_ [_ Hid]]]].
    exists c, (si_val i). split; [apply own_Some; exists i; tauto|].
    intros o Go Hoc. apply negb_true_iff in Hn.
    assert (M : memb k (keys_of_client c r) = true) by (apply memb_In, keys_of_client_In; exists o; tauto).
    congruence.
  - intros [c [v [Hown Hn]]]. apply own_Some in Hown. destruct Hown as [i [G [Hc [Hv Hid]]]].
    exists (c, keys_of_client c (sn_reg S)). split.
    + apply in_map_iff. exists c. split; [reflexivity|]. apply own_clients_In. exists k, i. tauto.
    + cbn [fst snd]. apply filter_In. split; [apply keys_of_client_In; exists i; tauto|].
      apply negb_true_iff. destruct (memb k (keys_of_client c r)) eqn:M; [|reflexivity].
      apply memb_In, keys_of_client_In in M. destruct M as [o [Go Hoc]]. exfalso. eapply Hn; eassumption.
Qed.

Lemma diff_remove_In : forall S r k,
  In k (diff_remove r (distro_data (sn_id S) (sn_reg S))) <->
  exists o, aget k r = Some o /\ In (si_client o) (own_clients (sn_id S) (sn_reg S)) /\
            (forall v, own S k <> Some (si_client o, v)).
Proof.
  intros S r k. unfold diff_remove, distro_data. rewrite in_flat_map. split.
  - intros [cd [Hcd H]]. apply in_map_iff in Hcd. destruct Hcd as [c [Hc Hown]]. subst cd. cbn [fst snd] in H.
    apply filter_In in H. destruct H as [Hk Hn]. apply keys_of_client_In in Hk. destruct Hk as [o [G Ho]].
    exists o. split; [exact G|]. subst c. split; [exact Hown|].
    intros v Hv. apply own_Some in Hv. destruct Hv as [i [Gi [Hci _]]]. apply negb_true_iff in Hn.
    assert (M : memb k (keys_of_client (si_client o) (sn_reg S)) = true) by (apply memb_In, keys_of_client_In; exists i; tauto).
    congruence.
  - intros [o [G [Hown Hn]]]. exists (si_client o, keys_of_client (si_client o) (sn_reg S)). split.
    + apply in_map_iff. exists (si_client o). tauto.
    + cbn [fst snd]. apply filter_In. split; [apply keys_of_client_In; exists o; tauto|].
      apply negb_true_iff. destruct (memb k (keys_of_client (si_client o) (sn_reg S))) eqn:M; [|reflexivity].
      apply memb_In, keys_of_client_In in M. destruct M as [i [Gi Hci]]. exfalso.
      apply own_clients_In in Hown. destruct Hown as [_ [_ [_ [_ Hid]]]].
      apply (Hn (si_val i)). apply own_Some. exists i. tauto.
Qed.

(** the instances the sender hands out for the requested keys *)
Lemma last_bind_build : forall s r ks k,
  last_bind k (reset_all s (build_distro r ks)) =
  if memb k ks then match aget k r with
                    | Some i => if si_from i =? 0 then Some (reset_from s i) else None
                    | None => None
                    end
  else None.
Proof.
  intros s r ks k. unfold reset_all, build_distro. induction ks as [|k' ks IH]; [reflexivity|].
  cbn [flat_map]. rewrite map_app, last_bind_app, IH. unfold memb. cbn [existsb]. rewrite (N.eqb_sym k k').
  fold (memb k ks).
  set (X := match aget k r with
            | Some i => if si_from i =? 0 then Some (reset_from s i) else None
            | None => None
            end).
  assert (H : last_bind k (map (fun p : N * sinst => (fst p, reset_from s (snd p)))
                match aget k' r with
                | Some i => if si_from i =? 0 then [(k', i)] else []
                | None => []
                end) = if k' =? k then X else None).
  { destruct (k' =? k) eqn:E.
    - apply N.eqb_eq in E. subst k'. unfold X. destruct (aget k r) as [i|]; [|reflexivity].
      destruct (si_from i =? 0); cbn [map last_bind fst snd]; [|reflexivity]. rewrite N.eqb_refl. reflexivity.
    - destruct (aget k' r) as [i|]; [|reflexivity].
      destruct (si_from i =? 0); cbn [map last_bind fst snd]; [|reflexivity]. rewrite E. reflexivity. }
  rewrite H. destruct (k' =? k); cbn [orb]; destruct (memb k ks); try reflexivity; destruct X; reflexivity.
Qed.

(** * one anti-entropy exchange, unfolded *)

Definition exch_data (S : snode) := distro_data (sn_id S) (sn_reg S).
Definition exch_gone (S R : snode) : list cid :=
  filter (fun c => negb (cid_mem c (map fst (exch_data S)))) (peers_of (sn_id S) (sn_peers R)).
Definition exch_r1 (S R : snode) : sreg := fst (reg_remove_clients (sn_reg R) (exch_gone S R)).
Definition exch_r2 (S R : snode) : sreg :=
  fst (reg_remove_list (exch_r1 S R) (diff_remove (exch_r1 S R) (exch_data S)) None).
Definition exch_nw (S R : snode) : list skey := diff_new (exch_r1 S R) (exch_data S).
Definition exch_is (S R : snode) : list (skey * sinst) :=
  reset_all (sn_id S) (build_distro (sn_reg S) (exch_nw S R)).

Lemma exchange_unfold : forall S R,
  exchange S R =
  mkNode (sn_id R) (reg_receive (exch_r2 S R) (exch_is S R))
         (peers_add (sn_id S) (clients_from (sn_id S) (exch_is S R))
                    (peers_remove (sn_id S) (exch_gone S R) (sn_peers R))).
Proof.
  intros S R. unfold exchange, exch_is, exch_nw, exch_r2, exch_r1. cbn [recv].
  fold (exch_data S). fold (exch_gone S R).
  destruct (reg_remove_clients (sn_reg R) (exch_gone S R)) as [r1 ns1]. cbn [fst].
  unfold reg_diff. destruct (reg_remove_list r1 (diff_remove r1 (exch_data S)) None) as [r2 ns2]. cbn [fst].
  destruct (diff_new r1 (exch_data S)) as [|k0 nw].
  - reflexivity.
  - cbn [recv]. destruct (build_distro (sn_reg S) (k0 :: nw)) as [|p l].
    + reflexivity.
    + cbn [recv sn_id sn_reg sn_peers]. reflexivity.
Qed.

Lemma exchange_id : forall S R, sn_id (exchange S R) = sn_id R.
Proof. intros. rewrite exchange_unfold. reflexivity. Qed.

Lemma exch_gone_In : forall S R c,
  In c (exch_gone S R) <-> In (sn_id S, c) (sn_peers R) /\ ~ In c (own_clients (sn_id S) (sn_reg S)).
Proof.
  intros S R c. unfold exch_gone, exch_data. rewrite filter_In, peers_of_In, distro_data_clients.
  split; intros [H1 H2]; split; try exact H1.
  - intro H. apply cid_mem_In in H. rewrite H in H2. discriminate.
  - apply negb_true_iff. destruct (cid_mem c (own_clients (sn_id S) (sn_reg S))) eqn:M; [|reflexivity].
    apply cid_mem_In in M. contradiction.
Qed.

(** pointwise effect of one exchange on the receiver's registry *)
Theorem exchange_spec : forall S R k,
  sn_id S <> sn_id R -> wf_own S -> wf_recv R ->
  aget k (sn_reg (exchange S R)) =
  match own S k with
  | Some (c, v) =>
      match aget k (sn_reg R) with
      | Some o => if cid_eqb (si_client o) c then Some o else Some (mkInst v (sn_id S) c)
      | None => Some (mkInst v (sn_id S) c)
      end
  | None =>
      match aget k (sn_reg R) with
      | Some o => if fst (si_client o) =? sn_id S then None else Some o
      | None => None
      end
  end.
Proof.
  intros S R k Hne WS [WR1 WR2]. rewrite exchange_unfold. cbn [sn_reg].
  rewrite aget_reg_receive. unfold exch_is. rewrite last_bind_build.
  (* r1 *)
  assert (G1 : aget k (exch_r1 S R) =
               match aget k (sn_reg R) with
               | Some o => if cid_mem (si_client o) (exch_gone S R) then None else Some o
               | None => None
               end) by apply aget_reg_remove_clients.
  (* r2 *)
  assert (G2 : aget k (exch_r2 S R) =
               match aget k (exch_r1 S R) with
               | Some o => if memb k (diff_remove (exch_r1 S R) (exch_data S)) then None else Some o
               | None => None
               end).
  { unfold exch_r2. rewrite aget_reg_remove_list. destruct (aget k (exch_r1 S R)); [|reflexivity].
    cbn [refused negb]. rewrite andb_true_r. reflexivity. }
  destruct (own S k) as [[c v]|] eqn:Ho.
  - (* the sender registers k under its client c *)
    pose proof Ho as Ho'. apply own_Some in Ho'. destruct Ho' as [i [Gi [Hc [Hv Hid]]]].
    assert (Hfrom : si_from i = 0) by (apply (WS k i Gi); congruence).
    assert (Hcown : In c (own_clients (sn_id S) (sn_reg S))) by (apply own_clients_In; exists k, i; tauto).
    assert (Hreset : reset_from (sn_id S) i = mkInst v (sn_id S) c).
    { unfold reset_from. rewrite Hfrom. cbn. subst. reflexivity. }
    destruct (aget k (sn_reg R)) as [o|] eqn:Go.
    + destruct (cid_eqb (si_client o) c) eqn:Ec.
      * (* already known under the same client: untouched, not requested *)
        apply cid_eqb_eq in Ec.
        assert (Hng : cid_mem (si_client o) (exch_gone S R) = false).
        { destruct (cid_mem (si_client o) (exch_gone S R)) eqn:M; [|reflexivity].
          apply cid_mem_In, exch_gone_In in M. rewrite Ec in M. tauto. }
        rewrite Hng in G1.
        assert (Hnr : memb k (diff_remove (exch_r1 S R) (exch_data S)) = false).
        { destruct (memb k (diff_remove (exch_r1 S R) (exch_data S))) eqn:M; [|reflexivity].
          apply memb_In, diff_remove_In in M. destruct M as [o' [Go' [_ Hn]]].
          rewrite G1 in Go'. inversion Go'; subst o'. exfalso. apply (Hn v). rewrite Ec. exact Ho. }
        assert (Hnn : memb k (exch_nw S R) = false).
        { destruct (memb k (exch_nw S R)) eqn:M; [|reflexivity].
          apply memb_In, diff_new_In in M. destruct M as [c' [v' [Ho2 Hn]]].
          rewrite Ho in Ho2. inversion Ho2; subst c' v'. exfalso. eapply Hn; eassumption. }
        rewrite Hnn, G2, G1, Hnr. reflexivity.
      * (* held under another client: replaced by the sender's instance *)
        apply cid_eqb_neq in Ec.
        assert (Hin : memb k (exch_nw S R) = true).
        { apply memb_In, diff_new_In. exists c, v. split; [exact Ho|]. intros o' Go'.
          rewrite G1 in Go'. destruct (cid_mem (si_client o) (exch_gone S R)); [discriminate|].
          inversion Go'; subst o'. exact Ec. }
        rewrite Hin, Gi, Hfrom. cbn [N.eqb]. rewrite Hreset. reflexivity.
    + assert (Hin : memb k (exch_nw S R) = true).
      { apply memb_In, diff_new_In. exists c, v. split; [exact Ho|]. intros o' Go'.
        rewrite G1 in Go'. discriminate. }
      rewrite Hin, Gi, Hfrom. cbn [N.eqb]. rewrite Hreset. reflexivity.
  - (* the sender does not register k *)
    assert (Hnn : memb k (exch_nw S R) = false).
    { destruct (memb k (exch_nw S R)) eqn:M; [|reflexivity].
      apply memb_In, diff_new_In in M. destruct M as [c' [v' [Ho2 _]]]. congruence. }
    rewrite Hnn, G2, G1. destruct (aget k (sn_reg R)) as [o|] eqn:Go; [|reflexivity].
    destruct (fst (si_client o) =? sn_id S) eqn:Es.
    + apply N.eqb_eq in Es.
      assert (Htr : In (sn_id S, si_client o) (sn_peers R)).
      { destruct (WR1 k o Go) as [_ Hp]; [congruence|]. apply peers_has_In in Hp. rewrite Es in Hp. exact Hp. }
      destruct (cid_mem (si_client o) (exch_gone S R)) eqn:Mg; [reflexivity|].
      assert (Hcown : In (si_client o) (own_clients (sn_id S) (sn_reg S))).
      { destruct (cid_mem (si_client o) (own_clients (sn_id S) (sn_reg S))) eqn:M; [apply cid_mem_In; exact M|].
        exfalso. assert (In (si_client o) (exch_gone S R)).
        { apply exch_gone_In. split; [exact Htr|]. intro H. apply cid_mem_In in H. congruence. }
        apply cid_mem_In in H. congruence. }
      assert (Hr : memb k (diff_remove (exch_r1 S R) (exch_data S)) = true).
      { apply memb_In, diff_remove_In. exists o. split; [rewrite G1; reflexivity|].
        split; [exact Hcown|]. intros v' Hv'. congruence. }
      rewrite Hr. reflexivity.
    + apply N.eqb_neq in Es.
      assert (Hng : cid_mem (si_client o) (exch_gone S R) = false).
      { destruct (cid_mem (si_client o) (exch_gone S R)) eqn:M; [|reflexivity].
        apply cid_mem_In, exch_gone_In in M. destruct M as [M _]. apply WR2 in M. contradiction. }
      rewrite Hng.
      assert (Hnr : memb k (diff_remove (exch_r1 S R) (exch_data S)) = false).
      { destruct (memb k (diff_remove (exch_r1 S R) (exch_data S))) eqn:M; [|reflexivity].
        apply memb_In, diff_remove_In in M. destruct M as [o' [Go' [Hown _]]].
        rewrite G1, Hng in Go'. inversion Go'; subst o'.
        apply own_clients_In in Hown. destruct Hown as [_ [_ [_ [_ Hid]]]]. contradiction. }
      rewrite Hnr. reflexivity.
Qed.

Lemma last_bind_In : forall (A : Type) k (l : list (skey * A)) a, last_bind k l = Some a -> In (k, a) l.
Proof.
  induction l as [|[k' a'] l IH]; intros a H; cbn [last_bind] in H; [discriminate|].
  destruct (last_bind k l) as [x|] eqn:E.
  - inversion H; subst. right. apply IH. reflexivity.
  - destruct (k' =? k) eqn:Ek; [|discriminate]. inversion H; subst. apply N.eqb_eq in Ek. subst. left. reflexivity.
Qed.

Lemma build_distro_In : forall r ks k i,
  In (k, i) (build_distro r ks) <-> In k ks /\ aget k r = Some i /\ si_from i = 0.
Proof.
  intros r ks k i. unfold build_distro. rewrite in_flat_map. split.
  - intros [k' [Hk H]]. destruct (aget k' r) as [i'|] eqn:G; [|contradiction].
    destruct (si_from i' =? 0) eqn:E; [|contradiction]. destruct H as [H|[]]. inversion H; subst.
    apply N.eqb_eq in E. tauto.
  - intros [Hk [G Hf]]. exists k. split; [exact Hk|]. rewrite G. apply N.eqb_eq in Hf. rewrite Hf. left. reflexivity.
Qed.

Lemma exchange_requested : forall S R k c v,
  own S k = Some (c, v) -> (forall o, aget k (sn_reg R) = Some o -> si_client o <> c) ->
  In k (exch_nw S R).
Proof.
  intros S R k c v Ho Hn. apply diff_new_In. exists c, v. split; [exact Ho|]. intros o' Go'.
  unfold exch_r1 in Go'. rewrite aget_reg_remove_clients in Go'.
  destruct (aget k (sn_reg R)) as [o|] eqn:Go; [|discriminate].
  destruct (cid_mem (si_client o) (exch_gone S R)); [discriminate|]. inversion Go'; subst o'.
  apply Hn. reflexivity.
Qed.

Lemma exchange_new_tracked : forall S R k i,
  wf_own S -> aget k (sn_reg S) = Some i -> fst (si_client i) = sn_id S -> In k (exch_nw S R) ->
  In (sn_id S, si_client i) (sn_peers (exchange S R)).
Proof.
  intros S R k i WS Gi Hid Hk. rewrite exchange_unfold. cbn [sn_peers]. apply peers_add_In. left.
  exists (si_client i). split; [|reflexivity]. unfold clients_from. apply in_map_iff.
  assert (Hfrom : si_from i = 0) by (apply (WS k i Gi Hid)).
  exists (k, reset_from (sn_id S) i). split.
  - cbn [snd]. unfold reset_from. rewrite Hfrom. reflexivity.
  - apply filter_In. split.
    + unfold exch_is, reset_all. apply in_map_iff. exists (k, i). split; [reflexivity|].
      apply build_distro_In. tauto.
    + cbn [snd]. unfold reset_from. rewrite Hfrom. cbn [N.eqb si_from]. apply N.eqb_refl.
Qed.

(** [wf_recv] is an invariant of the exchange *)
Lemma exchange_wf_recv : forall S R,
  sn_id S <> sn_id R -> wf_own S -> wf_recv R -> wf_recv (exchange S R).
Proof.
  intros S R Hne WS WR. pose proof WR as [WR1 WR2]. split.
  - intros k i' G Hcl. rewrite exchange_id in Hcl.
    rewrite (exchange_spec S R k Hne WS WR) in G.
    assert (Keep : forall o, aget k (sn_reg R) = Some o -> fst (si_client o) <> sn_id R ->
                     ~ In (si_client o) (exch_gone S R) ->
                     si_from o = fst (si_client o) /\
                     peers_has (fst (si_client o)) (si_client o) (sn_peers (exchange S R)) = true).
    { intros o Go Hc Hng. destruct (WR1 k o Go Hc) as [Hf Hp]. split; [exact Hf|].
      rewrite exchange_unfold. cbn [sn_peers].
      apply peers_has_In, peers_add_In. right. apply peers_remove_In. split; [apply peers_has_In; exact Hp|].
      cbn [fst snd]. tauto. }
    destruct (own S k) as [[c v]|] eqn:Ho.
    + pose proof Ho as Ho'. apply own_Some in Ho'. destruct Ho' as [i [Gi [Hc [Hv Hid]]]].
      assert (Hcown : In c (own_clients (sn_id S) (sn_reg S))) by (apply own_clients_In; exists k, i; tauto).
      assert (New : (forall o, aget k (sn_reg R) = Some o -> si_client o <> c) ->
                    i' = mkInst v (sn_id S) c ->
                    si_from i' = fst (si_client i') /\
                    peers_has (fst (si_client i')) (si_client i') (sn_peers (exchange S R)) = true).
      { intros Hn ->. cbn [si_from si_client]. split; [congruence|]. rewrite Hid.
        apply peers_has_In. rewrite <- Hc. apply (exchange_new_tracked S R k i WS Gi); [congruence|].
        eapply exchange_requested; eassumption. }
      destruct (aget k (sn_reg R)) as [o|] eqn:Go.
      * destruct (cid_eqb (si_client o) c) eqn:Ec.
        -- inversion G; subst i'. apply (Keep o eq_refl Hcl). intro Hg. apply exch_gone_In in Hg.
           apply cid_eqb_eq in Ec. rewrite Ec in Hg. tauto.
        -- apply New; [|inversion G; reflexivity]. intros o' Go'. inversion Go'; subst o'.
           apply cid_eqb_neq. exact Ec.
      * apply New; [|inversion G; reflexivity]. intros o' Go'. discriminate.
    + destruct (aget k (sn_reg R)) as [o|] eqn:Go; [|discriminate].
      destruct (fst (si_client o) =? sn_id S) eqn:Es; [discriminate|]. inversion G; subst i'.
      apply (Keep o eq_refl Hcl). intro Hg. apply exch_gone_In in Hg. destruct Hg as [Hg _].
      apply WR2 in Hg. apply N.eqb_neq in Es. contradiction.
  - intros s c Hin. rewrite exchange_unfold in Hin. cbn [sn_peers] in Hin. apply peers_add_In in Hin.
    destruct Hin as [[c' [Hc' Heq]]|Hin].
    + inversion Heq; subst s c'. unfold clients_from in Hc'. apply in_map_iff in Hc'.
      destruct Hc' as [[k i'] [Hci Hf]]. cbn [snd] in Hci. apply filter_In in Hf. destruct Hf as [Hf _].
      unfold exch_is, reset_all in Hf. apply in_map_iff in Hf. destruct Hf as [[k0 i0] [Heq2 Hb]].
      cbn [fst snd] in Heq2. inversion Heq2; subst k0 i'. apply build_distro_In in Hb. destruct Hb as [Hk [G0 _]].
      apply diff_new_In in Hk. destruct Hk as [c0 [v0 [Ho0 _]]]. apply own_Some in Ho0.
      destruct Ho0 as [i1 [G1 [Hc1 [_ Hid1]]]]. rewrite G0 in G1. inversion G1; subst i1.
      subst c. unfold reset_from. destruct (si_from i0 =? 0); cbn [si_client]; congruence.
    + apply peers_remove_In in Hin. destruct Hin as [Hin _]. apply (WR2 s c Hin).
Qed.
