(** Model of the cluster synchronisation of gRPC (ephemeral) instances in r-nacos (C15):

      src/naming/core.rs                         update_instance / remove_instance /
                                                 remove_client_instance / query_grpc_distro_data /
                                                 diff_grpc_distro_client_data / build_distro_instances /
                                                 receive_snapshot / build_snapshot_data (client part)
      src/naming/cluster/instance_delay_notify.rs  ClusterInstanceDelayNotifyActor (last op wins)
      src/naming/cluster/mod.rs                  handle_naming_route: SyncBatchInstances, RemoveClientId,
                                                 SyncDistroClientInstances, QueryDistroInstanceSnapshot,
                                                 Snapshot, QuerySnapshot, reset_cluster_info
      src/naming/cluster/node_manage.rs          client_set bookkeeping (node_add_client, node_diff_clients,
                                                 remove_client_id), check_node_status -> client_invalid_instance

    Scope (boolean [in_scope] evaluated on both sides): ephemeral instances registered over gRPC
    (non-empty client id "<node id>_<remote addr>").  HTTP instances (routed writes, 15 s beat
    batches) and persistent instances (Raft) are not modelled.  [client_instance_set] is taken to
    be the index of the registry by client id (that is property C11, checked again at every step of
    the `sync` correspondence suite), so it is a derived notion here ([keys_of_client]).
    Executable model only; the proofs are in SyncProofs.v.  Self-contained on purpose. *)
From Coq Require Export List NArith Bool Arith Lia.
Export ListNotations.
Local Open Scope N_scope.

(** * data *)

Notation skey := N (only parsing).          (* InstanceKey: service key + ip + port *)
Notation cid := (N * N)%type (only parsing).   (* client id "<node>_<addr>" = (node id, connection) *)

Definition cid_eqb (a b : cid) : bool := (fst a =? fst b) && (snd a =? snd b).

(** an instance: payload (ip/port are in the key; health, enabled, weight, metadata are one
    opaque value), from_cluster (0 = managed by this node), client id *)
Record sinst := mkInst { si_val : N; si_from : N; si_client : cid }.

Definition sinst_eqb (a b : sinst) : bool :=
  (si_val a =? si_val b) && (si_from a =? si_from b) && cid_eqb (si_client a) (si_client b).

(** the registry: association list, first binding wins *)
Definition sreg := list (skey * sinst).

Fixpoint aget (k : skey) (r : sreg) : option sinst :=
  match r with
  | [] => None
  | (k', i) :: r' => if k' =? k then Some i else aget k r'
  end.

Definition adel (k : skey) (r : sreg) : sreg := filter (fun p => negb (fst p =? k)) r.
Definition aset (k : skey) (i : sinst) (r : sreg) : sreg := (k, i) :: adel k r.

Definition memb (k : skey) (ks : list skey) : bool := existsb (N.eqb k) ks.
Definition cid_mem (c : cid) (l : list cid) : bool := existsb (cid_eqb c) l.

Fixpoint cid_dedup (l : list cid) : list cid :=
  match l with
  | [] => []
  | c :: l' => if cid_mem c l' then cid_dedup l' else c :: cid_dedup l'
  end.

(** what the delay actor is told: (key, (instance, is_update)) *)
Definition note := (skey * (sinst * bool))%type.

(** * NamingActor *)

(** [client_instance_set.get(c)]: the keys registered under client [c] *)
Definition keys_of_client (c : cid) (r : sreg) : list skey :=
  filter (fun k => match aget k r with Some i => cid_eqb (si_client i) c | None => false end)
         (map fst r).

(** [Service::remove_instance]: an ephemeral instance is not removed on behalf of a different,
    non-empty client id *)
Definition refused (o : sinst) (oc : option cid) : bool :=
  match oc with Some c => negb (cid_eqb (si_client o) c) | None => false end.

(** [NamingActor::remove_instance]; the removal of an instance managed by this node
    ([from_cluster == 0]) is announced to the other nodes *)
Definition reg_remove (r : sreg) (k : skey) (oc : option cid) : sreg * list note :=
  match aget k r with
  | Some o =>
      if refused o oc then (r, [])
      else (adel k r, if si_from o =? 0 then [(k, (o, false))] else [])
  | None => (r, [])
  end.

Fixpoint reg_remove_list (r : sreg) (ks : list skey) (oc : option cid) : sreg * list note :=
  match ks with
  | [] => (r, [])
  | k :: ks' =>
      let (r1, n1) := reg_remove r k oc in
      let (r2, n2) := reg_remove_list r1 ks' oc in
      (r2, n1 ++ n2)
  end.

(** [remove_client_instance] *)
Definition reg_remove_client (r : sreg) (c : cid) : sreg * list note :=
  reg_remove_list r (keys_of_client c r) (Some c).

Fixpoint reg_remove_clients (r : sreg) (cs : list cid) : sreg * list note :=
  match cs with
  | [] => (r, [])
  | c :: cs' =>
      let (r1, n1) := reg_remove_client r c in
      let (r2, n2) := reg_remove_clients r1 cs' in
      (r2, n1 ++ n2)
  end.

(** [update_instance] with [from_sync = true] (UpdateBatch / ReceiveSnapshot): the stored
    instance is replaced; nothing is announced *)
Definition reg_receive (r : sreg) (is : list (skey * sinst)) : sreg :=
  fold_left (fun r p => aset (fst p) (snd p) r) is r.

(** [DeleteBatch]: [remove_instance(key, Some(&instance.client_id))] for every entry *)
Fixpoint reg_delete_batch (r : sreg) (rem : list (skey * sinst)) : sreg * list note :=
  match rem with
  | [] => (r, [])
  | p :: rem' =>
      let (r1, n1) := reg_remove r (fst p) (Some (si_client (snd p))) in
      let (r2, n2) := reg_delete_batch r1 rem' in
      (r2, n1 ++ n2)
  end.

(** the clients of node [id] that hold instances here ([query_grpc_distro_data]: client ids
    starting with "<id>_") *)
Definition own_clients (id : N) (r : sreg) : list cid :=
  cid_dedup (flat_map (fun k => match aget k r with
                                | Some i => if fst (si_client i) =? id then [si_client i] else []
                                | None => []
                                end) (map fst r)).

Definition distro_data (id : N) (r : sreg) : list (cid * list skey) :=
  map (fun c => (c, keys_of_client c r)) (own_clients id r).

(** [diff_grpc_distro_client_data]: both differences are taken against the state before any
    removal; the removals use no client id *)
Definition diff_remove (r : sreg) (data : list (cid * list skey)) : list skey :=
  flat_map (fun cd => filter (fun k => negb (memb k (snd cd))) (keys_of_client (fst cd) r)) data.

Definition diff_new (r : sreg) (data : list (cid * list skey)) : list skey :=
  flat_map (fun cd => filter (fun k => negb (memb k (keys_of_client (fst cd) r))) (snd cd)) data.

Definition reg_diff (r : sreg) (data : list (cid * list skey)) : sreg * list note * list skey :=
  let (r', ns) := reg_remove_list r (diff_remove r data) None in
  (r', ns, diff_new r data).

(** [build_distro_instances]: only instances managed by this node are handed out *)
Definition build_distro (r : sreg) (ks : list skey) : list (skey * sinst) :=
  flat_map (fun k => match aget k r with
                     | Some i => if si_from i =? 0 then [(k, i)] else []
                     | None => []
                     end) ks.

(** [build_snapshot_data], client part: every instance of a client set with [from_cluster == 0] *)
Definition build_snapshot (r : sreg) : list (skey * sinst) := build_distro r (map fst r).

(** [reset_cluster_info] *)
Definition reset_from (from : N) (i : sinst) : sinst :=
  if si_from i =? 0 then mkInst (si_val i) from (si_client i) else i.

Definition reset_all (from : N) (is : list (skey * sinst)) : list (skey * sinst) :=
  map (fun p => (fst p, reset_from from (snd p))) is.

(** * InnerNodeManage: which clients of which node are known here ([client_set]) *)

Definition speers := list (N * cid).

Definition peers_of (n : N) (p : speers) : list cid := map snd (filter (fun x => fst x =? n) p).

Definition peers_has (n : N) (c : cid) (p : speers) : bool :=
  existsb (fun x => (fst x =? n) && cid_eqb (snd x) c) p.

Definition peers_add1 (n : N) (c : cid) (p : speers) : speers :=
  if peers_has n c p then p else (n, c) :: p.

Definition peers_add (n : N) (cs : list cid) (p : speers) : speers :=
  fold_left (fun p c => peers_add1 n c p) cs p.

(** [remove_client_id]: the client id is forgotten for every node *)
Definition peers_remove_client (c : cid) (p : speers) : speers :=
  filter (fun x => negb (cid_eqb (snd x) c)) p.

Definition peers_remove (n : N) (cs : list cid) (p : speers) : speers :=
  filter (fun x => negb ((fst x =? n) && cid_mem (snd x) cs)) p.

Definition peers_clear (n : N) (p : speers) : speers := filter (fun x => negb (fst x =? n)) p.

(** the client ids announced to InnerNodeManage for a batch/snapshot received from [from]:
    instances whose [from_cluster] is the sender *)
Definition clients_from (from : N) (is : list (skey * sinst)) : list cid :=
  map (fun p => si_client (snd p)) (filter (fun p => si_from (snd p) =? from) is).

(** * nodes and messages *)

Record snode := mkNode { sn_id : N; sn_reg : sreg; sn_peers : speers }.

Inductive smsg :=
| MBatch (upd rem : list (skey * sinst))            (* SyncBatchInstances *)
| MRemoveClient (c : cid)                            (* RemoveClientId *)
| MDistro (data : list (cid * list skey))            (* SyncDistroClientInstances *)
| MQueryInst (ks : list skey)                        (* QueryDistroInstanceSnapshot *)
| MSnapshot (is : list (skey * sinst))               (* Snapshot *)
| MQuerySnapshot.                                    (* QuerySnapshot *)

(** [handle_naming_route] on node [n] for a message of node [from]; result: new state, answers
    sent back to [from], notes for the local delay actor *)
Definition recv (n : snode) (from : N) (m : smsg) : snode * list smsg * list note :=
  match m with
  | MBatch upd rem =>
      let upd' := reset_all from upd in
      let peers' := peers_add from (clients_from from upd') (sn_peers n) in
      let (r1, ns) := reg_delete_batch (sn_reg n) rem in
      (mkNode (sn_id n) (reg_receive r1 upd') peers', [], ns)
  | MRemoveClient c =>
      let (r1, ns) := reg_remove_client (sn_reg n) c in
      (mkNode (sn_id n) r1 (peers_remove_client c (sn_peers n)), [], ns)
  | MDistro data =>
      (* RemoveDiffClientIds: known clients of the sender that it no longer lists *)
      let gone := filter (fun c => negb (cid_mem c (map fst data))) (peers_of from (sn_peers n)) in
      let peers' := peers_remove from gone (sn_peers n) in
      let (r1, ns1) := reg_remove_clients (sn_reg n) gone in
      let '(r2, ns2, nw) := reg_diff r1 data in
      (mkNode (sn_id n) r2 peers',
       match nw with [] => [] | _ => [MQueryInst nw] end, ns1 ++ ns2)
  | MQueryInst ks =>
      match ks with
      | [] => (n, [], [])
      | _ => match build_distro (sn_reg n) ks with
             | [] => (n, [], [])
             | is => (n, [MSnapshot is], [])
             end
      end
  | MSnapshot is =>
      let is' := reset_all from is in
      let peers' := peers_add from (clients_from from is') (sn_peers n) in
      (mkNode (sn_id n) (reg_receive (sn_reg n) is') peers', [], [])
  | MQuerySnapshot => (n, [MSnapshot (build_snapshot (sn_reg n))], [])
  end.

(** [check_node_status] marking node [d] invalid: [client_invalid_instance] removes the instances
    of every client known for [d] and forgets the clients *)
Definition mark_dead (n : snode) (d : N) : snode * list note :=
  let (r1, ns) := reg_remove_clients (sn_reg n) (peers_of d (sn_peers n)) in
  (mkNode (sn_id n) r1 (peers_clear d (sn_peers n)), ns).

(** * client operations on the node the client is connected to *)

(** registerInstance over gRPC: NamingCmd::Update, announced as an update *)
Definition op_register (n : snode) (c : cid) (k : skey) (v : N) : snode * list note :=
  let i := mkInst v 0 c in
  (mkNode (sn_id n) (aset k i (sn_reg n)) (sn_peers n), [(k, (i, true))]).

(** deregisterInstance: NamingCmd::Delete with the connection's client id *)
Definition op_deregister (n : snode) (c : cid) (k : skey) : snode * list note :=
  let (r1, ns) := reg_remove (sn_reg n) k (Some c) in
  (mkNode (sn_id n) r1 (sn_peers n), ns).

(** connection closed: NamingCmd::RemoveClient; RemoveClientId goes to the other nodes at once *)
Definition op_disconnect (n : snode) (c : cid) : snode * list smsg * list note :=
  let (r1, ns) := reg_remove_client (sn_reg n) c in
  (mkNode (sn_id n) r1 (peers_remove_client c (sn_peers n)), [MRemoveClient c], ns).

(** * ClusterInstanceDelayNotifyActor *)

Definition dmap := list note.               (* instances_map: one pending item per key *)

(** [delay_notify]: HashMap::insert — a later operation on a key replaces the pending one *)
Definition delay_notify (d : dmap) (nt : note) : dmap :=
  nt :: filter (fun p => negb (fst p =? fst nt)) d.

Definition delay_notify_all (d : dmap) (ns : list note) : dmap := fold_left delay_notify ns d.

(** [do_notify]: one SyncBatchInstances with the pending updates and removals; the map is cleared *)
Definition delay_flush (d : dmap) : option smsg * dmap :=
  match d with
  | [] => (None, [])
  | _ =>
      (Some (MBatch (map (fun p => (fst p, fst (snd p))) (filter (fun p => snd (snd p)) d))
                    (map (fun p => (fst p, fst (snd p))) (filter (fun p => negb (snd (snd p))) d))),
       [])
  end.

(** * one anti-entropy exchange: S -> R SyncDistroClientInstances, R -> S
      QueryDistroInstanceSnapshot, S -> R Snapshot *)
Definition exchange (S R : snode) : snode :=
  let '(R1, resp1, _) := recv R (sn_id S) (MDistro (distro_data (sn_id S) (sn_reg S))) in
  match resp1 with
  | [q] =>
      let '(_, resp2, _) := recv S (sn_id R) q in
      match resp2 with
      | [s] => let '(R2, _, _) := recv R1 (sn_id S) s in R2
      | _ => R1
      end
  | _ => R1
  end.

(** node [R] after an exchange with every node of [ss] (in list order) *)
Definition exchange_all (ss : list snode) (R : snode) : snode := fold_left (fun R S => exchange S R) ss R.

(** * views used in the statements *)

(** the node an instance is attributed to on node [id] *)
Definition owner_at (id : N) (i : sinst) : N := if si_from i =? 0 then id else si_from i.

(** what a node answers for a key: (owner node, client, payload) *)
Definition gview (n : snode) (k : skey) : option (N * cid * N) :=
  match aget k (sn_reg n) with
  | Some i => Some (owner_at (sn_id n) i, si_client i, si_val i)
  | None => None
  end.

(** what node [S] itself registers for a key through its own gRPC clients *)
Definition own (S : snode) (k : skey) : option (cid * N) :=
  match aget k (sn_reg S) with
  | Some i => if fst (si_client i) =? sn_id S then Some (si_client i, si_val i) else None
  | None => None
  end.

(** what node [R] holds for a key under a client of node [s] *)
Definition held_for (s : N) (R : snode) (k : skey) : option (cid * N) :=
  match aget k (sn_reg R) with
  | Some i => if fst (si_client i) =? s then Some (si_client i, si_val i) else None
  | None => None
  end.

(** in scope: every client id is non-empty (node part > 0) *)
Definition in_scope (r : sreg) : bool :=
  forallb (fun p => negb (fst (si_client (snd p)) =? 0)) r.
