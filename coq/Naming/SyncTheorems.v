(** Theorems of C15 built on the pointwise specification of one exchange (SyncProofs.v). *)
From RN Require Import Naming.Sync Naming.SyncProofs.
From Coq Require Import ZArith ZifyBool ZifyNat ZifyN.
Ltac Zify.zify_post_hook ::= Z.div_mod_to_equations.
Local Open Scope N_scope.

(** * one anti-entropy round repairs the receiver's view of the sender's gRPC clients *)

(** with synced payloads the pointwise specification does not mention the receiver's old entry
    when the sender registers the key *)
Lemma exchange_spec_synced : forall S R k,
  sn_id S <> sn_id R -> wf_own S -> wf_recv R -> vals_synced S R ->
  aget k (sn_reg (exchange S R)) =
  match own S k with
  | Some (c, v) => Some (mkInst v (sn_id S) c)
  | None =>
      match aget k (sn_reg R) with
      | Some o => if fst (si_client o) =? sn_id S then None else Some o
      | None => None
      end
  end.
Proof.
  intros S R k Hne WS WR VS. rewrite (exchange_spec S R k Hne WS WR).
  destruct (own S k) as [[c v]|] eqn:Ho; [|reflexivity].
  destruct (aget k (sn_reg R)) as [o|] eqn:Go; [|reflexivity].
  destruct (cid_eqb (si_client o) c) eqn:Ec; [|reflexivity].
  apply cid_eqb_eq in Ec. apply own_Some in Ho as Ho'. destruct Ho' as [i [Gi [Hc [Hv Hid]]]].
  destruct WR as [WR1 _]. destruct (WR1 k o Go) as [Hf _]; [congruence|].
  assert (Hh : held_for (sn_id S) R k = Some (c, si_val o)).
  { unfold held_for. rewrite Go, Ec, Hid, N.eqb_refl. reflexivity. }
  pose proof (VS k c v (si_val o) Ho Hh) as Hvv. f_equal.
  destruct o as [ov ofr oc]. cbn [si_val si_from si_client] in *.
  rewrite Hf, Ec, Hid, <- Hvv. reflexivity.
Qed.

(** [distro_round_repairs]: after one SyncDistroClientInstances / QueryDistroInstanceSnapshot /
    Snapshot round with no concurrent operation, the receiver holds — under the sender's clients —
    exactly the keys the sender registers, each under the same client; a key that was missing or
    held under another client carries the sender's payload; and when the payloads of the keys
    both already knew agree (no lost update batch), the receiver's view of the sender's gRPC
    clients EQUALS the sender's *)
Theorem distro_round_repairs : forall S R,
  sn_id S <> sn_id R -> wf_own S -> wf_recv R ->
  let R' := exchange S R in
  (forall k, option_map fst (held_for (sn_id S) R' k) = option_map fst (own S k)) /\
  (forall k c v, own S k = Some (c, v) -> held_for (sn_id S) R k <> Some (c, v) ->
                 (forall v', held_for (sn_id S) R k <> Some (c, v')) ->
                 held_for (sn_id S) R' k = Some (c, v)) /\
  (vals_synced S R -> forall k, held_for (sn_id S) R' k = own S k).
Proof.
  intros S R Hne WS WR R'. split; [|split].
  - intros k. unfold R', held_for. rewrite (exchange_spec S R k Hne WS WR).
    destruct (own S k) as [[c v]|] eqn:Ho.
    + apply own_Some in Ho. destruct Ho as [i [Gi [Hc [Hv Hid]]]].
      destruct (aget k (sn_reg R)) as [o|] eqn:Go.
      * destruct (cid_eqb (si_client o) c) eqn:Ec.
        -- apply cid_eqb_eq in Ec. rewrite Ec, Hid, N.eqb_refl. reflexivity.
        -- cbn [si_client]. rewrite Hid, N.eqb_refl. reflexivity.
      * cbn [si_client]. rewrite Hid, N.eqb_refl. reflexivity.
    + destruct (aget k (sn_reg R)) as [o|] eqn:Go; [|reflexivity].
      destruct (fst (si_client o) =? sn_id S) eqn:Es; [reflexivity|]. rewrite Es. reflexivity.
  - intros k c v Ho _ Hn. unfold R', held_for. rewrite (exchange_spec S R k Hne WS WR), Ho.
    apply own_Some in Ho. destruct Ho as [i [Gi [Hc [Hv Hid]]]].
    destruct (aget k (sn_reg R)) as [o|] eqn:Go.
    + destruct (cid_eqb (si_client o) c) eqn:Ec.
      * exfalso. apply cid_eqb_eq in Ec. apply (Hn (si_val o)). unfold held_for. rewrite Go, Ec, Hid, N.eqb_refl. reflexivity.
      * cbn [si_client si_val]. rewrite Hid, N.eqb_refl. reflexivity.
    + cbn [si_client si_val]. rewrite Hid, N.eqb_refl. reflexivity.
  - intros VS k. unfold R', held_for. rewrite (exchange_spec_synced S R k Hne WS WR VS).
    destruct (own S k) as [[c v]|] eqn:Ho.
    + apply own_Some in Ho. destruct Ho as [i [Gi [Hc [Hv Hid]]]]. cbn [si_client si_val].
      rewrite Hid, N.eqb_refl. reflexivity.
    + destruct (aget k (sn_reg R)) as [o|] eqn:Go; [|reflexivity].
      destruct (fst (si_client o) =? sn_id S) eqn:Es; [reflexivity|]. rewrite Es. reflexivity.
Qed.

(** the exchange compares key sets only: a payload the receiver missed (lost update batch) is NOT
    repaired — recorded as a known finding of C15 *)
Definition stale_S : snode := mkNode 1 [(7, mkInst 200 0 (1, 5))] [].
Definition stale_R : snode := mkNode 2 [(7, mkInst 100 1 (1, 5))] [(1, (1, 5))].

Theorem distro_round_keeps_stale_value :
  exists S R,
    sn_id S <> sn_id R /\ wf_own S /\ wf_recv R /\
    own S 7 = Some ((1, 5), 200) /\ held_for (sn_id S) (exchange S R) 7 = Some ((1, 5), 100).
Proof.
  exists stale_S, stale_R. split; [discriminate|]. split; [|split; [|split; reflexivity]].
  - intros k i G _. unfold stale_S in G. cbn [sn_reg aget] in G.
    destruct (7 =? k); [inversion G; reflexivity|discriminate].
  - split.
    + intros k i G _. unfold stale_R in G. cbn [sn_reg aget] in G.
      destruct (7 =? k); [inversion G; subst; split; reflexivity|discriminate].
    + intros s c [H|[]]. inversion H; reflexivity.
Qed.

(** * the exchange does not disturb what a node registers itself *)
Lemma exchange_keeps_own : forall S R k,
  sn_id S <> sn_id R -> wf_own S -> wf_recv R ->
  (own S k = None \/ own R k = None) -> own (exchange S R) k = own R k.
Proof.
  intros S R k Hne WS WR Hor. unfold own at 1. rewrite exchange_id, (exchange_spec S R k Hne WS WR).
  destruct (own S k) as [[c v]|] eqn:Ho.
  - destruct Hor as [Hor|Hor]; [discriminate|]. apply own_Some in Ho. destruct Ho as [i [Gi [Hc [Hv Hid]]]].
    unfold own in *. destruct (aget k (sn_reg R)) as [o|] eqn:Go.
    + destruct (fst (si_client o) =? sn_id R) eqn:Eo; [discriminate|].
      destruct (cid_eqb (si_client o) c); [rewrite Eo; reflexivity|]. cbn [si_client].
      apply N.eqb_neq in Hne. rewrite Hid, Hne. reflexivity.
    + cbn [si_client]. apply N.eqb_neq in Hne. rewrite Hid, Hne. reflexivity.
  - unfold own. destruct (aget k (sn_reg R)) as [o|] eqn:Go; [|reflexivity].
    destruct (fst (si_client o) =? sn_id S) eqn:Es; [|reflexivity].
    apply N.eqb_eq in Es. rewrite Es. apply N.eqb_neq in Hne. rewrite Hne. reflexivity.
Qed.

(** * a full round: every other node sends its data to R *)

Lemma exchange_all_id : forall ss R, sn_id (exchange_all ss R) = sn_id R.
Proof.
  unfold exchange_all. induction ss as [|S ss IH]; intros R; [reflexivity|].
  cbn [fold_left]. rewrite IH. apply exchange_id.
Qed.

Definition senders_ok (ss : list snode) (R : snode) : Prop :=
  NoDup (map sn_id ss) /\
  (forall S, In S ss -> sn_id S <> sn_id R /\ wf_own S /\ vals_synced S R).

Lemma vals_synced_exchange : forall S T R,
  sn_id S <> sn_id R -> sn_id T <> sn_id S -> wf_own S -> wf_recv R -> vals_synced S R ->
  vals_synced T R -> vals_synced T (exchange S R).
Proof.
  intros S T R Hne Hts WS WR VS VT k c v v' Ho Hh. unfold held_for in Hh.
  rewrite (exchange_spec_synced S R k Hne WS WR VS) in Hh.
  destruct (own S k) as [[c1 v1]|] eqn:Ho1.
  - apply own_Some in Ho1. destruct Ho1 as [i [Gi [Hc [Hv Hid]]]]. cbn [si_client] in Hh.
    apply N.eqb_neq in Hts. rewrite Hid, N.eqb_sym, Hts in Hh. discriminate.
  - apply (VT k c v v' Ho). unfold held_for. destruct (aget k (sn_reg R)) as [o|]; [|discriminate].
    destruct (fst (si_client o) =? sn_id S); [discriminate|]. exact Hh.
Qed.

(** frame: a key that none of the senders registers keeps the receiver's entry, unless that
    entry is held under a client of one of the senders (then it is removed) *)
Lemma exchange_all_frame : forall ss R k,
  senders_ok ss R -> wf_recv R -> (forall S, In S ss -> own S k = None) ->
  wf_recv (exchange_all ss R) /\
  aget k (sn_reg (exchange_all ss R)) =
  match aget k (sn_reg R) with
  | Some o => if existsb (fun S => fst (si_client o) =? sn_id S) ss then None else Some o
  | None => None
  end.
Proof.
  unfold exchange_all. induction ss as [|S ss IH]; intros R k [ND OK] WR Hn.
  - cbn [fold_left existsb]. split; [exact WR|]. destruct (aget k (sn_reg R)); reflexivity.
  - cbn [fold_left]. cbn [map] in ND. inversion ND as [|? ? Hnotin ND']; subst.
    destruct (OK S (or_introl eq_refl)) as [Hne [WS VS]].
    assert (OK' : senders_ok ss (exchange S R)).
    { split; [exact ND'|]. intros T HT. destruct (OK T (or_intror HT)) as [HneT [WT VT]].
      rewrite exchange_id. split; [exact HneT|]. split; [exact WT|].
      apply vals_synced_exchange; try assumption. intro E. apply Hnotin. rewrite <- E.
      apply in_map. exact HT. }
    destruct (IH (exchange S R) k OK' (exchange_wf_recv S R Hne WS WR)
                 (fun T HT => Hn T (or_intror HT))) as [W' E'].
    split; [exact W'|]. rewrite E', (exchange_spec_synced S R k Hne WS WR VS), (Hn S (or_introl eq_refl)).
    cbn [existsb]. destruct (aget k (sn_reg R)) as [o|]; [|reflexivity].
    destruct (fst (si_client o) =? sn_id S); cbn [orb]; reflexivity.
Qed.

(** a key registered by one of the senders ends up as that sender's instance *)
Lemma exchange_all_owner : forall ss R k S c v,
  senders_ok ss R -> wf_recv R ->
  (forall S1 S2, In S1 ss -> In S2 ss -> own S1 k <> None -> own S2 k <> None -> S1 = S2) ->
  In S ss -> own S k = Some (c, v) ->
  aget k (sn_reg (exchange_all ss R)) = Some (mkInst v (sn_id S) c).
Proof.
  unfold exchange_all. induction ss as [|S0 ss IH]; intros R k S c v [ND OK] WR Uniq HS Ho; [contradiction|].
  cbn [fold_left]. cbn [map] in ND. inversion ND as [|? ? Hnotin ND']; subst.
  destruct (OK S0 (or_introl eq_refl)) as [Hne [WS VS]].
  assert (OK' : senders_ok ss (exchange S0 R)).
  { split; [exact ND'|]. intros T HT. destruct (OK T (or_intror HT)) as [HneT [WT VT]].
    rewrite exchange_id. split; [exact HneT|]. split; [exact WT|].
    apply vals_synced_exchange; try assumption. intro E. apply Hnotin. rewrite <- E.
    apply in_map. exact HT. }
  pose proof (exchange_wf_recv S0 R Hne WS WR) as WR'.
  destruct HS as [HS|HS].
  - subst S0.
    assert (Hn : forall T, In T ss -> own T k = None).
    { intros T HT. destruct (own T k) eqn:E; [|reflexivity]. exfalso.
      assert (S = T) by (apply Uniq; [left; reflexivity|right; exact HT|congruence|congruence]).
      subst T. apply Hnotin. apply in_map. exact HT. }
    destruct (exchange_all_frame ss (exchange S R) k OK' WR' Hn) as [_ E]. unfold exchange_all in E.
    rewrite E, (exchange_spec_synced S R k Hne WS WR VS), Ho. cbn [si_client].
    apply own_Some in Ho. destruct Ho as [i [Gi [Hc [Hv Hid]]]].
    assert (Hex : existsb (fun T => fst c =? sn_id T) ss = false).
    { destruct (existsb (fun T => fst c =? sn_id T) ss) eqn:Ex; [|reflexivity]. exfalso.
      apply existsb_exists in Ex. destruct Ex as [T [HT ET]]. apply N.eqb_eq in ET. apply Hnotin.
      rewrite <- Hid, ET. apply in_map. exact HT. }
    rewrite Hex. reflexivity.
  - apply (IH (exchange S0 R) k S c v OK' WR'); try assumption.
    intros S1 S2 H1 H2. apply Uniq; right; assumption.
Qed.

(** * the quiescent fixpoint *)

Definition others (ns : list snode) (R : snode) : list snode :=
  filter (fun S => negb (sn_id S =? sn_id R)) ns.

(** [quiescent_fixpoint]: no client operation in flight, all queues drained (payloads of commonly
    known keys agree), every stored instance belongs to a client of a live node, every key is
    registered by at most one node; then after ONE anti-entropy round (every node receives the
    exchange of every other node) all live nodes answer the same for every key: the instance of
    the node that registers it, or nothing *)
Theorem quiescent_fixpoint : forall ns : list snode,
  NoDup (map sn_id ns) ->
  (forall n, In n ns -> sn_id n <> 0 /\ wf_own n /\ wf_recv n) ->
  (forall S R, In S ns -> In R ns -> sn_id S <> sn_id R -> vals_synced S R) ->
  (forall S1 S2 k, In S1 ns -> In S2 ns -> own S1 k <> None -> own S2 k <> None -> S1 = S2) ->
  (forall R k i, In R ns -> aget k (sn_reg R) = Some i -> exists S, In S ns /\ sn_id S = fst (si_client i)) ->
  forall k,
    (forall S c v R, In S ns -> own S k = Some (c, v) -> In R ns ->
       gview (exchange_all (others ns R) R) k = Some (sn_id S, c, v)) /\
    ((forall S, In S ns -> own S k = None) ->
       forall R, In R ns -> gview (exchange_all (others ns R) R) k = None) /\
    (forall R1 R2, In R1 ns -> In R2 ns ->
       gview (exchange_all (others ns R1) R1) k = gview (exchange_all (others ns R2) R2) k).
Proof.
  intros ns ND WF VS Uniq Live k.
  assert (SOK : forall R, In R ns -> senders_ok (others ns R) R).
  { intros R HR. split.
    - unfold others. clear -ND. induction ns as [|a l IH]; [constructor|]. cbn [map] in ND.
      inversion ND as [|? ? Hn ND']; subst. cbn [filter]. destruct (negb (sn_id a =? sn_id R)); [|auto].
      cbn [map]. constructor; [|auto]. intro H. apply Hn. apply in_map_iff in H. destruct H as [x [Hx Hin]].
      apply filter_In in Hin. apply in_map_iff. exists x. tauto.
    - intros S HS. apply filter_In in HS. destruct HS as [HS Hne]. apply negb_true_iff, N.eqb_neq in Hne.
      split; [exact Hne|]. split; [apply (WF S HS)|apply VS; assumption]. }
  assert (In_others : forall S R, In S ns -> sn_id S <> sn_id R -> In S (others ns R)).
  { intros S R HS Hne. apply filter_In. split; [exact HS|]. apply negb_true_iff, N.eqb_neq. exact Hne. }
  assert (Id_inj : forall S R, In S ns -> In R ns -> sn_id S = sn_id R -> S = R).
  { clear -ND. induction ns as [|a l IH]; intros S R HS HR E; [contradiction|]. cbn [map] in ND.
    inversion ND as [|? ? Hn ND']; subst. destruct HS as [HS|HS]; destruct HR as [HR|HR]; subst.
    - reflexivity.
    - exfalso. apply Hn. rewrite E. apply in_map. exact HR.
    - exfalso. apply Hn. rewrite <- E. apply in_map. exact HS.
    - apply IH; assumption. }
  assert (A : forall S c v R, In S ns -> own S k = Some (c, v) -> In R ns ->
                gview (exchange_all (others ns R) R) k = Some (sn_id S, c, v)).
  { intros S c v R HS Ho HR. unfold gview. rewrite exchange_all_id.
    destruct (N.eq_dec (sn_id S) (sn_id R)) as [E|Hne].
    - (* R registers the key itself: nobody else does, its own entry stays *)
      assert (S = R) by (apply Id_inj; assumption). subst S.
      assert (Hn : forall T, In T (others ns R) -> own T k = None).
      { intros T HT. apply filter_In in HT. destruct HT as [HT HneT]. destruct (own T k) eqn:Eo; [|reflexivity].
        exfalso. assert (R = T) by (apply (Uniq R T k); try assumption; congruence). subst T.
        rewrite N.eqb_refl in HneT. discriminate. }
      destruct (exchange_all_frame (others ns R) R k (SOK R HR) (proj2 (proj2 (WF R HR))) Hn) as [_ Eq].
      rewrite Eq. apply own_Some in Ho. destruct Ho as [i [Gi [Hc [Hv Hid]]]]. rewrite Gi.
      assert (Hex : existsb (fun T => fst (si_client i) =? sn_id T) (others ns R) = false).
      { destruct (existsb (fun T => fst (si_client i) =? sn_id T) (others ns R)) eqn:Ex; [|reflexivity].
        exfalso. apply existsb_exists in Ex. destruct Ex as [T [HT ET]]. apply N.eqb_eq in ET.
        apply filter_In in HT. destruct HT as [_ HneT]. apply negb_true_iff, N.eqb_neq in HneT. congruence. }
      rewrite Hex. unfold owner_at. destruct (WF R HR) as [_ [WO _]]. rewrite (WO k i Gi) by congruence.
      cbn [N.eqb]. subst. reflexivity.
    - rewrite (exchange_all_owner (others ns R) R k S c v (SOK R HR) (proj2 (proj2 (WF R HR)))).
      + unfold owner_at. cbn [si_from si_client si_val]. destruct (WF S HS) as [Hnz _].
        apply N.eqb_neq in Hnz. rewrite Hnz. reflexivity.
      + intros S1 S2 H1 H2. apply filter_In in H1. apply filter_In in H2. apply (Uniq S1 S2 k); tauto.
      + apply In_others; assumption.
      + exact Ho. }
  assert (B : (forall S, In S ns -> own S k = None) ->
              forall R, In R ns -> gview (exchange_all (others ns R) R) k = None).
  { intros Hn R HR. unfold gview.
    destruct (exchange_all_frame (others ns R) R k (SOK R HR) (proj2 (proj2 (WF R HR)))) as [_ Eq].
    { intros T HT. apply filter_In in HT. apply Hn. tauto. }
    rewrite Eq. destruct (aget k (sn_reg R)) as [o|] eqn:Go; [|reflexivity].
    destruct (Live R k o HR Go) as [T [HT ET]].
    assert (HneT : sn_id T <> sn_id R).
    { intro E. assert (T = R) by (apply Id_inj; assumption). subst T.
      specialize (Hn R HR). unfold own in Hn. rewrite Go, <- ET, N.eqb_refl in Hn. discriminate. }
    assert (Hex : existsb (fun T => fst (si_client o) =? sn_id T) (others ns R) = true).
    { apply existsb_exists. exists T. split; [apply In_others; assumption|]. rewrite ET. apply N.eqb_refl. }
    rewrite Hex. reflexivity. }
  split; [exact A|]. split; [exact B|].
  intros R1 R2 H1 H2.
  assert (Dec : (exists S c v, In S ns /\ own S k = Some (c, v)) \/ (forall S, In S ns -> own S k = None)).
  { clear. induction ns as [|a l IH]; [right; intros S []|].
    destruct (own a k) as [[c v]|] eqn:E; [left; exists a, c, v; split; [left; reflexivity|exact E]|].
    destruct IH as [[S [c [v [HS Ho]]]]|Hn]; [left; exists S, c, v; split; [right; exact HS|exact Ho]|].
    right. intros S [HS|HS]; [subst; exact E|apply Hn; exact HS]. }
  destruct Dec as [[S [c [v [HS Ho]]]]|Hn].
  - rewrite (A S c v R1 HS Ho H1), (A S c v R2 HS Ho H2). reflexivity.
  - rewrite (B Hn R1 H1), (B Hn R2 H2). reflexivity.
Qed.

(** * node death *)

(** [dead_node_clients_removed]: when node [d] is marked invalid on [R], every instance held
    under a client of [d] disappears from [R], and nothing else changes *)
Theorem dead_node_clients_removed : forall R d k,
  d <> sn_id R -> wf_recv R ->
  aget k (sn_reg (fst (mark_dead R d))) =
  match aget k (sn_reg R) with
  | Some o => if fst (si_client o) =? d then None else Some o
  | None => None
  end.
Proof.
  intros R d k Hne [WR1 WR2]. unfold mark_dead.
  destruct (reg_remove_clients (sn_reg R) (peers_of d (sn_peers R))) as [r1 ns] eqn:E. cbn [fst sn_reg].
  replace r1 with (fst (reg_remove_clients (sn_reg R) (peers_of d (sn_peers R)))) by (rewrite E; reflexivity).
  rewrite aget_reg_remove_clients. destruct (aget k (sn_reg R)) as [o|] eqn:Go; [|reflexivity].
  destruct (fst (si_client o) =? d) eqn:Ed.
  - apply N.eqb_eq in Ed. destruct (WR1 k o Go) as [_ Hp]; [congruence|].
    apply peers_has_In in Hp. rewrite Ed in Hp. apply peers_of_In, cid_mem_In in Hp. rewrite Hp. reflexivity.
  - destruct (cid_mem (si_client o) (peers_of d (sn_peers R))) eqn:M; [|reflexivity].
    apply cid_mem_In, peers_of_In, WR2 in M. apply N.eqb_neq in Ed. contradiction.
Qed.

Corollary dead_node_view_empty : forall R d k,
  d <> sn_id R -> wf_recv R -> held_for d (fst (mark_dead R d)) k = None.
Proof.
  intros R d k Hne WR. unfold held_for. rewrite (dead_node_clients_removed R d k Hne WR).
  destruct (aget k (sn_reg R)) as [o|]; [|reflexivity].
  destruct (fst (si_client o) =? d) eqn:E; [reflexivity|]. rewrite E. reflexivity.
Qed.

(** the client ids of the dead node are forgotten *)
Lemma dead_node_peers_cleared : forall R d, peers_of d (sn_peers (fst (mark_dead R d))) = [].
Proof.
  intros R d. unfold mark_dead. destruct (reg_remove_clients (sn_reg R) (peers_of d (sn_peers R))).
  cbn [fst sn_peers]. unfold peers_of, peers_clear. induction (sn_peers R) as [|p ps IH]; [reflexivity|].
  cbn [filter]. destruct (fst p =? d) eqn:E; cbn [negb]; [exact IH|]. cbn [filter]. rewrite E. exact IH.
Qed.

(** * (re)join *)

(** what the joining node [J] holds after asking [S] for its snapshot (QuerySnapshot -> Snapshot) *)
Definition join_pull (J S : snode) : snode :=
  let '(_, resp, _) := recv S (sn_id J) MQuerySnapshot in
  match resp with
  | [m] => let '(J', _, _) := recv J (sn_id S) m in J'
  | _ => J
  end.

(** [rejoin_receives_snapshot]: whatever [J] held before (in particular nothing, after a restart),
    after the snapshot of [S] it holds every instance [S] registers through its own clients,
    attributed to [S], and knows the client id for [S] *)
Theorem rejoin_receives_snapshot : forall J S k c v,
  sn_id S <> 0 -> wf_own S -> own S k = Some (c, v) ->
  aget k (sn_reg (join_pull J S)) = Some (mkInst v (sn_id S) c) /\
  peers_has (sn_id S) c (sn_peers (join_pull J S)) = true.
Proof.
  intros J S k c v Hnz WS Ho. unfold join_pull. cbn [recv sn_id sn_reg sn_peers].
  apply own_Some in Ho. destruct Ho as [i [Gi [Hc [Hv Hid]]]].
  assert (Hfrom : si_from i = 0) by (apply (WS k i Gi); congruence).
  assert (Hin : In (k, i) (build_snapshot (sn_reg S))).
  { unfold build_snapshot. apply build_distro_In. split; [eapply aget_In_keys; eassumption|tauto]. }
  assert (Hres : reset_from (sn_id S) i = mkInst v (sn_id S) c).
  { unfold reset_from. rewrite Hfrom. cbn [N.eqb]. subst. reflexivity. }
  split.
  - rewrite aget_reg_receive. unfold build_snapshot. rewrite last_bind_build.
    assert (M : memb k (map fst (sn_reg S)) = true) by (apply memb_In; eapply aget_In_keys; eassumption).
    rewrite M, Gi, Hfrom. cbn [N.eqb]. rewrite Hres. reflexivity.
  - apply peers_has_In, peers_add_In. left. exists c. split; [|reflexivity].
    unfold clients_from. apply in_map_iff. exists (k, mkInst v (sn_id S) c). split; [reflexivity|].
    apply filter_In. split; [|cbn [snd si_from]; apply N.eqb_refl].
    unfold reset_all. apply in_map_iff. exists (k, i). split; [cbn [fst snd]; rewrite Hres; reflexivity|exact Hin].
Qed.

(** ... and when that node dies afterwards, the rejoined node - which learnt the instance through the
    SNAPSHOT only, no batch and no anti-entropy round in between - drops it like everybody else:
    the snapshot arm records the sender's client ids ([AddClientIds]) *)
Corollary rejoin_then_death_clean : forall J S k c v,
  sn_id S <> 0 -> wf_own S -> own S k = Some (c, v) ->
  aget k (sn_reg (fst (mark_dead (join_pull J S) (sn_id S)))) = None.
Proof.
  intros J S k c v Hnz WS Ho. destruct (rejoin_receives_snapshot J S k c v Hnz WS Ho) as [Hk Hp].
  unfold mark_dead.
  destruct (reg_remove_clients (sn_reg (join_pull J S)) (peers_of (sn_id S) (sn_peers (join_pull J S)))) as [r1 ns] eqn:E.
  cbn [fst sn_reg].
  replace r1 with (fst (reg_remove_clients (sn_reg (join_pull J S)) (peers_of (sn_id S) (sn_peers (join_pull J S)))))
    by (rewrite E; reflexivity).
  rewrite aget_reg_remove_clients, Hk. cbn [si_client].
  apply peers_has_In, peers_of_In, cid_mem_In in Hp. rewrite Hp. reflexivity.
Qed.


(** * applying a batch *)

(** an update entry of a batch with distinct keys is what the receiver stores, attributed to the
    sender; a removal entry removes the receiver's instance when it is held under the same client
    and is refused otherwise (a re-registration by another client survives a delayed removal) *)
Theorem batch_apply : forall R s upd rem k,
  NoDup (map fst upd) ->
  let R' := fst (fst (recv R s (MBatch upd rem))) in
  (forall i, In (k, i) upd -> aget k (sn_reg R') = Some (reset_from s i)) /\
  (~ In k (map fst upd) ->
     aget k (sn_reg R') =
     match aget k (sn_reg R) with
     | Some o => if existsb (fun p => (fst p =? k) && cid_eqb (si_client o) (si_client (snd p))) rem
                 then None else Some o
     | None => None
     end).
Proof.
  intros R s upd rem k ND R'. unfold R'. cbn [recv].
  destruct (reg_delete_batch (sn_reg R) rem) as [r1 ns] eqn:E. cbn [fst sn_reg].
  replace r1 with (fst (reg_delete_batch (sn_reg R) rem)) by (rewrite E; reflexivity).
  rewrite aget_reg_receive. split.
  - intros i Hin.
    assert (L : last_bind k (reset_all s upd) = Some (reset_from s i)).
    { clear -ND Hin. unfold reset_all. induction upd as [|[k' i'] l IH]; [contradiction|].
      cbn [map fst] in ND. inversion ND as [|? ? Hn ND']; subst. cbn [map last_bind fst snd].
      destruct Hin as [Hin|Hin].
      - inversion Hin; subst.
        assert (Ln : last_bind k (map (fun p => (fst p, reset_from s (snd p))) l) = None).
        { clear -Hn. induction l as [|[k2 i2] l IH]; [reflexivity|]. cbn [map last_bind fst snd].
          cbn [map fst In] in Hn. rewrite IH by tauto. destruct (k2 =? k) eqn:E; [|reflexivity].
          apply N.eqb_eq in E. tauto. }
        rewrite Ln, N.eqb_refl. reflexivity.
      - rewrite (IH ND' Hin). reflexivity. }
    rewrite L. reflexivity.
  - intros Hn.
    assert (L : last_bind k (reset_all s upd) = None).
    { clear -Hn. unfold reset_all. induction upd as [|[k2 i2] l IH]; [reflexivity|]. cbn [map last_bind fst snd].
      cbn [map fst In] in Hn. rewrite IH by tauto. destruct (k2 =? k) eqn:E; [|reflexivity].
      apply N.eqb_eq in E. tauto. }
    rewrite L. apply aget_reg_delete_batch.
Qed.

(** * non-vacuity: a concrete quiescent 3-node cluster in which the round changes something *)

(** node 1 registers keys 10 (client 1_1) and 11 (client 1_2); node 2 registers key 20; node 3
    nothing.  Node 2 misses key 11 and still holds key 12 under the closed client 1_2; node 3
    holds nothing of node 1 and a stale key 21 of node 2 under a client node 2 still lists. *)
Definition ex_n1 : snode :=
  mkNode 1 [(10, mkInst 1 0 (1, 1)); (11, mkInst 2 0 (1, 2)); (20, mkInst 5 2 (2, 1))] [(2, (2, 1))].
Definition ex_n2 : snode :=
  mkNode 2 [(20, mkInst 5 0 (2, 1)); (10, mkInst 1 1 (1, 1)); (12, mkInst 9 1 (1, 2))]
           [(1, (1, 1)); (1, (1, 2))].
Definition ex_n3 : snode :=
  mkNode 3 [(21, mkInst 7 2 (2, 1))] [(2, (2, 1))].
Definition ex_cluster : list snode := [ex_n1; ex_n2; ex_n3].

Definition wf_ownb (S : snode) : bool :=
  forallb (fun p => negb (fst (si_client (snd p)) =? sn_id S) || (si_from (snd p) =? 0)) (sn_reg S).

Lemma aget_In : forall k r i, aget k r = Some i -> In (k, i) r.
Proof.
  induction r as [|[k' j] r IH]; cbn [aget In]; intros i H; [discriminate|].
  destruct (k' =? k) eqn:E; [apply N.eqb_eq in E; inversion H; subst; left; reflexivity|right; apply IH; exact H].
Qed.

Lemma wf_ownb_sound : forall S, wf_ownb S = true -> wf_own S.
Proof.
  intros S H k i G Hid. unfold wf_ownb in H. rewrite forallb_forall in H. specialize (H (k, i) (aget_In _ _ _ G)).
  cbn [snd] in H. apply orb_true_iff in H. destruct H as [H|H].
  - apply negb_true_iff, N.eqb_neq in H. contradiction.
  - apply N.eqb_eq. exact H.
Qed.

Definition wf_recvb (R : snode) : bool :=
  forallb (fun p => (fst (si_client (snd p)) =? sn_id R) ||
                    ((si_from (snd p) =? fst (si_client (snd p))) &&
                     peers_has (fst (si_client (snd p))) (si_client (snd p)) (sn_peers R))) (sn_reg R) &&
  forallb (fun x => fst (snd x) =? fst x) (sn_peers R).

Lemma wf_recvb_sound : forall R, wf_recvb R = true -> wf_recv R.
Proof.
  intros R H. unfold wf_recvb in H. apply andb_true_iff in H. destruct H as [H1 H2].
  rewrite forallb_forall in H1, H2. split.
  - intros k i G Hc. specialize (H1 (k, i) (aget_In _ _ _ G)). cbn [snd] in H1.
    apply orb_true_iff in H1. destruct H1 as [H1|H1]; [apply N.eqb_eq in H1; contradiction|].
    apply andb_true_iff in H1. destruct H1 as [Hf Hp]. apply N.eqb_eq in Hf. tauto.
  - intros s c Hin. specialize (H2 (s, c) Hin). cbn [fst snd] in H2. apply N.eqb_eq. exact H2.
Qed.

Example ex_cluster_hyps :
  NoDup (map sn_id ex_cluster) /\
  (forall n, In n ex_cluster -> sn_id n <> 0 /\ wf_own n /\ wf_recv n) /\
  map (fun R => map (gview R) [10; 11; 12; 20; 21]) ex_cluster <>
  map (fun R => map (gview (exchange_all (others ex_cluster R) R)) [10; 11; 12; 20; 21]) ex_cluster.
Proof.
  split; [repeat constructor; cbn; intuition discriminate|]. split.
  - intros n [H|[H|[H|[]]]]; subst n; (split; [discriminate|]);
      (split; [apply wf_ownb_sound; reflexivity|apply wf_recvb_sound; reflexivity]).
  - vm_compute. discriminate.
Qed.

(** the outcome of the round on the concrete cluster: all three nodes answer the same *)
Example ex_cluster_converges :
  map (fun R => map (gview (exchange_all (others ex_cluster R) R)) [10; 11; 12; 20; 21]) ex_cluster =
  let row := [Some (1, (1, 1), 1); Some (1, (1, 2), 2); None; Some (2, (2, 1), 5); None] in
  [row; row; row].
Proof. vm_compute. reflexivity. Qed.

(** the dead-node and rejoin theorems on concrete states *)
Example ex_dead_and_rejoin :
  map (gview (fst (mark_dead ex_n2 1))) [10; 12; 20] = [None; None; Some (2, (2, 1), 5)] /\
  map (gview (join_pull (mkNode 3 [] []) ex_n1)) [10; 11; 20] =
    [Some (1, (1, 1), 1); Some (1, (1, 2), 2); None].
Proof. vm_compute. split; reflexivity. Qed.

(** last-op-wins on a concrete notification sequence: update, remove, update of key 4; remove of
    key 5; the batch carries the last update of 4 and the removal of 5 *)
Example ex_batch :
  fst (delay_flush (delay_notify_all []
        [(4, (mkInst 1 0 (1, 1), true)); (5, (mkInst 2 0 (1, 1), true)); (4, (mkInst 1 0 (1, 1), false));
         (4, (mkInst 3 0 (1, 1), true)); (5, (mkInst 2 0 (1, 1), false))])) =
  Some (MBatch [(4, mkInst 3 0 (1, 1))] [(5, mkInst 2 0 (1, 1))]).
Proof. vm_compute. reflexivity. Qed.

(** boolean forms of the remaining hypotheses of [quiescent_fixpoint], to show that the concrete
    cluster satisfies ALL of them *)
Definition vals_syncedb (S R : snode) : bool :=
  forallb (fun p => match own S (fst p), held_for (sn_id S) R (fst p) with
                    | Some (c, v), Some (c', v') => negb (cid_eqb c c') || (v =? v')
                    | _, _ => true
                    end) (sn_reg S).

Lemma vals_syncedb_sound : forall S R, vals_syncedb S R = true -> vals_synced S R.
Proof.
  intros S R H k c v v' Ho Hh. unfold vals_syncedb in H. rewrite forallb_forall in H.
  pose proof Ho as Ho'. apply own_Some in Ho'. destruct Ho' as [i [Gi _]].
  specialize (H (k, i) (aget_In _ _ _ Gi)). cbn [fst] in H. rewrite Ho, Hh, cid_eqb_refl in H.
  cbn [negb orb] in H. apply N.eqb_eq. exact H.
Qed.

Definition disjoint_ownb (S1 S2 : snode) : bool :=
  forallb (fun p => match own S1 (fst p), own S2 (fst p) with Some _, Some _ => false | _, _ => true end)
          (sn_reg S1).

Lemma disjoint_ownb_sound : forall S1 S2 k,
  disjoint_ownb S1 S2 = true -> own S1 k <> None -> own S2 k <> None -> False.
Proof.
  intros S1 S2 k H H1 H2. unfold disjoint_ownb in H. rewrite forallb_forall in H.
  destruct (own S1 k) as [[c v]|] eqn:E1; [|congruence]. pose proof E1 as E1'. apply own_Some in E1'.
  destruct E1' as [i [Gi _]]. specialize (H (k, i) (aget_In _ _ _ Gi)). cbn [fst] in H. rewrite E1 in H.
  destruct (own S2 k); [discriminate|congruence].
Qed.

Definition liveb_all (ns : list snode) (R : snode) : bool :=
  forallb (fun p => existsb (fun S => sn_id S =? fst (si_client (snd p))) ns) (sn_reg R).

Lemma liveb_all_sound : forall ns R k i,
  liveb_all ns R = true -> aget k (sn_reg R) = Some i -> exists S, In S ns /\ sn_id S = fst (si_client i).
Proof.
  intros ns R k i H G. unfold liveb_all in H. rewrite forallb_forall in H.
  specialize (H (k, i) (aget_In _ _ _ G)). cbn [snd] in H. apply existsb_exists in H.
  destruct H as [S [HS E]]. exists S. split; [exact HS|apply N.eqb_eq; exact E].
Qed.

Example ex_cluster_all_hyps :
  (forall S R, In S ex_cluster -> In R ex_cluster -> sn_id S <> sn_id R -> vals_synced S R) /\
  (forall S1 S2 k, In S1 ex_cluster -> In S2 ex_cluster -> own S1 k <> None -> own S2 k <> None -> S1 = S2) /\
  (forall R k i, In R ex_cluster -> aget k (sn_reg R) = Some i ->
                 exists S, In S ex_cluster /\ sn_id S = fst (si_client i)).
Proof.
  split; [|split].
  - intros S R [HS|[HS|[HS|[]]]] [HR|[HR|[HR|[]]]] _; subst S R; apply vals_syncedb_sound; reflexivity.
  - intros S1 S2 k [H1|[H1|[H1|[]]]] [H2|[H2|[H2|[]]]] O1 O2; subst S1 S2; try reflexivity;
      exfalso; refine (disjoint_ownb_sound _ _ k _ O1 O2); reflexivity.
  - intros R k i [HR|[HR|[HR|[]]]] G; subst R; eapply liveb_all_sound; try eassumption; reflexivity.
Qed.
