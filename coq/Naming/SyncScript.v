(** Executable glue for the correspondence check of C15: a small cluster simulator over the
    model of Naming/Sync.v driven by the same operation scripts as the `sync` harness suite
    (real actors).  No proofs depend on this file. *)
From RN Require Import Naming.Sync.
Local Open Scope N_scope.

Inductive sop :=
| OReg (n : N) (c : N * N) (k v : N)      (* registerInstance on node n over connection c *)
| ODereg (n : N) (c : N * N) (k : N)
| ODisc (n : N) (c : N * N)               (* connection closed *)
| OFlush (n : N)                          (* the delay actor's 500 ms tick *)
| ODistro (n : N)                         (* send_distort_data *)
| OQSnap (n : N)                          (* load_snapshot_from_node *)
| OKill (at_ d : N)                       (* check_node_status on at_ finds d silent *)
| ODeliver (a b : N)                      (* the oldest request a -> b reaches b *)
| ODrop (a b : N)                         (* ... is lost *)
| ORestart (n : N)
| ODump.

Record cstate := mkC {
  c_nodes : list (N * (snode * dmap));
  c_net : list ((N * N) * list smsg);
  c_inv : list (N * N)                    (* (at, d): d has status Invalid on at *)
}.

Definition pair_eqb (a b : N * N) : bool := (fst a =? fst b) && (snd a =? snd b).

Fixpoint nget (n : N) (l : list (N * (snode * dmap))) : option (snode * dmap) :=
  match l with [] => None | (m, x) :: l' => if m =? n then Some x else nget n l' end.

Fixpoint nset (n : N) (x : snode * dmap) (l : list (N * (snode * dmap))) : list (N * (snode * dmap)) :=
  match l with
  | [] => []
  | (m, y) :: l' => if m =? n then (m, x) :: l' else (m, y) :: nset n x l'
  end.

Fixpoint qpush (p : N * N) (m : smsg) (q : list ((N * N) * list smsg)) : list ((N * N) * list smsg) :=
  match q with
  | [] => [(p, [m])]
  | (p', ms) :: q' => if pair_eqb p' p then (p', ms ++ [m]) :: q' else (p', ms) :: qpush p m q'
  end.

Fixpoint qpop (p : N * N) (q : list ((N * N) * list smsg)) : option smsg * list ((N * N) * list smsg) :=
  match q with
  | [] => (None, [])
  | (p', ms) :: q' =>
      if pair_eqb p' p then
        match ms with [] => (None, q) | m :: ms' => (Some m, (p', ms') :: q') end
      else let (r, q2) := qpop p q' in (r, (p', ms) :: q2)
  end.

Definition ids_of (s : cstate) : list N := map fst (c_nodes s).
Definition is_inv (s : cstate) (a b : N) : bool := existsb (pair_eqb (a, b)) (c_inv s).

(** SendToOtherNodes(req) with is_valid = true *)
Definition valid_targets (s : cstate) (a : N) : list N :=
  filter (fun b => negb (b =? a) && negb (is_inv s a b)) (ids_of s).
Definition all_targets (s : cstate) (a : N) : list N := filter (fun b => negb (b =? a)) (ids_of s).

Definition send_all (a : N) (bs : list N) (m : smsg) (q : list ((N * N) * list smsg)) :=
  fold_left (fun q b => qpush (a, b) m q) bs q.

Definition revive (s : cstate) (at_ d : N) : list (N * N) :=
  filter (fun p => negb (pair_eqb p (at_, d))) (c_inv s).

(** does the delivery of [m] from [a] make [a] valid again on the receiver (active_node)? *)
Definition activates (a : N) (m : smsg) : bool :=
  match m with
  | MQuerySnapshot => true
  | MBatch upd _ => match clients_from a (reset_all a upd) with [] => false | _ => true end
  | MSnapshot is => match clients_from a (reset_all a is) with [] => false | _ => true end
  | _ => false
  end.

Definition step (s : cstate) (o : sop) : cstate :=
  match o with
  | OReg n c k v =>
      match nget n (c_nodes s) with
      | Some (nd, d) => let (nd', ns) := op_register nd c k v in
                        mkC (nset n (nd', delay_notify_all d ns) (c_nodes s)) (c_net s) (c_inv s)
      | None => s
      end
  | ODereg n c k =>
      match nget n (c_nodes s) with
      | Some (nd, d) => let (nd', ns) := op_deregister nd c k in
                        mkC (nset n (nd', delay_notify_all d ns) (c_nodes s)) (c_net s) (c_inv s)
      | None => s
      end
  | ODisc n c =>
      match nget n (c_nodes s) with
      | Some (nd, d) =>
          let '(nd', ms, ns) := op_disconnect nd c in
          mkC (nset n (nd', delay_notify_all d ns) (c_nodes s))
              (fold_left (fun q m => send_all n (valid_targets s n) m q) ms (c_net s)) (c_inv s)
      | None => s
      end
  | OFlush n =>
      match nget n (c_nodes s) with
      | Some (nd, d) =>
          match delay_flush d with
          | (Some m, d') => mkC (nset n (nd, d') (c_nodes s)) (send_all n (valid_targets s n) m (c_net s)) (c_inv s)
          | (None, _) => s
          end
      | None => s
      end
  | ODistro n =>
      match nget n (c_nodes s) with
      | Some (nd, _) =>
          mkC (c_nodes s) (send_all n (all_targets s n) (MDistro (distro_data (sn_id nd) (sn_reg nd))) (c_net s)) (c_inv s)
      | None => s
      end
  | OQSnap n => mkC (c_nodes s) (send_all n (valid_targets s n) MQuerySnapshot (c_net s)) (c_inv s)
  | OKill at_ d =>
      if is_inv s at_ d then s else
      match nget at_ (c_nodes s) with
      | Some (nd, dm) => let (nd', ns) := mark_dead nd d in
                         mkC (nset at_ (nd', delay_notify_all dm ns) (c_nodes s)) (c_net s) ((at_, d) :: c_inv s)
      | None => s
      end
  | ODeliver a b =>
      match qpop (a, b) (c_net s) with
      | (Some m, q) =>
          match nget b (c_nodes s) with
          | Some (nd, dm) =>
              let '(nd', resp, ns) := recv nd a m in
              mkC (nset b (nd', delay_notify_all dm ns) (c_nodes s))
                  (fold_left (fun q r => qpush (b, a) r q) resp q)
                  (if activates a m then revive s b a else c_inv s)
          | None => mkC (c_nodes s) q (c_inv s)
          end
      | (None, _) => s
      end
  | ODrop a b => let (_, q) := qpop (a, b) (c_net s) in mkC (c_nodes s) q (c_inv s)
  | ORestart n =>
      mkC (nset n (mkNode n [] [], []) (c_nodes s))
          (filter (fun e => negb ((fst (fst e) =? n) || (snd (fst e) =? n))) (c_net s))
          (filter (fun p => negb (fst p =? n)) (c_inv s))
  | ODump => s
  end.

Definition dump_of (s : cstate) :=
  (map (fun e => (fst e, sn_reg (fst (snd e)), sn_peers (fst (snd e)), snd (snd e))) (c_nodes s),
   filter (fun e => match snd e with [] => false | _ => true end) (c_net s),
   c_inv s).

Fixpoint run_ops (s : cstate) (ops : list sop) :=
  match ops with
  | [] => [dump_of s]
  | ODump :: ops' => dump_of s :: run_ops s ops'
  | o :: ops' => run_ops (step s o) ops'
  end.

Definition init_cluster (ids : list N) : cstate :=
  mkC (map (fun i => (i, (mkNode i [] [], []))) ids) [] [].

Definition run_script (ids : list N) (ops : list sop) := run_ops (init_cluster ids) ops.
