(** The keep-owner rule of Service::update_instance: an HTTP write that names the instance ephemeral and
    touches an instance registered by a gRPC connection leaves it that connection's instance, whatever the
    update tag says; it therefore never comes under the heartbeat clock. *)
From RN Require Import Base.AMap Base.AMapProofs Naming.Service.
Local Open Scope N_scope.

Lemma merge_tag_origin s old i1 tg :
  let i2 := fst (fst (fst (merge_tag s old i1 tg))) in
  i_grpc i2 = i_grpc i1 /\ i_client i2 = i_client i1 /\ i_cluster i2 = i_cluster i1 /\ i_key i2 = i_key i1.
Proof.
  unfold merge_tag. destruct tg as [t|]; [|cbn; auto].
  destruct (negb (tag_is_none t)); [| cbn; auto].
  destruct (negb (t_enabled t)), (negb (t_ephemeral t)), (negb (t_weight t)), (negb (t_metadata t));
    try (cbn; auto; fail);
    destruct (t_from_update t); try (cbn; auto; fail);
    match goal with |- context [mget ?k ?m] => destruct (mget k m) end; cbn; auto.
Qed.

Theorem svc_update_keeps_grpc_owner s i0 tg fs old :
  iget (i_key i0) (s_insts s) = Some old -> i_grpc old = true ->
  i_ephemeral i0 = true -> i_grpc i0 = false ->
  exists i2, iget (i_key i0) (s_insts (fst (fst (fst (svc_update s i0 tg fs))))) = Some i2 /\
             i_grpc i2 = true /\ i_client i2 = i_client old /\ is_enable_timeout i2 = false.
Proof.
  intros G Hg He Hn. unfold svc_update. rewrite G. rewrite He, Hn, Hg. cbn [andb negb].
  set (i1 := set_origin i0 true (i_cluster old) (i_client old)).
  destruct (merge_tag s old i1 tg) as [[[i2 meta] rt] pc] eqn:M.
  pose proof (merge_tag_origin s old i1 tg) as O. rewrite M in O. cbn [fst] in O.
  destruct O as (Og & Oc & _ & Ok).
  exists i2. cbn [fst s_insts svc_with_insts].
  assert (K : i_key i2 = i_key i0) by (rewrite Ok; reflexivity).
  split.
  - unfold iget, iset. rewrite <- K at 1. 
    replace (i_key i0) with (i_key i2) by exact K. apply aget_aset_eq.
  - split; [rewrite Og; reflexivity|]. split; [rewrite Oc; reflexivity|].
    unfold is_enable_timeout. rewrite Og. cbn. rewrite Bool.andb_false_r. reflexivity.
Qed.
