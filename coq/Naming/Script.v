(** Executable glue for the correspondence checks of C11/C12/C13: the op language of the
    [naming] harness suite ([NamingCmd] / [NamingRaftReq] messages and the 2 s driver parts),
    [step : state -> op -> state * out], and compact dumps.  No proofs in this file. *)
From RN Require Import Base.Res Base.AMap Naming.Service Naming.Filter Naming.Actor.
Local Open Scope N_scope.

Inductive op :=
| OpUpdate (k : skey) (i : inst) (t : option tag) (from_sync : bool)   (* Update / UpdateFromSync *)
| OpBatch (l : list (skey * inst))                                     (* UpdateBatch *)
| OpDelete (k : skey) (ik : ikey) (cl : N)                             (* Delete *)
| OpDeleteBatch (l : list (skey * ikey * N))                           (* DeleteBatch *)
| OpRemoveClient (cl : N)                        (* RemoveClient / RemoveClientFromCluster *)
| OpRemoveClients (l : list N)                   (* RemoveClientsFromCluster *)
| OpTick (d : N)                                 (* the clock advances *)
| OpTimeCheck                                    (* PeekListenerTimeout *)
| OpClearEmpty                                   (* clear_empty_service (2 s driver) *)
| OpClearMeta                                    (* clear_timeout_instance_metadata (2 s driver) *)
| OpRemoveService (k : skey)                     (* RemoveService *)
| OpUpdateService (k : skey) (thr : option (N * N))   (* UpdateService / UpdateServiceFromCluster *)
| OpRange (idx len : N)                          (* ClusterRefreshProcessRange *)
| OpSniff (host : ikey) (keys : list skey) (ok : bool)   (* PerpetualHostSniffing *)
| OpRaftUpdate (k : skey) (i : inst)             (* NamingRaftReq::RegisterInstance / UpdateInstance *)
| OpRaftRemove (k : skey) (ik : ikey)            (* NamingRaftReq::RemoveInstance *)
| OpDiff (data : list (N * list fkey))           (* DiffGrpcDistroData *)
| OpSnapshot (svcs : list (skey * option (N * N))) (insts : list (skey * inst))   (* ReceiveSnapshot *)
| OpQList (k : skey) (healthy_only : bool)       (* QueryList / QueryListString *)
| OpQInfo (k : skey) (healthy_only : bool)       (* QueryServiceInfo *)
| OpQAll (k : skey)                              (* QueryAllInstanceList *)
| OpQOne (k : skey) (ik : ikey)                  (* Query *)
| OpQPage (ns : option N)                        (* QueryServiceInfoPage *)
| OpQSvc (k : skey)                              (* QueryServiceOnly *)
| OpQClients                                     (* QueryClientInstanceCount *)
| OpTimeCheckB (n : N) (order : list skey).      (* PeekListenerTimeout with once_time_check_size = n, service_map order *)

Inductive out :=
| OOk
| OErr
| OHosts (l : list inst)
| OInfo (l : list inst) (reach : bool)
| OOne (o : option inst)
| OPage (size : N) (l : list (skey * Z * Z))
| OSvc (o : option (Z * Z))
| OCounts (l : list (N * N))
| ODiff (l : list fkey).

Definition batch_update (c : cfg) (hashf : skey -> N) (a : actor) (l : list (skey * inst)) : actor :=
  fold_left (fun acc e => fst (update_instance c hashf acc (fst e) (snd e) None true)) l a.

Definition step (c : cfg) (hashf : skey -> N) (a : actor) (o : op) : actor * out :=
  match o with
  | OpUpdate k i t fs => (fst (update_instance c hashf a k i t fs), OOk)
  | OpBatch l => (batch_update c hashf a l, OOk)
  | OpDelete k ik cl => (fst (fst (remove_instance c a k ik (Some cl))), OOk)
  | OpDeleteBatch l =>
      (fold_left (fun acc e => fst (fst (remove_instance c acc (fst (fst e)) (snd (fst e)) (Some (snd e))))) l a, OOk)
  | OpRemoveClient cl => (remove_client_instance c a cl, OOk)
  | OpRemoveClients l => (fold_left (remove_client_instance c) l a, OOk)
  | OpTick d => (mkActor (a_svcs a) (a_clients a) (a_index a) (a_empty a) (a_metaset a) (a_range a) (a_now a + d), OOk)
  | OpTimeCheck => (time_check c a, OOk)
  | OpClearEmpty => (clear_empty_service c a, OOk)
  | OpClearMeta => (clear_timeout_instance_metadata a, OOk)
  | OpRemoveService k => let '(a', ok) := remove_empty_service c a k in (a', if ok then OOk else OErr)
  | OpUpdateService k thr => (update_service c a k thr, OOk)
  | OpRange idx len => (refresh_process_range hashf a (idx, len), OOk)
  | OpSniff host keys ok => (update_perpetual_health a host keys ok, OOk)
  | OpRaftUpdate k i =>
      if negb (i_ephemeral i) then (fst (update_instance c hashf a k (set_origin i false 0 0) None true), OOk)
      else (a, OOk)
  | OpRaftRemove k ik => (fst (fst (remove_instance c a k ik None)), OOk)
  | OpDiff data => let '(a', nw) := diff_grpc_distro_client_data c a data in (a', ODiff nw)
  | OpSnapshot svcs insts =>
      let a1 := fold_left (fun acc e => update_service c acc (fst e) (snd e)) svcs a in
      let a2 := batch_update c hashf a1 insts in
      (match a_range a2 with Some r => refresh_process_range hashf a2 r | None => a2 end, OOk)
  | OpQList k b => (a, OHosts (get_instance_list a k b))
  | OpQInfo k b => let '(l, r) := get_service_info a k b in (a, OInfo l r)
  | OpQAll k => (a, OHosts (query_all_instances a k))
  | OpQOne k ik => (a, OOne (match sget k (a_svcs a) with Some s => iget ik (s_insts s) | None => None end))
  | OpQPage ns => let '(n, l) := get_service_info_page a ns in (a, OPage n l)
  | OpQSvc k => (a, OSvc (match sget k (a_svcs a) with Some s => Some (s_size s, s_hsize s) | None => None end))
  | OpQClients => (a, OCounts (map (fun e => (fst e, N.of_nat (length (snd e)))) (a_clients a)))
  | OpTimeCheckB n order => (time_check_budget c n order a, OOk)
  end.

Definition run_all (c : cfg) (hashf : skey -> N) (a : actor) (ops : list op) : actor :=
  fold_left (fun acc o => fst (step c hashf acc o)) ops a.

(** compact dumps *)
Definition dump_inst (i : inst) :=
  (i_key i, i_weight i, i_enabled i, i_healthy i, i_ephemeral i, (i_meta i, i_lm i, i_grpc i, i_cluster i, i_client i)).

Definition dump_svc (e : skey * service) :=
  let s := snd e in
  (fst e, (s_size s, s_hsize s), map (fun x => (fst x, dump_inst (snd x))) (s_insts s), s_perp s,
   (s_meta s, s_hset s, s_uset s, s_thr s, s_last_empty s)).

Definition dump_index (ni : nsindex) :=
  (ni_size ni, map (fun e => (fst e, si_size (snd e), si_groups (snd e))) (ni_ns ni)).

Definition dump (a : actor) :=
  (map dump_svc (a_svcs a), a_clients a, dump_index (a_index a), (a_empty a, a_metaset a, a_range a, a_now a)).

Inductive dout :=
| DOk | DErr
| DHosts (l : list (N * N * bool * bool * bool * (N * N * bool * N * N)))
| DInfo (l : list (N * N * bool * bool * bool * (N * N * bool * N * N))) (reach : bool)
| DOne (o : option (N * N * bool * bool * bool * (N * N * bool * N * N)))
| DPage (size : N) (l : list (skey * Z * Z))
| DSvc (o : option (Z * Z))
| DCounts (l : list (N * N))
| DDiff (l : list fkey).

Definition dump_out (o : out) : dout :=
  match o with
  | OOk => DOk | OErr => DErr
  | OHosts l => DHosts (map dump_inst l)
  | OInfo l r => DInfo (map dump_inst l) r
  | OOne o => DOne (option_map dump_inst o)
  | OPage n l => DPage n l
  | OSvc o => DSvc o
  | OCounts l => DCounts l
  | ODiff l => DDiff l
  end.

(** every step: (output, state after the step) *)
Fixpoint run_dump (c : cfg) (hashf : skey -> N) (a : actor) (ops : list op) :=
  match ops with
  | [] => []
  | o :: ops' =>
      let '(a', r) := step c hashf a o in
      (dump_out r, dump a') :: run_dump c hashf a' ops'
  end.

(** outputs of every step, state only at the end *)
Fixpoint run_outs (c : cfg) (hashf : skey -> N) (a : actor) (ops : list op) : list dout :=
  match ops with
  | [] => []
  | o :: ops' => let '(a', r) := step c hashf a o in dump_out r :: run_outs c hashf a' ops'
  end.

Definition hash_of (tbl : list (skey * N)) (k : skey) : N :=
  match @aget skey N skey_eqd k tbl with Some h => h | None => 0 end.
