(** Per-key characterisation of [Service::time_check] (used by C11 and C13). *)
From Coq Require Import ZifyBool ZifyNat ZifyN.
From RN Require Import Base.Res Base.AMap Base.AMapProofs Naming.Service Naming.ServiceProofs Naming.Timeout.
Local Open Scope N_scope.
Ltac Zify.zify_post_hook ::= Z.div_mod_to_equations.

Lemma kmem_cons : forall ik k ks, kmem ik (k :: ks) = if ikey_eqd ik k then true else kmem ik ks.
Proof. reflexivity. Qed.

Lemma svc_remove_none_get : forall now s k ik,
  iget ik (s_insts (fst (svc_remove now s k None))) = if ikey_eqd ik k then None else iget ik (s_insts s).
Proof.
  intros. unfold svc_remove. destruct (iget k (s_insts s)) as [old|] eqn:E; cbn [fst s_insts].
  - unfold idel, iget. apply aget_adel.
  - destruct (ikey_eqd ik k); subst; auto.
Qed.

Lemma svc_remove_none_sets : forall now s k,
  s_hset (fst (svc_remove now s k None)) = s_hset s /\ s_uset (fst (svc_remove now s k None)) = s_uset s /\
  s_meta (fst (svc_remove now s k None)) = s_meta s /\ s_thr (fst (svc_remove now s k None)) = s_thr s.
Proof.
  intros. unfold svc_remove. destruct (iget k (s_insts s)); cbn; auto.
Qed.

Lemma tc_skip_fires : forall s k limit,
  tc_skip s k limit = match iget k (s_insts s) with Some i => negb (fires limit i) | None => false end.
Proof.
  intros. unfold tc_skip, fires. destruct (iget k (s_insts s)); auto.
  rewrite negb_andb. f_equal. rewrite N.leb_antisym. rewrite negb_involutive. reflexivity.
Qed.

Lemma tc_remove_loop_get : forall now off keys s acc ik,
  iget ik (s_insts (fst (tc_remove_loop now off s keys acc))) =
  match iget ik (s_insts s) with
  | Some i => if kmem ik keys && fires off i then None else Some i
  | None => None
  end.
Proof.
  induction keys as [|k ks IH]; intros s acc ik; cbn [tc_remove_loop].
  - cbn. destruct (iget ik (s_insts s)); auto.
  - rewrite kmem_cons. destruct (tc_skip s k off) eqn:Sk.
    + rewrite IH. destruct (iget ik (s_insts s)) as [i|] eqn:E; auto.
      destruct (ikey_eqd ik k); auto. subst. rewrite tc_skip_fires, E in Sk.
      apply negb_true_iff in Sk. rewrite Sk. rewrite andb_false_r. reflexivity.
    + rewrite IH. rewrite svc_remove_none_get. destruct (ikey_eqd ik k).
      * subst. rewrite tc_skip_fires in Sk. destruct (iget k (s_insts s)); auto.
        apply negb_false_iff in Sk. rewrite Sk. reflexivity.
      * reflexivity.
Qed.

Lemma tc_remove_loop_sets : forall now off keys s acc,
  let s' := fst (tc_remove_loop now off s keys acc) in
  s_hset s' = s_hset s /\ s_uset s' = s_uset s /\ s_meta s' = s_meta s /\ s_thr s' = s_thr s.
Proof.
  induction keys as [|k ks IH]; intros s acc; cbn [tc_remove_loop]; auto.
  destruct (tc_skip s k off); auto. cbn zeta in *.
  destruct (IH (fst (svc_remove now s k None)) (acc ++ [k])) as (A & B & C & D).
  destruct (svc_remove_none_sets now s k) as (A' & B' & C' & D'). repeat split; congruence.
Qed.

Lemma svc_healthy_invalid_get : forall s k ik,
  iget ik (s_insts (svc_healthy_invalid s k)) =
  if ikey_eqd ik k then
    match iget k (s_insts s) with
    | Some i => if i_healthy i then Some (set_healthy i false) else Some i
    | None => None
    end
  else iget ik (s_insts s).
Proof.
  intros. unfold svc_healthy_invalid. destruct (iget k (s_insts s)) as [i|] eqn:E.
  - destruct (i_healthy i); cbn [s_insts].
    + unfold iset, iget. apply aget_aset.
    + destruct (ikey_eqd ik k); subst; auto.
  - destruct (ikey_eqd ik k); subst; auto.
Qed.

Lemma tc_update_loop_get : forall h keys s acc ik,
  iget ik (s_insts (fst (tc_update_loop h s keys acc))) =
  match iget ik (s_insts s) with
  | Some i => if kmem ik keys && fires h i && i_healthy i then Some (set_healthy i false) else Some i
  | None => None
  end.
Proof.
  induction keys as [|k ks IH]; intros s acc ik; cbn [tc_update_loop].
  - cbn. destruct (iget ik (s_insts s)); auto.
  - rewrite kmem_cons. destruct (tc_skip s k h) eqn:Sk.
    + rewrite IH. destruct (iget ik (s_insts s)) as [i|] eqn:E; auto.
      destruct (ikey_eqd ik k); auto. subst. rewrite tc_skip_fires, E in Sk.
      apply negb_true_iff in Sk. rewrite Sk. rewrite andb_false_r. reflexivity.
    + rewrite IH. rewrite svc_healthy_invalid_get. destruct (ikey_eqd ik k).
      * subst. rewrite tc_skip_fires in Sk. destruct (iget k (s_insts s)) as [i|]; auto.
        apply negb_false_iff in Sk. rewrite Sk. cbn [andb]. destruct (i_healthy i) eqn:Eh.
        -- cbn [set_healthy i_healthy]. rewrite andb_false_r. reflexivity.
        -- rewrite Eh. rewrite andb_false_r. reflexivity.
      * reflexivity.
Qed.

(** [svc_time_check] acts on each key as [tc_effect] says *)
Theorem svc_time_check_get : forall now s h o ik,
  iget ik (s_insts (fst (fst (svc_time_check now s h o)))) = tc_effect s h o ik.
Proof.
  intros now s h o ik. unfold svc_time_check, tc_effect, due_keys.
  destruct (ts_timeout o (s_uset s)) as [ukeys uset] eqn:Eu.
  set (s1 := mkSvc _ _ _ _ _ _ uset _ _).
  pose proof (tc_remove_loop_get now o ukeys s1 [] ik) as G1.
  pose proof (tc_remove_loop_sets now o ukeys s1 []) as (Hh & _).
  destruct (tc_remove_loop now o s1 ukeys []) as [s2 rlist]. cbn [fst] in *.
  rewrite Hh. subst s1. cbn [s_hset s_insts] in *.
  destruct (ts_timeout h (s_hset s)) as [hkeys hset] eqn:Ehh.
  set (s3 := mkSvc _ _ _ _ _ hset _ _ _).
  pose proof (tc_update_loop_get h hkeys s3 [] ik) as G2.
  destruct (tc_update_loop h s3 hkeys []) as [s4 ulist]. cbn [fst] in *.
  rewrite G2. subst s3. cbn [s_insts]. rewrite G1.
  destruct (iget ik (s_insts s)) as [i|]; auto.
  destruct (kmem ik ukeys && fires o i); auto.
Qed.

(** consequences used by the registry invariant *)
Lemma tc_effect_not_enabled : forall s h o ik i,
  iget ik (s_insts s) = Some i -> is_enable_timeout i = false -> tc_effect s h o ik = Some i.
Proof.
  intros. unfold tc_effect, fires. rewrite H, H0. cbn. rewrite !andb_false_r. reflexivity.
Qed.

Lemma tc_effect_from : forall s h o ik i',
  tc_effect s h o ik = Some i' ->
  exists i, iget ik (s_insts s) = Some i /\ (i' = i \/ i' = set_healthy i false).
Proof.
  intros s h o ik i'. unfold tc_effect. destruct (iget ik (s_insts s)) as [i|]; [|discriminate].
  destruct (_ && fires o i); [discriminate|].
  destruct (_ && _ && _); intros X; inversion X; eauto.
Qed.
