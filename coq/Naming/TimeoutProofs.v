(** Per-key characterisation of [Service::time_check] (used by C11 and C13). *)
From Coq Require Import ZifyBool ZifyNat ZifyN.
From RN Require Import Base.Res Base.AMap Base.AMapProofs Naming.Service Naming.ServiceProofs Naming.Timeout.
Local Open Scope N_scope.
Ltac Zify.zify_post_hook ::= Z.div_mod_to_equations.

Lemma kmem_cons : forall ik k ks, kmem ik (k :: ks) = if ikey_eqd ik k then true else kmem ik ks.
Proof. reflexivity. Qed.

Lemma svc_remove_none_get : forall now s k ik,
  iget ik (s_insts (fst (svc_remove now s k None))) = if ikey_eqd ik k then None else iget ik (s_insts s).
Proof.
  intros. unfold svc_remove. destruct (iget k (s_insts s)) as [old|] eqn:E; cbn [fst s_insts].
  - unfold idel, iget. apply aget_adel.
  - destruct (ikey_eqd ik k); subst; auto.
Qed.

Lemma svc_remove_none_sets : forall now s k,
  s_hset (fst (svc_remove now s k None)) = s_hset s /\ s_uset (fst (svc_remove now s k None)) = s_uset s /\
  s_meta (fst (svc_remove now s k None)) = s_meta s /\ s_thr (fst (svc_remove now s k None)) = s_thr s.
Proof.
  intros. unfold svc_remove. destruct (iget k (s_insts s)); cbn; auto.
Qed.

Lemma tc_skip_fires : forall s k limit,
  tc_skip s k limit = match iget k (s_insts s) with Some i => negb (fires limit i) | None => false end.
Proof.
  intros. unfold tc_skip, fires. destruct (iget k (s_insts s)); auto.
  rewrite negb_andb. f_equal. rewrite N.leb_antisym. rewrite negb_involutive. reflexivity.
Qed.

Lemma tc_remove_loop_get : forall now off keys s acc ik,
  iget ik (s_insts (fst (tc_remove_loop now off s keys acc))) =
  match iget ik (s_insts s) with
  | Some i => if kmem ik keys && fires off i then None else Some i
  | None => None
  end.
Proof.
  induction keys as [|k ks IH]; intros s acc ik; cbn [tc_remove_loop].
  - cbn. destruct (iget ik (s_insts s)); auto.
  - rewrite kmem_cons. destruct (tc_skip s k off) eqn:Sk.
    + rewrite IH. destruct (iget ik (s_insts s)) as [i|] eqn:E; auto.
      destruct (ikey_eqd ik k); auto. subst. rewrite tc_skip_fires, E in Sk.
      apply negb_true_iff in Sk. rewrite Sk. rewrite andb_false_r. reflexivity.
    + rewrite IH. rewrite svc_remove_none_get. destruct (ikey_eqd ik k).
      * subst. rewrite tc_skip_fires in Sk. destruct (iget k (s_insts s)); auto.
        apply negb_false_iff in Sk. rewrite Sk. reflexivity.
      * reflexivity.
Qed.

Lemma tc_remove_loop_sets : forall now off keys s acc,
  let s' := fst (tc_remove_loop now off s keys acc) in
  s_hset s' = s_hset s /\ s_uset s' = s_uset s /\ s_meta s' = s_meta s /\ s_thr s' = s_thr s.
Proof.
  induction keys as [|k ks IH]; intros s acc; cbn [tc_remove_loop]; auto.
  destruct (tc_skip s k off); auto. cbn zeta in *.
  destruct (IH (fst (svc_remove now s k None)) (acc ++ [k])) as (A & B & C & D).
  destruct (svc_remove_none_sets now s k) as (A' & B' & C' & D'). repeat split; congruence.
Qed.

Lemma svc_healthy_invalid_get : forall s k ik,
  iget ik (s_insts (svc_healthy_invalid s k)) =
  if ikey_eqd ik k then
    match iget k (s_insts s) with
    | Some i => if i_healthy i then Some (set_healthy i false) else Some i
    | None => None
    end
  else iget ik (s_insts s).
Proof.
  intros. unfold svc_healthy_invalid. destruct (iget k (s_insts s)) as [i|] eqn:E.
  - destruct (i_healthy i); cbn [s_insts].
    + unfold iset, iget. apply aget_aset.
    + destruct (ikey_eqd ik k); subst; auto.
  - destruct (ikey_eqd ik k); subst; auto.
Qed.

Lemma tc_update_loop_get : forall h keys s acc ik,
  iget ik (s_insts (fst (tc_update_loop h s keys acc))) =
  match iget ik (s_insts s) with
  | Some i => if kmem ik keys && fires h i && i_healthy i then Some (set_healthy i false) else Some i
  | None => None
  end.
Proof.
  induction keys as [|k ks IH]; intros s acc ik; cbn [tc_update_loop].
  - cbn. destruct (iget ik (s_insts s)); auto.
  - rewrite kmem_cons. destruct (tc_skip s k h) eqn:Sk.
    + rewrite IH. destruct (iget ik (s_insts s)) as [i|] eqn:E; auto.
      destruct (ikey_eqd ik k); auto. subst. rewrite tc_skip_fires, E in Sk.
      apply negb_true_iff in Sk. rewrite Sk. rewrite andb_false_r. reflexivity.
    + rewrite IH. rewrite svc_healthy_invalid_get. destruct (ikey_eqd ik k).
      * subst. rewrite tc_skip_fires in Sk. destruct (iget k (s_insts s)) as [i|]; auto.
        apply negb_false_iff in Sk. rewrite Sk. cbn [andb]. destruct (i_healthy i) eqn:Eh.
        -- cbn [set_healthy i_healthy]. rewrite andb_false_r. reflexivity.
        -- rewrite Eh. rewrite andb_false_r. reflexivity.
      * reflexivity.
Qed.

(** [svc_time_check] acts on each key as [tc_effect] says *)
Theorem svc_time_check_get : forall now s h o ik,
  iget ik (s_insts (fst (fst (svc_time_check now s h o)))) = tc_effect s h o ik.
Proof.
  intros now s h o ik. unfold svc_time_check, tc_effect, due_keys.
  destruct (ts_timeout o (s_uset s)) as [ukeys uset] eqn:Eu.
  set (s1 := mkSvc _ _ _ _ _ _ uset _ _).
  pose proof (tc_remove_loop_get now o ukeys s1 [] ik) as G1.
  pose proof (tc_remove_loop_sets now o ukeys s1 []) as (Hh & _).
  destruct (tc_remove_loop now o s1 ukeys []) as [s2 rlist]. cbn [fst] in *.
  rewrite Hh. subst s1. cbn [s_hset s_insts] in *.
  destruct (ts_timeout h (s_hset s)) as [hkeys hset] eqn:Ehh.
  set (s3 := mkSvc _ _ _ _ _ hset _ _ _).
  pose proof (tc_update_loop_get h hkeys s3 [] ik) as G2.
  destruct (tc_update_loop h s3 hkeys []) as [s4 ulist]. cbn [fst] in *.
  rewrite G2. subst s3. cbn [s_insts]. rewrite G1.
  destruct (iget ik (s_insts s)) as [i|]; auto.
  destruct (kmem ik ukeys && fires o i); auto.
Qed.

(** consequences used by the registry invariant *)
Lemma tc_effect_not_enabled : forall s h o ik i,
  iget ik (s_insts s) = Some i -> is_enable_timeout i = false -> tc_effect s h o ik = Some i.
Proof.
  intros. unfold tc_effect, fires. rewrite H, H0. cbn. rewrite !andb_false_r. reflexivity.
Qed.

Lemma tc_effect_from : forall s h o ik i',
  tc_effect s h o ik = Some i' ->
  exists i, iget ik (s_insts s) = Some i /\ (i' = i \/ i' = set_healthy i false).
Proof.
  intros s h o ik i'. unfold tc_effect. destruct (iget ik (s_insts s)) as [i|]; [|discriminate].
  destruct (_ && fires o i); [discriminate|].
  destruct (_ && _ && _); intros X; inversion X; eauto.
Qed.

(** ** which keys a tick drains *)
Lemma due_mem : forall (set : list (N * ikey)) t ik limit,
  In (t, ik) set -> t <= limit -> kmem ik (due_keys limit set) = true.
Proof.
  intros. unfold due_keys, ts_timeout, kmem; cbn [fst]. apply (smem_In ikey_eqd).
  apply in_map_iff. exists (t, ik). split; auto. apply filter_In. split; auto. cbn. apply N.leb_le; auto.
Qed.

Lemma due_mem_inv : forall (set : list (N * ikey)) ik limit,
  kmem ik (due_keys limit set) = true -> exists t, In (t, ik) set /\ t <= limit.
Proof.
  intros set ik limit H. unfold due_keys, ts_timeout, kmem in H; cbn [fst] in H. apply (smem_In ikey_eqd) in H.
  apply in_map_iff in H. destruct H as [[t k] [E Hin]]. cbn in E. subst. apply filter_In in Hin.
  destruct Hin as [Hin L]. cbn in L. apply N.leb_le in L. eauto.
Qed.

(** ** per-key consequences of [tc_effect] *)
Lemma tc_recent : forall s h o ik i,
  iget ik (s_insts s) = Some i -> h < i_lm i -> o <= h -> tc_effect s h o ik = Some i.
Proof.
  intros s h o ik i E Hh Ho. unfold tc_effect, fires. rewrite E.
  assert (X1 : (i_lm i <=? o) = false) by (apply N.leb_gt; lia).
  assert (X2 : (i_lm i <=? h) = false) by (apply N.leb_gt; lia).
  rewrite X1, X2. rewrite !andb_false_r. cbn. rewrite ?andb_false_r. reflexivity.
Qed.

Lemma tc_mark : forall s h o ik i,
  iget ik (s_insts s) = Some i -> is_enable_timeout i = true -> i_healthy i = true ->
  In (i_lm i, ik) (s_hset s) -> i_lm i <= h ->
  tc_effect s h o ik = None \/ tc_effect s h o ik = Some (set_healthy i false).
Proof.
  intros s h o ik i E En He Hin Hl. unfold tc_effect. rewrite E.
  destruct (kmem ik (due_keys o (s_uset s)) && fires o i); auto. right.
  rewrite (due_mem (s_hset s) (i_lm i) ik h Hin Hl). unfold fires. rewrite En, He.
  assert (X : (i_lm i <=? h) = true) by (apply N.leb_le; auto). rewrite X. reflexivity.
Qed.

Lemma tc_remove : forall s h o ik i,
  iget ik (s_insts s) = Some i -> is_enable_timeout i = true -> In (i_lm i, ik) (s_uset s) -> i_lm i <= o ->
  tc_effect s h o ik = None.
Proof.
  intros s h o ik i E En Hin Hl. unfold tc_effect. rewrite E.
  rewrite (due_mem (s_uset s) (i_lm i) ik o Hin Hl). unfold fires. rewrite En.
  assert (X : (i_lm i <=? o) = true) by (apply N.leb_le; auto). rewrite X. reflexivity.
Qed.

Lemma tc_none_inv : forall s h o ik i,
  iget ik (s_insts s) = Some i -> tc_effect s h o ik = None ->
  is_enable_timeout i = true /\ i_lm i <= o /\ exists t, In (t, ik) (s_uset s) /\ t <= o.
Proof.
  intros s h o ik i E. unfold tc_effect. rewrite E.
  destruct (kmem ik (due_keys o (s_uset s))) eqn:K; cbn [andb].
  - unfold fires. destruct (is_enable_timeout i); cbn [andb].
    + destruct (i_lm i <=? o) eqn:L.
      * intros _. split; auto. split; [apply N.leb_le; auto | apply due_mem_inv; auto].
      * destruct (_ && _ && _); discriminate.
    + destruct (_ && _ && _); discriminate.
  - destruct (_ && _ && _); discriminate.
Qed.

Lemma tc_changed_inv : forall s h o ik i i',
  iget ik (s_insts s) = Some i -> tc_effect s h o ik = Some i' -> i' <> i ->
  i' = set_healthy i false /\ is_enable_timeout i = true /\ i_healthy i = true /\ i_lm i <= h /\
  exists t, In (t, ik) (s_hset s) /\ t <= h.
Proof.
  intros s h o ik i i' E. unfold tc_effect. rewrite E.
  destruct (kmem ik (due_keys o (s_uset s)) && fires o i); [discriminate|].
  destruct (kmem ik (due_keys h (s_hset s))) eqn:K; cbn [andb].
  - unfold fires. destruct (is_enable_timeout i); cbn [andb].
    + destruct (i_lm i <=? h) eqn:L; cbn [andb].
      * destruct (i_healthy i); intros X Y; inversion X; subst; try congruence.
        split; auto. split; auto. split; auto. split; [apply N.leb_le; auto | apply due_mem_inv; auto].
      * intros X Y; inversion X; congruence.
    + intros X Y; inversion X; congruence.
  - intros X Y; inversion X; congruence.
Qed.

(** ** the time-out sets after a tick *)
Lemma svc_healthy_invalid_sets : forall s k,
  s_hset (svc_healthy_invalid s k) = s_hset s /\
  (forall e, In e (s_uset s) -> In e (s_uset (svc_healthy_invalid s k))) /\
  (forall i, iget k (s_insts s) = Some i -> i_healthy i = true -> In (i_lm i, k) (s_uset (svc_healthy_invalid s k))).
Proof.
  intros. unfold svc_healthy_invalid. destruct (iget k (s_insts s)) as [i|] eqn:E.
  - destruct (i_healthy i) eqn:H; cbn [s_hset s_uset].
    + split; auto. split; [intros e He; unfold ts_add; apply in_app_iff; auto|].
      intros i' X _. inversion X; subst. unfold ts_add. apply in_app_iff. right. cbn. auto.
    + split; auto. split; auto. intros i' X Y. inversion X; subst. congruence.
  - split; auto. split; auto. intros; discriminate.
Qed.

Lemma tc_update_loop_sets : forall h keys s acc,
  let s' := fst (tc_update_loop h s keys acc) in
  s_hset s' = s_hset s /\
  (forall e, In e (s_uset s) -> In e (s_uset s')) /\
  (forall ik i, iget ik (s_insts s) = Some i -> kmem ik keys = true -> fires h i = true -> i_healthy i = true ->
                In (i_lm i, ik) (s_uset s')).
Proof.
  induction keys as [|k ks IH]; intros s acc; cbn [tc_update_loop]; cbn zeta.
  - cbn [fst]. split; auto. split; auto. intros; discriminate.
  - destruct (tc_skip s k h) eqn:Sk.
    + destruct (IH s acc) as (A & B & C). cbn zeta in *. split; auto. split; auto.
      intros ik i E Km F He. rewrite kmem_cons in Km. destruct (ikey_eqd ik k).
      * subst. rewrite tc_skip_fires, E, F in Sk. discriminate.
      * apply (C ik i); auto.
    + destruct (IH (svc_healthy_invalid s k) (acc ++ [k])) as (A & B & C). cbn zeta in *.
      destruct (svc_healthy_invalid_sets s k) as (A' & B' & C').
      split; [congruence|]. split; [auto|].
      intros ik i E Km F He. rewrite kmem_cons in Km. destruct (ikey_eqd ik k).
      * subst. apply B. apply C'; auto.
      * apply (C ik i); auto. rewrite svc_healthy_invalid_get. destruct (ikey_eqd ik k); [congruence | auto].
Qed.

Theorem svc_time_check_sets : forall now s h o,
  let s' := fst (fst (svc_time_check now s h o)) in
  s_hset s' = snd (ts_timeout h (s_hset s)) /\
  (forall e, In e (snd (ts_timeout o (s_uset s))) -> In e (s_uset s')) /\
  (forall ik i, iget ik (s_insts s) = Some i -> tc_effect s h o ik = Some (set_healthy i false) ->
                i_healthy i = true -> In (i_lm i, ik) (s_uset s')).
Proof.
  intros now s h o. cbn zeta. unfold svc_time_check.
  pose proof (fun ik => svc_time_check_get now s h o ik) as G. unfold svc_time_check in G.
  destruct (ts_timeout o (s_uset s)) as [ukeys uset] eqn:Eu.
  set (s1 := mkSvc _ _ _ _ _ _ uset _ _) in *.
  pose proof (fun ik => tc_remove_loop_get now o ukeys s1 [] ik) as G1.
  pose proof (tc_remove_loop_sets now o ukeys s1 []) as (Hh & Hu & _).
  destruct (tc_remove_loop now o s1 ukeys []) as [s2 rlist]. cbn [fst snd] in *.
  destruct (ts_timeout h (s_hset s2)) as [hkeys hset] eqn:Ehh.
  set (s3 := mkSvc _ _ _ _ _ hset _ _ _) in *.
  pose proof (tc_update_loop_sets h hkeys s3 []) as (A & B & C). cbn zeta in *.
  destruct (tc_update_loop h s3 hkeys []) as [s4 ulist]. cbn [fst snd] in *.
  subst s1 s3. cbn [s_hset s_uset s_insts] in *.
  split; [rewrite A; rewrite Hh in Ehh; rewrite Ehh; reflexivity|].
  split; [intros e He; apply B; rewrite Hu; auto|].
  intros ik i E T He. specialize (G ik). specialize (G1 ik). rewrite E in G1.
  unfold tc_effect in T. rewrite E in T. unfold due_keys in T. rewrite Eu in T. cbn [fst] in T.
  destruct (kmem ik ukeys && fires o i) eqn:R; [discriminate|].
  rewrite Hh in Ehh. rewrite Ehh in T. cbn [fst] in T.
  destruct (kmem ik hkeys && fires h i && i_healthy i) eqn:M.
  - apply andb_true_iff in M. destruct M as [M _]. apply andb_true_iff in M. destruct M as [M1 M2].
    apply (C ik i); auto.
  - inversion T as [T']. exfalso. assert (X : i_healthy (set_healthy i false) = i_healthy i) by congruence.
    cbn in X. congruence.
Qed.
