(** Regression model of the distro range computation BEFORE the repair
    `fix: distro process range index is the position among valid nodes`:
    [get_current_process_range] took [get_this_node().index] — the position among ALL nodes,
    written by [update_nodes_index] — together with the number of VALID nodes, while
    [route_addr] indexes the valid nodes.  The statement of C14 is false of that code; this
    file keeps the refutation and an exhaustive kernel sweep (cluster sizes 1..5, every
    subset of nodes down, every residue) that lists the failing views.  The same sweep over
    the repaired model finds no failing view (the general theorem is in DistroProofs.v). *)
From RN Require Import Naming.Distro.
From Coq Require Import ZArith ZifyBool ZifyNat ZifyN.
Ltac Zify.zify_post_hook ::= Z.div_mod_to_equations.
Local Open Scope N_scope.

Definition range_of_old (v : view) (local : N) : range :=
  match v with
  | [] => (0, 1)
  | _ =>
      (match position local (ids v) with Some i => N.of_nat i | None => 0 end,
       N.of_nat (length (filter (valid_for local) v)))
  end.

(** boolean form of the statement of C14 for one view and one hash, parametrised by the range
    function: exactly one live node considers itself the owner, and every live node routes
    to it *)
Definition ok_with (rng : view -> N -> range) (v : view) (h : N) : bool :=
  match filter (fun n => is_range (rng v n) h) (live_ids v) with
  | [n] => forallb (fun m => match route_target v m h with Some t => t =? n | None => false end)
                   (live_ids v)
  | _ => false
  end.

(** all status vectors of length n *)
Fixpoint all_status (n : nat) : list (list bool) :=
  match n with
  | O => [[]]
  | S k => flat_map (fun l => [true :: l; false :: l]) (all_status k)
  end.

(** ids 1..n with the given statuses *)
Definition mk_view (bs : list bool) : view := combine (map N.of_nat (seq 1 (length bs))) bs.

Definition has_live (v : view) : bool := match live_ids v with [] => false | _ => true end.

(** sizes 1..5 x all subsets down (at least one node live): 1+3+7+15+31 = 57 views *)
Definition sweep_views : list view :=
  filter has_live (flat_map (fun n => map mk_view (all_status n)) [1; 2; 3; 4; 5]%nat).

(** 60 = lcm(1..5): the hashes 0..59 realise every residue of every modulus 1..5 *)
Definition residues : list N := map N.of_nat (seq 0 60).

Definition view_ok (rng : view -> N -> range) (v : view) : bool := forallb (ok_with rng v) residues.

Definition down_ids (v : view) : list N := map fst (filter (fun p => negb (snd p)) v).

(** (cluster size, ids of the nodes that are down) of the views on which the statement fails *)
Definition failing (rng : view -> N -> range) : list (N * list N) :=
  map (fun v => (N.of_nat (length v), down_ids v)) (filter (fun v => negb (view_ok rng v)) sweep_views).

(** a dead node precedes a live one, and at least two nodes are live *)
Fixpoint dead_before_live (v : view) : bool :=
  match v with
  | [] => false
  | (_, false) :: v' => has_live v' || dead_before_live v'
  | (_, true) :: v' => dead_before_live v'
  end.

Definition old_failure_class (v : view) : bool :=
  dead_before_live v && (2 <=? length (live_ids v))%nat.

(** * refutation *)

Definition witness_view : view := [(1, false); (2, true); (3, true)].

(** node 3 of {1 down, 2, 3} has range (2,2): it owns nothing *)
Lemma old_node3_owns_nothing : forall h,
  range_of_old witness_view 3 = (2, 2) /\ is_range (range_of_old witness_view 3) h = false.
Proof.
  intros h. split; [reflexivity|].
  change (range_of_old witness_view 3) with (2, 2). unfold is_range. cbn [fst snd]. lia.
Qed.

(** node 2 has range (1,2) and is handed every even hash, which it does not own *)
Lemma old_node2_routed_foreign : forall h,
  h mod 2 = 0 ->
  range_of_old witness_view 2 = (1, 2) /\
  route_target witness_view 3 h = Some 2 /\ is_range (range_of_old witness_view 2) h = false.
Proof.
  intros h Hh. split; [reflexivity|]. split.
  - unfold route_target, route, all_nodes, witness_view, live_ids.
    cbn [filter snd map fst length]. change (N.of_nat 2) with 2. rewrite Hh. reflexivity.
  - change (range_of_old witness_view 2) with (1, 2). unfold is_range. cbn [fst snd]. lia.
Qed.

Theorem one_owner_refuted :
  exists v h,
    ascending (ids v) = true /\ NoDup (ids v) /\ (exists n, live v n) /\
    ~ (exists n, live v n /\ is_range (range_of_old v n) h = true).
Proof.
  exists witness_view, 0. split; [reflexivity|]. split.
  - repeat constructor; cbn; intuition discriminate.
  - split; [exists 2; left; reflexivity|].
    intros [n [L O]]. destruct L as [L|[L|[]]]; subst n; vm_compute in O; discriminate.
Qed.

(** * the kernel sweep *)

Lemma sweep_size : length sweep_views = 57%nat /\ length residues = 60%nat.
Proof. vm_compute. split; reflexivity. Qed.

(** the repaired range function passes on every view of the sweep *)
Lemma sweep_fixed_ok : failing range_of = [].
Proof. vm_compute. reflexivity. Qed.

(** the old one fails exactly on the views in which a dead node precedes a live one while two
    or more nodes are live *)
Lemma sweep_old_failure_class :
  forallb (fun v => Bool.eqb (negb (view_ok range_of_old v)) (old_failure_class v)) sweep_views = true.
Proof. vm_compute. reflexivity. Qed.

(** the 32 (of 57) views on which the old code violates the statement: (size, nodes down) *)
Lemma sweep_old_failing_views :
  failing range_of_old =
  [(3, [1]); (3, [2]);
   (4, [1]); (4, [2]); (4, [1; 2]); (4, [3]); (4, [1; 3]); (4, [2; 3]); (4, [1; 4]); (4, [2; 4]);
   (5, [1]); (5, [2]); (5, [1; 2]); (5, [3]); (5, [1; 3]); (5, [2; 3]); (5, [1; 2; 3]); (5, [4]);
   (5, [1; 4]); (5, [2; 4]); (5, [1; 2; 4]); (5, [3; 4]); (5, [1; 3; 4]); (5, [2; 3; 4]);
   (5, [1; 5]); (5, [2; 5]); (5, [1; 2; 5]); (5, [3; 5]); (5, [1; 3; 5]); (5, [2; 3; 5]);
   (5, [1; 4; 5]); (5, [2; 4; 5])].
Proof. vm_compute. reflexivity. Qed.
