(** The hypotheses of the C11-C13 theorems are satisfiable by concrete, non-trivial states
    (evaluated with [vm_compute]); the same histories run on the real code in the checks. *)
From Coq Require Import ZifyBool ZifyNat ZifyN.
From RN Require Import Base.Res Base.AMap Naming.Service Naming.ServiceProofs Naming.Timeout Naming.Filter
  Naming.Actor Naming.IndexProofs Naming.ActorProofs Naming.BudgetProofs Naming.FilterProofs Naming.OwnershipProofs Naming.ExpiryProofs
  Naming.Script Naming.ScriptProofs Naming.ExpiryTraceProofs Naming.ArmedProofs Naming.Regression.
Local Open Scope N_scope.

Definition k1 : skey := (1, 1, 1).
Definition http (ik : N) : inst := mkInst ik 1 true true true 0 0 false 0 0.
Definition grpc (ik cl : N) (eph healthy : bool) : inst := mkInst ik 1 true healthy eph 0 0 true 0 cl.
Definition reg : option tag := Some (mkTag true true true true false).
Definition beat : option tag := Some (mkTag false false false false false).
Definition st (ops : list op) : actor := run_all cfg0 (fun _ => 0) (actor_init 1000000) ops.

(** C12 query_exact: a service with a healthy, an unhealthy and a disabled instance, threshold 1/2:
    1 healthy of 2 enabled <= 1/2, protection is reached and both enabled ones are shown healthy *)
Example query_exact_example :
  let a := st [OpUpdateService k1 (Some (2, 4)); OpUpdate k1 (grpc 0 1 true true) None false;
               OpUpdate k1 (grpc 1 1 true false) None false;
               OpUpdate k1 (mkInst 2 1 false true true 0 0 true 0 2) None false] in
  (exists s, sget k1 (a_svcs a) = Some s /\ protect_reached (live s) (s_thr s) = true) /\
  map (fun i => (i_key i, i_healthy i)) (get_instance_list a k1 true) = [(0, true); (1, true)].
Proof. vm_compute. split; [eexists; split; reflexivity | reflexivity]. Qed.

(** C12 disconnect: two connections, overlapping addresses in two services *)
Example disconnect_example :
  let a := st [OpUpdate k1 (grpc 0 1 true true) None false; OpUpdate k1 (grpc 1 1 false true) None false;
               OpUpdate k1 (grpc 2 2 true true) None false; OpUpdate (1, 2, 1) (grpc 0 1 true true) None false] in
  cget 1 (a_clients a) = Some [(k1, 0); (k1, 1); ((1, 2, 1), 0)] /\
  let a' := remove_client_instance cfg0 a 1 in
  stored a' k1 0 = None /\ stored a' (1, 2, 1) 0 = None /\
  option_map i_ephemeral (stored a' k1 1) = Some false /\ option_map i_client (stored a' k1 2) = Some 2.
Proof. vm_compute. repeat split; reflexivity. Qed.

(** C13 expires_after_silence: the hypotheses hold after an HTTP registration, with a heartbeat
    of ANOTHER instance as unrelated traffic, and the conclusion is the expected timeline *)
Example expires_example :
  let a := st [OpUpdate k1 (http 0) reg false; OpUpdate k1 (http 1) reg false] in
  let q1 := [OpTick 150; OpUpdate k1 (http 1) beat false; OpTick 150] in
  let q2 := [OpTick 100; OpUpdate k1 (http 1) beat false; OpTick 200] in
  (exists i, stored a k1 0 = Some i /\ is_enable_timeout i = true /\ i_healthy i = true /\
             In (i_lm i, 0) (hset_of a k1) /\ i_lm i + c_health cfg0 <= a_now (run_all cfg0 (fun _ => 0) a q1)) /\
  Forall (quiet (k1, 0)) q1 /\ Forall (quiet (k1, 0)) q2 /\
  let a2 := time_check cfg0 (run_all cfg0 (fun _ => 0) a q1) in
  option_map i_healthy (stored a2 k1 0) = Some false /\ option_map i_healthy (stored a2 k1 1) = Some true /\
  stored (time_check cfg0 (run_all cfg0 (fun _ => 0) a2 q2)) k1 0 = None.
Proof.
  cbn zeta. split; [|split; [|split]].
  - eexists. vm_compute. repeat split; try reflexivity; try discriminate. left; reflexivity.
  - repeat constructor; cbn; try discriminate.
  - repeat constructor; cbn; try discriminate.
  - vm_compute. repeat split; reflexivity.
Qed.

(** C13 beating: heartbeats every 200-299 ms with a time check after each silence *)
Example beating_example :
  let ops := [OpTick 200; OpTimeCheck; OpUpdate k1 (http 0) beat false; OpTick 299; OpTimeCheck;
              OpUpdate k1 (http 1) reg false; OpUpdate k1 (http 0) beat false; OpTick 250; OpTimeCheck] in
  beating cfg0 k1 0 1000000 1000000 ops /\
  option_map i_healthy (stored (run_all cfg0 (fun _ => 0) (st [OpUpdate k1 (http 0) reg false]) ops) k1 0) = Some true.
Proof.
  split; [|vm_compute; reflexivity].
  cbn [beating]. split; [vm_compute; reflexivity|].
  left. split; [cbn; repeat split; reflexivity|]. split; [vm_compute; reflexivity|].
  right. split; [cbn; discriminate|].
  left. split; [cbn; repeat split; reflexivity|]. split; [vm_compute; reflexivity | exact I].
Qed.

(** C13 refresh_rearms: the hypotheses hold for an instance synced from node 2 *)
Example refresh_rearms_example :
  let a := st [OpUpdate k1 (mkInst 0 1 true true true 0 0 false 2 0) None false] in
  (exists i, stored a k1 0 = Some i /\ i_grpc i = false /\ i_cluster i <> 0) /\
  is_range (0, 1) 0 = true /\
  option_map is_enable_timeout (stored (refresh_process_range (fun _ => 0) a (0, 1)) k1 0) = Some true.
Proof. split; [eexists; vm_compute; repeat split; try reflexivity; discriminate|]. vm_compute. split; reflexivity. Qed.

(** C13 budget: two services with two silent instances each, budget 1: the first round handles
    only the first service of the order, the second round (other order) finishes; nothing is lost *)
Example budget_example :
  let k2 : skey := (1, 2, 1) in
  let a := st [OpUpdate k1 (http 0) reg false; OpUpdate k1 (http 1) reg false;
               OpUpdate k2 (http 0) reg false; OpUpdate k2 (http 1) reg false; OpTick 300] in
  let a1 := time_check_budget cfg0 1 [k2; k1] a in
  BudgetProofs.visited cfg0 1 [k2; k1] a = [k2] /\ BudgetProofs.complete cfg0 1 [k2; k1] a = false /\
  option_map i_healthy (stored a1 k2 0) = Some false /\ option_map i_healthy (stored a1 k1 0) = Some true /\
  hset_of a1 k1 = hset_of a k1 /\
  let a2 := time_check_budget cfg0 1 [k2; k1] a1 in
  option_map i_healthy (stored a2 k1 0) = Some false /\ option_map i_healthy (stored a2 k1 1) = Some false /\
  BudgetProofs.Phi a = 8%nat.
Proof. vm_compute. repeat split; reflexivity. Qed.
