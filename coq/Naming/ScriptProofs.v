(** C11: [Inv] is preserved by every step of the op language, hence holds in every reachable
    state. *)
From RN Require Import Base.Res Base.AMap Base.AMapProofs Naming.Service Naming.ServiceProofs
  Naming.Filter Naming.Actor Naming.IndexProofs Naming.ActorProofs Naming.BudgetProofs Naming.Script.
Local Open Scope N_scope.

(** the input domain: every instance carried by an op is well-formed ([wf_inst]) *)
Definition op_wf (o : op) : Prop :=
  match o with
  | OpUpdate _ i _ _ => wf_inst i
  | OpBatch l => Forall (fun e => wf_inst (snd e)) l
  | OpSnapshot _ insts => Forall (fun e => wf_inst (snd e)) insts
  | _ => True
  end.

Definition wf_instb (i : inst) : bool := i_grpc i || (i_client i =? 0).
Definition op_wfb (o : op) : bool :=
  match o with
  | OpUpdate _ i _ _ => wf_instb i
  | OpBatch l => forallb (fun e => wf_instb (snd e)) l
  | OpSnapshot _ insts => forallb (fun e => wf_instb (snd e)) insts
  | _ => true
  end.

Lemma wf_instb_spec : forall i, wf_instb i = true <-> wf_inst i.
Proof.
  intros. unfold wf_instb, wf_inst. destruct (i_grpc i); cbn.
  - split; [discriminate | auto].
  - rewrite N.eqb_eq. tauto.
Qed.

Lemma op_wfb_spec : forall o, op_wfb o = true -> op_wf o.
Proof.
  destruct o; cbn; auto.
  - apply wf_instb_spec.
  - rewrite forallb_forall. intros H. apply Forall_forall. intros x Hx. apply wf_instb_spec; auto.
  - rewrite forallb_forall. intros H. apply Forall_forall. intros x Hx. apply wf_instb_spec; auto.
Qed.

Lemma batch_update_inv : forall c hashf l a,
  Forall (fun e => wf_inst (snd e)) l -> Inv a -> Inv (batch_update c hashf a l).
Proof.
  unfold batch_update. induction l as [|e l IH]; intros a Hw H; cbn [fold_left]; auto.
  inversion Hw; subst. apply IH; auto. apply update_instance_inv; auto.
Qed.

Theorem Inv_step : forall c hashf a o, op_wf o -> Inv a -> Inv (fst (step c hashf a o)).
Proof.
  intros c hashf a o W H. destruct o; cbn [step fst op_wf] in *.
  - apply update_instance_inv; auto.
  - apply batch_update_inv; auto.
  - apply remove_instance_inv; auto.
  - apply fold_left_inv; auto. intros acc e Hacc. apply remove_instance_inv; auto.
  - apply remove_client_instance_inv; auto.
  - apply fold_left_inv; auto. intros acc e Hacc. apply remove_client_instance_inv; auto.
  - eapply Inv_ext; [..|exact H]; reflexivity.
  - apply time_check_inv; auto.
  - apply clear_empty_service_inv; auto.
  - apply clear_timeout_instance_metadata_inv; auto.
  - pose proof (remove_empty_service_inv c a k H) as X. destruct (remove_empty_service c a k). exact X.
  - apply update_service_inv; auto.
  - apply refresh_inv; auto.
  - apply update_perpetual_health_inv; auto.
  - destruct (negb (i_ephemeral i)); cbn [fst]; auto. apply update_instance_inv; auto.
    unfold wf_inst. cbn. auto.
  - apply remove_instance_inv; auto.
  - pose proof (diff_inv c a data H) as X. destruct (diff_grpc_distro_client_data c a data). exact X.
  - assert (H1 : Inv (fold_left (fun acc e => update_service c acc (fst e) (snd e)) svcs a)).
    { apply fold_left_inv; auto. intros acc e Hacc. apply update_service_inv; auto. }
    pose proof (batch_update_inv c hashf insts _ W H1) as H2.
    destruct (a_range (batch_update c hashf _ insts)); auto. apply refresh_inv; auto.
  - exact H.
  - destruct (get_service_info a k healthy_only). exact H.
  - exact H.
  - exact H.
  - destruct (get_service_info_page a ns). exact H.
  - exact H.
  - exact H.
  - apply time_check_budget_inv; auto.
Qed.

Theorem Inv_reachable : forall c hashf ops t0,
  Forall op_wf ops -> Inv (run_all c hashf (actor_init t0) ops).
Proof.
  intros c hashf ops t0 W. unfold run_all.
  assert (G : forall a, Inv a -> Inv (fold_left (fun acc o => fst (step c hashf acc o)) ops a)).
  { induction W as [|o ops Ho W IH]; intros a Ha; cbn [fold_left]; auto. apply IH. apply Inv_step; auto. }
  apply G. apply Inv_init.
Qed.

(** the reported counters are the counts of what the listing returns *)
Theorem counters_match_listing : forall a k s,
  Inv a -> sget k (a_svcs a) = Some s ->
  s_size s = Z.of_nat (length (query_all_instances a k)) /\
  s_hsize s = Z.of_nat (length (filter i_healthy (query_all_instances a k))).
Proof.
  intros a k s (H1 & _) E. destruct (proj2 H1 k s E) as (_ & _ & Hsz & Hh & _).
  unfold query_all_instances, svc_all_instances. rewrite E.
  assert (X : filter (fun x => (i_enabled x || negb false) && (i_healthy x || negb false)) (avals (s_insts s)) = avals (s_insts s)).
  { induction (avals (s_insts s)) as [|x l IH]; cbn; auto. rewrite !orb_true_r. cbn. f_equal. auto. }
  rewrite X. unfold avals. rewrite map_length. split; auto.
Qed.

(** the hypothesis [wf_inst] is needed: a non-gRPC update carrying a client id over a gRPC-owned
    address leaves that address recorded for a client it does not belong to (replayed on the real
    code by the check as an out-of-domain input) *)
Example Inv_step_needs_wf :
  let c := mkCfg 300 600 1000 2000 in
  let a := run_all c (fun _ => 0) (actor_init 1000000)
             [OpUpdate (1,1,1) (mkInst 0 1 true true true 0 0 true 0 1) None false;
              OpUpdate (1,1,1) (mkInst 0 1 true true true 0 0 false 2 7) None false] in
  cget 7 (a_clients a) = Some [((1,1,1), 0)] /\
  option_map i_client (stored a (1,1,1) 0) = Some 1.
Proof. vm_compute. split; reflexivity. Qed.

(** the hypotheses are satisfiable by a non-trivial state *)
Example Inv_nontrivial :
  let c := mkCfg 300 600 1000 2000 in
  let ops := [OpUpdate (1,1,1) (mkInst 0 1 true true true 0 0 true 0 1) None false;
              OpUpdate (1,1,1) (mkInst 1 1 true true false 0 0 false 0 0) None false;
              OpUpdate (1,2,1) (mkInst 0 2 true true true 0 0 true 0 2) None false;
              OpTick 400; OpTimeCheck; OpRemoveClient 1] in
  forallb op_wfb ops = true /\
  length (a_svcs (run_all c (fun _ => 0) (actor_init 1000000) ops)) = 2%nat /\
  length (a_clients (run_all c (fun _ => 0) (actor_init 1000000) ops)) = 1%nat.
Proof. vm_compute. repeat split; reflexivity. Qed.

(** ** services are dropped only when they have no instances *)
Definition dom_mono (a a' : actor) : Prop := forall k, sget k (a_svcs a) <> None -> sget k (a_svcs a') <> None.

Lemma dom_mono_refl : forall a, dom_mono a a.
Proof. unfold dom_mono; auto. Qed.

Lemma dom_mono_trans : forall a b c, dom_mono a b -> dom_mono b c -> dom_mono a c.
Proof. unfold dom_mono; auto. Qed.

Lemma dom_mono_fold : forall {B} (f : actor -> B -> actor) l a,
  (forall a x, dom_mono a (f a x)) -> dom_mono a (fold_left f l a).
Proof.
  induction l as [|x l IH]; intros a H; cbn; [apply dom_mono_refl|].
  eapply dom_mono_trans; [apply H | apply IH; auto].
Qed.

Lemma sget_sset_mono : forall svcs k s' k', sget k' svcs <> None -> sget k' (sset k s' svcs) <> None.
Proof. intros. unfold sset, sget in *. rewrite aget_aset. destruct (skey_eqd k' k); auto; discriminate. Qed.

Lemma dom_mono_create : forall c a k, dom_mono a (create_empty_service c a k).
Proof.
  intros c a k k' H. unfold create_empty_service. destruct (sget k (a_svcs a)); auto.
  cbn [a_svcs]. apply sget_sset_mono; auto.
Qed.

Lemma dom_mono_update_service : forall c a k thr, dom_mono a (update_service c a k thr).
Proof.
  intros c a k thr k' H. unfold update_service. destruct (sget k (a_svcs a)); [destruct thr|]; auto;
    cbn [a_svcs with_svcs]; apply sget_sset_mono; auto.
Qed.

Lemma dom_mono_update_instance : forall c hashf a k i tg fs, dom_mono a (fst (update_instance c hashf a k i tg fs)).
Proof.
  intros c hashf a k i tg fs. eapply dom_mono_trans; [apply (dom_mono_create c a k)|].
  pose proof (create_empty_service_has c a k) as Has.
  destruct (sget k (a_svcs (create_empty_service c a k))) as [s|] eqn:E; [|congruence].
  destruct (update_instance_parts c hashf a k i tg fs s E) as (Ea & _). cbn zeta in Ea.
  intros k' H. rewrite Ea. apply sget_sset_mono; auto.
Qed.

Lemma dom_mono_remove_instance : forall c a k ik cl, dom_mono a (fst (fst (remove_instance c a k ik cl))).
Proof.
  intros c a k ik cl. destruct (sget k (a_svcs a)) as [s|] eqn:E.
  - destruct (remove_instance_parts c a k ik cl s E) as (Ea & _). cbn zeta in Ea.
    intros k' H. rewrite Ea. apply sget_sset_mono; auto.
  - unfold remove_instance. rewrite E. apply dom_mono_refl.
Qed.

Lemma dom_mono_remove_keys : forall c cl keys a, dom_mono a (remove_keys c a cl keys).
Proof.
  induction keys as [|[k ik] ks IH]; intros a; cbn [remove_keys]; [apply dom_mono_refl|].
  destruct (stored a k ik) as [i|]; [destruct (negb (i_ephemeral i))|]; auto;
    (eapply dom_mono_trans; [apply dom_mono_remove_instance | apply IH]).
Qed.

Lemma dom_mono_remove_client : forall c a cl, dom_mono a (remove_client_instance c a cl).
Proof.
  intros. unfold remove_client_instance. destruct (cget cl (a_clients a)); [|apply dom_mono_refl].
  eapply dom_mono_trans; [|apply dom_mono_remove_keys]. unfold dom_mono; auto.
Qed.

Lemma dom_mono_map : forall (f : skey -> service -> service) a a',
  a_svcs a' = map (fun e => (fst e, f (fst e) (snd e))) (a_svcs a) -> dom_mono a a'.
Proof.
  intros f a a' E k H. rewrite E. unfold sget in *. rewrite aget_map_vals.
  destruct (aget skey_eqd k (a_svcs a)); cbn; congruence.
Qed.

Lemma dom_mono_batch : forall c hashf l a, dom_mono a (batch_update c hashf a l).
Proof. intros. unfold batch_update. apply dom_mono_fold. intros. apply dom_mono_update_instance. Qed.

Lemma clear_one_get : forall c a k now k',
  sget k' (a_svcs (clear_one_empty_service c a k now)) = sget k' (a_svcs a) \/
  (sget k' (a_svcs (clear_one_empty_service c a k now)) = None /\
   exists s, sget k' (a_svcs a) = Some s /\ (s_size s <= 0)%Z).
Proof.
  intros. unfold clear_one_empty_service. destruct (sget k (a_svcs a)) as [s|] eqn:E; auto.
  destruct ((s_size s <=? 0)%Z && (s_last_empty s <=? now - c_svc c)) eqn:B; auto.
  cbn [a_svcs]. unfold sdelete, sget. rewrite aget_adel. destruct (skey_eqd k' k); auto.
  subst. right. split; auto. exists s. split; auto. apply andb_true_iff in B. destruct B as [B _]. apply Z.leb_le; auto.
Qed.

Definition drops_only_empty (a a' : actor) : Prop :=
  forall k s, sget k (a_svcs a) = Some s -> sget k (a_svcs a') = None -> (s_size s <= 0)%Z.

Lemma clear_fold_drops : forall c now keys a,
  (forall k s, sget k (a_svcs (fold_left (fun acc k => clear_one_empty_service c acc k now) keys a)) = Some s ->
               sget k (a_svcs a) = Some s) /\
  drops_only_empty a (fold_left (fun acc k => clear_one_empty_service c acc k now) keys a).
Proof.
  induction keys as [|k ks IH]; intros a; cbn [fold_left].
  - split; auto. intros k s E X. congruence.
  - destruct (IH (clear_one_empty_service c a k now)) as [I1 I2]. split.
    + intros k' s E. apply I1 in E. destruct (clear_one_get c a k now k') as [X|[X _]]; congruence.
    + intros k' s E X. destruct (clear_one_get c a k now k') as [Y|[Y (s0 & Es & Hz)]].
      * apply (I2 k' s); auto. congruence.
      * congruence.
Qed.

Theorem dropped_only_when_empty : forall c hashf a o k s,
  Inv a -> sget k (a_svcs a) = Some s -> sget k (a_svcs (fst (step c hashf a o))) = None ->
  s_insts s = [].
Proof.
  intros c hashf a o k s H E X.
  assert (Hm : dom_mono a (fst (step c hashf a o)) -> False).
  { intros M. apply (M k); congruence. }
  assert (Hz : (s_size s <= 0)%Z -> s_insts s = []).
  { apply svc_inv_no_instances. apply (proj2 (proj1 H) k s E). }
  destruct o; cbn [step fst] in *.
  - exfalso; apply Hm. apply dom_mono_update_instance.
  - exfalso; apply Hm. apply dom_mono_batch.
  - exfalso; apply Hm. apply dom_mono_remove_instance.
  - exfalso; apply Hm. apply dom_mono_fold. intros. apply dom_mono_remove_instance.
  - exfalso; apply Hm. apply dom_mono_remove_client.
  - exfalso; apply Hm. apply dom_mono_fold. intros. apply dom_mono_remove_client.
  - exfalso; apply Hm. unfold dom_mono; auto.
  - exfalso; apply Hm. eapply dom_mono_map with (f := fun _ s => fst (fst (tc_svc c (a_now a) s))). reflexivity.
  - (* clear_empty_service *)
    apply Hz. unfold clear_empty_service in X. destruct (ts_timeout (a_now a) (a_empty a)) as [keys rest].
    destruct (clear_fold_drops c (a_now a) keys (with_empty a rest)) as [_ D]. apply (D k s); auto.
  - exfalso; apply Hm. unfold clear_timeout_instance_metadata. destruct (ts_timeout (a_now a) (a_metaset a)) as [keys rest].
    eapply dom_mono_trans; [|apply dom_mono_fold]. { unfold dom_mono; auto. }
    intros acc [k0 ik0]. unfold clear_one_meta. destruct (sget k0 (a_svcs acc)) as [s0|]; [|apply dom_mono_refl].
    destruct (iget ik0 (s_insts s0)); [apply dom_mono_refl|]. intros k' Hk'. cbn [a_svcs with_svcs]. apply sget_sset_mono; auto.
  - (* remove_empty_service *)
    apply Hz. unfold remove_empty_service in X. destruct (sget k0 (a_svcs a)) as [s0|] eqn:E0.
    + destruct (s_size s0 <=? 0)%Z; cbn [fst] in X; [|congruence].
      destruct (clear_one_get c a k0 9223372036854775807 k) as [Y|[_ (s1 & Es & Hs1)]]; congruence.
    + cbn [fst] in X. congruence.
  - exfalso; apply Hm. apply dom_mono_update_service.
  - exfalso; apply Hm. eapply dom_mono_map with (f := fun k s => if is_range (idx, len) (hashf k) then svc_refresh s else s). reflexivity.
  - exfalso; apply Hm. unfold update_perpetual_health. apply dom_mono_fold. intros acc k0.
    destruct (sget k0 (a_svcs acc)); [|apply dom_mono_refl]. intros k' Hk'. cbn [a_svcs with_svcs]. apply sget_sset_mono; auto.
  - exfalso; apply Hm. destruct (negb (i_ephemeral i)); cbn [fst]; [apply dom_mono_update_instance | apply dom_mono_refl].
  - exfalso; apply Hm. apply dom_mono_remove_instance.
  - exfalso; apply Hm. unfold diff_grpc_distro_client_data. destruct (diff_scan a data) as [rm nw]. cbn [fst].
    apply dom_mono_fold. intros. apply dom_mono_remove_instance.
  - exfalso; apply Hm.
    set (a1 := fold_left (fun acc e => update_service c acc (fst e) (snd e)) svcs a).
    assert (M1 : dom_mono a a1) by (subst a1; apply dom_mono_fold; intros; apply dom_mono_update_service).
    set (a2 := batch_update c hashf a1 insts).
    assert (M2 : dom_mono a1 a2) by (subst a2; apply dom_mono_batch).
    eapply dom_mono_trans; [exact M1|]. eapply dom_mono_trans; [exact M2|].
    destruct (a_range a2); [|apply dom_mono_refl].
    eapply dom_mono_map with (f := fun k s => if is_range p (hashf k) then svc_refresh s else s). reflexivity.
  - exfalso; apply Hm. apply dom_mono_refl.
  - exfalso; apply Hm. destruct (get_service_info a k0 healthy_only). apply dom_mono_refl.
  - exfalso; apply Hm. apply dom_mono_refl.
  - exfalso; apply Hm. apply dom_mono_refl.
  - exfalso; apply Hm. destruct (get_service_info_page a ns). apply dom_mono_refl.
  - exfalso; apply Hm. apply dom_mono_refl.
  - exfalso; apply Hm. apply dom_mono_refl.
  - exfalso; apply Hm.
    eapply dom_mono_map with (f := fun k s => if kvis k (visited c n order a) then fst (fst (tc_svc c (a_now a) s)) else s). reflexivity.
Qed.

(** ** the observations of the property, read off the invariant *)
Lemma perpetual_set_is_non_ephemeral : forall a k s ik,
  Inv a -> sget k (a_svcs a) = Some s ->
  NoDup (s_perp s) /\ (In ik (s_perp s) <-> exists i, iget ik (s_insts s) = Some i /\ i_ephemeral i = false).
Proof.
  intros a k s ik H E. destruct (proj2 (proj1 H) k s E) as (_ & _ & _ & _ & Hn & Hp). split; auto.
Qed.

Lemma index_lists_each_service_once : forall a,
  Inv a ->
  NoDup (ni_keys (a_index a)) /\
  (forall k, In k (ni_keys (a_index a)) <-> sget k (a_svcs a) <> None) /\
  ni_size (a_index a) = N.of_nat (length (ni_keys (a_index a))).
Proof.
  intros a (_ & _ & _ & Io & Ii). split; [apply index_ok_nodup; auto|]. split; auto. apply Io.
Qed.

Lemma client_records_exist_and_belong : forall a c0 ks k ik,
  Inv a -> cget c0 (a_clients a) = Some ks -> In (k, ik) ks ->
  exists i, stored a k ik = Some i /\ i_client i = c0.
Proof.
  intros a c0 ks k ik (_ & _ & [_ C] & _) E Hin. destruct (C c0 ks E) as (_ & _ & Ow). apply Ow; auto.
Qed.

(** ---- the property stated directly over histories ("at every moment"), round 7 ---- *)
Section AtEveryMoment.
  Variables (c : cfg) (hashf : skey -> N) (ops : list op) (t0 : N).
  Hypothesis W : Forall op_wf ops.
  Let a := run_all c hashf (actor_init t0) ops.

  Lemma history_counters_match k s :
    sget k (a_svcs a) = Some s ->
    s_size s = Z.of_nat (length (query_all_instances a k)) /\
    s_hsize s = Z.of_nat (length (filter i_healthy (query_all_instances a k))).
  Proof. apply counters_match_listing. apply Inv_reachable; exact W. Qed.

  Lemma history_perpetual_set k s ik :
    sget k (a_svcs a) = Some s ->
    NoDup (s_perp s) /\ (In ik (s_perp s) <-> exists i, iget ik (s_insts s) = Some i /\ i_ephemeral i = false).
  Proof. apply perpetual_set_is_non_ephemeral. apply Inv_reachable; exact W. Qed.

  Lemma history_index_once :
    NoDup (ni_keys (a_index a)) /\
    (forall k, In k (ni_keys (a_index a)) <-> sget k (a_svcs a) <> None) /\
    ni_size (a_index a) = N.of_nat (length (ni_keys (a_index a))).
  Proof. apply index_lists_each_service_once. apply Inv_reachable; exact W. Qed.

  Lemma history_client_records c0 ks k ik :
    cget c0 (a_clients a) = Some ks -> In (k, ik) ks ->
    exists i, stored a k ik = Some i /\ i_client i = c0.
  Proof. apply client_records_exist_and_belong. apply Inv_reachable; exact W. Qed.

  (** a service that exists after a history and is gone one step later had no instances *)
  Lemma history_dropped_only_when_empty o k s :
    sget k (a_svcs a) = Some s -> sget k (a_svcs (fst (step c hashf a o))) = None -> s_insts s = [].
  Proof. apply dropped_only_when_empty. apply Inv_reachable; exact W. Qed.
End AtEveryMoment.
