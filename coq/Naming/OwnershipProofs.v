(** C12 (ownership part): what a registration stores, which deregistrations are refused, and what
    the end of a gRPC connection removes. *)
From Coq Require Import ZifyBool ZifyNat ZifyN.
From RN Require Import Base.Res Base.AMap Base.AMapProofs Naming.Service Naming.ServiceProofs
  Naming.Filter Naming.Actor Naming.IndexProofs Naming.ActorProofs.
Local Open Scope N_scope.

Lemma stored_create : forall c a k k' ik, stored (create_empty_service c a k) k' ik = stored a k' ik.
Proof.
  intros. unfold create_empty_service. destruct (sget k (a_svcs a)) eqn:E; auto.
  rewrite !stored_eq. cbn [a_svcs]. rewrite stored_sset. destruct (skey_eqd k' k); auto.
  subst. unfold stored_in. rewrite E. reflexivity.
Qed.

(** the state of every address after [update_instance] *)
Lemma update_instance_stored : forall c hashf a k i0 tg fs k' ik',
  exists s, sget k (a_svcs (create_empty_service c a k)) = Some s /\
  stored (fst (update_instance c hashf a k i0 tg fs)) k' ik' =
  if fkey_eqd (k', ik') (k, i_key i0) then Some (upd_new s (upd_in hashf a k i0) tg) else stored a k' ik'.
Proof.
  intros. pose proof (create_empty_service_has c a k) as Has.
  destruct (sget k (a_svcs (create_empty_service c a k))) as [s|] eqn:E; [|congruence].
  exists s. split; auto.
  destruct (update_instance_parts c hashf a k i0 tg fs s E) as (Ea & _). cbn zeta in Ea.
  rewrite stored_eq, Ea, stored_sset. rewrite svc_update_get. rewrite upd_in_key.
  destruct (skey_eqd k' k).
  - subst. destruct (ikey_eqd ik' (i_key i0)), (fkey_eqd (k, ik') (k, i_key i0)); try congruence; auto.
    rewrite <- (stored_create c a k k ik'). unfold stored. rewrite E. reflexivity.
  - destruct (fkey_eqd (k', ik') (k, i_key i0)); [congruence|]. rewrite <- (stored_create c a k k' ik'). reflexivity.
Qed.

(** a newly registered instance carries the address, ephemeral flag, enabled flag, weight (and
    health) it was registered with, whatever the origin, tag and sync flag *)
Theorem registered_fields_kept : forall c hashf a k i0 tg fs,
  stored a k (i_key i0) = None ->
  exists n, stored (fst (update_instance c hashf a k i0 tg fs)) k (i_key i0) = Some n /\
            i_key n = i_key i0 /\ i_ephemeral n = i_ephemeral i0 /\ i_enabled n = i_enabled i0 /\
            i_weight n = i_weight i0 /\ i_healthy n = i_healthy i0 /\ i_lm n = a_now a.
Proof.
  intros c hashf a k i0 tg fs Hn.
  destruct (update_instance_stored c hashf a k i0 tg fs k (i_key i0)) as (s & E & St).
  destruct (fkey_eqd (k, i_key i0) (k, i_key i0)); [|congruence].
  eexists. split; [exact St|].
  assert (X : iget (i_key (upd_in hashf a k i0)) (s_insts s) = None).
  { rewrite upd_in_key. rewrite <- (stored_create c a k k (i_key i0)) in Hn. unfold stored in Hn. rewrite E in Hn. exact Hn. }
  unfold upd_new. rewrite X. unfold upd_in. destruct (_ && negb _); destruct (mget _ _); cbn; auto 10.
Qed.

(** the state of every address after [remove_instance] *)
Lemma remove_instance_stored : forall c a k ik cl k' ik',
  stored (fst (fst (remove_instance c a k ik cl))) k' ik' =
  match sget k (a_svcs a) with
  | Some s => if fkey_eqd (k', ik') (k, ik)
              then (match snd (svc_remove (a_now a) s ik cl) with Some _ => None | None => stored a k' ik' end)
              else stored a k' ik'
  | None => stored a k' ik'
  end.
Proof.
  intros. destruct (sget k (a_svcs a)) as [s|] eqn:E.
  - destruct (remove_instance_parts c a k ik cl s E) as (Ea & _). cbn zeta in Ea.
    rewrite stored_eq, Ea, stored_sset.
    pose proof (svc_remove_spec (a_now a) s ik cl) as Sp. cbn zeta in Sp.
    destruct (svc_remove (a_now a) s ik cl) as [s' o]. cbn [fst snd] in *.
    destruct Sp as [[-> ->] | (old & -> & Eo & Hg & _)].
    + destruct (skey_eqd k' k); [subst; unfold stored; rewrite E|]; destruct (fkey_eqd _ _); auto.
    + destruct (skey_eqd k' k).
      * subst. rewrite Hg. unfold stored. rewrite E.
        destruct (ikey_eqd ik' ik), (fkey_eqd (k, ik') (k, ik)); try congruence; auto.
      * destruct (fkey_eqd (k', ik') (k, ik)); [congruence | auto].
  - unfold remove_instance. rewrite E. reflexivity.
Qed.

(** a deregistration that names another client id does not remove an ephemeral instance *)
Theorem foreign_deregister_refused : forall c a k ik cl i,
  stored a k ik = Some i -> i_ephemeral i = true -> cl <> 0 -> i_client i <> cl ->
  forall k' ik', stored (fst (fst (remove_instance c a k ik (Some cl)))) k' ik' = stored a k' ik'.
Proof.
  intros c a k ik cl i St He Hc Hne k' ik'. rewrite remove_instance_stored.
  unfold stored in St. destruct (sget k (a_svcs a)) as [s|]; auto.
  rewrite (svc_remove_refused (a_now a) s ik cl i); auto. cbn [snd]. destruct (fkey_eqd (k', ik') (k, ik)); reflexivity.
Qed.

(** with the owner's id, without an id (HTTP), or for a persistent instance, it does *)
Theorem own_deregister_removes : forall c a k ik cl i,
  stored a k ik = Some i -> (i_ephemeral i = false \/ cl = 0 \/ i_client i = cl) ->
  stored (fst (fst (remove_instance c a k ik (Some cl)))) k ik = None /\
  forall k' ik', (k', ik') <> (k, ik) -> stored (fst (fst (remove_instance c a k ik (Some cl)))) k' ik' = stored a k' ik'.
Proof.
  intros c a k ik cl i St Hc. split; [|intros k' ik' Hne]; rewrite remove_instance_stored;
    unfold stored in *; destruct (sget k (a_svcs a)) as [s|]; try discriminate; auto.
  - destruct (fkey_eqd (k, ik) (k, ik)); [|congruence]. unfold svc_remove. rewrite St.
    assert (X : i_ephemeral i && negb (cl =? 0) && negb (i_client i =? cl) = false).
    { destruct Hc as [->|[->| ->]]; cbn; auto.
      - rewrite andb_false_r. reflexivity.
      - rewrite N.eqb_refl. cbn. rewrite andb_false_r. reflexivity. }
    rewrite X. reflexivity.
  - destruct (fkey_eqd (k', ik') (k, ik)); [congruence | auto].
Qed.

(** ** the end of a gRPC connection *)
Definition rm_rel (cl : N) (a a' : actor) : Prop :=
  (forall k ik, stored a k ik = None -> stored a' k ik = None) /\
  (forall k ik i, stored a k ik = Some i ->
     stored a' k ik = Some i \/ (stored a' k ik = None /\ i_ephemeral i = true /\ i_client i = cl)).

Lemma rm_rel_refl : forall cl a, rm_rel cl a a.
Proof. split; auto. Qed.

Lemma rm_rel_trans : forall cl a b c, rm_rel cl a b -> rm_rel cl b c -> rm_rel cl a c.
Proof.
  intros cl a b c [A1 A2] [B1 B2]. split; auto. intros k ik i E. destruct (A2 k ik i E) as [X|(X & Y)]; auto.
Qed.

Lemma remove_instance_rm_rel : forall c a k ik cl,
  cl <> 0 -> (forall i, stored a k ik = Some i -> i_ephemeral i = true) ->
  rm_rel cl a (fst (fst (remove_instance c a k ik (Some cl)))).
Proof.
  intros c a k ik cl Hc He. split.
  - intros k' ik' E. rewrite remove_instance_stored. destruct (sget k (a_svcs a)); auto.
    destruct (fkey_eqd _ _); auto. destruct (snd _); auto.
  - intros k' ik' i E. rewrite remove_instance_stored. destruct (sget k (a_svcs a)) as [s|] eqn:Es; auto.
    destruct (fkey_eqd (k', ik') (k, ik)) as [e|e]; auto. inversion e; subst.
    destruct (snd (svc_remove (a_now a) s ik (Some cl))) eqn:R; auto. right. split; auto.
    pose proof (He i E) as Hei. split; auto.
    destruct (N.eq_dec (i_client i) cl); auto. exfalso.
    unfold stored in E. rewrite Es in E. rewrite (svc_remove_refused (a_now a) s ik cl i) in R; auto. discriminate.
Qed.

Lemma remove_keys_rm_rel : forall c cl keys a, cl <> 0 -> rm_rel cl a (remove_keys c a cl keys).
Proof.
  induction keys as [|[k ik] ks IH]; intros a Hc; cbn [remove_keys]; [apply rm_rel_refl|].
  destruct (stored a k ik) as [i|] eqn:E.
  - destruct (negb (i_ephemeral i)) eqn:B; auto.
    eapply rm_rel_trans; [apply remove_instance_rm_rel; auto | apply IH; auto].
    intros i' E'. rewrite E in E'. inversion E'; subst. apply negb_false_iff in B. auto.
  - eapply rm_rel_trans; [apply remove_instance_rm_rel; auto | apply IH; auto]. intros i' E'. congruence.
Qed.

(** when a connection ends, nothing but ephemeral instances of that client disappears: no
    persistent instance, no instance of another client *)
Theorem disconnect_removes_own_ephemeral_only : forall c a cl,
  Inv a -> rm_rel cl a (remove_client_instance c a cl).
Proof.
  intros c a cl H. unfold remove_client_instance. destruct (cget cl (a_clients a)) as [keys|] eqn:E; [|apply rm_rel_refl].
  assert (Hc : cl <> 0) by (destruct H as (_ & _ & [_ C] & _); apply (C cl keys E)).
  eapply rm_rel_trans; [|apply remove_keys_rm_rel; auto]. split; auto.
Qed.

(** ... and every ephemeral instance recorded for the client is removed *)
Lemma remove_keys_complete : forall c cl keys a k ik i,
  cl <> 0 -> In (k, ik) keys -> stored a k ik = Some i -> i_ephemeral i = true -> i_client i = cl ->
  stored (remove_keys c a cl keys) k ik = None.
Proof.
  induction keys as [|[k0 ik0] ks IH]; intros a k ik i Hc Hin St He Hcl; [destruct Hin|].
  cbn [remove_keys]. destruct Hin as [X|Hin].
  - inversion X; subst. rewrite St, He. cbn [negb].
    apply (proj1 (remove_keys_rm_rel c (i_client i) ks _ Hc)).
    apply (own_deregister_removes c a k ik (i_client i) i); auto.
  - assert (Step : forall a1, rm_rel cl a a1 -> stored (remove_keys c a1 cl ks) k ik = None).
    { intros a1 [R1 R2]. destruct (R2 k ik i St) as [Y|[Y _]].
      - eapply IH; eauto.
      - apply (proj1 (remove_keys_rm_rel c cl ks a1 Hc)); auto. }
    destruct (stored a k0 ik0) as [i0|] eqn:E0.
    + destruct (negb (i_ephemeral i0)) eqn:B; [apply Step; apply rm_rel_refl|].
      apply Step. apply remove_instance_rm_rel; auto. intros i' E'. rewrite E0 in E'. inversion E'; subst.
      apply negb_false_iff in B; auto.
    + apply Step. apply remove_instance_rm_rel; auto. intros i' E'. congruence.
Qed.

Theorem disconnect_removes_recorded_ephemeral : forall c a cl ks k ik i,
  Inv a -> cget cl (a_clients a) = Some ks -> In (k, ik) ks -> stored a k ik = Some i -> i_ephemeral i = true ->
  stored (remove_client_instance c a cl) k ik = None.
Proof.
  intros c a cl ks k ik i H E Hin St He. unfold remove_client_instance. rewrite E.
  destruct H as (_ & _ & [_ C] & _). destruct (C cl ks E) as (Hc & _ & Ow).
  destruct (Ow k ik Hin) as (i' & St' & Hcl). rewrite stored_eq in St. rewrite St in St'. inversion St'; subst i'.
  eapply remove_keys_complete; eauto.
Qed.

(** a gRPC registration is recorded for its connection, and the stored record belongs to it *)
Theorem grpc_registration_recorded : forall c hashf a k i0 tg fs,
  i_grpc i0 = true -> i_client i0 <> 0 ->
  let a' := fst (update_instance c hashf a k i0 tg fs) in
  (exists ks, cget (i_client i0) (a_clients a') = Some ks /\ In (k, i_key i0) ks) /\
  (exists n, stored a' k (i_key i0) = Some n /\ i_client n = i_client i0 /\ i_grpc n = true).
Proof.
  intros c hashf a k i0 tg fs Hg Hc a'. subst a'.
  destruct (update_instance_stored c hashf a k i0 tg fs k (i_key i0)) as (s & E & St).
  destruct (fkey_eqd (k, i_key i0) (k, i_key i0)); [|congruence].
  destruct (update_instance_parts c hashf a k i0 tg fs s E) as (_ & Ec & _). cbn zeta in Ec.
  set (i2 := upd_in hashf a k i0) in *.
  assert (G2 : i_grpc i2 = true /\ i_client i2 = i_client i0 /\ i_key i2 = i_key i0).
  { subst i2. unfold upd_in. cbn [set_lm i_grpc]. rewrite Hg. rewrite andb_false_r. cbn. auto. }
  destruct G2 as (G2 & C2 & K2).
  pose proof (upd_new_origin s i2 tg) as Ho. cbn zeta in Ho.
  assert (On : i_client (upd_new s i2 tg) = i_client i0 /\ i_grpc (upd_new s i2 tg) = true).
  { destruct (iget (i_key i2) (s_insts s)); [rewrite G2 in Ho; rewrite andb_false_r in Ho; cbn in Ho|];
      destruct Ho as (A & B & _); split; congruence. }
  split; [|eexists; split; [exact St|]; exact On].
  rewrite Ec. pose proof (svc_update_replace s i2 tg fs) as Hr.
  assert (Hro : forall oc, snd (fst (svc_update s i2 tg fs)) = Some oc -> oc <> i_client i0).
  { intros oc X. rewrite Hr in X. destruct (iget (i_key i2) (s_insts s)) as [old|]; [|discriminate].
    destruct (negb (i_client old =? 0) && negb (i_client (upd_new s i2 tg) =? i_client old)) eqn:B; [|discriminate].
    inversion X; subst. apply andb_true_iff in B. destruct B as [_ B]. apply negb_true_iff in B. apply N.eqb_neq in B.
    destruct On as [On _]. congruence. }
  assert (Hadd : exists ks, cget (i_client i0) (upd_clients_add (a_clients (create_empty_service c a k)) k i2) = Some ks /\
                            In (k, i_key i0) ks).
  { unfold upd_clients_add. rewrite G2, C2, K2. cbn [orb andb].
    destruct (i_client i0 =? 0) eqn:Z; [apply N.eqb_eq in Z; congruence|]. cbn [negb].
    destruct (cget (i_client i0) (a_clients (create_empty_service c a k))) as [set|]; rewrite cget_cset; destruct (N.eq_dec (i_client i0) (i_client i0)); try congruence;
      eexists; split; eauto; [apply in_fadd; auto | cbn; auto]. }
  destruct Hadd as (ks & Ek & Hin). unfold upd_clients_del.
  destruct (snd (fst (svc_update s i2 tg fs))) as [oc|] eqn:Ro; [|eauto].
  destruct (cget oc _) as [set|]; [|eauto]. rewrite cget_cset.
  destruct (N.eq_dec (i_client i0) oc) as [eq1|eq1]; [exfalso; apply (Hro oc eq_refl); auto | eauto].
Qed.

Lemma tag_not_none : forall t, t_metadata t = true -> tag_is_none t = false.
Proof. intros t H. unfold tag_is_none. rewrite H. destruct (t_weight t), (t_enabled t), (t_ephemeral t); reflexivity. Qed.

(** metadata set from the console has priority over metadata sent by an SDK registration *)
Theorem console_metadata_wins : forall s old i1 t pm,
  mget (i_key i1) (s_meta s) = Some pm ->
  t_metadata t = true -> t_from_update t = false ->
  i_meta (fst (fst (fst (merge_tag s old i1 (Some t))))) = pm.
Proof.
  intros s old i1 t pm Hm Ht Hf. unfold merge_tag. rewrite (tag_not_none t Ht), Ht, Hf. cbn [negb]. rewrite Hm.
  destruct (negb (t_enabled t)), (negb (t_ephemeral t)), (negb (t_weight t)); reflexivity.
Qed.

Theorem console_metadata_recorded : forall s old i1 t,
  t_metadata t = true -> t_from_update t = true ->
  mget (i_key i1) (snd (fst (fst (merge_tag s old i1 (Some t))))) = Some (i_meta i1).
Proof.
  intros s old i1 t Ht Hf. unfold merge_tag. rewrite (tag_not_none t Ht), Ht, Hf. cbn [negb fst snd].
  unfold mget, mset. rewrite aget_aset_eq.
  destruct (negb (t_enabled t)), (negb (t_ephemeral t)), (negb (t_weight t)); reflexivity.
Qed.
