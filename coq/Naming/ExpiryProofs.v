(** C13: the heartbeat clock of the registry, at the level of the [NamingActor] model. *)
From Coq Require Import ZifyBool ZifyNat ZifyN.
From RN Require Import Base.Res Base.AMap Base.AMapProofs Naming.Service Naming.ServiceProofs
  Naming.Timeout Naming.TimeoutProofs Naming.Filter Naming.Actor Naming.IndexProofs Naming.ActorProofs
  Naming.OwnershipProofs.
Local Open Scope N_scope.
Ltac Zify.zify_post_hook ::= Z.div_mod_to_equations.

Definition hset_of (a : actor) (k : skey) : list (N * ikey) :=
  match sget k (a_svcs a) with Some s => s_hset s | None => [] end.
Definition uset_of (a : actor) (k : skey) : list (N * ikey) :=
  match sget k (a_svcs a) with Some s => s_uset s | None => [] end.

(** the time-outs are sane and the clock is past them (epoch milliseconds) *)
Definition cfg_ok (c : cfg) (a : actor) : Prop := c_health c <= c_inst c /\ c_inst c <= a_now a.

Lemma time_check_svcs : forall c a k,
  sget k (a_svcs (time_check c a)) = option_map (fun s => fst (fst (tc_svc c (a_now a) s))) (sget k (a_svcs a)).
Proof.
  intros. unfold time_check; cbn [a_svcs]. unfold sget.
  apply (aget_map_vals skey_eqd (fun _ s => fst (fst (tc_svc c (a_now a) s)))).
Qed.

Lemma stored_time_check : forall c a k ik,
  stored (time_check c a) k ik =
  match sget k (a_svcs a) with
  | Some s => tc_effect s (a_now a - c_health c) (a_now a - c_inst c) ik
  | None => None
  end.
Proof.
  intros. unfold stored. rewrite time_check_svcs. destruct (sget k (a_svcs a)) as [s|]; cbn [option_map]; auto.
  unfold tc_svc. apply svc_time_check_get.
Qed.

(** an instance whose last heartbeat is younger than the health time-out is neither marked
    unhealthy nor removed by a tick *)
Theorem never_expired_while_beating : forall c a k ik i,
  cfg_ok c a -> stored a k ik = Some i -> a_now a < i_lm i + c_health c ->
  stored (time_check c a) k ik = Some i.
Proof.
  intros c a k ik i [C1 C2] St Hb. rewrite stored_time_check. unfold stored in St.
  destruct (sget k (a_svcs a)) as [s|]; [|discriminate]. apply tc_recent; auto; lia.
Qed.

(** persistent, gRPC-connected and remotely owned instances are never touched by the clock *)
Theorem persistent_and_grpc_never_expired : forall c a k ik i,
  stored a k ik = Some i -> (i_ephemeral i = false \/ i_grpc i = true \/ i_cluster i <> 0) ->
  stored (time_check c a) k ik = Some i.
Proof.
  intros c a k ik i St H. rewrite stored_time_check. unfold stored in St.
  destruct (sget k (a_svcs a)) as [s|]; [|discriminate]. apply tc_effect_not_enabled; auto.
  unfold is_enable_timeout, is_from_cluster. destruct H as [->|[->|H]]; cbn; auto.
  - rewrite andb_false_r. reflexivity.
  - apply N.eqb_neq in H. rewrite H. cbn. rewrite andb_false_r. reflexivity.
Qed.

(** a tick changes an instance only by marking it unhealthy, and only after the health time-out
    has passed since its last modification *)
Theorem unhealthy_only_after_silence : forall c a k ik i i',
  cfg_ok c a -> stored a k ik = Some i -> stored (time_check c a) k ik = Some i' -> i' <> i ->
  i' = set_healthy i false /\ is_enable_timeout i = true /\ i_healthy i = true /\ i_lm i + c_health c <= a_now a.
Proof.
  intros c a k ik i i' [C1 C2] St St' Hne. rewrite stored_time_check in St'. unfold stored in St.
  destruct (sget k (a_svcs a)) as [s|]; [|discriminate].
  destruct (tc_changed_inv s _ _ ik i i' St St' Hne) as (A & B & C & D & _). repeat split; auto. lia.
Qed.

(** a tick removes an instance only after the instance time-out has passed *)
Theorem removed_only_after_silence : forall c a k ik i,
  cfg_ok c a -> stored a k ik = Some i -> stored (time_check c a) k ik = None ->
  is_enable_timeout i = true /\ i_lm i + c_inst c <= a_now a.
Proof.
  intros c a k ik i [C1 C2] St St'. rewrite stored_time_check in St'. unfold stored in St.
  destruct (sget k (a_svcs a)) as [s|]; [|discriminate].
  destruct (tc_none_inv s _ _ ik i St St') as (A & B & _). split; auto. lia.
Qed.

(** liveness of one tick, for an instance whose entry is in the healthy time-out set: once the
    health time-out has passed it is marked unhealthy and queued for removal (or removed at once) *)
Theorem tick_marks_unhealthy : forall c a k ik i,
  cfg_ok c a -> stored a k ik = Some i -> is_enable_timeout i = true -> i_healthy i = true ->
  In (i_lm i, ik) (hset_of a k) -> i_lm i + c_health c <= a_now a ->
  stored (time_check c a) k ik = None \/
  (stored (time_check c a) k ik = Some (set_healthy i false) /\ In (i_lm i, ik) (uset_of (time_check c a) k)).
Proof.
  intros c a k ik i [C1 C2] St En He Hin Hl. rewrite stored_time_check. unfold stored, hset_of, uset_of in *.
  rewrite time_check_svcs. destruct (sget k (a_svcs a)) as [s|]; [|discriminate]. cbn [option_map].
  destruct (tc_mark s (a_now a - c_health c) (a_now a - c_inst c) ik i St En He Hin) as [X|X]; [lia | auto |].
  right. split; auto. unfold tc_svc.
  destruct (svc_time_check_sets (a_now a) s (a_now a - c_health c) (a_now a - c_inst c)) as (_ & _ & M).
  cbn zeta in M. apply (M ik i); auto.
Qed.

(** ... and once the instance time-out has passed, a queued unhealthy instance is removed *)
Theorem tick_removes : forall c a k ik i,
  cfg_ok c a -> stored a k ik = Some i -> is_enable_timeout i = true ->
  In (i_lm i, ik) (uset_of a k) -> i_lm i + c_inst c <= a_now a ->
  stored (time_check c a) k ik = None.
Proof.
  intros c a k ik i [C1 C2] St En Hin Hl. rewrite stored_time_check. unfold stored, uset_of in *.
  destruct (sget k (a_svcs a)) as [s|]; [|discriminate]. apply (tc_remove s _ _ ik i); auto. lia.
Qed.

(** ** registration and heartbeat arm the clock *)
Lemma upd_new_lm : forall s i0 tg, i_lm (upd_new s i0 tg) = i_lm i0.
Proof.
  intros. unfold upd_new. destruct (iget _ _) as [old|].
  - destruct (merge_tag_origin s old (if i_ephemeral i0 && negb (i_grpc i0) && i_grpc old
       then set_origin i0 (i_grpc old) (i_cluster old) (i_client old) else i0) tg) as (_ & _ & _ & L).
    cbn zeta in L. rewrite L. destruct (_ && _ && _); reflexivity.
  - destruct (mget _ _); reflexivity.
Qed.

Lemma svc_update_sets : forall s i0 tg fs,
  let s' := fst (fst (fst (svc_update s i0 tg fs))) in
  s_hset s' = (if is_enable_timeout (upd_new s i0 tg) && negb fs
               then ts_add (i_lm i0) (i_key i0) (s_hset s) else s_hset s) /\
  s_uset s' = s_uset s.
Proof.
  intros s i0 tg fs. cbn zeta. pose proof (upd_new_lm s i0 tg) as L. unfold svc_update, upd_new in *.
  destruct (iget (i_key i0) (s_insts s)) as [old|].
  - destruct (merge_tag s old _ tg) as [[[i2 meta] rt] pc]. cbn [fst snd svc_with_insts s_hset s_uset] in *.
    rewrite L. split; reflexivity.
  - cbn [fst snd svc_with_insts s_hset s_uset] in *. rewrite L. split; reflexivity.
Qed.

Lemma upd_in_lm : forall hashf a k i0, i_lm (upd_in hashf a k i0) = a_now a.
Proof. intros. unfold upd_in. destruct (_ && _); reflexivity. Qed.

(** a direct (not cluster-synced) registration or heartbeat stamps the instance with the current
    time and, when the clock applies to what is stored, queues it in the healthy time-out set *)
Theorem update_arms : forall c hashf a k i0 tg,
  let a' := fst (update_instance c hashf a k i0 tg false) in
  exists n, stored a' k (i_key i0) = Some n /\ i_lm n = a_now a /\ a_now a' = a_now a /\
            (is_enable_timeout n = true -> In (a_now a, i_key i0) (hset_of a' k)).
Proof.
  intros c hashf a k i0 tg a'. subst a'.
  destruct (update_instance_stored c hashf a k i0 tg false k (i_key i0)) as (s & E & St).
  destruct (fkey_eqd (k, i_key i0) (k, i_key i0)); [|congruence].
  destruct (update_instance_parts c hashf a k i0 tg false s E) as (Ea & _ & _ & _ & En). cbn zeta in *.
  eexists. split; [exact St|]. split; [rewrite upd_new_lm; apply upd_in_lm|]. split; auto.
  intros Hen. unfold hset_of. rewrite Ea. unfold sset, sget. rewrite aget_aset_eq.
  destruct (svc_update_sets s (upd_in hashf a k i0) tg false) as (Hh & _). cbn zeta in Hh. rewrite Hh, Hen.
  cbn [negb andb]. rewrite upd_in_lm, upd_in_key. unfold ts_add. apply in_app_iff. right. cbn. auto.
Qed.

(** ** take-over *)
Lemma refresh_fold_sets : forall l s,
  let s' := fold_left refresh_one l s in
  (forall e, In e (s_hset s) -> In e (s_hset s')) /\ (forall e, In e (s_uset s) -> In e (s_uset s')) /\
  (forall i, In i l -> In (i_lm i, i_key i) (s_hset s') /\ (i_healthy i = false -> In (i_lm i, i_key i) (s_uset s'))).
Proof.
  induction l as [|j l IH]; intros s; cbn [fold_left]; cbn zeta.
  - split; auto. split; auto. intros i0 [].
  - destruct (IH (refresh_one s j)) as (A & B & C). cbn zeta in *.
    assert (A0 : forall e, In e (s_hset s) -> In e (s_hset (refresh_one s j))).
    { intros e He. unfold refresh_one; cbn [s_hset]. unfold ts_add. apply in_app_iff. auto. }
    assert (B0 : forall e, In e (s_uset s) -> In e (s_uset (refresh_one s j))).
    { intros e He. unfold refresh_one; cbn [s_uset]. destruct (negb _); auto. unfold ts_add. apply in_app_iff. auto. }
    split; [auto|]. split; [auto|]. intros i [->|Hi]; [|apply C; auto]. split.
    + apply A. unfold refresh_one; cbn [s_hset]. unfold ts_add. apply in_app_iff. right. cbn. auto.
    + intros Hu. apply B. unfold refresh_one; cbn [s_uset set_origin i_healthy i_lm i_key]. rewrite Hu. cbn [negb].
      unfold ts_add. apply in_app_iff. right. cbn. auto.
Qed.

(** an instance synced from another node, in a service of the range this node takes over,
    becomes locally owned and is put under the clock: queued in the healthy set (and, when it
    already is unhealthy, in the removal set) with its last modification time *)
Theorem refresh_rearms : forall hashf a r k ik i,
  Inv a -> stored a k ik = Some i -> i_grpc i = false -> i_cluster i <> 0 -> is_range r (hashf k) = true ->
  let a' := refresh_process_range hashf a r in
  stored a' k ik = Some (localise i) /\
  is_enable_timeout (localise i) = i_ephemeral i /\
  In (i_lm i, ik) (hset_of a' k) /\
  (i_healthy i = false -> In (i_lm i, ik) (uset_of a' k)).
Proof.
  intros hashf a r k ik i H St Hg Hc Hr a'. subst a'. unfold stored, hset_of, uset_of in *.
  unfold refresh_process_range; cbn [a_svcs]. unfold sget in *.
  rewrite (aget_map_vals skey_eqd (fun k s => if is_range r (hashf k) then svc_refresh s else s)).
  destruct (aget skey_eqd k (a_svcs a)) as [s|] eqn:E; [|discriminate]. cbn [option_map]. rewrite Hr.
  pose proof (proj2 (proj1 H) k s E) as Hs. pose proof Hs as (Hn & Hk & _).
  assert (T : taken i = true).
  { unfold taken, is_from_cluster. rewrite Hg. apply N.eqb_neq in Hc. rewrite Hc. reflexivity. }
  split; [rewrite svc_refresh_get; auto; rewrite St, T; reflexivity|].
  split.
  { unfold is_enable_timeout, localise, is_from_cluster. cbn. rewrite Hg. cbn. rewrite ?andb_true_r. reflexivity. }
  assert (Hin : In i (refresh_taken s)).
  { unfold refresh_taken. apply filter_In. split; [apply (in_avals_aget ikey_eqd); eauto | exact T]. }
  destruct (refresh_fold_sets (refresh_taken s) s) as (_ & _ & C). cbn zeta in C.
  destruct (C i Hin) as [C1 C2]. rewrite (Hk ik i St) in C1, C2. unfold svc_refresh. auto.
Qed.
