(** Model of [src/naming/core.rs] ([NamingActor]) and [src/naming/service_index.rs]
    ([NamespaceIndex], [ServiceIndex]): literal transcription of the bookkeeping paths.
    Definitions only.

    A service key is (namespace, group, service) : N*N*N; an [InstanceKey] is (service key, short
    key).  The clock is logical ([a_now]); [hashf] stands for [get_hash_value] (DefaultHasher) and
    is a parameter (the harness reports the real values).  Notifications (subscriber, cluster
    delay notify, raft forwarding) do not touch the modelled state and are omitted.
    [once_time_check_size] is assumed not to be reached (10000 expirations in one tick). *)
From RN Require Import Base.Res Base.AMap Naming.Service Naming.Filter.
Local Open Scope N_scope.

Definition skey := (N * N * N)%type.
Definition fkey := (skey * ikey)%type.

Definition skey_eqd : forall a b : skey, {a = b} + {a <> b}.
Proof. decide equality; try apply N.eq_dec. decide equality; apply N.eq_dec. Defined.
Definition fkey_eqd : forall a b : fkey, {a = b} + {a <> b}.
Proof. decide equality; [apply N.eq_dec | apply skey_eqd]. Defined.

Record cfg := mkCfg {
  c_health : N;   (* instance_health_timeout_millis *)
  c_inst : N;     (* instance_timeout_millis *)
  c_svc : N;      (* service_time_out_millis *)
  c_meta : N      (* instance_metadata_time_out_millis *)
}.

(** service_index.rs *)
Record sindex := mkSI { si_groups : list (N * list N); si_size : N }.
Record nsindex := mkNI { ni_ns : list (N * sindex); ni_size : N }.

Definition gget := @aget N (list N) N.eq_dec.
Definition gset := @aset N (list N) N.eq_dec.
Definition gdel := @adel N (list N) N.eq_dec.
Definition nget := @aget N sindex N.eq_dec.
Definition nset := @aset N sindex N.eq_dec.
Definition ndel := @adel N sindex N.eq_dec.
Definition nmem := @smem N N.eq_dec.
Definition nsdel := @sdel N N.eq_dec.

Definition si_insert (si : sindex) (g s : N) : sindex * bool :=
  match gget g (si_groups si) with
  | Some set =>
      if nmem s set then (si, false)
      else (mkSI (gset g (set ++ [s]) (si_groups si)) (si_size si + 1), true)
  | None => (mkSI (gset g [s] (si_groups si)) (si_size si + 1), true)
  end.

Definition si_remove (si : sindex) (g s : N) : sindex * bool * N :=
  match gget g (si_groups si) with
  | Some set =>
      if nmem s set then
        let set' := nsdel s set in
        let groups := match set' with [] => gdel g (si_groups si) | _ => gset g set' (si_groups si) end in
        (mkSI groups (si_size si - 1), true, N.of_nat (length groups))
      else (si, false, N.of_nat (length (si_groups si)))
  | None => (si, false, N.of_nat (length (si_groups si)))
  end.

Definition ni_insert (ni : nsindex) (k : skey) : nsindex :=
  let '(n, g, s) := k in
  match nget n (ni_ns ni) with
  | Some si =>
      let '(si', b) := si_insert si g s in
      mkNI (nset n si' (ni_ns ni)) (if b then ni_size ni + 1 else ni_size ni)
  | None =>
      let '(si', b) := si_insert (mkSI [] 0) g s in
      mkNI (nset n si' (ni_ns ni)) (if b then ni_size ni + 1 else ni_size ni)
  end.

Definition ni_remove (ni : nsindex) (k : skey) : nsindex :=
  let '(n, g, s) := k in
  match nget n (ni_ns ni) with
  | Some si =>
      let '(si', b, glen) := si_remove si g s in
      let size := if b then ni_size ni - 1 else ni_size ni in
      if glen =? 0 then mkNI (ndel n (ni_ns ni)) size else mkNI (nset n si' (ni_ns ni)) size
  | None => ni
  end.

Definition si_keys (n : N) (si : sindex) : list skey :=
  flat_map (fun gl => map (fun s => (n, fst gl, s)) (snd gl)) (si_groups si).
Definition ni_keys (ni : nsindex) : list skey :=
  flat_map (fun e => si_keys (fst e) (snd e)) (ni_ns ni).

(** [NamespaceIndex::query_service_page] with offset 0, an unbounded limit and no group/service
    filter: (total, keys) *)
Definition ni_query (ni : nsindex) (ns : option N) : N * list skey :=
  match ns with
  | Some n =>
      match nget n (ni_ns ni) with
      | Some si => (N.of_nat (length (si_keys n si)), si_keys n si)
      | None => (0, [])
      end
  | None => (N.of_nat (length (ni_keys ni)), ni_keys ni)
  end.

Record actor := mkActor {
  a_svcs : list (skey * service);          (* service_map *)
  a_clients : list (N * list fkey);        (* client_instance_set *)
  a_index : nsindex;                       (* namespace_index *)
  a_empty : list (N * skey);               (* empty_service_set *)
  a_metaset : list (N * fkey);             (* instance_metadate_set *)
  a_range : option (N * N);                (* current_range (index, len) *)
  a_now : N                                (* the clock *)
}.

Definition actor_init (t0 : N) : actor := mkActor [] [] (mkNI [] 0) [] [] None t0.

Definition sget := @aget skey service skey_eqd.
Definition sset := @aset skey service skey_eqd.
Definition sdelete := @adel skey service skey_eqd.
Definition cget := @aget N (list fkey) N.eq_dec.
Definition cset := @aset N (list fkey) N.eq_dec.
Definition cdel := @adel N (list fkey) N.eq_dec.
Definition fmem := @smem fkey fkey_eqd.
Definition fadd := @sadd fkey fkey_eqd.
Definition fdel := @sdel fkey fkey_eqd.

Definition with_svcs (a : actor) svcs : actor :=
  mkActor svcs (a_clients a) (a_index a) (a_empty a) (a_metaset a) (a_range a) (a_now a).
Definition with_clients (a : actor) cl : actor :=
  mkActor (a_svcs a) cl (a_index a) (a_empty a) (a_metaset a) (a_range a) (a_now a).
Definition with_empty (a : actor) e : actor :=
  mkActor (a_svcs a) (a_clients a) (a_index a) e (a_metaset a) (a_range a) (a_now a).
Definition with_metaset (a : actor) m : actor :=
  mkActor (a_svcs a) (a_clients a) (a_index a) (a_empty a) m (a_range a) (a_now a).

(** [create_empty_service] (core.rs:216-241) *)
Definition create_empty_service (c : cfg) (a : actor) (k : skey) : actor :=
  match sget k (a_svcs a) with
  | Some _ => a
  | None =>
      mkActor (sset k svc_empty (a_svcs a)) (a_clients a) (ni_insert (a_index a) k)
              (ts_add (a_now a + c_svc c) k (a_empty a)) (a_metaset a) (a_range a) (a_now a)
  end.

Definition svc_set_thr (s : service) (t : N * N) : service :=
  mkSvc (s_insts s) (s_size s) (s_hsize s) (s_perp s) (s_meta s) (s_hset s) (s_uset s) t (s_last_empty s).

(** [update_service] (core.rs:243-287); service metadata is not modelled *)
Definition update_service (c : cfg) (a : actor) (k : skey) (thr : option (N * N)) : actor :=
  match sget k (a_svcs a) with
  | Some s =>
      match thr with
      | Some t => with_svcs a (sset k (svc_set_thr s t) (a_svcs a))
      | None => a
      end
  | None =>
      let s := match thr with Some t => svc_set_thr svc_empty t | None => svc_empty end in
      mkActor (sset k s (a_svcs a)) (a_clients a) (ni_insert (a_index a) k)
              (ts_add (a_now a + c_svc c) k (a_empty a)) (a_metaset a) (a_range a) (a_now a)
  end.

(** cluster/model.rs [ProcessRange::is_range] *)
Definition is_range (r : N * N) (h : N) : bool := (snd r <? 2) || (h mod snd r =? fst r).

Definition remove_client_instance_key (a : actor) (cl : N) (k : fkey) : actor :=
  match cget cl (a_clients a) with
  | Some keys => with_clients a (cset cl (fdel k keys) (a_clients a))
  | None => a
  end.

(** [NamingActor::remove_instance] (core.rs:412-460) *)
Definition remove_instance (c : cfg) (a : actor) (k : skey) (ik : ikey) (cl : option N)
  : actor * utype * ptype :=
  match sget k (a_svcs a) with
  | None => (a, UNone, PNone)
  | Some s =>
      let '(s', old) := svc_remove (a_now a) s ik cl in
      let a1 := with_svcs a (sset k s' (a_svcs a)) in
      let a2 := match old with
                | Some o => match mget (i_key o) (s_meta s') with
                            | Some _ => with_metaset a1 (ts_add (a_now a + c_meta c) (k, i_key o) (a_metaset a1))
                            | None => a1
                            end
                | None => a1
                end in
      let pt := match old with Some o => if negb (i_ephemeral o) then PRemove else PNone | None => PNone end in
      let ut := match old with Some _ => URemove | None => UNone end in
      let a3 := if (s_size s' <=? 0)%Z then with_empty a2 (ts_add (a_now a + c_svc c) k (a_empty a2)) else a2 in
      let a4 := match old with
                | Some o => if negb (i_client o =? 0) then remove_client_instance_key a3 (i_client o) (k, ik) else a3
                | None => a3
                end in
      (a4, ut, pt)
  end.

(** [NamingActor::update_instance] (core.rs:462-545) *)
Definition update_instance (c : cfg) (hashf : skey -> N) (a : actor) (k : skey) (i0 : inst)
           (tg : option tag) (from_sync : bool) : actor * utype :=
  let i1 := set_lm i0 (a_now a) in
  let a1 := create_empty_service c a k in
  let at_range := match a_range a1 with Some r => is_range r (hashf k) | None => false end in
  let i2 := if at_range && negb (i_grpc i1) then set_origin i1 (i_grpc i1) 0 0 else i1 in
  match sget k (a_svcs a1) with
  | None => (a1, UNone)
  | Some s =>
      let client := i_client i2 in
      let ikeyv := (k, i_key i2) in
      let a2 := if (i_grpc i2 || is_from_cluster i2) && negb (client =? 0) then
                  match cget client (a_clients a1) with
                  | Some set => with_clients a1 (cset client (fadd ikeyv set) (a_clients a1))
                  | None => with_clients a1 (cset client [ikeyv] (a_clients a1))
                  end
                else a1 in
      let '(s', ut, replace_old, pt) := svc_update s i2 tg from_sync in
      let a3 := with_svcs a2 (sset k s' (a_svcs a2)) in
      let a4 := match replace_old with
                | Some oc => match cget oc (a_clients a3) with
                             | Some set => with_clients a3 (cset oc (fdel ikeyv set) (a_clients a3))
                             | None => a3
                             end
                | None => a3
                end in
      (a4, ut)
  end.

(** [remove_client_instance] (core.rs:547-561, after the repair "RemoveClient must not remove
    persistent instances") *)
Definition stored (a : actor) (k : skey) (ik : ikey) : option inst :=
  match sget k (a_svcs a) with
  | Some s => iget ik (s_insts s)
  | None => None
  end.

Fixpoint remove_keys (c : cfg) (a : actor) (cl : N) (keys : list fkey) : actor :=
  match keys with
  | [] => a
  | (k, ik) :: ks =>
      match stored a k ik with
      | Some i =>
          if negb (i_ephemeral i) then remove_keys c a cl ks
          else remove_keys c (fst (fst (remove_instance c a k ik (Some cl)))) cl ks
      | None => remove_keys c (fst (fst (remove_instance c a k ik (Some cl)))) cl ks
      end
  end.

Definition remove_client_instance (c : cfg) (a : actor) (cl : N) : actor :=
  match cget cl (a_clients a) with
  | Some keys => remove_keys c (with_clients a (cdel cl (a_clients a))) cl keys
  | None => a
  end.

(** [clear_one_empty_service] (core.rs:977-991); u64 subtraction, [now >= c_svc] assumed *)
Definition clear_one_empty_service (c : cfg) (a : actor) (k : skey) (now : N) : actor :=
  match sget k (a_svcs a) with
  | Some s =>
      if (s_size s <=? 0)%Z && (s_last_empty s <=? now - c_svc c) then
        mkActor (sdelete k (a_svcs a)) (a_clients a) (ni_remove (a_index a) k) (a_empty a) (a_metaset a)
                (a_range a) (a_now a)
      else a
  | None => a
  end.

(** [clear_empty_service] (core.rs:969-975) *)
Definition clear_empty_service (c : cfg) (a : actor) : actor :=
  let '(keys, rest) := ts_timeout (a_now a) (a_empty a) in
  fold_left (fun acc k => clear_one_empty_service c acc k (a_now a)) keys (with_empty a rest).

(** [remove_empty_service] (core.rs:316-331): true = Ok *)
Definition remove_empty_service (c : cfg) (a : actor) (k : skey) : actor * bool :=
  match sget k (a_svcs a) with
  | Some s =>
      if (s_size s <=? 0)%Z then (clear_one_empty_service c a k 9223372036854775807, true)
      else (a, false)
  | None => (a, true)
  end.

(** [clear_timeout_instance_metadata] (core.rs:993-1017) *)
Definition clear_one_meta (a : actor) (fk : fkey) : actor :=
  let '(k, ik) := fk in
  match sget k (a_svcs a) with
  | Some s =>
      match iget ik (s_insts s) with
      | Some _ => a
      | None => with_svcs a (sset k (mkSvc (s_insts s) (s_size s) (s_hsize s) (s_perp s) (mdel ik (s_meta s))
                                            (s_hset s) (s_uset s) (s_thr s) (s_last_empty s)) (a_svcs a))
      end
  | None => a
  end.

Definition clear_timeout_instance_metadata (a : actor) : actor :=
  let '(keys, rest) := ts_timeout (a_now a) (a_metaset a) in
  fold_left clear_one_meta keys (with_metaset a rest).

(** [NamingActor::time_check] (core.rs:686-726) over every service; the additions to
    [empty_service_set] / [instance_metadate_set] are collected in service order *)
Definition tc_svc (c : cfg) (now : N) (s : service) : service * list ikey * list ikey :=
  svc_time_check now s (now - c_health c) (now - c_inst c).

Definition tc_empty_adds (c : cfg) (now : N) (e : skey * service) : list (N * skey) :=
  if (s_size (fst (fst (tc_svc c now (snd e)))) <=? 0)%Z then [(now + c_svc c, fst e)] else [].

Definition tc_meta_adds (c : cfg) (now : N) (e : skey * service) : list (N * fkey) :=
  let s' := fst (fst (tc_svc c now (snd e))) in
  flat_map (fun ik => match mget ik (s_meta s') with
                      | Some _ => [(now + c_meta c, (fst e, ik))]
                      | None => [] end) (snd (fst (tc_svc c now (snd e)))).

Definition time_check (c : cfg) (a : actor) : actor :=
  let now := a_now a in
  mkActor (map (fun e => (fst e, fst (fst (tc_svc c now (snd e))))) (a_svcs a)) (a_clients a) (a_index a)
          (a_empty a ++ flat_map (tc_empty_adds c now) (a_svcs a))
          (a_metaset a ++ flat_map (tc_meta_adds c now) (a_svcs a))
          (a_range a) (a_now a).

(** [NamingActor::time_check] with the per-round budget [once_time_check_size] (core.rs:694-723,
    `if size >= self.sys_config.once_time_check_size { break; }`): the services are visited in the
    iteration order of [service_map] ([order]: a HashMap order, hence a parameter; the harness
    reports the real one); [size] accumulates [rlist.len() + ulist.len()]; the round stops AFTER
    the service with which [size] reaches the budget [n] *)
Definition tc_actions (c : cfg) (now : N) (s : service) : N :=
  N.of_nat (length (snd (fst (tc_svc c now s))) + length (snd (tc_svc c now s))).

Fixpoint tc_visited (c : cfg) (now n : N) (svcs : list (skey * service)) (order : list skey) (size : N) : list skey :=
  match order with
  | [] => []
  | k :: r =>
      match sget k svcs with
      | Some s =>
          let size' := size + tc_actions c now s in
          k :: (if n <=? size' then [] else tc_visited c now n svcs r size')
      | None => tc_visited c now n svcs r size
      end
  end.

Definition kvis := @smem skey skey_eqd.

Definition time_check_budget (c : cfg) (n : N) (order : list skey) (a : actor) : actor :=
  let now := a_now a in
  let vis := tc_visited c now n (a_svcs a) order 0 in
  mkActor (map (fun e => (fst e, if kvis (fst e) vis then fst (fst (tc_svc c now (snd e))) else snd e)) (a_svcs a))
          (a_clients a) (a_index a)
          (a_empty a ++ flat_map (fun e => if kvis (fst e) vis then tc_empty_adds c now e else []) (a_svcs a))
          (a_metaset a ++ flat_map (fun e => if kvis (fst e) vis then tc_meta_adds c now e else []) (a_svcs a))
          (a_range a) (a_now a).

(** [refresh_process_range] (core.rs:1145-1155) *)
Definition refresh_process_range (hashf : skey -> N) (a : actor) (r : N * N) : actor :=
  mkActor (map (fun e => (fst e, if is_range r (hashf (fst e)) then svc_refresh (snd e) else snd e)) (a_svcs a))
          (a_clients a) (a_index a) (a_empty a) (a_metaset a) (Some r) (a_now a).

(** [update_perpetual_health] (core.rs:758-780) *)
Definition update_perpetual_health (a : actor) (host : ikey) (keys : list skey) (ok : bool) : actor :=
  fold_left (fun acc k =>
               match sget k (a_svcs acc) with
               | Some s => with_svcs acc (sset k (if ok then svc_perpetual_healthy_valid s host
                                                   else svc_healthy_invalid s host) (a_svcs acc))
               | None => acc
               end) keys a.

(** [diff_grpc_distro_client_data] (core.rs:1100-1125): removals happen after the scan *)
Definition diff_scan (a : actor) (data : list (N * list fkey)) : list fkey * list fkey :=
  fold_left (fun acc e =>
               let '(rm, nw) := acc in
               let '(cl, theirs) := e in
               match cget cl (a_clients a) with
               | Some mine => (rm ++ filter (fun x => negb (fmem x theirs)) mine,
                               nw ++ filter (fun x => negb (fmem x mine)) theirs)
               | None => (rm, nw ++ theirs)
               end) data ([], []).

Definition diff_grpc_distro_client_data (c : cfg) (a : actor) (data : list (N * list fkey)) : actor * list fkey :=
  let '(rm, nw) := diff_scan a data in
  (fold_left (fun acc fk => fst (fst (remove_instance c acc (fst fk) (snd fk) None))) rm a, nw).

(** queries *)
Definition get_instance_list (a : actor) (k : skey) (only_healthy : bool) : list inst :=
  match sget k (a_svcs a) with
  | Some s => default_instance_filter (svc_all_instances s false true) (s_thr s) only_healthy
  | None => []
  end.

Definition get_service_info (a : actor) (k : skey) (only_healthy : bool) : list inst * bool :=
  match sget k (a_svcs a) with
  | Some s => default_service_filter (svc_all_instances s false true) (Some (s_thr s)) only_healthy
  | None => default_service_filter [] None only_healthy
  end.

Definition query_all_instances (a : actor) (k : skey) : list inst :=
  match sget k (a_svcs a) with
  | Some s => svc_all_instances s false false
  | None => []
  end.

Definition get_service_info_page (a : actor) (ns : option N) : N * list (skey * Z * Z) :=
  let '(size, keys) := ni_query (a_index a) ns in
  if size =? 0 then (0, [])
  else (size, flat_map (fun k => match sget k (a_svcs a) with
                                 | Some s => [(k, s_size s, s_hsize s)]
                                 | None => [] end) keys).
