(** C13 over histories: heartbeats, silences and unrelated traffic in any interleaving. *)
From Coq Require Import ZifyBool ZifyNat ZifyN.
From RN Require Import Base.Res Base.AMap Base.AMapProofs Naming.Service Naming.ServiceProofs
  Naming.Timeout Naming.TimeoutProofs Naming.Filter Naming.Actor Naming.IndexProofs Naming.ActorProofs
  Naming.OwnershipProofs Naming.ExpiryProofs Naming.Script.
Local Open Scope N_scope.
Ltac Zify.zify_post_hook ::= Z.div_mod_to_equations.

(** ops that do not address the instance under (k, ik): the clock advancing, registrations,
    heartbeats and deregistrations of OTHER addresses (same or other services), queries *)
Definition quiet (fk : fkey) (o : op) : Prop :=
  match o with
  | OpTick _ => True
  | OpUpdate k i _ _ => (k, i_key i) <> fk
  | OpDelete k ik _ => (k, ik) <> fk
  | OpQList _ _ | OpQInfo _ _ | OpQAll _ | OpQOne _ _ | OpQPage _ | OpQSvc _ | OpQClients => True
  | _ => False
  end.

Definition frame (k : skey) (ik : ikey) (a a' : actor) : Prop :=
  stored a' k ik = stored a k ik /\
  (forall e, In e (hset_of a k) -> In e (hset_of a' k)) /\
  (forall e, In e (uset_of a k) -> In e (uset_of a' k)) /\
  a_now a <= a_now a'.

Lemma frame_refl : forall k ik a, frame k ik a a.
Proof. intros. split; auto. split; auto. split; auto. lia. Qed.

Lemma frame_trans : forall k ik a b c, frame k ik a b -> frame k ik b c -> frame k ik a c.
Proof.
  intros k ik a b c (A1 & A2 & A3 & A4) (B1 & B2 & B3 & B4). split; [congruence|]. split; auto. split; auto. lia.
Qed.

Lemma sets_sset : forall a a' k k' s s',
  sget k' (a_svcs a) = Some s -> a_svcs a' = sset k' s' (a_svcs a) ->
  (forall e, In e (s_hset s) -> In e (s_hset s')) -> (forall e, In e (s_uset s) -> In e (s_uset s')) ->
  (forall e, In e (hset_of a k) -> In e (hset_of a' k)) /\ (forall e, In e (uset_of a k) -> In e (uset_of a' k)).
Proof.
  intros a a' k k' s s' E Ea Hh Hu. unfold hset_of, uset_of. rewrite Ea. unfold sset, sget. rewrite aget_aset.
  destruct (skey_eqd k k'); [|auto]. subst. unfold sget in E. rewrite E. auto.
Qed.

Lemma quiet_frame : forall c hashf a k ik o, quiet (k, ik) o -> frame k ik a (fst (step c hashf a o)).
Proof.
  intros c hashf a k ik o Q. destruct o; cbn [quiet] in Q; try (exfalso; exact Q); cbn [step fst];
    try apply frame_refl.
  - (* OpUpdate of another address *)
    destruct (update_instance_stored c hashf a k0 i t from_sync k ik) as (s & E & St).
    destruct (fkey_eqd (k, ik) (k0, i_key i)); [congruence|].
    destruct (update_instance_parts c hashf a k0 i t from_sync s E) as (Ea & _ & _ & _ & En). cbn zeta in *.
    split; [exact St|].
    destruct (svc_update_sets s (upd_in hashf a k0 i) t from_sync) as (Hh & Hu). cbn zeta in *.
    assert (X : (forall e, In e (hset_of (create_empty_service c a k0) k) ->
                           In e (hset_of (fst (update_instance c hashf a k0 i t from_sync)) k)) /\
                (forall e, In e (uset_of (create_empty_service c a k0) k) ->
                           In e (uset_of (fst (update_instance c hashf a k0 i t from_sync)) k))).
    { eapply sets_sset; eauto.
      - rewrite Hh. destruct (_ && _); auto. intros e He. unfold ts_add. apply in_app_iff. auto.
      - rewrite Hu. auto. }
    assert (Y : hset_of (create_empty_service c a k0) k = hset_of a k /\ uset_of (create_empty_service c a k0) k = uset_of a k).
    { unfold create_empty_service, hset_of, uset_of. destruct (sget k0 (a_svcs a)) eqn:E0; auto.
      cbn [a_svcs]. unfold sset, sget. rewrite aget_aset. destruct (skey_eqd k k0); auto.
      subst. unfold sget in E0. rewrite E0. auto. }
    destruct X as [X1 X2]. destruct Y as [Y1 Y2]. rewrite Y1 in X1. rewrite Y2 in X2.
    split; auto. split; auto. lia.
  - (* OpDelete of another address *)
    split.
    + rewrite remove_instance_stored. destruct (sget k0 (a_svcs a)); auto.
      destruct (fkey_eqd (k, ik) (k0, ik0)); [congruence | auto].
    + destruct (sget k0 (a_svcs a)) as [s|] eqn:E.
      * destruct (remove_instance_parts c a k0 ik0 (Some cl) s E) as (Ea & _ & _ & _ & En). cbn zeta in *.
        pose proof (svc_remove_spec (a_now a) s ik0 (Some cl)) as Sp. cbn zeta in Sp.
        assert (Hs : s_hset (fst (svc_remove (a_now a) s ik0 (Some cl))) = s_hset s /\
                     s_uset (fst (svc_remove (a_now a) s ik0 (Some cl))) = s_uset s).
        { destruct Sp as [[_ ->] | (old & _ & _ & _ & _ & A & B & _)]; auto. }
        destruct Hs as [Hs1 Hs2].
        destruct (sets_sset a _ k k0 s _ E Ea) as [X1 X2]; [rewrite Hs1; auto | rewrite Hs2; auto|].
        split; auto. split; auto. lia.
      * unfold remove_instance. rewrite E. cbn [fst]. split; auto. split; auto. lia.
  - (* OpTick *)
    split; auto. split; auto. split; auto. cbn. lia.
  - destruct (get_service_info a k0 healthy_only). apply frame_refl.
  - destruct (get_service_info_page a ns). apply frame_refl.
Qed.

Lemma quiet_run_frame : forall c hashf k ik ops a, Forall (quiet (k, ik)) ops -> frame k ik a (run_all c hashf a ops).
Proof.
  unfold run_all. induction ops as [|o ops IH]; intros a Q; cbn [fold_left]; [apply frame_refl|].
  inversion Q; subst. eapply frame_trans; [apply quiet_frame; eauto | apply IH; auto].
Qed.

Lemma stored_none_time_check : forall c a k ik, stored a k ik = None -> stored (time_check c a) k ik = None.
Proof.
  intros c a k ik H. rewrite stored_time_check. unfold stored in H. destruct (sget k (a_svcs a)); auto.
  unfold tc_effect. rewrite H. reflexivity.
Qed.

(** an HTTP instance that falls silent: after unrelated traffic, the first tick at or past the
    health time-out marks it unhealthy (or removes it), and a later tick at or past the instance
    time-out removes it *)
Theorem expires_after_silence : forall c hashf a k ik i q1 q2,
  c_health c <= c_inst c -> c_inst c <= a_now a ->
  stored a k ik = Some i -> is_enable_timeout i = true -> i_healthy i = true -> In (i_lm i, ik) (hset_of a k) ->
  Forall (quiet (k, ik)) q1 -> Forall (quiet (k, ik)) q2 ->
  let a1 := run_all c hashf a q1 in
  i_lm i + c_health c <= a_now a1 ->
  let a2 := time_check c a1 in
  let a3 := run_all c hashf a2 q2 in
  (stored a2 k ik = None \/ stored a2 k ik = Some (set_healthy i false)) /\
  (i_lm i + c_inst c <= a_now a3 -> stored (time_check c a3) k ik = None).
Proof.
  intros c hashf a k ik i q1 q2 C1 C2 St En He Hin Q1 Q2 a1 L1 a2 a3.
  destruct (quiet_run_frame c hashf k ik q1 a Q1) as (F1 & F2 & F3 & F4). fold a1 in F1, F2, F3, F4.
  assert (Ok1 : cfg_ok c a1) by (split; auto; lia).
  destruct (tick_marks_unhealthy c a1 k ik i Ok1) as [X|[X Y]]; auto; try congruence; fold a2 in X.
  - split; auto. intros _. apply stored_none_time_check.
    destruct (quiet_run_frame c hashf k ik q2 a2 Q2) as (G1 & _). fold a3 in G1. congruence.
  - fold a2 in Y. split; auto. intros L3.
    destruct (quiet_run_frame c hashf k ik q2 a2 Q2) as (G1 & _ & G3 & G4). fold a3 in G1, G3, G4.
    apply (tick_removes c a3 k ik (set_healthy i false)); auto.
    + split; auto. assert (a_now a2 = a_now a1) by reflexivity. lia.
    + congruence.
Qed.

(** heartbeats *)
Definition is_beat (k : skey) (ik : ikey) (o : op) : Prop :=
  match o with
  | OpUpdate k' i (Some t) false =>
      k' = k /\ i_key i = ik /\ tag_is_none t = true /\ i_grpc i = false /\ i_cluster i = 0 /\ i_healthy i = true
  | _ => False
  end.

Lemma beat_result : forall c hashf a k i0 t old,
  stored a k (i_key i0) = Some old -> is_enable_timeout old = true ->
  tag_is_none t = true -> i_grpc i0 = false -> i_cluster i0 = 0 -> i_healthy i0 = true ->
  let a' := fst (update_instance c hashf a k i0 (Some t) false) in
  exists n, stored a' k (i_key i0) = Some n /\ is_enable_timeout n = true /\ i_healthy n = true /\
            i_lm n = a_now a /\ a_now a' = a_now a.
Proof.
  intros c hashf a k i0 t old St En Tn Hg Hc Hh a'. subst a'.
  destruct (update_arms c hashf a k i0 (Some t)) as (n & Sn & Ln & Nn & _). cbn zeta in *.
  exists n. split; auto.
  destruct (update_instance_stored c hashf a k i0 (Some t) false k (i_key i0)) as (s & E & St').
  destruct (fkey_eqd (k, i_key i0) (k, i_key i0)); [|congruence]. rewrite St' in Sn. inversion Sn; subst n. clear Sn.
  assert (Eo : iget (i_key (upd_in hashf a k i0)) (s_insts s) = Some old).
  { rewrite upd_in_key. rewrite <- (stored_create c a k k (i_key i0)) in St. unfold stored in St. rewrite E in St. exact St. }
  assert (Og : i_grpc old = false /\ i_ephemeral old = true).
  { unfold is_enable_timeout in En. destruct (i_ephemeral old), (i_grpc old); cbn in En; try discriminate; auto. }
  destruct Og as [Og Oe].
  assert (I2 : i_grpc (upd_in hashf a k i0) = false /\ i_cluster (upd_in hashf a k i0) = 0 /\
               i_healthy (upd_in hashf a k i0) = true).
  { unfold upd_in. destruct (_ && _); cbn; auto. }
  destruct I2 as (G2 & C2 & H2).
  unfold upd_new. rewrite Eo. rewrite Og. rewrite andb_false_r. unfold merge_tag. rewrite Tn. cbn [negb fst].
  unfold is_enable_timeout, is_from_cluster. cbn. rewrite Oe, G2, C2, H2. cbn. repeat split; auto.
  apply upd_in_lm.
Qed.

(** a history of ticks, heartbeats of (k, ik), time checks and unrelated traffic in which every
    time check happens less than the health time-out after the last heartbeat *)
Fixpoint beating (c : cfg) (k : skey) (ik : ikey) (last now : N) (ops : list op) : Prop :=
  match ops with
  | [] => True
  | OpTimeCheck :: r => now < last + c_health c /\ beating c k ik last now r
  | OpTick d :: r => beating c k ik last (now + d) r
  | o :: r => (is_beat k ik o /\ beating c k ik now now r) \/ (quiet (k, ik) o /\ beating c k ik last now r)
  end.

Lemma beating_cons : forall c k ik last now o r,
  beating c k ik last now (o :: r) ->
  (o = OpTimeCheck /\ now < last + c_health c /\ beating c k ik last now r) \/
  (exists d, o = OpTick d /\ beating c k ik last (now + d) r) \/
  (is_beat k ik o /\ beating c k ik now now r) \/
  (quiet (k, ik) o /\ (forall d, o <> OpTick d) /\ beating c k ik last now r).
Proof.
  intros c k ik last now o r B. destruct o; cbn [beating] in B;
    try (destruct B as [[Bt B']|[Q B']]; [right; right; left; auto | right; right; right; split; auto; split; auto; discriminate]).
  - right; left; eauto.
  - left; tauto.
Qed.

Lemma quiet_now : forall c hashf a fk o, quiet fk o -> (forall d, o <> OpTick d) ->
  a_now (fst (step c hashf a o)) = a_now a.
Proof.
  intros c hashf a fk o Q Nt. destruct o; cbn [quiet] in Q; try (exfalso; exact Q); cbn [step fst]; auto.
  - pose proof (create_empty_service_has c a k) as Has.
    destruct (sget k (a_svcs (create_empty_service c a k))) as [s|] eqn:E; [|congruence].
    destruct (update_instance_parts c hashf a k i t from_sync s E) as (_ & _ & _ & _ & Nn). exact Nn.
  - destruct (sget k (a_svcs a)) as [s|] eqn:E.
    + destruct (remove_instance_parts c a k ik (Some cl) s E) as (_ & _ & _ & _ & Nn). exact Nn.
    + unfold remove_instance. rewrite E. reflexivity.
  - exfalso. apply (Nt d). reflexivity.
  - destruct (get_service_info a k healthy_only). reflexivity.
  - destruct (get_service_info_page a ns). reflexivity.
Qed.

(** ... never marks the instance unhealthy and never removes it *)
Theorem never_expired_while_beating_trace : forall c hashf k ik ops a i,
  c_health c <= c_inst c -> c_inst c <= a_now a ->
  stored a k ik = Some i -> is_enable_timeout i = true -> i_healthy i = true ->
  beating c k ik (i_lm i) (a_now a) ops ->
  exists i', stored (run_all c hashf a ops) k ik = Some i' /\ is_enable_timeout i' = true /\ i_healthy i' = true.
Proof.
  intros c hashf k ik ops. unfold run_all. induction ops as [|o ops IH]; intros a i C1 C2 St En He B; cbn [fold_left].
  - eauto.
  - apply beating_cons in B. destruct B as [(-> & Bn & B')|[(d & -> & B')|[(Bt & B')|(Q & Nt & B')]]].
    + (* a time check within the health time-out of the last heartbeat *)
      cbn [step fst]. apply (IH _ i); auto.
      apply never_expired_while_beating; auto. split; auto.
    + (* the clock advances *)
      cbn [step fst]. apply (IH _ i); auto. cbn [a_now]. lia.
    + (* a heartbeat *)
      destruct o; cbn [is_beat] in Bt; try tauto. destruct t as [t|]; try tauto. destruct from_sync; try tauto.
      destruct Bt as (-> & <- & Tn & Hg & Hc & Hh). cbn [step fst].
      destruct (beat_result c hashf a k i0 t i St En Tn Hg Hc Hh) as (n & Sn & En' & Hn & Ln & Nn). cbn zeta in *.
      apply (IH _ n); auto.
      * rewrite Nn. auto.
      * rewrite Ln, Nn. auto.
    + (* unrelated traffic *)
      destruct (quiet_frame c hashf a k ik o Q) as (F1 & _).
      pose proof (quiet_now c hashf a (k, ik) o Q Nt) as Nn.
      apply (IH _ i); auto.
      * rewrite Nn. auto.
      * congruence.
      * rewrite Nn. auto.
Qed.
