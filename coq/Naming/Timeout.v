(** C13 vocabulary on top of the [Service] model: which instances the heartbeat clock applies to,
    which keys a tick takes out of the time-out sets, and the per-key effect of one
    [Service::time_check].  Definitions only. *)
From RN Require Import Base.Res Base.AMap Naming.Service.
Local Open Scope N_scope.

(** re-validation of a fired entry against the instance's current state (service.rs:290-294,
    302-306): the entry acts iff the instance is subject to the time-out and was not modified
    after [limit] *)
Definition fires (limit : N) (i : inst) : bool := is_enable_timeout i && (i_lm i <=? limit).

(** keys whose entries are drained by a tick *)
Definition due_keys (limit : N) (set : list (N * ikey)) : list ikey := fst (ts_timeout limit set).

(** the effect of [Service::time_check] on the instance stored under one key *)
Definition tc_effect (s : service) (healthy_time offline_time : N) (ik : ikey) : option inst :=
  match iget ik (s_insts s) with
  | Some i =>
      if kmem ik (due_keys offline_time (s_uset s)) && fires offline_time i then None
      else if kmem ik (due_keys healthy_time (s_hset s)) && fires healthy_time i && i_healthy i
           then Some (set_healthy i false)
           else Some i
  | None => None
  end.

(** every healthy instance under the heartbeat clock has its entry in the healthy time-out set *)
Definition armed (s : service) : Prop :=
  forall ik i, iget ik (s_insts s) = Some i -> is_enable_timeout i = true -> i_healthy i = true ->
               In (i_lm i, ik) (s_hset s).
