(** C12, completeness of disconnect at full strength: in every reachable state, every stored
    instance that carries the id of a connection which has not been removed yet is recorded for
    that connection in [client_instance_set]; hence RemoveClient removes ALL ephemeral instances
    of a live connection (no "recorded" qualifier). *)
From Coq Require Import ZifyBool ZifyNat ZifyN.
From RN Require Import Base.Res Base.AMap Base.AMapProofs Naming.Service Naming.ServiceProofs
  Naming.Timeout Naming.TimeoutProofs Naming.Filter Naming.Actor Naming.IndexProofs Naming.ActorProofs
  Naming.BudgetProofs Naming.OwnershipProofs Naming.Script Naming.ScriptProofs.
Local Open Scope N_scope.

Definition recorded (cl : list (N * list fkey)) (c : N) (fk : fkey) : Prop :=
  exists ks, cget c cl = Some ks /\ In fk ks.

(** [dead] = the connections whose RemoveClient has already been processed *)
Definition conv (a : actor) (dead : list N) : Prop :=
  forall k ik i, stored a k ik = Some i -> i_client i <> 0 ->
                 In (i_client i) dead \/ recorded (a_clients a) (i_client i) (k, ik).

Lemma conv_init : forall t0, conv (actor_init t0) [].
Proof. intros t0 k ik i H. discriminate. Qed.

Lemma conv_dead_mono : forall a d d', (forall c, In c d -> In c d') -> conv a d -> conv a d'.
Proof. intros a d d' M C k ik i St Hc. destruct (C k ik i St Hc); auto. Qed.

(** operations that keep [client_instance_set] and only rewrite / drop instances *)
Definition stored_sub (a a' : actor) : Prop :=
  forall k ik i', stored a' k ik = Some i' -> exists i, stored a k ik = Some i /\ i_client i' = i_client i.

Lemma conv_sub : forall a a' d, stored_sub a a' -> a_clients a' = a_clients a -> conv a d -> conv a' d.
Proof.
  intros a a' d S E C k ik i' St Hc. destruct (S k ik i' St) as (i & Si & Ec). rewrite E, Ec in *. eauto.
Qed.

Lemma stored_sub_refl : forall a a', a_svcs a' = a_svcs a -> stored_sub a a'.
Proof. intros a a' E k ik i' St. unfold stored in *. rewrite E in St. eauto. Qed.

Lemma stored_sub_keeps : forall a a', keeps (a_svcs a) (a_svcs a') -> stored_sub a a'.
Proof.
  intros a a' (_ & K & _) k ik i' St. rewrite stored_eq in St. destruct (K k ik i' St) as (i & Si & Ec & _). eauto.
Qed.

Lemma stored_sub_map : forall a a' (f : skey -> service -> service),
  (forall k s, sget k (a_svcs a) = Some s -> svc_keeps s (f k s)) ->
  a_svcs a' = map (fun e => (fst e, f (fst e) (snd e))) (a_svcs a) -> stored_sub a a'.
Proof. intros a a' f H E. apply stored_sub_keeps. rewrite E. apply keeps_map; auto. Qed.

Lemma stored_sub_sset : forall a a' k s s',
  sget k (a_svcs a) = Some s -> a_svcs a' = sset k s' (a_svcs a) -> svc_keeps s s' -> stored_sub a a'.
Proof. intros a a' k s s' E Ea K. apply stored_sub_keeps. rewrite Ea. eapply keeps_sset; eauto. Qed.

Lemma stored_sub_new : forall a a' k s0,
  sget k (a_svcs a) = None -> s_insts s0 = [] -> a_svcs a' = sset k s0 (a_svcs a) -> stored_sub a a'.
Proof.
  intros a a' k s0 E He Ea k' ik i' St. rewrite stored_eq, Ea, stored_sset in St.
  destruct (skey_eqd k' k); [rewrite He in St; discriminate | eauto].
Qed.

(** [client_instance_set] updates *)
Lemma recorded_add : forall cl k i2 c fk, recorded cl c fk -> recorded (upd_clients_add cl k i2) c fk.
Proof.
  intros cl k i2 c fk (ks & E & Hin). unfold upd_clients_add, recorded.
  destruct ((i_grpc i2 || is_from_cluster i2) && negb (i_client i2 =? 0)); [|eauto].
  destruct (cget (i_client i2) cl) as [set|] eqn:Es; rewrite cget_cset; destruct (N.eq_dec c (i_client i2)) as [e|e].
  - subst. rewrite Es in E. inversion E; subst. eexists; split; eauto. apply in_fadd; auto.
  - eauto.
  - subst. congruence.
  - eauto.
Qed.

Lemma recorded_add_new : forall cl k i2,
  (i_grpc i2 || is_from_cluster i2) = true -> i_client i2 <> 0 ->
  recorded (upd_clients_add cl k i2) (i_client i2) (k, i_key i2).
Proof.
  intros cl k i2 B C. unfold upd_clients_add, recorded. rewrite B. apply N.eqb_neq in C. rewrite C. cbn [negb andb].
  destruct (cget (i_client i2) cl) as [set|]; rewrite cget_cset; destruct (N.eq_dec (i_client i2) (i_client i2)); try congruence;
    eexists; split; eauto; [apply in_fadd; auto | cbn; auto].
Qed.

Lemma recorded_del : forall cl fk0 ro c fk,
  recorded cl c fk -> (fk <> fk0 \/ ro <> Some c) -> recorded (upd_clients_del cl fk0 ro) c fk.
Proof.
  intros cl fk0 ro c fk (ks & E & Hin) Hc. unfold upd_clients_del, recorded. destruct ro as [oc|]; [|eauto].
  destruct (cget oc cl) as [set|] eqn:Es; [|eauto]. rewrite cget_cset. destruct (N.eq_dec c oc); [|eauto].
  subst. rewrite Es in E. inversion E; subst. eexists; split; eauto. apply in_fdel. split; auto.
  destruct Hc as [H|H]; auto; try congruence.
Qed.

Lemma recorded_rm : forall a k ik o c fk,
  recorded (a_clients a) c fk -> fk <> (k, ik) -> recorded (rm_clients a k ik o) c fk.
Proof.
  intros a k ik o c fk (ks & E & Hin) Hne. unfold rm_clients, recorded. destruct (negb (i_client o =? 0)); [|eauto].
  destruct (cget (i_client o) (a_clients a)) as [set|] eqn:Es; [|eauto]. rewrite cget_cset.
  destruct (N.eq_dec c (i_client o)); [|eauto]. subst. rewrite Es in E. inversion E; subst.
  eexists; split; eauto. apply in_fdel. auto.
Qed.

(** the primitives *)
Lemma conv_update_instance : forall c hashf a k i0 tg fs d,
  wf_inst i0 -> conv a d -> conv (fst (update_instance c hashf a k i0 tg fs)) d.
Proof.
  intros c hashf a k i0 tg fs d W0 C k' ik' i' St' Hc.
  destruct (update_instance_stored c hashf a k i0 tg fs k' ik') as (s & E & St). rewrite St in St'. clear St.
  destruct (update_instance_parts c hashf a k i0 tg fs s E) as (_ & Ec & _). cbn zeta in Ec. rewrite Ec. clear Ec.
  destruct (create_empty_service_frame c a k) as (_ & _ & Ecl). rewrite Ecl. clear Ecl.
  set (i2 := upd_in hashf a k i0) in *.
  assert (W2 : wf_inst i2) by (apply upd_in_wf; auto).
  assert (K2 : i_key i2 = i_key i0) by apply upd_in_key.
  pose proof (svc_update_replace s i2 tg fs) as Hr. pose proof (upd_new_origin s i2 tg) as Ho. cbn zeta in Ho.
  assert (Sold : forall ik, iget ik (s_insts s) = stored a k ik).
  { intros ik. rewrite <- (stored_create c a k k ik). unfold stored. rewrite E. reflexivity. }
  destruct (fkey_eqd (k', ik') (k, i_key i0)) as [e|e].
  - inversion e; subst k' ik'. inversion St'; subst i'. clear St'. rewrite K2 in *.
    destruct (iget (i_key i0) (s_insts s)) as [old|] eqn:Eold.
    + destruct (i_ephemeral i2 && negb (i_grpc i2) && i_grpc old) eqn:B.
      * (* the stored record keeps the identity of the old one, which was recorded *)
        destruct Ho as (Oc & _). rewrite Oc in *. rewrite Sold in Eold.
        destruct (C k (i_key i0) old Eold Hc) as [D|R]; [left; auto | right].
        apply recorded_del; [apply recorded_add; auto | right]. rewrite Hr. rewrite N.eqb_refl. cbn. rewrite andb_false_r. discriminate.
      * destruct Ho as (Oc & Og & _). right. rewrite Oc in *.
        assert (G : i_grpc i2 = true).
        { destruct (i_grpc i2) eqn:G; [reflexivity|]. exfalso. apply Hc. apply W2. exact G. }
        apply recorded_del; [rewrite <- K2; apply recorded_add_new; auto; rewrite G; reflexivity | right].
        intros X. rewrite Hr in X. destruct (negb (i_client old =? 0)); destruct (i_client i2 =? i_client old) eqn:Z;
          cbn in X; try discriminate. inversion X as [X']. apply N.eqb_neq in Z. congruence.
    + destruct Ho as (Oc & Og & _). right. rewrite Oc in *.
      assert (G : i_grpc i2 = true).
      { destruct (i_grpc i2) eqn:G; [reflexivity|]. exfalso. apply Hc. apply W2. exact G. }
      apply recorded_del; [rewrite <- K2; apply recorded_add_new; auto; rewrite G; reflexivity | right].
      rewrite Hr. discriminate.
  - destruct (C k' ik' i' St' Hc) as [D|R]; [left; auto | right].
    apply recorded_del; [apply recorded_add; auto | left]. rewrite K2. exact e.
Qed.

Lemma conv_remove_instance : forall c a k ik cl d, conv a d -> conv (fst (fst (remove_instance c a k ik cl))) d.
Proof.
  intros c a k ik cl d C k' ik' i' St' Hc. rewrite remove_instance_stored in St'.
  destruct (sget k (a_svcs a)) as [s|] eqn:E.
  - destruct (remove_instance_parts c a k ik cl s E) as (_ & Ec & _). cbn zeta in Ec. rewrite Ec. clear Ec.
    destruct (fkey_eqd (k', ik') (k, ik)) as [e|e].
    + destruct (snd (svc_remove (a_now a) s ik cl)); [discriminate|]. apply C; auto.
    + destruct (C k' ik' i' St' Hc) as [D|R]; auto. right.
      destruct (snd (svc_remove (a_now a) s ik cl)); auto. apply recorded_rm; auto.
  - unfold remove_instance. rewrite E. cbn [fst]. apply C; auto.
Qed.

Lemma conv_remove_keys : forall c cl keys a d, conv a d -> conv (remove_keys c a cl keys) d.
Proof.
  induction keys as [|[k ik] ks IH]; intros a d C; cbn [remove_keys]; auto.
  destruct (stored a k ik) as [i|]; [destruct (negb (i_ephemeral i))|]; apply IH; auto; apply conv_remove_instance; auto.
Qed.

Lemma conv_remove_client : forall c a cl d, conv a d -> conv (remove_client_instance c a cl) (cl :: d).
Proof.
  intros c a cl d C. unfold remove_client_instance. destruct (cget cl (a_clients a)) as [keys|] eqn:E.
  - apply conv_remove_keys. intros k ik i St Hc. cbn [a_clients with_clients]. unfold stored in St. cbn [a_svcs with_clients] in St.
    destruct (N.eq_dec (i_client i) cl) as [e|e]; [left; cbn; auto|].
    destruct (C k ik i St Hc) as [D|(ks & Ek & Hin)]; [left; cbn; auto | right].
    exists ks. split; auto. unfold cdel, cget. rewrite aget_adel. destruct (N.eq_dec (i_client i) cl); [congruence | exact Ek].
  - eapply conv_dead_mono; [|exact C]. cbn; auto.
Qed.

Lemma conv_batch : forall c hashf l a d,
  Forall (fun e => wf_inst (snd e)) l -> conv a d -> conv (batch_update c hashf a l) d.
Proof.
  unfold batch_update. induction l as [|e l IH]; intros a d W C; cbn [fold_left]; auto.
  inversion W; subst. apply IH; auto. apply conv_update_instance; auto.
Qed.

Lemma stored_sub_clear_one : forall c a k now, Inv a -> stored_sub a (clear_one_empty_service c a k now).
Proof.
  intros c a k now H k' ik i' St. exists i'. split; auto.
  destruct (stored a k' ik) as [i|] eqn:E.
  - rewrite (clear_one_empty_service_only_empty c a k now k' ik i H E) in St. congruence.
  - exfalso. unfold clear_one_empty_service in St. destruct (sget k (a_svcs a)) as [s|]; [|congruence].
    destruct (_ && _); [|congruence]. unfold stored in *. cbn [a_svcs] in St. unfold sdelete, sget in *.
    rewrite aget_adel in St. destruct (skey_eqd k' k); [discriminate | congruence].
Qed.

Definition removed_clients (o : op) : list N :=
  match o with OpRemoveClient c => [c] | OpRemoveClients l => rev l | _ => [] end.

Theorem conv_step : forall c hashf a o d,
  op_wf o -> Inv a -> conv a d -> conv (fst (step c hashf a o)) (removed_clients o ++ d).
Proof.
  intros c hashf a o d W H C. destruct o; cbn [step fst op_wf removed_clients app] in *.
  - apply conv_update_instance; auto.
  - apply conv_batch; auto.
  - apply conv_remove_instance; auto.
  - apply fold_left_inv; auto. intros acc e Hacc. apply conv_remove_instance; auto.
  - apply conv_remove_client; auto.
  - (* RemoveClientsFromCluster *)
    clear W H. revert a d C. induction l as [|x l IH]; intros a d C; cbn [fold_left rev app]; auto.
    rewrite <- app_assoc. cbn [app]. apply IH. apply conv_remove_client; auto.
  - eapply (conv_sub a); [apply stored_sub_refl; reflexivity | reflexivity | auto].
  - eapply (conv_sub a); [|reflexivity|auto].
    apply stored_sub_map with (f := fun _ s => fst (fst (tc_svc c (a_now a) s))); [|reflexivity].
    intros k s _. apply svc_keeps_time_check.
  - (* clear_empty_service *)
    unfold clear_empty_service. destruct (ts_timeout (a_now a) (a_empty a)) as [keys rest].
    assert (G : forall acc, Inv acc -> conv acc d ->
                            conv (fold_left (fun acc k => clear_one_empty_service c acc k (a_now a)) keys acc) d).
    { induction keys as [|k ks IH]; intros acc Hacc Cacc; cbn [fold_left]; auto. apply IH.
      - apply clear_one_empty_service_inv; auto.
      - eapply (conv_sub acc); [apply stored_sub_clear_one; auto | | auto].
        unfold clear_one_empty_service. destruct (sget k (a_svcs acc)); auto. destruct (_ && _); auto. }
    apply G; [eapply Inv_ext; [..|exact H]; reflexivity|]. eapply (conv_sub a); [apply stored_sub_refl; reflexivity | reflexivity | auto].
  - (* clear_timeout_instance_metadata *)
    unfold clear_timeout_instance_metadata. destruct (ts_timeout (a_now a) (a_metaset a)) as [keys rest].
    apply fold_left_inv; [|eapply (conv_sub a); [apply stored_sub_refl; reflexivity | reflexivity | auto]].
    intros acc [k ik] Cacc. unfold clear_one_meta. destruct (sget k (a_svcs acc)) as [s|] eqn:E; auto.
    destruct (iget ik (s_insts s)); auto.
    eapply (conv_sub acc); [|reflexivity|exact Cacc].
    eapply stored_sub_sset; [exact E | reflexivity | apply svc_keeps_same; reflexivity].
  - (* remove_empty_service *)
    unfold remove_empty_service. destruct (sget k (a_svcs a)) as [s|]; auto. destruct (s_size s <=? 0)%Z; auto. cbn [fst].
    eapply (conv_sub a); [apply stored_sub_clear_one; auto | | auto].
    unfold clear_one_empty_service. destruct (sget k (a_svcs a)); auto. destruct (_ && _); auto.
  - (* update_service *)
    unfold update_service. destruct (sget k (a_svcs a)) as [s|] eqn:E.
    + destruct thr; auto. eapply (conv_sub a); [|reflexivity|auto].
      eapply stored_sub_sset; [exact E | reflexivity | apply svc_keeps_same; reflexivity].
    + eapply (conv_sub a); [|reflexivity|auto]. eapply stored_sub_new; [exact E | | reflexivity]. destruct thr; reflexivity.
  - (* refresh *)
    eapply (conv_sub a); [|reflexivity|auto].
    apply stored_sub_map with (f := fun k s => if is_range (idx, len) (hashf k) then svc_refresh s else s); [|reflexivity].
    intros k s E. destruct (is_range _ _); [apply svc_keeps_refresh; apply (proj2 (proj1 H) k s E) | apply svc_keeps_refl].
  - (* perpetual health *)
    unfold update_perpetual_health. apply fold_left_inv; auto. intros acc k Cacc.
    destruct (sget k (a_svcs acc)) as [s|] eqn:E; auto.
    eapply (conv_sub acc); [|reflexivity|exact Cacc].
    eapply stored_sub_sset; [exact E | reflexivity |].
    destruct ok; [apply svc_keeps_healthy_valid | apply svc_keeps_healthy_invalid].
  - destruct (negb (i_ephemeral i)); cbn [fst]; auto. apply conv_update_instance; auto. unfold wf_inst. cbn. auto.
  - apply conv_remove_instance; auto.
  - unfold diff_grpc_distro_client_data. destruct (diff_scan a data) as [rm nw]. cbn [fst].
    apply fold_left_inv; auto. intros acc fk Cacc. apply conv_remove_instance; auto.
  - (* snapshot *)
    set (a1 := fold_left (fun acc e => update_service c acc (fst e) (snd e)) svcs a).
    assert (A1 : conv a1 d /\ Inv a1).
    { subst a1. clear W. revert a H C. induction svcs as [|e l IH]; intros a H C; cbn [fold_left]; auto. apply IH.
      - apply update_service_inv; auto.
      - unfold update_service. destruct (sget (fst e) (a_svcs a)) as [s|] eqn:E.
        + destruct (snd e); auto. eapply (conv_sub a); [|reflexivity|auto].
          eapply stored_sub_sset; [exact E | reflexivity | apply svc_keeps_same; reflexivity].
        + eapply (conv_sub a); [|reflexivity|auto]. eapply stored_sub_new; [exact E | | reflexivity]. destruct (snd e); reflexivity. }
    destruct A1 as [C1 H1].
    pose proof (conv_batch c hashf insts a1 d W C1) as C2.
    pose proof (batch_update_inv c hashf insts a1 W H1) as H2.
    destruct (a_range (batch_update c hashf a1 insts)) as [r|]; auto.
    eapply (conv_sub (batch_update c hashf a1 insts)); [|reflexivity|exact C2].
    apply stored_sub_map with (f := fun k s => if is_range r (hashf k) then svc_refresh s else s); [|reflexivity].
    intros k s E. destruct (is_range _ _); [apply svc_keeps_refresh; apply (proj2 (proj1 H2) k s E) | apply svc_keeps_refl].
  - exact C.
  - destruct (get_service_info a k healthy_only). exact C.
  - exact C.
  - exact C.
  - destruct (get_service_info_page a ns). exact C.
  - exact C.
  - exact C.
  - eapply (conv_sub a); [|reflexivity|auto].
    apply stored_sub_map with (f := fun k s => if kvis k (BudgetProofs.visited c n order a) then fst (fst (tc_svc c (a_now a) s)) else s); [|reflexivity].
    intros k s _. destruct (kvis _ _); [apply svc_keeps_time_check | apply svc_keeps_refl].
Qed.

(** the connections removed by a history, and the invariant along it *)
Definition dead_of (ops : list op) : list N := fold_left (fun d o => removed_clients o ++ d) ops [].

Lemma conv_run : forall c hashf ops a d,
  Forall op_wf ops -> Inv a -> conv a d ->
  conv (fold_left (fun acc o => fst (step c hashf acc o)) ops a) (fold_left (fun d o => removed_clients o ++ d) ops d).
Proof.
  induction ops as [|o ops IH]; intros a d W H C; cbn [fold_left]; auto.
  inversion W; subst. apply IH; auto; [apply Inv_step; auto | apply conv_step; auto].
Qed.

Theorem conv_reachable : forall c hashf ops t0,
  Forall op_wf ops -> conv (run_all c hashf (actor_init t0) ops) (dead_of ops).
Proof. intros. unfold run_all, dead_of. apply conv_run; auto; [apply Inv_init | apply conv_init]. Qed.

(** for a connection that is still alive the record is exactly the set of stored instances that
    carry its id *)
Theorem recorded_iff_owned : forall c hashf ops t0 cl k ik,
  Forall op_wf ops -> cl <> 0 -> ~ In cl (dead_of ops) ->
  let a := run_all c hashf (actor_init t0) ops in
  (recorded (a_clients a) cl (k, ik) <-> exists i, stored a k ik = Some i /\ i_client i = cl).
Proof.
  intros c hashf ops t0 cl k ik W Hc Hd a. split.
  - intros (ks & E & Hin). eapply client_records_exist_and_belong; eauto. apply Inv_reachable; auto.
  - intros (i & St & Ec). destruct (conv_reachable c hashf ops t0 W k ik i St) as [D|R]; subst; auto. contradiction.
Qed.

(** when the connection ends, ALL its ephemeral instances are removed *)
Theorem disconnect_removes_all_own_ephemeral : forall c hashf ops t0 cl k ik i,
  Forall op_wf ops -> cl <> 0 -> ~ In cl (dead_of ops) ->
  let a := run_all c hashf (actor_init t0) ops in
  stored a k ik = Some i -> i_client i = cl -> i_ephemeral i = true ->
  stored (remove_client_instance c a cl) k ik = None.
Proof.
  intros c hashf ops t0 cl k ik i W Hc Hd a St Ec He.
  assert (H : Inv a) by (apply Inv_reachable; auto).
  destruct (conv_reachable c hashf ops t0 W k ik i St) as [D|(ks & E & Hin)]; [congruence | subst; contradiction |].
  subst cl. eapply disconnect_removes_recorded_ephemeral; eauto.
Qed.

(** boolean form of the liveness hypothesis *)
Definition alive_b (cl : N) (ops : list op) : bool := negb (existsb (N.eqb cl) (dead_of ops)).

Lemma alive_b_spec : forall cl ops, alive_b cl ops = true -> ~ In cl (dead_of ops).
Proof.
  intros cl ops H Hin. unfold alive_b in H. apply negb_true_iff in H.
  assert (existsb (N.eqb cl) (dead_of ops) = true); [|congruence].
  apply existsb_exists. exists cl. split; auto. apply N.eqb_refl.
Qed.

(** the same with the hypotheses as boolean predicates on the history: every op is in the input
    domain ([op_wfb]) and the connection has not been removed before ([alive_b]) *)
Lemma forallb_op_wf : forall ops, forallb op_wfb ops = true -> Forall op_wf ops.
Proof.
  intros ops H. apply Forall_forall. intros o Ho. apply op_wfb_spec. rewrite forallb_forall in H. auto.
Qed.

Theorem disconnect_removes_all_own_ephemeral_b : forall c hashf ops t0 cl k ik i,
  forallb op_wfb ops = true -> negb (cl =? 0) && alive_b cl ops = true ->
  let a := run_all c hashf (actor_init t0) ops in
  stored a k ik = Some i -> i_client i = cl -> i_ephemeral i = true ->
  stored (fst (step c hashf a (OpRemoveClient cl))) k ik = None.
Proof.
  intros c hashf ops t0 cl k ik i W B a St Ec He. apply andb_true_iff in B. destruct B as [B1 B2].
  apply negb_true_iff in B1. apply N.eqb_neq in B1. cbn [step fst].
  eapply disconnect_removes_all_own_ephemeral; eauto. apply forallb_op_wf; auto. apply alive_b_spec; auto.
Qed.

(** and nothing else is removed (restating [disconnect_removes_own_ephemeral_only] for histories) *)
Theorem disconnect_exact : forall c hashf ops t0 cl k ik i,
  forallb op_wfb ops = true -> negb (cl =? 0) && alive_b cl ops = true ->
  let a := run_all c hashf (actor_init t0) ops in
  stored a k ik = Some i ->
  stored (fst (step c hashf a (OpRemoveClient cl))) k ik =
  if i_ephemeral i && (i_client i =? cl) then None else Some i.
Proof.
  intros c hashf ops t0 cl k ik i W B a St. pose proof (forallb_op_wf ops W) as Wf.
  assert (H : Inv a) by (apply Inv_reachable; auto).
  destruct (i_ephemeral i && (i_client i =? cl)) eqn:E.
  - apply andb_true_iff in E. destruct E as [E1 E2]. apply N.eqb_eq in E2.
    eapply disconnect_removes_all_own_ephemeral_b; eauto.
  - cbn [step fst]. destruct (disconnect_removes_own_ephemeral_only c a cl H) as [_ R].
    destruct (R k ik i St) as [X|(X & E1 & E2)]; auto. rewrite E1 in E. apply N.eqb_eq in E2. rewrite E2 in E. discriminate.
Qed.

(** the hypotheses are satisfiable, and the orphan case that the statement leaves out: a persistent
    instance of connection 1 survives its disconnect (correct), is later flipped to ephemeral over
    HTTP, keeps the id of the dead connection and is not recorded any more (replayed on the real
    code by the check as an observation) *)
Example orphan_flip_example :
  let c := mkCfg 300 600 1000 2000 in
  let ops := [OpUpdate (1,1,1) (mkInst 0 1 true true false 0 0 true 0 1) (Some (mkTag false true false false false)) false;
              OpUpdate (1,1,1) (mkInst 1 1 true true true 0 0 true 0 2) (Some (mkTag false true false false false)) false;
              OpRemoveClient 1;
              OpUpdate (1,1,1) (mkInst 0 1 true true true 0 0 false 0 0) (Some (mkTag false false false true true)) false] in
  let a := run_all c (fun _ => 0) (actor_init 1000000) ops in
  forallb op_wfb ops = true /\ alive_b 2 ops = true /\ alive_b 1 ops = false /\
  option_map (fun i => (i_ephemeral i, i_grpc i, i_client i)) (stored a (1,1,1) 0) = Some (true, true, 1) /\
  cget 1 (a_clients a) = None /\
  stored (fst (step c (fun _ => 0) a (OpRemoveClient 2))) (1,1,1) 1 = None.
Proof. vm_compute. repeat split; reflexivity. Qed.
