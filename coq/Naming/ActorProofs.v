(** C11: the registry invariant [Inv] of the [NamingActor] model and its preservation by every
    operation. *)
From Coq Require Import ZifyBool ZifyNat ZifyN.
From RN Require Import Base.Res Base.AMap Base.AMapProofs Naming.Service Naming.ServiceProofs
  Naming.Timeout Naming.TimeoutProofs Naming.Filter Naming.Actor Naming.IndexProofs.
Local Open Scope N_scope.
Ltac Zify.zify_post_hook ::= Z.div_mod_to_equations.

(** input domain: an instance that does not come from gRPC carries no client id (HTTP handlers
    never set one; cluster/route.rs and cluster/mod.rs have the "<node>_G" assignment commented
    out) *)
Definition wf_inst (i : inst) : Prop := i_grpc i = false -> i_client i = 0.

Definition stored_in (svcs : list (skey * service)) (k : skey) (ik : ikey) : option inst :=
  match sget k svcs with Some s => iget ik (s_insts s) | None => None end.

Lemma stored_eq : forall a k ik, stored a k ik = stored_in (a_svcs a) k ik.
Proof. reflexivity. Qed.

Definition svcs_inv (svcs : list (skey * service)) : Prop :=
  NoDup (akeys svcs) /\ forall k s, sget k svcs = Some s -> svc_inv s.

Definition svcs_wf (svcs : list (skey * service)) : Prop :=
  forall k ik i, stored_in svcs k ik = Some i -> wf_inst i.

Definition clients_inv (svcs : list (skey * service)) (clients : list (N * list fkey)) : Prop :=
  NoDup (akeys clients) /\
  forall c ks, cget c clients = Some ks ->
    c <> 0 /\ NoDup ks /\
    forall k ik, In (k, ik) ks -> exists i, stored_in svcs k ik = Some i /\ i_client i = c.

Definition index_inv (svcs : list (skey * service)) (idx : nsindex) : Prop :=
  index_ok idx /\ forall k, In k (ni_keys idx) <-> sget k svcs <> None.

Definition Inv (a : actor) : Prop :=
  svcs_inv (a_svcs a) /\ svcs_wf (a_svcs a) /\ clients_inv (a_svcs a) (a_clients a) /\
  index_inv (a_svcs a) (a_index a).

Lemma Inv_ext : forall a a',
  a_svcs a' = a_svcs a -> a_clients a' = a_clients a -> a_index a' = a_index a -> Inv a -> Inv a'.
Proof. unfold Inv. intros a a' -> -> ->. auto. Qed.

Theorem Inv_init : forall t0, Inv (actor_init t0).
Proof.
  intros. unfold Inv, actor_init; cbn. split; [|split; [|split]].
  - split; [constructor | intros k s H; discriminate].
  - intros k ik i H; discriminate.
  - split; [constructor | intros c ks H; discriminate].
  - split; [apply index_ok_init|]. intros k. cbn. split; [tauto | intros H; congruence].
Qed.

(** ** frame: operations that only rewrite instances in place *)
Definition svc_keeps (s s' : service) : Prop :=
  (forall ik i', iget ik (s_insts s') = Some i' ->
     exists i, iget ik (s_insts s) = Some i /\ i_client i' = i_client i /\ i_grpc i' = i_grpc i) /\
  (forall ik i, iget ik (s_insts s) = Some i -> is_enable_timeout i = false ->
     exists i', iget ik (s_insts s') = Some i' /\ i_client i' = i_client i).

Definition keeps (svcs svcs' : list (skey * service)) : Prop :=
  (forall k, sget k svcs' = None <-> sget k svcs = None) /\
  (forall k ik i', stored_in svcs' k ik = Some i' ->
     exists i, stored_in svcs k ik = Some i /\ i_client i' = i_client i /\ i_grpc i' = i_grpc i) /\
  (forall k ik i, stored_in svcs k ik = Some i -> is_enable_timeout i = false ->
     exists i', stored_in svcs' k ik = Some i' /\ i_client i' = i_client i).

Lemma client_not_enabled : forall i, wf_inst i -> i_client i <> 0 -> is_enable_timeout i = false.
Proof.
  intros i W C. unfold is_enable_timeout. destruct (i_grpc i) eqn:G.
  - cbn. rewrite andb_false_r. reflexivity.
  - exfalso. apply C. apply W. auto.
Qed.

Lemma keeps_frame : forall svcs svcs' cl idx,
  keeps svcs svcs' -> svcs_wf svcs -> clients_inv svcs cl -> index_inv svcs idx ->
  svcs_wf svcs' /\ clients_inv svcs' cl /\ index_inv svcs' idx.
Proof.
  intros svcs svcs' cl idx (Kd & Ks & Kk) W [Cn C] [Io Ii]. split; [|split].
  - intros k ik i' E. destruct (Ks _ _ _ E) as (i & Ei & Ec & Eg). pose proof (W _ _ _ Ei) as Wi.
    unfold wf_inst in *. intros G. rewrite Ec. apply Wi. congruence.
  - split; auto. intros c ks E. destruct (C c ks E) as (Hc & Hn & Ho). split; auto. split; auto.
    intros k ik Hin. destruct (Ho k ik Hin) as (i & Ei & Ec).
    destruct (Kk k ik i Ei) as (i' & Ei' & Ec').
    + apply client_not_enabled; [eapply W; eauto | congruence].
    + exists i'. split; auto. congruence.
  - split; auto. intros k. rewrite Ii. split; intros H X; apply H; apply Kd; auto.
Qed.

Lemma svc_keeps_refl : forall s, svc_keeps s s.
Proof. intros; split; eauto. Qed.

Lemma svc_keeps_same : forall s s', s_insts s' = s_insts s -> svc_keeps s s'.
Proof. intros s s' E. unfold svc_keeps. rewrite E. split; eauto. Qed.

Lemma stored_sset : forall svcs k s' k' ik,
  stored_in (sset k s' svcs) k' ik = if skey_eqd k' k then iget ik (s_insts s') else stored_in svcs k' ik.
Proof.
  intros. unfold stored_in, sset, sget. rewrite aget_aset. destruct (skey_eqd k' k); auto.
Qed.

Lemma keeps_sset : forall svcs k s s', sget k svcs = Some s -> svc_keeps s s' -> keeps svcs (sset k s' svcs).
Proof.
  intros svcs k s s' E [K1 K2]. split; [|split].
  - intros k'. unfold sset, sget. rewrite aget_aset. destruct (skey_eqd k' k).
    + subst. unfold sget in E. rewrite E. split; discriminate.
    + tauto.
  - intros k' ik i'. rewrite stored_sset. destruct (skey_eqd k' k); [|eauto].
    subst. intros H. unfold stored_in. rewrite E. apply K1; auto.
  - intros k' ik i. rewrite stored_sset. destruct (skey_eqd k' k); [|eauto].
    subst. unfold stored_in. rewrite E. apply K2.
Qed.

Lemma stored_map : forall (f : skey -> service -> service) svcs k ik,
  stored_in (map (fun e => (fst e, f (fst e) (snd e))) svcs) k ik =
  match sget k svcs with Some s => iget ik (s_insts (f k s)) | None => None end.
Proof.
  intros. unfold stored_in, sget. rewrite aget_map_vals. destruct (aget skey_eqd k svcs); auto.
Qed.

Lemma keeps_map : forall (f : skey -> service -> service) svcs,
  (forall k s, sget k svcs = Some s -> svc_keeps s (f k s)) ->
  keeps svcs (map (fun e => (fst e, f (fst e) (snd e))) svcs).
Proof.
  intros f svcs H. split; [|split].
  - intros k. unfold sget. rewrite aget_map_vals. destruct (aget skey_eqd k svcs); cbn; split; auto; discriminate.
  - intros k ik i'. rewrite stored_map. unfold stored_in. destruct (sget k svcs) as [s|] eqn:E; [|discriminate].
    apply (H k s E).
  - intros k ik i. rewrite stored_map. unfold stored_in. destruct (sget k svcs) as [s|] eqn:E; [|discriminate].
    apply (H k s E).
Qed.

Lemma svcs_inv_sset : forall svcs k s', svcs_inv svcs -> svc_inv s' -> svcs_inv (sset k s' svcs).
Proof.
  intros svcs k s' [Hn Hs] H'. split; [apply nodup_aset; auto|].
  intros k' s. unfold sset, sget. rewrite aget_aset. destruct (skey_eqd k' k); [intros X; inversion X; subst; auto | apply Hs].
Qed.

Lemma svcs_inv_map : forall (f : skey -> service -> service) svcs,
  svcs_inv svcs -> (forall k s, svc_inv s -> svc_inv (f k s)) ->
  svcs_inv (map (fun e => (fst e, f (fst e) (snd e))) svcs).
Proof.
  intros f svcs [Hn Hs] H. split; [rewrite akeys_map_vals; auto|].
  intros k s'. unfold sget. rewrite aget_map_vals. destruct (aget skey_eqd k svcs) as [s|] eqn:E; [|discriminate].
  cbn. intros X; inversion X; subst. apply H. apply (Hs k s). exact E.
Qed.

(** rewriting one service in place *)
Lemma Inv_sset : forall a k s s' a',
  Inv a -> sget k (a_svcs a) = Some s ->
  a_svcs a' = sset k s' (a_svcs a) -> a_clients a' = a_clients a -> a_index a' = a_index a ->
  svc_inv s' -> svc_keeps s s' -> Inv a'.
Proof.
  intros a k s s' a' (H1 & H2 & H3 & H4) E Ea Ec Ei Hs' Hk. unfold Inv. rewrite Ea, Ec, Ei.
  split; [apply svcs_inv_sset; auto|]. eapply keeps_frame; eauto. eapply keeps_sset; eauto.
Qed.

Lemma Inv_map : forall a (f : skey -> service -> service) a',
  Inv a -> (forall k s, svc_inv s -> svc_inv (f k s)) -> (forall k s, svc_inv s -> svc_keeps s (f k s)) ->
  a_svcs a' = map (fun e => (fst e, f (fst e) (snd e))) (a_svcs a) ->
  a_clients a' = a_clients a -> a_index a' = a_index a -> Inv a'.
Proof.
  intros a f a' (H1 & H2 & H3 & H4) Hi Hk Ea Ec Ei. unfold Inv. rewrite Ea, Ec, Ei.
  split; [apply svcs_inv_map; auto|]. eapply keeps_frame; eauto. apply keeps_map.
  intros k s E. apply Hk. apply (proj2 H1 k s E).
Qed.

(** ** the in-place operations *)
Lemma svc_keeps_time_check : forall now s h o, svc_keeps s (fst (fst (svc_time_check now s h o))).
Proof.
  intros. split.
  - intros ik i'. rewrite svc_time_check_get. intros H. apply tc_effect_from in H.
    destruct H as [i [E [Hi|Hi]]]; exists i; rewrite Hi; auto.
  - intros ik i E Hne. exists i. rewrite svc_time_check_get. split; auto. apply tc_effect_not_enabled; auto.
Qed.

Theorem time_check_inv : forall c a, Inv a -> Inv (time_check c a).
Proof.
  intros c a H.
  apply (Inv_map a (fun _ s => fst (fst (tc_svc c (a_now a) s)))) ; auto.
  - intros k s Hs. apply svc_time_check_inv; auto.
  - intros k s Hs. apply svc_keeps_time_check.
Qed.

Lemma svc_keeps_refresh : forall s, svc_inv s -> svc_keeps s (svc_refresh s).
Proof.
  intros s Hs. split.
  - intros ik i'. rewrite svc_refresh_get; auto. destruct (iget ik (s_insts s)) as [i|]; [|discriminate].
    destruct (taken i); intros X; inversion X as [X']; exists i; rewrite <- ?X'; repeat split; reflexivity.
  - intros ik i E _. rewrite svc_refresh_get; auto. rewrite E. destruct (taken i); eexists; split; eauto.
Qed.

Theorem refresh_inv : forall hashf a r, Inv a -> Inv (refresh_process_range hashf a r).
Proof.
  intros hashf a r H.
  apply (Inv_map a (fun k s => if is_range r (hashf k) then svc_refresh s else s)); auto.
  - intros k s Hs. destruct (is_range r (hashf k)); auto. apply svc_refresh_inv; auto.
  - intros k s Hs. destruct (is_range r (hashf k)); [apply svc_keeps_refresh; auto | apply svc_keeps_refl].
Qed.

Lemma svc_keeps_healthy_invalid : forall s k, svc_keeps s (svc_healthy_invalid s k).
Proof.
  intros. split.
  - intros ik i'. rewrite svc_healthy_invalid_get. destruct (ikey_eqd ik k); [|eauto]. subst.
    destruct (iget k (s_insts s)) as [i|]; [|discriminate].
    destruct (i_healthy i); intros X; inversion X as [X']; exists i; rewrite <- ?X'; repeat split; reflexivity.
  - intros ik i E _. rewrite svc_healthy_invalid_get. destruct (ikey_eqd ik k); [|eauto]. subst.
    rewrite E. destruct (i_healthy i); eexists; split; eauto.
Qed.

Lemma svc_keeps_healthy_valid : forall s k, svc_keeps s (svc_perpetual_healthy_valid s k).
Proof.
  intros. split.
  - intros ik i'. rewrite svc_perpetual_healthy_valid_get. destruct (ikey_eqd ik k); [|eauto]. subst.
    destruct (iget k (s_insts s)) as [i|]; [|discriminate].
    destruct (_ && _); intros X; inversion X as [X']; exists i; rewrite <- ?X'; repeat split; reflexivity.
  - intros ik i E _. rewrite svc_perpetual_healthy_valid_get. destruct (ikey_eqd ik k); [|eauto]. subst.
    rewrite E. destruct (_ && _); eexists; split; eauto.
Qed.

Theorem update_perpetual_health_inv : forall a host keys ok, Inv a -> Inv (update_perpetual_health a host keys ok).
Proof.
  intros a host keys ok H. unfold update_perpetual_health. apply fold_left_inv; auto.
  intros acc k Hacc. destruct (sget k (a_svcs acc)) as [s|] eqn:E; auto.
  pose proof (proj2 (proj1 Hacc) k s E) as Hs.
  eapply Inv_sset; [exact Hacc | exact E | reflexivity | reflexivity | reflexivity | |].
  - destruct ok; [apply svc_perpetual_healthy_valid_inv | apply svc_healthy_invalid_inv]; auto.
  - destruct ok; [apply svc_keeps_healthy_valid | apply svc_keeps_healthy_invalid].
Qed.

Theorem clear_timeout_instance_metadata_inv : forall a, Inv a -> Inv (clear_timeout_instance_metadata a).
Proof.
  intros a H. unfold clear_timeout_instance_metadata. destruct (ts_timeout (a_now a) (a_metaset a)) as [keys rest].
  apply fold_left_inv; [|eapply Inv_ext; [..|exact H]; reflexivity].
  intros acc [k ik] Hacc. unfold clear_one_meta. destruct (sget k (a_svcs acc)) as [s|] eqn:E; auto.
  destruct (iget ik (s_insts s)); auto.
  pose proof (proj2 (proj1 Hacc) k s E) as Hs.
  eapply Inv_sset; [exact Hacc | exact E | reflexivity | reflexivity | reflexivity | |].
  - eapply svc_inv_ext; [..|exact Hs]; reflexivity.
  - apply svc_keeps_same. reflexivity.
Qed.

(** ** services appearing and disappearing *)
Lemma Inv_new_service : forall a k s0 a',
  Inv a -> sget k (a_svcs a) = None -> svc_inv s0 -> s_insts s0 = [] ->
  a_svcs a' = sset k s0 (a_svcs a) -> a_clients a' = a_clients a -> a_index a' = ni_insert (a_index a) k ->
  Inv a'.
Proof.
  intros a k s0 a' (H1 & H2 & [Cn C] & [Io Ii]) E Hs0 He Ea Ec Ei. unfold Inv. rewrite Ea, Ec, Ei.
  assert (St : forall k' ik, stored_in (sset k s0 (a_svcs a)) k' ik = stored_in (a_svcs a) k' ik).
  { intros. rewrite stored_sset. destruct (skey_eqd k' k); auto. subst. rewrite He. unfold stored_in. rewrite E. reflexivity. }
  split; [apply svcs_inv_sset; auto|]. split; [|split].
  - intros k' ik i. rewrite St. apply H2.
  - split; auto. intros c ks Ec'. destruct (C c ks Ec') as (A & B & D). split; auto. split; auto.
    intros k' ik Hin. rewrite St. auto.
  - destruct (ni_insert_spec (a_index a) k Io) as [Io' Im]. split; auto.
    intros k'. rewrite index_keys_mem; auto. rewrite Im. rewrite <- index_keys_mem; auto. rewrite Ii.
    unfold sset, sget. rewrite aget_aset. destruct (skey_eqd k' k).
    + split; [discriminate | auto].
    + split; [intros [X|X]; [congruence | auto] | auto].
Qed.

Theorem create_empty_service_inv : forall c a k, Inv a -> Inv (create_empty_service c a k).
Proof.
  intros c a k H. unfold create_empty_service. destruct (sget k (a_svcs a)) eqn:E; auto.
  eapply (Inv_new_service a k svc_empty); [exact H | exact E | apply svc_inv_empty | reflexivity | reflexivity | reflexivity | reflexivity].
Qed.

Lemma create_empty_service_has : forall c a k, sget k (a_svcs (create_empty_service c a k)) <> None.
Proof.
  intros. unfold create_empty_service. destruct (sget k (a_svcs a)) eqn:E; [congruence|].
  cbn [a_svcs]. unfold sset, sget. rewrite aget_aset_eq. discriminate.
Qed.

Theorem update_service_inv : forall c a k thr, Inv a -> Inv (update_service c a k thr).
Proof.
  intros c a k thr H. unfold update_service. destruct (sget k (a_svcs a)) as [s|] eqn:E.
  - destruct thr as [t|]; auto. pose proof (proj2 (proj1 H) k s E) as Hs.
    eapply Inv_sset; [exact H | exact E | reflexivity | reflexivity | reflexivity | |].
    + eapply svc_inv_ext; [..|exact Hs]; reflexivity.
    + apply svc_keeps_same. reflexivity.
  - eapply (Inv_new_service a k (match thr with Some t => svc_set_thr svc_empty t | None => svc_empty end));
      [exact H | exact E | | | reflexivity | reflexivity | reflexivity].
    + destruct thr; [eapply svc_inv_ext; [..|exact svc_inv_empty]; reflexivity | apply svc_inv_empty].
    + destruct thr; reflexivity.
Qed.

Lemma svc_inv_no_instances : forall s, svc_inv s -> (s_size s <= 0)%Z -> s_insts s = [].
Proof.
  intros s (_ & _ & Hsz & _) H. destruct (s_insts s); auto. cbn [length] in Hsz. lia.
Qed.

Theorem clear_one_empty_service_inv : forall c a k now, Inv a -> Inv (clear_one_empty_service c a k now).
Proof.
  intros c a k now H. unfold clear_one_empty_service. destruct (sget k (a_svcs a)) as [s|] eqn:E; auto.
  destruct ((s_size s <=? 0)%Z && (s_last_empty s <=? now - c_svc c)) eqn:B; auto.
  apply andb_true_iff in B. destruct B as [B _]. apply Z.leb_le in B.
  destruct H as ([Hn Hs] & H2 & [Cn C] & [Io Ii]).
  pose proof (svc_inv_no_instances s (Hs k s E) B) as He.
  assert (St : forall k' ik, stored_in (sdelete k (a_svcs a)) k' ik = stored_in (a_svcs a) k' ik).
  { intros. unfold stored_in, sdelete, sget. rewrite aget_adel. destruct (skey_eqd k' k); auto.
    subst. unfold sget in E. rewrite E, He. reflexivity. }
  unfold Inv; cbn [a_svcs a_clients a_index]. split; [|split; [|split]].
  - split; [apply nodup_adel; auto|]. intros k' s'. unfold sdelete, sget. rewrite aget_adel.
    destruct (skey_eqd k' k); [discriminate | apply Hs].
  - intros k' ik i. rewrite St. apply H2.
  - split; auto. intros c' ks Ec'. destruct (C c' ks Ec') as (A & B' & D). split; auto. split; auto.
    intros k' ik Hin. rewrite St. auto.
  - destruct (ni_remove_spec (a_index a) k Io) as [Io' Im]. split; auto.
    intros k'. rewrite index_keys_mem; auto. rewrite Im. rewrite <- index_keys_mem; auto. rewrite Ii.
    unfold sdelete, sget. rewrite aget_adel. destruct (skey_eqd k' k); [tauto|tauto].
Qed.

Theorem clear_empty_service_inv : forall c a, Inv a -> Inv (clear_empty_service c a).
Proof.
  intros c a H. unfold clear_empty_service. destruct (ts_timeout (a_now a) (a_empty a)) as [keys rest].
  apply fold_left_inv; [|eapply Inv_ext; [..|exact H]; reflexivity].
  intros acc k Hacc. apply clear_one_empty_service_inv; auto.
Qed.

Theorem remove_empty_service_inv : forall c a k, Inv a -> Inv (fst (remove_empty_service c a k)).
Proof.
  intros c a k H. unfold remove_empty_service. destruct (sget k (a_svcs a)); auto.
  destruct (s_size s <=? 0)%Z; auto. apply clear_one_empty_service_inv; auto.
Qed.

(** services are dropped only when they really have no instances *)
Theorem clear_one_empty_service_only_empty : forall c a k now k' ik i,
  Inv a -> stored a k' ik = Some i -> stored (clear_one_empty_service c a k now) k' ik = Some i.
Proof.
  intros c a k now k' ik i H St. unfold clear_one_empty_service. destruct (sget k (a_svcs a)) as [s|] eqn:E; auto.
  destruct ((s_size s <=? 0)%Z && (s_last_empty s <=? now - c_svc c)) eqn:B; auto.
  apply andb_true_iff in B. destruct B as [B _]. apply Z.leb_le in B.
  pose proof (svc_inv_no_instances s (proj2 (proj1 H) k s E) B) as He.
  unfold stored in *; cbn [a_svcs]. unfold sdelete, sget. rewrite aget_adel. destruct (skey_eqd k' k); auto.
  subst. rewrite E, He in St. discriminate.
Qed.

(** ** remove_instance *)
Lemma cget_cset : forall cl c ks c', cget c' (cset c ks cl) = if N.eq_dec c' c then Some ks else cget c' cl.
Proof. intros. unfold cget, cset. apply aget_aset. Qed.

Lemma in_fdel : forall k k' l, In k' (fdel k l) <-> k' <> k /\ In k' l.
Proof. intros. unfold fdel. apply in_sdel. Qed.

Lemma in_fadd : forall k k' l, In k' (fadd k l) <-> k' = k \/ In k' l.
Proof. intros. unfold fadd. apply in_sadd. Qed.

Lemma aset_same : forall {K V} (eqd : forall a b : K, {a = b} + {a <> b}) k (v : V) m,
  aget eqd k m = Some v -> aset eqd k v m = m.
Proof.
  induction m as [|[k' v'] m IH]; cbn; intros H; [discriminate|].
  destruct (eqd k k'); [inversion H; subst; auto | f_equal; auto].
Qed.

(** the components of the result of [remove_instance] *)
Definition rm_clients (a : actor) (k : skey) (ik : ikey) (o : inst) : list (N * list fkey) :=
  if negb (i_client o =? 0)
  then match cget (i_client o) (a_clients a) with
       | Some keys => cset (i_client o) (fdel (k, ik) keys) (a_clients a)
       | None => a_clients a end
  else a_clients a.

Lemma remove_instance_parts : forall c a k ik cl s,
  sget k (a_svcs a) = Some s ->
  let r := svc_remove (a_now a) s ik cl in
  let a' := fst (fst (remove_instance c a k ik cl)) in
  a_svcs a' = sset k (fst r) (a_svcs a) /\
  a_clients a' = match snd r with Some o => rm_clients a k ik o | None => a_clients a end /\
  a_index a' = a_index a /\ a_range a' = a_range a /\ a_now a' = a_now a.
Proof.
  intros c a k ik cl s E. cbn zeta. unfold remove_instance, rm_clients. rewrite E.
  destruct (svc_remove (a_now a) s ik cl) as [s' [o|]]; cbn [fst snd].
  - destruct (mget (i_key o) (s_meta s')), (s_size s' <=? 0)%Z, (negb (i_client o =? 0));
      unfold remove_client_instance_key;
      cbn [a_index a_svcs a_clients a_range a_now with_svcs with_metaset with_empty with_clients];
      try destruct (cget (i_client o) (a_clients a)); cbn; auto.
  - destruct (s_size s' <=? 0)%Z; cbn; auto.
Qed.

Theorem remove_instance_inv : forall c a k ik cl, Inv a -> Inv (fst (fst (remove_instance c a k ik cl))).
Proof.
  intros c a k ik cl H. destruct (sget k (a_svcs a)) as [s|] eqn:E.
  2:{ unfold remove_instance. rewrite E. exact H. }
  destruct (remove_instance_parts c a k ik cl s E) as (Ea & Ec & Ei & _). cbn zeta in *.
  set (a' := fst (fst (remove_instance c a k ik cl))) in *.
  pose proof H as ([Hn Hs] & H2 & [Cn C] & [Io Ii]).
  pose proof (svc_remove_inv (a_now a) s ik cl (Hs k s E)) as Hs'.
  pose proof (svc_remove_spec (a_now a) s ik cl) as Sp. cbn zeta in Sp.
  destruct (svc_remove (a_now a) s ik cl) as [s' old]. cbn [fst snd] in *.
  destruct Sp as [[-> ->] | (o & -> & Eo & Hg & _)].
  - eapply Inv_ext; [| exact Ec | exact Ei | exact H]. rewrite Ea. unfold sset. apply aset_same. exact E.
  - set (svcs' := sset k s' (a_svcs a)) in *.
    assert (St : forall k' ik', stored_in svcs' k' ik' =
                                if fkey_eqd (k', ik') (k, ik) then None else stored_in (a_svcs a) k' ik').
    { intros. subst svcs'. rewrite stored_sset. destruct (skey_eqd k' k).
      - subst. rewrite Hg. unfold stored_in. rewrite E. destruct (ikey_eqd ik' ik), (fkey_eqd (k, ik') (k, ik)); auto; congruence.
      - destruct (fkey_eqd (k', ik') (k, ik)); auto; congruence. }
    assert (Sk : stored_in (a_svcs a) k ik = Some o) by (unfold stored_in; rewrite E; auto).
    unfold Inv. rewrite Ea, Ec, Ei. split; [apply svcs_inv_sset; auto; split; auto|].
    split; [|split].
    + intros k' ik' i. rewrite St. destruct (fkey_eqd _ _); [discriminate | apply H2].
    + assert (Cn' : NoDup (akeys (rm_clients a k ik o))).
      { unfold rm_clients. destruct (negb _); auto. destruct (cget _ _); auto. apply nodup_aset; auto. }
      split; auto. intros c0 ks Ec0.
      assert (Hsub : exists ks0, cget c0 (a_clients a) = Some ks0 /\ NoDup ks /\
                                 (forall x, In x ks -> In x ks0) /\ ~ In (k, ik) ks).
      { unfold rm_clients in Ec0. destruct (negb (i_client o =? 0)) eqn:B.
        - destruct (cget (i_client o) (a_clients a)) as [keys|] eqn:Eo'.
          + rewrite cget_cset in Ec0. destruct (N.eq_dec c0 (i_client o)).
            * inversion Ec0; subst. exists keys. split; auto. destruct (C _ _ Eo') as (_ & Nk & _).
              split; [apply nodup_sdel; auto|]. split; [intros x Hx; apply in_fdel in Hx; tauto|].
              intros Hx. apply in_fdel in Hx. tauto.
            * exists ks. split; auto. destruct (C _ _ Ec0) as (_ & Nk & Ow). split; auto. split; auto.
              intros Hx. destruct (Ow _ _ Hx) as (i & Ei' & Ec'). congruence.
          + exists ks. split; auto. destruct (C _ _ Ec0) as (_ & Nk & Ow). split; auto. split; auto.
            intros Hx. destruct (Ow _ _ Hx) as (i & Ei' & Ec'). rewrite Sk in Ei'. inversion Ei'; subst. congruence.
        - exists ks. split; auto. destruct (C _ _ Ec0) as (Hc0 & Nk & Ow). split; auto. split; auto.
          intros Hx. destruct (Ow _ _ Hx) as (i & Ei' & Ec'). rewrite Sk in Ei'. inversion Ei'; subst.
          apply negb_false_iff in B. apply N.eqb_eq in B. congruence. }
      destruct Hsub as (ks0 & E0 & Nk & Hsub & Hnot). destruct (C _ _ E0) as (Hc0 & _ & Ow).
      split; auto. split; auto. intros k' ik' Hin. rewrite St.
      destruct (fkey_eqd (k', ik') (k, ik)) as [e|e]; [rewrite e in Hin; tauto | apply Ow; auto].
    + split; auto. intros k'. rewrite Ii. subst svcs'. unfold sset, sget. rewrite aget_aset.
      destruct (skey_eqd k' k); [subst; unfold sget in E; rewrite E; split; discriminate | tauto].
Qed.

(** ** update_instance *)
Definition upd_in (hashf : skey -> N) (a : actor) (k : skey) (i0 : inst) : inst :=
  let i1 := set_lm i0 (a_now a) in
  let at_range := match a_range a with Some r => is_range r (hashf k) | None => false end in
  if at_range && negb (i_grpc i1) then set_origin i1 (i_grpc i1) 0 0 else i1.

Definition upd_clients_add (cl : list (N * list fkey)) (k : skey) (i2 : inst) : list (N * list fkey) :=
  if (i_grpc i2 || is_from_cluster i2) && negb (i_client i2 =? 0) then
    match cget (i_client i2) cl with
    | Some set => cset (i_client i2) (fadd (k, i_key i2) set) cl
    | None => cset (i_client i2) [(k, i_key i2)] cl
    end
  else cl.

Definition upd_clients_del (cl : list (N * list fkey)) (fk : fkey) (ro : option N) : list (N * list fkey) :=
  match ro with
  | Some oc => match cget oc cl with Some set => cset oc (fdel fk set) cl | None => cl end
  | None => cl
  end.

Lemma create_empty_service_frame : forall c a k,
  a_range (create_empty_service c a k) = a_range a /\ a_now (create_empty_service c a k) = a_now a /\
  a_clients (create_empty_service c a k) = a_clients a.
Proof. intros. unfold create_empty_service. destruct (sget k (a_svcs a)); cbn; auto. Qed.

Lemma update_instance_parts : forall c hashf a k i0 tg fs s,
  let a1 := create_empty_service c a k in
  sget k (a_svcs a1) = Some s ->
  let i2 := upd_in hashf a k i0 in
  let r := svc_update s i2 tg fs in
  let a' := fst (update_instance c hashf a k i0 tg fs) in
  a_svcs a' = sset k (fst (fst (fst r))) (a_svcs a1) /\
  a_clients a' = upd_clients_del (upd_clients_add (a_clients a1) k i2) (k, i_key i2) (snd (fst r)) /\
  a_index a' = a_index a1 /\ a_range a' = a_range a /\ a_now a' = a_now a.
Proof.
  intros c hashf a k i0 tg fs s a1 E i2 r a'. subst a' r i2.
  destruct (create_empty_service_frame c a k) as (Er & En & Ecl). fold a1 in Er, En, Ecl.
  unfold update_instance, upd_in. fold a1. rewrite Er. rewrite E.
  set (i2 := if _ && negb (i_grpc (set_lm i0 (a_now a))) then _ else _).
  unfold upd_clients_add, upd_clients_del.
  destruct (svc_update s i2 tg fs) as [[[s' ut] ro] pt]. cbn [fst snd].
  destruct ((i_grpc i2 || is_from_cluster i2) && negb (i_client i2 =? 0)).
  - destruct (cget (i_client i2) (a_clients a1)); destruct ro as [oc|];
      cbn [a_clients a_svcs with_clients with_svcs]; try destruct (cget oc _); cbn; auto.
  - destruct ro as [oc|]; cbn [a_clients a_svcs with_clients with_svcs]; try destruct (cget oc _); cbn; auto.
Qed.

Lemma upd_in_wf : forall hashf a k i0, wf_inst i0 -> wf_inst (upd_in hashf a k i0).
Proof.
  intros. unfold upd_in, wf_inst in *. destruct (_ && _); cbn; auto.
Qed.

Lemma upd_in_key : forall hashf a k i0, i_key (upd_in hashf a k i0) = i_key i0.
Proof. intros. unfold upd_in. destruct (_ && _); reflexivity. Qed.

Theorem update_instance_inv : forall c hashf a k i0 tg fs,
  wf_inst i0 -> Inv a -> Inv (fst (update_instance c hashf a k i0 tg fs)).
Proof.
  intros c hashf a k i0 tg fs W0 H0.
  pose proof (create_empty_service_inv c a k H0) as H.
  pose proof (create_empty_service_has c a k) as Has.
  destruct (sget k (a_svcs (create_empty_service c a k))) as [s|] eqn:E; [|congruence].
  destruct (update_instance_parts c hashf a k i0 tg fs s E) as (Ea & Ec & Ei & _). cbn zeta in *.
  set (a1 := create_empty_service c a k) in *.
  set (a' := fst (update_instance c hashf a k i0 tg fs)) in *.
  set (i2 := upd_in hashf a k i0) in *.
  assert (W2 : wf_inst i2) by (apply upd_in_wf; auto).
  pose proof H as ([Hn Hs] & H2 & [Cn C] & [Io Ii]).
  pose proof (svc_update_inv s i2 tg fs (Hs k s E)) as Hs'.
  pose proof (svc_update_get s i2 tg fs) as Hg.
  pose proof (svc_update_replace s i2 tg fs) as Hr.
  pose proof (upd_new_origin s i2 tg) as Ho. cbn zeta in Ho.
  set (key := i_key i2) in *. set (n := upd_new s i2 tg) in *.
  destruct (svc_update s i2 tg fs) as [[[s' ut] ro] pt]. cbn [fst snd] in *.
  set (svcs' := sset k s' (a_svcs a1)) in *.
  assert (St : forall k' ik', stored_in svcs' k' ik' =
                              if fkey_eqd (k', ik') (k, key) then Some n else stored_in (a_svcs a1) k' ik').
  { intros. subst svcs'. rewrite stored_sset. destruct (skey_eqd k' k).
    - subst. rewrite Hg. unfold stored_in. rewrite E. destruct (ikey_eqd ik' key), (fkey_eqd (k, ik') (k, key)); auto; congruence.
    - destruct (fkey_eqd (k', ik') (k, key)); auto; congruence. }
  assert (Sold : stored_in (a_svcs a1) k key = iget key (s_insts s)) by (unfold stored_in; rewrite E; auto).
  (* the new record keeps the gRPC identity of the old one, or takes the incoming one *)
  assert (Wn : wf_inst n).
  { destruct (iget key (s_insts s)) as [old|] eqn:Eold.
    - destruct (i_ephemeral i2 && negb (i_grpc i2) && i_grpc old) eqn:B.
      + destruct Ho as (_ & G & _). apply andb_true_iff in B. destruct B as [_ B].
        unfold wf_inst. intros X. congruence.
      + destruct Ho as (A & G & _). unfold wf_inst in *. intros X. rewrite A. apply W2. congruence.
    - destruct Ho as (A & G & _). unfold wf_inst in *. intros X. rewrite A. apply W2. congruence. }
  unfold Inv. rewrite Ea, Ec, Ei. split; [apply svcs_inv_sset; auto; split; auto|]. split; [|split].
  - intros k' ik' i. rewrite St. destruct (fkey_eqd _ _); [intros X; inversion X; subst; auto | apply H2].
  - (* client_instance_set *)
    set (cl2 := upd_clients_add (a_clients a1) k i2).
    assert (C2n : NoDup (akeys cl2)).
    { subst cl2. unfold upd_clients_add. destruct ((i_grpc i2 || is_from_cluster i2) && negb (i_client i2 =? 0)); auto.
      destruct (cget _ _); apply nodup_aset; auto. }
    assert (C2 : forall c0 ks, cget c0 cl2 = Some ks ->
                 c0 <> 0 /\ NoDup ks /\
                 forall fk, In fk ks ->
                   (fk = (k, key) /\ c0 = i_client i2 /\ (i_grpc i2 || is_from_cluster i2) = true) \/
                   (exists ks0, cget c0 (a_clients a1) = Some ks0 /\ In fk ks0)).
    { intros c0 ks. subst cl2. unfold upd_clients_add.
      destruct ((i_grpc i2 || is_from_cluster i2) && negb (i_client i2 =? 0)) eqn:B.
      - apply andb_true_iff in B. destruct B as [B1 B2]. apply negb_true_iff in B2. apply N.eqb_neq in B2.
        destruct (cget (i_client i2) (a_clients a1)) as [set|] eqn:Es; rewrite cget_cset;
          destruct (N.eq_dec c0 (i_client i2)); intros X.
        + inversion X; subst. destruct (C _ _ Es) as (_ & Nk & _). split; auto. split; [apply nodup_sadd; auto|].
          intros fk Hfk. apply in_fadd in Hfk. destruct Hfk; [left; auto | right; eauto].
        + destruct (C _ _ X) as (A & Nk & _). split; auto. split; auto. intros; right; eauto.
        + inversion X; subst. split; auto. split; [repeat constructor; intros []|].
          intros fk [<-|[]]. left; auto.
        + destruct (C _ _ X) as (A & Nk & _). split; auto. split; auto. intros; right; eauto.
      - intros X. destruct (C _ _ X) as (A & Nk & _). split; auto. split; auto. intros; right; eauto. }
    assert (Cn' : NoDup (akeys (upd_clients_del cl2 (k, key) ro))).
    { unfold upd_clients_del. destruct ro; auto. destruct (cget _ _); auto. apply nodup_aset; auto. }
    split; auto. intros c0 ks Ec0.
    (* every key recorded for c0 after the update was recorded in cl2, and (k,key) is not recorded
       for the replaced client *)
    assert (Hsub : exists ks2, cget c0 cl2 = Some ks2 /\ NoDup ks /\ (forall x, In x ks -> In x ks2) /\
                               (ro = Some c0 -> ~ In (k, key) ks)).
    { unfold upd_clients_del in Ec0. destruct ro as [oc|].
      - destruct (cget oc cl2) as [set|] eqn:Es.
        + rewrite cget_cset in Ec0. destruct (N.eq_dec c0 oc).
          * inversion Ec0; subst. exists set. split; auto. destruct (C2 _ _ Es) as (_ & Nk & _).
            split; [apply nodup_sdel; auto|]. split; [intros x Hx; apply in_fdel in Hx; tauto|].
            intros _ Hx. apply in_fdel in Hx. tauto.
          * exists ks. split; auto. destruct (C2 _ _ Ec0) as (_ & Nk & _). split; auto. split; auto.
            intros X; inversion X; congruence.
        + exists ks. split; auto. destruct (C2 _ _ Ec0) as (_ & Nk & _). split; auto. split; auto.
          intros X; inversion X; subst. congruence.
      - exists ks. split; auto. destruct (C2 _ _ Ec0) as (_ & Nk & _). split; auto. split; auto. discriminate. }
    destruct Hsub as (ks2 & E2 & Nk & Hsub & Hro). destruct (C2 _ _ E2) as (Hc0 & _ & Hfrom).
    split; auto. split; auto. intros k' ik' Hin. rewrite St.
    destruct (fkey_eqd (k', ik') (k, key)) as [e|e].
    + (* the updated key itself: the stored record belongs to c0 *)
      exists n. split; auto. rewrite e in Hin. specialize (Hfrom _ (Hsub _ Hin)).
      destruct Hfrom as [(_ & -> & Bor) | (ks0 & E0 & Hin0)].
      * (* just recorded for the incoming client *)
        destruct (iget key (s_insts s)) as [old|] eqn:Eold; [|tauto].
        destruct (i_ephemeral i2 && negb (i_grpc i2) && i_grpc old) eqn:B; [|tauto].
        exfalso. apply andb_true_iff in B. destruct B as [B _]. apply andb_true_iff in B. destruct B as [_ B].
        apply negb_true_iff in B. apply Hc0. apply W2. auto.
      * (* already recorded for c0: the old record belongs to c0 *)
        destruct (C _ _ E0) as (_ & _ & Ow). destruct (Ow _ _ Hin0) as (old & Eold & Eoc).
        rewrite Sold in Eold. rewrite Eold in Hr, Ho.
        destruct (N.eq_dec (i_client n) c0) as [en|en]; auto. exfalso.
        assert (ro = Some c0).
        { rewrite Hr. rewrite Eoc. destruct (c0 =? 0) eqn:Z0; [apply N.eqb_eq in Z0; congruence|].
          destruct (i_client n =? c0) eqn:Z1; [apply N.eqb_eq in Z1; congruence|]. reflexivity. }
        apply (Hro H1). auto.
    + specialize (Hfrom _ (Hsub _ Hin)). destruct Hfrom as [(X & _) | (ks0 & E0 & Hin0)]; [congruence|].
      destruct (C _ _ E0) as (_ & _ & Ow). apply Ow; auto.
  - split; auto. intros k'. rewrite Ii. subst svcs'. unfold sset, sget. rewrite aget_aset.
    destruct (skey_eqd k' k); [subst; unfold sget in E; rewrite E; split; discriminate | tauto].
Qed.

(** ** client removal, distro diff, batches *)
Lemma remove_keys_inv : forall c cl keys a, Inv a -> Inv (remove_keys c a cl keys).
Proof.
  induction keys as [|[k ik] ks IH]; intros a H; cbn [remove_keys]; auto.
  destruct (stored a k ik) as [i|].
  - destruct (negb (i_ephemeral i)); apply IH; auto. apply remove_instance_inv; auto.
  - apply IH. apply remove_instance_inv; auto.
Qed.

Theorem remove_client_instance_inv : forall c a cl, Inv a -> Inv (remove_client_instance c a cl).
Proof.
  intros c a cl H. unfold remove_client_instance. destruct (cget cl (a_clients a)) as [keys|] eqn:E; auto.
  apply remove_keys_inv. destruct H as (H1 & H2 & [Cn C] & H4).
  unfold Inv; cbn [a_svcs a_clients a_index with_clients]. split; auto. split; auto. split; auto.
  split; [apply nodup_adel; auto|]. intros c0 ks. unfold cdel, cget. rewrite aget_adel.
  destruct (N.eq_dec c0 cl); [discriminate | apply C].
Qed.

Theorem diff_inv : forall c a data, Inv a -> Inv (fst (diff_grpc_distro_client_data c a data)).
Proof.
  intros c a data H. unfold diff_grpc_distro_client_data. destruct (diff_scan a data) as [rm nw]. cbn [fst].
  apply fold_left_inv; auto. intros acc fk Hacc. apply remove_instance_inv; auto.
Qed.

