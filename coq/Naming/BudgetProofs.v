(** C13: the per-round budget [once_time_check_size] of [NamingActor::time_check].  Whatever the
    iteration order of the service map and whatever the budget, a round handles each service either
    completely (exactly as the unbudgeted tick does) or not at all: no due entry is dropped from a
    time-out set without being handled; the first service in the order is always handled, and a
    round that leaves services out has handled at least [n] keys. *)
From Coq Require Import ZifyBool ZifyNat ZifyN.
From RN Require Import Base.Res Base.AMap Base.AMapProofs Naming.Service Naming.ServiceProofs
  Naming.Timeout Naming.TimeoutProofs Naming.Filter Naming.Actor Naming.IndexProofs Naming.ActorProofs.
Local Open Scope N_scope.
Ltac Zify.zify_post_hook ::= Z.div_mod_to_equations.

Definition visited (c : cfg) (n : N) (order : list skey) (a : actor) : list skey :=
  tc_visited c (a_now a) n (a_svcs a) order 0.

Lemma kvis_In : forall k l, kvis k l = true <-> In k l.
Proof. intros. apply (smem_In skey_eqd). Qed.

Lemma budget_svcs : forall c n order a k,
  sget k (a_svcs (time_check_budget c n order a)) =
  option_map (fun s => if kvis k (visited c n order a) then fst (fst (tc_svc c (a_now a) s)) else s) (sget k (a_svcs a)).
Proof.
  intros. unfold time_check_budget, visited; cbn [a_svcs]. unfold sget.
  apply (aget_map_vals skey_eqd
           (fun k s => if kvis k (tc_visited c (a_now a) n (a_svcs a) order 0) then fst (fst (tc_svc c (a_now a) s)) else s)).
Qed.

(** each service is handled completely or not at all *)
Theorem budget_never_drops_due_entries : forall c n order a k s,
  sget k (a_svcs a) = Some s ->
  let a' := time_check_budget c n order a in
  (In k (visited c n order a) /\ sget k (a_svcs a') = Some (fst (fst (tc_svc c (a_now a) s)))) \/
  (~ In k (visited c n order a) /\ sget k (a_svcs a') = Some s).
Proof.
  intros c n order a k s E a'. subst a'. rewrite budget_svcs, E. cbn [option_map].
  destruct (kvis k (visited c n order a)) eqn:V.
  - left. split; auto. apply kvis_In; auto.
  - right. split; auto. intros H. apply kvis_In in H. congruence.
Qed.

(** spelled out for one instance and the two time-out sets of its service *)
Corollary budget_unvisited_untouched : forall c n order a k s,
  sget k (a_svcs a) = Some s -> ~ In k (visited c n order a) ->
  forall ik, stored (time_check_budget c n order a) k ik = stored a k ik.
Proof.
  intros c n order a k s E V ik. destruct (budget_never_drops_due_entries c n order a k s E) as [[X _]|[_ X]]; [contradiction|].
  unfold stored. cbn zeta in X. rewrite X, E. reflexivity.
Qed.

Corollary budget_visited_as_full_tick : forall c n order a k s,
  sget k (a_svcs a) = Some s -> In k (visited c n order a) ->
  sget k (a_svcs (time_check_budget c n order a)) = sget k (a_svcs (time_check c a)).
Proof.
  intros c n order a k s E V. destruct (budget_never_drops_due_entries c n order a k s E) as [[_ X]|[X _]]; [|contradiction].
  cbn zeta in X. rewrite X. unfold time_check; cbn [a_svcs]. unfold sget.
  rewrite (aget_map_vals skey_eqd (fun _ s => fst (fst (tc_svc c (a_now a) s)))). unfold sget in E. rewrite E. reflexivity.
Qed.

(** progress *)
Fixpoint sum_actions (c : cfg) (now : N) (svcs : list (skey * service)) (l : list skey) : N :=
  match l with
  | [] => 0
  | k :: r => (match sget k svcs with Some s => tc_actions c now s | None => 0 end) + sum_actions c now svcs r
  end.

Lemma tc_visited_progress : forall c now n svcs order size,
  let vis := tc_visited c now n svcs order size in
  (forall k, In k order -> sget k svcs <> None -> In k vis) \/ n <= size + sum_actions c now svcs vis.
Proof.
  induction order as [|k r IH]; intros size; cbn [tc_visited]; cbn zeta.
  - left. intros k [].
  - destruct (sget k svcs) as [s|] eqn:E.
    + destruct (n <=? size + tc_actions c now s) eqn:B.
      * right. apply N.leb_le in B. cbn [sum_actions]. rewrite E. lia.
      * destruct (IH (size + tc_actions c now s)) as [A|A]; cbn zeta in A.
        -- left. intros k' [->|Hin] Hk; [cbn; auto | cbn; right; apply A; auto].
        -- right. cbn [sum_actions]. rewrite E. lia.
    + destruct (IH size) as [A|A]; cbn zeta in A; [left | right; auto].
      intros k' [->|Hin] Hk; [congruence | apply A; auto].
Qed.

Theorem budget_progress : forall c n order a,
  (forall k, In k order -> sget k (a_svcs a) <> None -> In k (visited c n order a)) \/
  n <= sum_actions c (a_now a) (a_svcs a) (visited c n order a).
Proof.
  intros. unfold visited. destruct (tc_visited_progress c (a_now a) n (a_svcs a) order 0) as [A|A]; cbn zeta in A; auto.
Qed.

Theorem budget_first_visited : forall c n k r a,
  sget k (a_svcs a) <> None -> In k (visited c n (k :: r) a).
Proof.
  intros c n k r a H. unfold visited. cbn [tc_visited]. destruct (sget k (a_svcs a)); [cbn; auto | congruence].
Qed.

(** a round that visits every service is the unbudgeted tick *)
Theorem budget_complete_is_time_check : forall c n order a,
  NoDup (akeys (a_svcs a)) ->
  (forall k, sget k (a_svcs a) <> None -> In k (visited c n order a)) ->
  a_svcs (time_check_budget c n order a) = a_svcs (time_check c a).
Proof.
  intros c n order a Hn Hall. unfold time_check_budget, time_check; cbn [a_svcs]. fold (visited c n order a).
  apply map_ext_in. intros [k s] Hin. cbn [fst snd].
  assert (E : sget k (a_svcs a) = Some s) by (apply (In_aget_nodup skey_eqd); auto).
  assert (V : kvis k (visited c n order a) = true) by (apply kvis_In; apply Hall; congruence).
  rewrite V. reflexivity.
Qed.

(** the registry invariant survives a budgeted round *)
Theorem time_check_budget_inv : forall c n order a, Inv a -> Inv (time_check_budget c n order a).
Proof.
  intros c n order a H.
  apply (Inv_map a (fun k s => if kvis k (visited c n order a) then fst (fst (tc_svc c (a_now a) s)) else s)); auto.
  - intros k s Hs. destruct (kvis _ _); auto. apply svc_time_check_inv; auto.
  - intros k s Hs. destruct (kvis _ _); [apply svc_keeps_time_check | apply svc_keeps_refl].
Qed.

(** ** how many rounds can be cut short: a potential argument.
    [phi] = 2 * |healthy_timeout_set| + |unhealthy_timeout_set|; every handled key costs at least
    one unit (a drained healthy entry may add one unhealthy entry), nothing else adds entries
    during silence *)
Definition phi (s : service) : nat := 2 * length (s_hset s) + length (s_uset s).

Lemma filter_partition_length : forall {A} (p : A -> bool) l,
  (length (filter p l) + length (filter (fun x => negb (p x)) l) = length l)%nat.
Proof. induction l as [|x l IH]; cbn; auto. destruct (p x); cbn; lia. Qed.

Lemma ts_timeout_length : forall {T} t (set : list (N * T)),
  (length (fst (ts_timeout t set)) + length (snd (ts_timeout t set)) = length set)%nat.
Proof. intros. unfold ts_timeout; cbn [fst snd]. rewrite map_length. apply filter_partition_length. Qed.

Lemma tc_remove_loop_len : forall now off keys s acc,
  (length (snd (tc_remove_loop now off s keys acc)) <= length acc + length keys)%nat.
Proof.
  induction keys as [|k ks IH]; intros s acc; cbn [tc_remove_loop snd length]; [lia|].
  destruct (tc_skip s k off).
  - specialize (IH s acc). lia.
  - specialize (IH (fst (svc_remove now s k None)) (acc ++ [k])). rewrite app_length in IH. cbn [length] in IH. lia.
Qed.

Lemma svc_healthy_invalid_uset_len : forall s k, (length (s_uset (svc_healthy_invalid s k)) <= S (length (s_uset s)))%nat.
Proof.
  intros. unfold svc_healthy_invalid. destruct (iget k (s_insts s)) as [i|]; [|lia].
  destruct (i_healthy i); cbn [s_uset]; [unfold ts_add; rewrite app_length; cbn; lia | lia].
Qed.

Lemma tc_update_loop_len : forall h keys s acc,
  (length (snd (tc_update_loop h s keys acc)) <= length acc + length keys /\
   length (s_uset (fst (tc_update_loop h s keys acc))) + length acc <=
   length (s_uset s) + length (snd (tc_update_loop h s keys acc)))%nat.
Proof.
  induction keys as [|k ks IH]; intros s acc; cbn [tc_update_loop fst snd length]; [lia|].
  destruct (tc_skip s k h).
  - specialize (IH s acc). lia.
  - specialize (IH (svc_healthy_invalid s k) (acc ++ [k])). rewrite app_length in IH. cbn [length] in IH.
    pose proof (svc_healthy_invalid_uset_len s k). lia.
Qed.

Lemma svc_time_check_phi : forall now s h o,
  (phi (fst (fst (svc_time_check now s h o))) + length (snd (fst (svc_time_check now s h o))) +
   length (snd (svc_time_check now s h o)) <= phi s)%nat.
Proof.
  intros now s h o. unfold svc_time_check, phi.
  pose proof (ts_timeout_length o (s_uset s)) as Lu.
  destruct (ts_timeout o (s_uset s)) as [ukeys uset]. cbn [fst snd] in Lu.
  set (s1 := mkSvc _ _ _ _ _ _ uset _ _).
  pose proof (tc_remove_loop_len now o ukeys s1 []) as L1.
  pose proof (tc_remove_loop_sets now o ukeys s1 []) as (Hh & Hu & _).
  destruct (tc_remove_loop now o s1 ukeys []) as [s2 rlist]. cbn [fst snd length] in *.
  pose proof (ts_timeout_length h (s_hset s2)) as Lh.
  destruct (ts_timeout h (s_hset s2)) as [hkeys hset]. cbn [fst snd] in Lh.
  set (s3 := mkSvc _ _ _ _ _ hset _ _ _).
  pose proof (tc_update_loop_len h hkeys s3 []) as [L2 L3].
  pose proof (tc_update_loop_sets h hkeys s3 []) as (A & _). cbn zeta in A.
  destruct (tc_update_loop h s3 hkeys []) as [s4 ulist]. cbn [fst snd length] in *.
  subst s1 s3. cbn [s_hset s_uset] in *. rewrite A. rewrite Hh in Lh. rewrite Hu in L3. lia.
Qed.

Definition Phi (a : actor) : nat := fold_right (fun e acc => (phi (snd e) + acc)%nat) 0%nat (a_svcs a).

(** keys handled in one round (the [size] of the code, summed over the visited services) *)
Definition handled (c : cfg) (n : N) (order : list skey) (a : actor) : nat :=
  fold_right (fun e acc => ((if kvis (fst e) (visited c n order a) then N.to_nat (tc_actions c (a_now a) (snd e)) else 0) + acc)%nat)
             0%nat (a_svcs a).

Theorem budget_round_phi : forall c n order a,
  (Phi (time_check_budget c n order a) + handled c n order a <= Phi a)%nat.
Proof.
  intros c n order a. unfold Phi, handled, time_check_budget; cbn [a_svcs]. fold (visited c n order a).
  induction (a_svcs a) as [|[k s] m IH]; cbn [map fold_right fst snd]; [lia|].
  destruct (kvis k (visited c n order a)).
  - pose proof (svc_time_check_phi (a_now a) s (a_now a - c_health c) (a_now a - c_inst c)) as P.
    change (svc_time_check (a_now a) s (a_now a - c_health c) (a_now a - c_inst c)) with (tc_svc c (a_now a) s) in P.
    assert (X : N.to_nat (tc_actions c (a_now a) s) =
                (length (snd (fst (tc_svc c (a_now a) s))) + length (snd (tc_svc c (a_now a) s)))%nat)
      by (unfold tc_actions; apply Nat2N.id).
    rewrite X. lia.
  - lia.
Qed.

Lemma tc_visited_sub : forall c now n svcs order size k, In k (tc_visited c now n svcs order size) -> In k order.
Proof.
  induction order as [|k0 r IH]; intros size k; cbn [tc_visited]; [tauto|].
  destruct (sget k0 svcs).
  - destruct (n <=? _); cbn; [tauto|]. intros [H|H]; eauto.
  - intros H. right. eauto.
Qed.

Lemma tc_visited_nodup : forall c now n svcs order size, NoDup order -> NoDup (tc_visited c now n svcs order size).
Proof.
  induction order as [|k0 r IH]; intros size Hn; cbn [tc_visited]; [constructor|]. inversion Hn; subst.
  destruct (sget k0 svcs); auto. destruct (n <=? _).
  - constructor; [intros []|constructor].
  - constructor; auto. intros H. apply tc_visited_sub in H. tauto.
Qed.

Lemma sum_actions_cons : forall c now k0 s0 m vis,
  NoDup vis -> sget k0 m = None ->
  sum_actions c now ((k0, s0) :: m) vis = (if kvis k0 vis then tc_actions c now s0 else 0) + sum_actions c now m vis.
Proof.
  induction vis as [|k r IH]; intros Hn E; cbn [sum_actions]; [reflexivity|]. inversion Hn; subst.
  rewrite IH; auto. unfold kvis; cbn [smem]. fold (kvis k0 r). unfold sget at 1; cbn [aget].
  destruct (skey_eqd k k0) as [e|e].
  - subst. destruct (skey_eqd k0 k0); [|congruence]. rewrite E.
    assert (X : kvis k0 r = false) by (apply (smem_false skey_eqd); auto). rewrite X. lia.
  - destruct (skey_eqd k0 k); [congruence|]. fold (sget k m). lia.
Qed.

Lemma sum_actions_nil : forall c now vis, sum_actions c now [] vis = 0.
Proof. induction vis as [|k r IH]; cbn [sum_actions]; auto. Qed.

Lemma sum_actions_handled : forall c n order a,
  NoDup order -> NoDup (akeys (a_svcs a)) ->
  N.to_nat (sum_actions c (a_now a) (a_svcs a) (visited c n order a)) = handled c n order a.
Proof.
  intros c n order a Ho Hk. unfold handled.
  assert (Hv : NoDup (visited c n order a)) by (apply tc_visited_nodup; auto).
  generalize (visited c n order a) Hv. intros vis Hvis. clear Ho.
  induction (a_svcs a) as [|[k s] m IH]; cbn [fold_right fst snd].
  - rewrite sum_actions_nil. reflexivity.
  - inversion Hk; subst. rewrite sum_actions_cons; auto.
    + rewrite N2Nat.inj_add. rewrite IH; auto. destruct (kvis k vis); reflexivity.
    + apply (aget_None_notin skey_eqd). auto.
Qed.

Definition complete (c : cfg) (n : N) (order : list skey) (a : actor) : bool :=
  forallb (fun e => kvis (fst e) (visited c n order a)) (a_svcs a).

(** a round that is cut short has handled at least [n] keys *)
Theorem budget_incomplete_costs : forall c n order a,
  NoDup order -> NoDup (akeys (a_svcs a)) -> (forall k, sget k (a_svcs a) <> None -> In k order) ->
  complete c n order a = false -> (N.to_nat n <= handled c n order a)%nat.
Proof.
  intros c n order a Ho Hk Hcover Hc. rewrite <- sum_actions_handled; auto.
  destruct (budget_progress c n order a) as [A|A]; [|lia]. exfalso.
  assert (complete c n order a = true); [|congruence].
  unfold complete. apply forallb_forall. intros [k s] Hin. cbn [fst]. apply kvis_In.
  assert (E : sget k (a_svcs a) = Some s) by (apply (In_aget_nodup skey_eqd); auto).
  apply A; [apply Hcover|]; congruence.
Qed.

(** rounds: the clock advances by [d], then one budgeted round in some service order *)
Definition round (c : cfg) (n : N) (a : actor) (r : N * list skey) : actor :=
  time_check_budget c n (snd r)
    (mkActor (a_svcs a) (a_clients a) (a_index a) (a_empty a) (a_metaset a) (a_range a) (a_now a + fst r)).

Fixpoint incomplete_rounds (c : cfg) (n : N) (a : actor) (sched : list (N * list skey)) : nat :=
  match sched with
  | [] => 0%nat
  | r :: rest =>
      let a0 := mkActor (a_svcs a) (a_clients a) (a_index a) (a_empty a) (a_metaset a) (a_range a) (a_now a + fst r) in
      ((if complete c n (snd r) a0 then 0 else 1) + incomplete_rounds c n (round c n a r) rest)%nat
  end.

Definition order_ok (a : actor) (order : list skey) : Prop :=
  NoDup order /\ forall k, sget k (a_svcs a) <> None -> In k order.

Lemma round_keys : forall c n a r k, sget k (a_svcs (round c n a r)) <> None <-> sget k (a_svcs a) <> None.
Proof.
  intros. unfold round. rewrite budget_svcs. cbn [a_svcs]. destruct (sget k (a_svcs a)); cbn; split; congruence.
Qed.

(** during silence (only the clock and the driver run) at most Phi/n rounds are cut short, whatever
    the service orders; every other round is a complete, unbudgeted tick *)
Theorem budget_rounds_bound : forall c n sched a,
  Inv a -> Forall (fun r => order_ok a (snd r)) sched ->
  (N.to_nat n * incomplete_rounds c n a sched <= Phi a)%nat.
Proof.
  intros c n sched. induction sched as [|r rest IH]; intros a H F; cbn [incomplete_rounds]; [lia|].
  inversion F as [|? ? [Ho Hc] F']; subst.
  set (a0 := mkActor (a_svcs a) (a_clients a) (a_index a) (a_empty a) (a_metaset a) (a_range a) (a_now a + fst r)).
  assert (H0 : Inv a0) by (eapply Inv_ext; [..|exact H]; reflexivity).
  assert (Hr : Inv (round c n a r)) by (apply time_check_budget_inv; auto).
  assert (F2 : Forall (fun r0 => order_ok (round c n a r) (snd r0)) rest).
  { eapply Forall_impl; [|exact F']. intros r0 [A B]. split; auto. intros k Hk. apply B. apply (round_keys c n a r k); auto. }
  specialize (IH (round c n a r) Hr F2).
  pose proof (budget_round_phi c n (snd r) a0) as P. change (time_check_budget c n (snd r) a0) with (round c n a r) in P.
  assert (E0 : Phi a0 = Phi a) by reflexivity.
  destruct (complete c n (snd r) a0) eqn:Cm.
  - nia.
  - pose proof (budget_incomplete_costs c n (snd r) a0 Ho (proj1 (proj1 H0)) Hc Cm). nia.
Qed.
