(** Executable glue for the correspondence check of C14 (no proofs depend on this file). *)
From RN Require Import Naming.Distro.
Local Open Scope N_scope.

(** what the `distro` harness suite observes for one (view, local id): the range, and for
    each hash the route and whether the local node considers itself the owner *)
Definition run_view (v : view) (local : N) (hs : list N) : range * list (route_res * bool) :=
  (range_of v local, map (fun h => (route v local h, owns v local h)) hs).

Definition run_is_range (index len : N) (hs : list N) : list bool := map (is_range (index, len)) hs.
