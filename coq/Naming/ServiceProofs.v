(** Invariant of one [Service] (C11, service part): the incrementally maintained counters and
    the perpetual host set always mirror [instances]; preserved by every method. *)
From Coq Require Import ZifyBool ZifyNat ZifyN.
From RN Require Import Base.Res Base.AMap Base.AMapProofs Naming.Service.
Local Open Scope N_scope.
Ltac Zify.zify_post_hook ::= Z.div_mod_to_equations.

Definition perp_ok (insts : list (ikey * inst)) (perp : list ikey) : Prop :=
  NoDup perp /\ forall k, In k perp <-> exists i, iget k insts = Some i /\ i_ephemeral i = false.

Definition svc_inv (s : service) : Prop :=
  NoDup (akeys (s_insts s)) /\
  (forall k i, iget k (s_insts s) = Some i -> i_key i = k) /\
  s_size s = Z.of_nat (length (s_insts s)) /\
  s_hsize s = Z.of_nat (acount i_healthy (s_insts s)) /\
  perp_ok (s_insts s) (s_perp s).

Lemma svc_inv_empty : svc_inv svc_empty.
Proof.
  unfold svc_inv, svc_empty, perp_ok; cbn.
  split; [constructor|]. split; [intros k i H; discriminate|]. split; [reflexivity|]. split; [reflexivity|].
  split; [constructor|]. intros k. split; [intros []| intros [i [H _]]; discriminate].
Qed.

(** setting / deleting one key, with the matching update of the perpetual set *)
Lemma perp_ok_set : forall insts perp perp' k v,
  perp_ok insts perp -> NoDup perp' ->
  (forall k', In k' perp' <-> (if ikey_eqd k' k then i_ephemeral v = false else In k' perp)) ->
  perp_ok (iset k v insts) perp'.
Proof.
  intros insts perp perp' k v [Hn Hp] Hn' Hc. split; auto.
  intros k'. rewrite Hc. unfold iset, iget. rewrite aget_aset.
  destruct (ikey_eqd k' k).
  - split; [intros H; exists v; auto | intros [i [E H]]; inversion E; subst; auto].
  - apply Hp.
Qed.

Lemma perp_ok_del : forall insts perp perp' k,
  perp_ok insts perp -> NoDup perp' ->
  (forall k', In k' perp' <-> (k' <> k /\ In k' perp)) ->
  perp_ok (idel k insts) perp'.
Proof.
  intros insts perp perp' k [Hn Hp] Hn' Hc. split; auto.
  intros k'. rewrite Hc. unfold idel, iget. rewrite aget_adel.
  destruct (ikey_eqd k' k).
  - split; [tauto | intros [i [E _]]; discriminate].
  - rewrite Hp. tauto.
Qed.

(** the perpetual-set update of [update_instance] *)
Lemma perp_update : forall insts perp k v old_eph,
  perp_ok insts perp ->
  (old_eph = false <-> In k perp) ->
  let mark_add := negb (i_ephemeral v) && old_eph in
  let mark_remove := i_ephemeral v && negb old_eph in
  perp_ok (iset k v insts)
          (if mark_add then kadd k perp else if mark_remove then kdel k perp else perp).
Proof.
  intros insts perp k v oe Hp Ho; cbn zeta.
  pose proof Hp as [Hn Hin].
  destruct (i_ephemeral v) eqn:Ev, oe; cbn [negb andb].
  - (* eph -> eph *) eapply perp_ok_set; eauto. intros k'. destruct (ikey_eqd k' k); [subst|tauto].
    rewrite Ev. split; [intros H; apply Ho in H; discriminate | discriminate].
  - (* persistent -> eph *) eapply perp_ok_set; eauto.
    + apply nodup_sdel; auto.
    + intros k'. unfold kdel. rewrite in_sdel. destruct (ikey_eqd k' k); [subst|tauto].
      rewrite Ev. split; [tauto | discriminate].
  - (* eph -> persistent *) eapply perp_ok_set; eauto.
    + apply nodup_sadd; auto.
    + intros k'. unfold kadd. rewrite in_sadd. destruct (ikey_eqd k' k); [subst; tauto|].
      split; [intros [H|H]; [congruence|auto] | auto].
  - eapply perp_ok_set; eauto. intros k'. destruct (ikey_eqd k' k); [subst|tauto].
    split; [auto | intros _; apply Ho; auto].
Qed.

Lemma set_key_simpl : forall i,
  (forall w, i_key (set_weight i w) = i_key i) /\ (forall b, i_key (set_enabled i b) = i_key i) /\
  (forall b, i_key (set_healthy i b) = i_key i) /\ (forall b, i_key (set_ephemeral i b) = i_key i) /\
  (forall m, i_key (set_meta i m) = i_key i) /\ (forall t, i_key (set_lm i t) = i_key i) /\
  (forall g c cl, i_key (set_origin i g c cl) = i_key i).
Proof. intros; repeat split; reflexivity. Qed.

Lemma merge_tag_key : forall s old i1 tg, i_key (fst (fst (fst (merge_tag s old i1 tg)))) = i_key i1.
Proof.
  intros. unfold merge_tag. destruct tg as [t|]; cbn; auto.
  destruct (negb (tag_is_none t)); cbn; auto.
  destruct (negb (t_enabled t)), (negb (t_ephemeral t)), (negb (t_weight t)), (negb (t_metadata t));
    cbn; auto; destruct (t_from_update t); cbn; auto; destruct (mget _ _); cbn; auto.
Qed.

Lemma merge_tag_healthy : forall s old i1 tg, i_healthy (fst (fst (fst (merge_tag s old i1 tg)))) = i_healthy i1.
Proof.
  intros. unfold merge_tag. destruct tg as [t|]; cbn; auto.
  destruct (negb (tag_is_none t)); cbn; auto.
  destruct (negb (t_enabled t)), (negb (t_ephemeral t)), (negb (t_weight t)), (negb (t_metadata t));
    cbn; auto; destruct (t_from_update t); cbn; auto; destruct (mget _ _); cbn; auto.
Qed.

Lemma perp_old : forall s k old, svc_inv s -> iget k (s_insts s) = Some old ->
  (i_ephemeral old = false <-> In k (s_perp s)).
Proof.
  intros s k old (_ & _ & _ & _ & _ & Hp) E. rewrite Hp. split.
  - intros H; eauto.
  - intros [i [E' H]]. congruence.
Qed.

Lemma perp_absent : forall s k, svc_inv s -> iget k (s_insts s) = None -> ~ In k (s_perp s).
Proof.
  intros s k (_ & _ & _ & _ & _ & Hp) E H. apply Hp in H. destruct H as [i [E' _]]. congruence.
Qed.

Theorem svc_update_inv : forall s i0 tg fs,
  svc_inv s -> svc_inv (fst (fst (fst (svc_update s i0 tg fs)))).
Proof.
  intros s i0 tg fs Hs. pose proof Hs as (Hn & Hk & Hsz & Hh & Hp).
  unfold svc_update. destruct (iget (i_key i0) (s_insts s)) as [old|] eqn:E.
  - set (i1 := if i_ephemeral i0 && negb (i_grpc i0) && i_grpc old then _ else i0).
    assert (K1 : i_key i1 = i_key i0) by (subst i1; destruct (_ && _ && _); reflexivity).
    assert (H1 : i_healthy i1 = i_healthy i0) by (subst i1; destruct (_ && _ && _); reflexivity).
    pose proof (merge_tag_key s old i1 tg) as MK. pose proof (merge_tag_healthy s old i1 tg) as MH.
    destruct (merge_tag s old i1 tg) as [[[i2 meta] rt] pc]. cbn [fst] in MK, MH. cbn [fst snd].
    unfold svc_with_insts, svc_inv; cbn [s_insts s_size s_hsize s_perp].
    split; [apply nodup_aset; auto|]. split; [|split; [|split]].
    + intros k i. unfold iset, iget. rewrite aget_aset. destruct (ikey_eqd k (i_key i0)).
      * intros X; inversion X; subst. congruence.
      * apply Hk.
    + unfold iset. rewrite length_aset. unfold iget in E. rewrite E. auto.
    + unfold iset. rewrite acount_aset; auto. unfold iget in E. rewrite E. rewrite MH, H1, Hh.
      destruct (i_healthy old), (i_healthy i0); cbn [negb andb b2z]; lia.
    + apply perp_update; auto. apply perp_old; auto.
  - set (i2 := match mget (i_key i0) (s_meta s) with Some pm => set_meta i0 pm | None => i0 end).
    assert (K2 : i_key i2 = i_key i0) by (subst i2; destruct (mget _ _); reflexivity).
    assert (H2 : i_healthy i2 = i_healthy i0) by (subst i2; destruct (mget _ _); reflexivity).
    cbn [fst snd]. unfold svc_with_insts, svc_inv; cbn [s_insts s_size s_hsize s_perp].
    split; [apply nodup_aset; auto|]. split; [|split; [|split]].
    + intros k i. unfold iset, iget. rewrite aget_aset. destruct (ikey_eqd k (i_key i0)).
      * intros X; inversion X; subst. congruence.
      * apply Hk.
    + unfold iset. rewrite length_aset. unfold iget in E. rewrite E. lia.
    + unfold iset. rewrite acount_aset; auto. unfold iget in E. rewrite E. rewrite Hh.
      destruct (i_healthy i2); cbn [b2z]; lia.
    + pose proof (perp_absent s _ Hs E) as Hni.
      eapply perp_ok_set; eauto.
      * destruct (negb (i_ephemeral i2)); [apply nodup_sadd|]; apply Hp.
      * intros k'. destruct (i_ephemeral i2) eqn:Ee; cbn [negb].
        -- destruct (ikey_eqd k' (i_key i0)); [subst|tauto]. split; [tauto|discriminate].
        -- unfold kadd. rewrite in_sadd. destruct (ikey_eqd k' (i_key i0)); [subst; tauto|].
           split; [intros [H|H]; [congruence|auto]|auto].
Qed.

Theorem svc_remove_inv : forall now s k cl, svc_inv s -> svc_inv (fst (svc_remove now s k cl)).
Proof.
  intros now s k cl Hs. pose proof Hs as (Hn & Hk & Hsz & Hh & Hp).
  unfold svc_remove. destruct (match cl with Some _ => _ | None => _ end); [exact Hs|].
  destruct (iget k (s_insts s)) as [old|] eqn:E; [|exact Hs].
  cbn [fst]. unfold svc_inv; cbn [s_insts s_size s_hsize s_perp].
  split; [apply nodup_adel; auto|]. split; [|split; [|split]].
  - intros k' i. unfold idel, iget. rewrite aget_adel. destruct (ikey_eqd k' k); [discriminate|apply Hk].
  - unfold idel. rewrite length_adel; auto. unfold iget in E. rewrite E.
    apply aget_In in E. assert (length (s_insts s) <> 0)%nat by (destruct (s_insts s); [inversion E | discriminate]).
    lia.
  - unfold idel. rewrite acount_adel; auto. unfold iget in E. rewrite E, Hh.
    destruct (i_healthy old); cbn [b2z]; lia.
  - pose proof (perp_old s k old Hs E) as Ho. destruct Hp as [Hnp Hin].
    destruct (i_ephemeral old) eqn:Ee; cbn [negb].
    + eapply perp_ok_del; [split; eauto| auto |]. intros k'.
      destruct (ikey_eqd k' k); [subst|tauto]. split; [intros H; apply Ho in H; discriminate|tauto].
    + eapply perp_ok_del; [split; eauto | apply nodup_sdel; auto |]. intros k'. unfold kdel. apply in_sdel.
Qed.

Lemma svc_set_healthy_inv : forall s k i b hsize hset uset,
  svc_inv s -> iget k (s_insts s) = Some i -> i_healthy i = negb b ->
  hsize = (s_hsize s + (if b then 1 else -1))%Z ->
  svc_inv (mkSvc (iset k (set_healthy i b) (s_insts s)) (s_size s) hsize (s_perp s) (s_meta s) hset uset
                 (s_thr s) (s_last_empty s)).
Proof.
  intros s k i b hsize hset uset Hs E Hb Hz. pose proof Hs as (Hn & Hk & Hsz & Hh & Hp).
  unfold svc_inv; cbn [s_insts s_size s_hsize s_perp].
  split; [apply nodup_aset; auto|]. split; [|split; [|split]].
  - intros k' i'. unfold iset, iget. rewrite aget_aset. destruct (ikey_eqd k' k).
    + intros X; inversion X; subst. cbn. apply Hk; auto.
    + apply Hk.
  - unfold iset. rewrite length_aset. unfold iget in E. rewrite E. auto.
  - unfold iset. rewrite acount_aset; auto. unfold iget in E. rewrite E. subst hsize. rewrite Hh, Hb.
    destruct b; cbn [negb b2z set_healthy i_healthy]; lia.
  - pose proof (perp_old s k i Hs E) as Ho. destruct Hp as [Hnp Hin].
    eapply perp_ok_set; [split; eauto| auto |]. intros k'. destruct (ikey_eqd k' k); [subst|tauto].
    cbn. tauto.
Qed.

Theorem svc_healthy_invalid_inv : forall s k, svc_inv s -> svc_inv (svc_healthy_invalid s k).
Proof.
  intros s k Hs. unfold svc_healthy_invalid. destruct (iget k (s_insts s)) as [i|] eqn:E; auto.
  destruct (i_healthy i) eqn:Eh; auto. apply svc_set_healthy_inv; auto.
Qed.

Theorem svc_perpetual_healthy_valid_inv : forall s k, svc_inv s -> svc_inv (svc_perpetual_healthy_valid s k).
Proof.
  intros s k Hs. unfold svc_perpetual_healthy_valid. destruct (iget k (s_insts s)) as [i|] eqn:E; auto.
  destruct (negb (i_healthy i) && negb (i_ephemeral i)) eqn:Eh; auto.
  apply svc_set_healthy_inv; auto. destruct (i_healthy i); auto; discriminate.
Qed.

(** invariants do not look at the time-out sets, thresholds, metadata or [last_empty_times] *)
Lemma svc_inv_ext : forall s s',
  s_insts s' = s_insts s -> s_size s' = s_size s -> s_hsize s' = s_hsize s -> s_perp s' = s_perp s ->
  svc_inv s -> svc_inv s'.
Proof. unfold svc_inv. intros s s' -> -> -> ->. auto. Qed.

Lemma tc_remove_loop_inv : forall now off keys s acc,
  svc_inv s -> svc_inv (fst (tc_remove_loop now off s keys acc)).
Proof.
  induction keys as [|k ks IH]; intros s acc Hs; cbn [tc_remove_loop fst]; auto.
  destruct (tc_skip s k off); apply IH; auto. apply svc_remove_inv; auto.
Qed.

Lemma tc_update_loop_inv : forall h keys s acc,
  svc_inv s -> svc_inv (fst (tc_update_loop h s keys acc)).
Proof.
  induction keys as [|k ks IH]; intros s acc Hs; cbn [tc_update_loop fst]; auto.
  destruct (tc_skip s k h); apply IH; auto. apply svc_healthy_invalid_inv; auto.
Qed.

Theorem svc_time_check_inv : forall now s h o, svc_inv s -> svc_inv (fst (fst (svc_time_check now s h o))).
Proof.
  intros now s h o Hs. unfold svc_time_check.
  destruct (ts_timeout o (s_uset s)) as [ukeys uset].
  set (s1 := mkSvc _ _ _ _ _ _ uset _ _).
  assert (H1 : svc_inv s1) by (eapply svc_inv_ext; [..|exact Hs]; reflexivity).
  pose proof (tc_remove_loop_inv now o ukeys s1 [] H1) as H2.
  destruct (tc_remove_loop now o s1 ukeys []) as [s2 rlist]. cbn [fst] in H2.
  destruct (ts_timeout h (s_hset s2)) as [hkeys hset].
  set (s3 := mkSvc _ _ _ _ _ hset _ _ _).
  assert (H3 : svc_inv s3) by (eapply svc_inv_ext; [..|exact H2]; reflexivity).
  pose proof (tc_update_loop_inv h hkeys s3 [] H3) as H4.
  destruct (tc_update_loop h s3 hkeys []) as [s4 ulist]. exact H4.
Qed.

Lemma refresh_one_inv : forall s i, svc_inv s -> iget (i_key i) (s_insts s) = Some i -> svc_inv (refresh_one s i).
Proof.
  intros s i Hs E. pose proof Hs as (Hn & Hk & Hsz & Hh & Hp).
  unfold refresh_one, svc_inv; cbn [s_insts s_size s_hsize s_perp set_origin i_key].
  split; [apply nodup_aset; auto|]. split; [|split; [|split]].
  - intros k' i'. unfold iset, iget. rewrite aget_aset. destruct (ikey_eqd k' (i_key i)).
    + intros X; inversion X; subst. reflexivity.
    + apply Hk.
  - unfold iset. rewrite length_aset. unfold iget in E. rewrite E. auto.
  - unfold iset. rewrite acount_aset; auto. unfold iget in E. rewrite E. rewrite Hh. cbn [i_healthy set_origin].
    destruct (i_healthy i); cbn [b2z]; lia.
  - pose proof (perp_old s _ i Hs E) as Ho. destruct Hp as [Hnp Hin].
    eapply perp_ok_set; [split; eauto| auto |]. intros k'. destruct (ikey_eqd k' (i_key i)); [subst|tauto].
    cbn. tauto.
Qed.

(** the instances collected by [do_refresh_process_range] stay in place while the loop runs
    (distinct keys), so each one is re-stored over itself *)
Lemma refresh_fold_inv : forall l s,
  svc_inv s -> NoDup (map i_key l) -> (forall i, In i l -> iget (i_key i) (s_insts s) = Some i) ->
  svc_inv (fold_left refresh_one l s).
Proof.
  induction l as [|i l IH]; intros s Hs Hn Hin; cbn; auto.
  inversion Hn; subst. apply IH; auto.
  - apply refresh_one_inv; auto. apply Hin; cbn; auto.
  - intros j Hj. unfold refresh_one; cbn [s_insts set_origin i_key]. unfold iset, iget. rewrite aget_aset.
    destruct (ikey_eqd (i_key j) (i_key i)) as [e|e].
    + exfalso. apply H1. rewrite <- e. apply in_map; auto.
    + apply Hin; cbn; auto.
Qed.

Lemma avals_keys_nodup : forall (m : list (ikey * inst)),
  NoDup (akeys m) -> (forall k i, iget k m = Some i -> i_key i = k) -> NoDup (map i_key (avals m)).
Proof.
  intros m Hn Hk. assert (E : map i_key (avals m) = akeys m).
  { unfold avals, akeys. rewrite map_map. apply map_ext_in. intros [k i] Hin. cbn.
    apply Hk. apply In_aget_nodup; auto. }
  rewrite E; auto.
Qed.

Lemma NoDup_map_filter : forall {A B} (f : A -> B) (p : A -> bool) l, NoDup (map f l) -> NoDup (map f (filter p l)).
Proof.
  induction l as [|a l IH]; cbn; intros H; auto. inversion H; subst.
  destruct (p a); cbn; auto. constructor; auto. intros Hin. apply H2.
  apply in_map_iff in Hin. destruct Hin as [x [E Hx]]. apply filter_In in Hx. rewrite <- E. apply in_map; tauto.
Qed.

Theorem svc_refresh_inv : forall s, svc_inv s -> svc_inv (svc_refresh s).
Proof.
  intros s Hs. pose proof Hs as (Hn & Hk & _). unfold svc_refresh, refresh_taken. apply refresh_fold_inv; auto.
  - apply NoDup_map_filter. apply avals_keys_nodup; auto.
  - intros i Hi. apply filter_In in Hi. destruct Hi as [Hi _].
    apply (in_avals_aget ikey_eqd) in Hi; auto. destruct Hi as [k E]. pose proof (Hk k i E). subst. exact E.
Qed.

(** what [update_instance] stores, and how it answers *)
Definition upd_new (s : service) (i0 : inst) (tg : option tag) : inst :=
  match iget (i_key i0) (s_insts s) with
  | Some old =>
      let i1 := if i_ephemeral i0 && negb (i_grpc i0) && i_grpc old
                then set_origin i0 (i_grpc old) (i_cluster old) (i_client old) else i0 in
      fst (fst (fst (merge_tag s old i1 tg)))
  | None => match mget (i_key i0) (s_meta s) with Some pm => set_meta i0 pm | None => i0 end
  end.

Lemma merge_tag_origin : forall s old i1 tg,
  let n := fst (fst (fst (merge_tag s old i1 tg))) in
  i_client n = i_client i1 /\ i_grpc n = i_grpc i1 /\ i_cluster n = i_cluster i1 /\ i_lm n = i_lm i1.
Proof.
  intros. subst n. unfold merge_tag. destruct tg as [t|]; cbn; auto.
  destruct (negb (tag_is_none t)); cbn; auto.
  destruct (negb (t_enabled t)), (negb (t_ephemeral t)), (negb (t_weight t)), (negb (t_metadata t));
    cbn; auto; destruct (t_from_update t); cbn; auto; destruct (mget _ _); cbn; auto.
Qed.

Lemma upd_new_key : forall s i0 tg, i_key (upd_new s i0 tg) = i_key i0.
Proof.
  intros. unfold upd_new. destruct (iget _ _).
  - rewrite merge_tag_key. destruct (_ && _ && _); reflexivity.
  - destruct (mget _ _); reflexivity.
Qed.

Lemma svc_update_get : forall s i0 tg fs ik,
  iget ik (s_insts (fst (fst (fst (svc_update s i0 tg fs))))) =
  if ikey_eqd ik (i_key i0) then Some (upd_new s i0 tg) else iget ik (s_insts s).
Proof.
  intros. unfold svc_update, upd_new. destruct (iget (i_key i0) (s_insts s)) as [old|] eqn:E.
  - destruct (merge_tag s old _ tg) as [[[i2 meta] rt] pc]. cbn [fst snd svc_with_insts s_insts].
    unfold iset, iget. apply aget_aset.
  - cbn [fst snd svc_with_insts s_insts]. unfold iset, iget. apply aget_aset.
Qed.

Lemma upd_new_origin : forall s i0 tg,
  let n := upd_new s i0 tg in
  match iget (i_key i0) (s_insts s) with
  | Some old =>
      if i_ephemeral i0 && negb (i_grpc i0) && i_grpc old
      then i_client n = i_client old /\ i_grpc n = i_grpc old /\ i_cluster n = i_cluster old
      else i_client n = i_client i0 /\ i_grpc n = i_grpc i0 /\ i_cluster n = i_cluster i0
  | None => i_client n = i_client i0 /\ i_grpc n = i_grpc i0 /\ i_cluster n = i_cluster i0
  end.
Proof.
  intros. subst n. unfold upd_new. destruct (iget (i_key i0) (s_insts s)) as [old|].
  - destruct (merge_tag_origin s old (if i_ephemeral i0 && negb (i_grpc i0) && i_grpc old
                then set_origin i0 (i_grpc old) (i_cluster old) (i_client old) else i0) tg) as (A & B & C & _).
    cbn zeta in *. rewrite A, B, C. destruct (_ && _ && _); cbn; auto.
  - destruct (mget _ _); cbn; auto.
Qed.

Lemma svc_update_replace : forall s i0 tg fs,
  snd (fst (svc_update s i0 tg fs)) =
  match iget (i_key i0) (s_insts s) with
  | Some old => if negb (i_client old =? 0) && negb (i_client (upd_new s i0 tg) =? i_client old)
                then Some (i_client old) else None
  | None => None
  end.
Proof.
  intros. unfold svc_update, upd_new. destruct (iget (i_key i0) (s_insts s)) as [old|] eqn:E; auto.
  pose proof (merge_tag_origin s old (if i_ephemeral i0 && negb (i_grpc i0) && i_grpc old
                then set_origin i0 (i_grpc old) (i_cluster old) (i_client old) else i0) tg) as (A & _).
  cbn zeta in A. destruct (merge_tag s old _ tg) as [[[i2 meta] rt] pc]. cbn [fst snd] in *.
  rewrite A. reflexivity.
Qed.

(** [remove_instance]: either nothing happens or exactly the addressed key disappears *)
Lemma svc_remove_spec : forall now s k cl,
  let r := svc_remove now s k cl in
  (snd r = None /\ fst r = s) \/
  (exists old, snd r = Some old /\ iget k (s_insts s) = Some old /\
               (forall ik, iget ik (s_insts (fst r)) = if ikey_eqd ik k then None else iget ik (s_insts s)) /\
               s_meta (fst r) = s_meta s /\ s_hset (fst r) = s_hset s /\ s_uset (fst r) = s_uset s /\
               s_thr (fst r) = s_thr s).
Proof.
  intros. subst r. unfold svc_remove.
  destruct (match cl with Some _ => _ | None => _ end); [left; auto|].
  destruct (iget k (s_insts s)) as [old|] eqn:E; [|left; auto].
  right. exists old. cbn [fst snd s_insts s_meta s_hset s_uset s_thr]. repeat split; auto.
  intros ik. unfold idel, iget. apply aget_adel.
Qed.

Lemma svc_remove_refused : forall now s k c old,
  iget k (s_insts s) = Some old -> i_ephemeral old = true -> c <> 0 -> i_client old <> c ->
  svc_remove now s k (Some c) = (s, None).
Proof.
  intros. unfold svc_remove. rewrite H, H0. cbn [andb].
  destruct (c =? 0) eqn:E1; [apply N.eqb_eq in E1; congruence|].
  destruct (i_client old =? c) eqn:E2; [apply N.eqb_eq in E2; congruence|]. reflexivity.
Qed.

Lemma svc_perpetual_healthy_valid_get : forall s k ik,
  iget ik (s_insts (svc_perpetual_healthy_valid s k)) =
  if ikey_eqd ik k then
    match iget k (s_insts s) with
    | Some i => if negb (i_healthy i) && negb (i_ephemeral i) then Some (set_healthy i true) else Some i
    | None => None
    end
  else iget ik (s_insts s).
Proof.
  intros. unfold svc_perpetual_healthy_valid. destruct (iget k (s_insts s)) as [i|] eqn:E.
  - destruct (negb (i_healthy i) && negb (i_ephemeral i)); cbn [s_insts].
    + unfold iset, iget. apply aget_aset.
    + destruct (ikey_eqd ik k); subst; auto.
  - destruct (ikey_eqd ik k); subst; auto.
Qed.

(** [do_refresh_process_range] stores each taken-over instance again with [from_cluster = 0] *)
Definition taken (i : inst) : bool := negb (i_grpc i) && is_from_cluster i.
Definition localise (i : inst) : inst := set_origin i (i_grpc i) 0 (i_client i).

Lemma refresh_fold_get : forall l s,
  NoDup (map i_key l) -> (forall i, In i l -> iget (i_key i) (s_insts s) = Some i) ->
  forall ik, iget ik (s_insts (fold_left refresh_one l s)) =
             match iget ik (s_insts s) with
             | Some i => if existsb (fun j => i_key j =? ik) l then Some (localise i) else Some i
             | None => None
             end.
Proof.
  induction l as [|i l IH]; intros s Hn Hin ik; cbn [fold_left existsb].
  - destruct (iget ik (s_insts s)); auto.
  - inversion Hn; subst.
    assert (G : forall ik', iget ik' (s_insts (refresh_one s i)) =
                            if ikey_eqd ik' (i_key i) then Some (localise i) else iget ik' (s_insts s)).
    { intros. unfold refresh_one. cbn [s_insts set_origin i_key]. unfold iset, iget. apply aget_aset. }
    rewrite IH; auto.
    + rewrite G. destruct (ikey_eqd ik (i_key i)).
      * subst. rewrite (Hin i); [|cbn; auto]. rewrite N.eqb_refl. cbn [orb].
        assert (X : existsb (fun j => i_key j =? i_key i) l = false).
        { apply not_true_is_false. intros X. apply existsb_exists in X. destruct X as [j [Hj E]].
          apply N.eqb_eq in E. apply H1. rewrite <- E. apply in_map; auto. }
        rewrite X. reflexivity.
      * destruct (i_key i =? ik) eqn:E; [apply N.eqb_eq in E; congruence|]. reflexivity.
    + intros j Hj. rewrite G. destruct (ikey_eqd (i_key j) (i_key i)) as [e|e].
      * exfalso. apply H1. rewrite <- e. apply in_map; auto.
      * apply Hin; cbn; auto.
Qed.

Theorem svc_refresh_get : forall s ik, svc_inv s ->
  iget ik (s_insts (svc_refresh s)) =
  match iget ik (s_insts s) with
  | Some i => if taken i then Some (localise i) else Some i
  | None => None
  end.
Proof.
  intros s ik Hs. pose proof Hs as (Hn & Hk & _). unfold svc_refresh. rewrite refresh_fold_get.
  - destruct (iget ik (s_insts s)) as [i|] eqn:E; auto.
    destruct (existsb _ (refresh_taken s)) eqn:X.
    + apply existsb_exists in X. destruct X as [j [Hj Ej]]. apply N.eqb_eq in Ej.
      unfold refresh_taken in Hj. apply filter_In in Hj. destruct Hj as [Hj Tj].
      apply (in_avals_aget ikey_eqd) in Hj; auto. destruct Hj as [kj Ekj]. pose proof (Hk _ _ Ekj). subst.
      assert (X : Some i = Some j) by (rewrite <- E; exact Ekj). inversion X; subst. unfold taken. rewrite Tj. reflexivity.
    + destruct (taken i) eqn:T; auto. exfalso.
      assert (existsb (fun j => i_key j =? ik) (refresh_taken s) = true); [|congruence].
      apply existsb_exists. exists i. split.
      * unfold refresh_taken. apply filter_In. split; auto. apply (in_avals_aget ikey_eqd); eauto.
      * rewrite (Hk _ _ E). apply N.eqb_refl.
  - unfold refresh_taken. apply NoDup_map_filter. apply avals_keys_nodup; auto.
  - intros i Hi. unfold refresh_taken in Hi. apply filter_In in Hi. destruct Hi as [Hi _].
    apply (in_avals_aget ikey_eqd) in Hi; auto. destruct Hi as [k E]. pose proof (Hk k i E). subst. exact E.
Qed.
