(** C13: the invariant "every healthy instance under the heartbeat clock has its entry
    (last_modified, key) in the healthy time-out set" is preserved by every operation, provided
    cluster-synced updates do not create locally owned instances (the excluded class is the known
    finding C13:sync-into-own-range-unarmed, see Regression.v). *)
From Coq Require Import ZifyBool ZifyNat ZifyN.
From RN Require Import Base.Res Base.AMap Base.AMapProofs Naming.Service Naming.ServiceProofs
  Naming.Timeout Naming.TimeoutProofs Naming.Filter Naming.Actor Naming.IndexProofs Naming.ActorProofs
  Naming.BudgetProofs Naming.OwnershipProofs Naming.ExpiryProofs Naming.Script Naming.ScriptProofs.
Local Open Scope N_scope.
Ltac Zify.zify_post_hook ::= Z.div_mod_to_equations.

Definition armed_all (a : actor) : Prop := forall k s, sget k (a_svcs a) = Some s -> armed s.

Definition armed_rel (s s' : service) : Prop :=
  (forall e, In e (s_hset s) -> In e (s_hset s')) /\
  (forall ik i', iget ik (s_insts s') = Some i' -> is_enable_timeout i' = true -> i_healthy i' = true ->
                 iget ik (s_insts s) = Some i' \/ In (i_lm i', ik) (s_hset s')).

Lemma armed_rel_armed : forall s s', armed s -> armed_rel s s' -> armed s'.
Proof.
  intros s s' A [R1 R2] ik i' E En He. destruct (R2 ik i' E En He) as [X|X]; auto.
Qed.

Lemma armed_rel_refl : forall s, armed_rel s s.
Proof. intros; split; auto. Qed.

Lemma armed_rel_same : forall s s', s_insts s' = s_insts s -> s_hset s' = s_hset s -> armed_rel s s'.
Proof. intros s s' E1 E2. unfold armed_rel. rewrite E1, E2. auto. Qed.

Lemma armed_empty : armed svc_empty.
Proof. intros ik i E. discriminate. Qed.

(** service operations *)
Lemma armed_rel_update : forall s i0 tg fs,
  (fs = false \/ is_enable_timeout (upd_new s i0 tg) = false) ->
  armed_rel s (fst (fst (fst (svc_update s i0 tg fs)))).
Proof.
  intros s i0 tg fs Hc. destruct (svc_update_sets s i0 tg fs) as (Hh & _). cbn zeta in Hh. split.
  - intros e He. rewrite Hh. destruct (_ && _); auto. unfold ts_add. apply in_app_iff. auto.
  - intros ik i'. rewrite svc_update_get. destruct (ikey_eqd ik (i_key i0)); [|auto].
    intros X En He. inversion X; subst i'. right. rewrite Hh. destruct Hc as [->|Hc]; [|congruence].
    rewrite En. cbn [negb andb]. rewrite upd_new_lm. subst ik. unfold ts_add. apply in_app_iff. right. cbn. auto.
Qed.

Lemma armed_rel_remove : forall now s k cl, armed_rel s (fst (svc_remove now s k cl)).
Proof.
  intros. pose proof (svc_remove_spec now s k cl) as Sp. cbn zeta in Sp.
  destruct Sp as [[_ ->] | (old & _ & _ & Hg & _ & Hh & _)]; [apply armed_rel_refl|]. split.
  - rewrite Hh. auto.
  - intros ik i'. rewrite Hg. destruct (ikey_eqd ik k); [discriminate | auto].
Qed.

Lemma armed_rel_healthy_invalid : forall s k, armed_rel s (svc_healthy_invalid s k).
Proof.
  intros. destruct (svc_healthy_invalid_sets s k) as (Hh & _). split; [rewrite Hh; auto|].
  intros ik i'. rewrite svc_healthy_invalid_get. destruct (ikey_eqd ik k); [|auto]. subst.
  destruct (iget k (s_insts s)) as [i|]; [|discriminate].
  destruct (i_healthy i) eqn:H; intros X En He; inversion X; subst; auto. cbn in He. discriminate.
Qed.

Lemma armed_rel_healthy_valid : forall s k, armed_rel s (svc_perpetual_healthy_valid s k).
Proof.
  intros. split.
  - unfold svc_perpetual_healthy_valid. destruct (iget k (s_insts s)); auto. destruct (_ && _); auto.
  - intros ik i'. rewrite svc_perpetual_healthy_valid_get. destruct (ikey_eqd ik k); [|auto]. subst.
    destruct (iget k (s_insts s)) as [i|]; [|discriminate].
    destruct (negb (i_healthy i) && negb (i_ephemeral i)) eqn:B; intros X En He; inversion X; subst; auto.
    apply andb_true_iff in B. destruct B as [_ B]. apply negb_true_iff in B.
    unfold is_enable_timeout in En. cbn in En. rewrite B in En. discriminate.
Qed.

Lemma armed_rel_refresh : forall s, svc_inv s -> armed_rel s (svc_refresh s).
Proof.
  intros s Hs. pose proof Hs as (Hn & Hk & _).
  destruct (refresh_fold_sets (refresh_taken s) s) as (A & _ & C). cbn zeta in *. split; [exact A|].
  intros ik i'. rewrite svc_refresh_get; auto. destruct (iget ik (s_insts s)) as [i|] eqn:E; [|discriminate].
  destruct (taken i) eqn:T; intros X En He; inversion X; subst; auto. right.
  assert (Hin : In i (refresh_taken s)).
  { unfold refresh_taken. apply filter_In. split; [apply (in_avals_aget ikey_eqd); eauto | exact T]. }
  destruct (C i Hin) as [C1 _]. rewrite (Hk ik i E) in C1. exact C1.
Qed.

Lemma filter_neg_in : forall (set : list (N * ikey)) t ik limit, In (t, ik) set -> limit < t -> In (t, ik) (snd (ts_timeout limit set)).
Proof.
  intros. unfold ts_timeout; cbn [snd]. apply filter_In. split; auto. cbn. apply negb_true_iff. apply N.leb_gt. auto.
Qed.

Lemma armed_time_check : forall now s h o, armed s -> armed (fst (fst (svc_time_check now s h o))).
Proof.
  intros now s h o A ik i'. rewrite svc_time_check_get. intros T En He.
  destruct (svc_time_check_sets now s h o) as (Hh & _). cbn zeta in Hh. rewrite Hh.
  destruct (tc_effect_from s h o ik i' T) as (i & E & [-> | ->]); [|cbn in He; discriminate].
  pose proof (A ik i E En He) as Hin.
  destruct (N.le_gt_cases (i_lm i) h) as [L|L]; [|apply filter_neg_in; auto].
  exfalso. destruct (tc_mark s h o ik i E En He Hin L) as [X|X]; rewrite T in X; [discriminate|].
  inversion X as [Y]. assert (Z : i_healthy i = i_healthy (set_healthy i false)) by congruence. cbn in Z. congruence.
Qed.

(** actor level *)
Lemma armed_all_sset : forall a a' k s', armed_all a -> armed s' -> a_svcs a' = sset k s' (a_svcs a) -> armed_all a'.
Proof.
  intros a a' k s' A As Ea k' s. rewrite Ea. unfold sset, sget. rewrite aget_aset.
  destruct (skey_eqd k' k); [intros X; inversion X; subst; auto | apply A].
Qed.

Lemma armed_all_map : forall a a' (f : skey -> service -> service),
  armed_all a -> (forall k s, sget k (a_svcs a) = Some s -> armed s -> armed (f k s)) ->
  a_svcs a' = map (fun e => (fst e, f (fst e) (snd e))) (a_svcs a) -> armed_all a'.
Proof.
  intros a a' f A Hf Ea k s'. rewrite Ea. unfold sget. rewrite aget_map_vals.
  destruct (aget skey_eqd k (a_svcs a)) as [s|] eqn:E; [|discriminate]. cbn. intros X; inversion X; subst.
  apply Hf; auto. apply (A k s E).
Qed.

Lemma armed_all_ext : forall a a', a_svcs a' = a_svcs a -> armed_all a -> armed_all a'.
Proof. unfold armed_all. intros a a' ->. auto. Qed.

Lemma armed_create : forall c a k, armed_all a -> armed_all (create_empty_service c a k).
Proof.
  intros c a k A. unfold create_empty_service. destruct (sget k (a_svcs a)); auto.
  eapply armed_all_sset; [exact A | apply armed_empty | reflexivity].
Qed.

Lemma armed_update_service : forall c a k thr, armed_all a -> armed_all (update_service c a k thr).
Proof.
  intros c a k thr A. unfold update_service. destruct (sget k (a_svcs a)) as [s|] eqn:E.
  - destruct thr; auto. eapply armed_all_sset; [exact A | | reflexivity].
    eapply armed_rel_armed; [apply (A k s E) | apply armed_rel_same; reflexivity].
  - eapply armed_all_sset; [exact A | | reflexivity]. destruct thr; intros ik i X; discriminate.
Qed.

Lemma armed_remove_instance : forall c a k ik cl, armed_all a -> armed_all (fst (fst (remove_instance c a k ik cl))).
Proof.
  intros c a k ik cl A. destruct (sget k (a_svcs a)) as [s|] eqn:E.
  - destruct (remove_instance_parts c a k ik cl s E) as (Ea & _). cbn zeta in Ea.
    eapply armed_all_sset; [exact A | | exact Ea]. eapply armed_rel_armed; [apply (A k s E) | apply armed_rel_remove].
  - unfold remove_instance. rewrite E. exact A.
Qed.

Lemma armed_remove_keys : forall c cl keys a, armed_all a -> armed_all (remove_keys c a cl keys).
Proof.
  induction keys as [|[k ik] ks IH]; intros a A; cbn [remove_keys]; auto.
  destruct (stored a k ik) as [i|]; [destruct (negb (i_ephemeral i))|]; apply IH; auto; apply armed_remove_instance; auto.
Qed.

Lemma armed_remove_client : forall c a cl, armed_all a -> armed_all (remove_client_instance c a cl).
Proof.
  intros c a cl A. unfold remove_client_instance. destruct (cget cl (a_clients a)); auto.
  apply armed_remove_keys. eapply armed_all_ext; [|exact A]. reflexivity.
Qed.

(** which origins a cluster-synced update may have without creating a locally owned instance *)
Definition in_range (hashf : skey -> N) (r : option (N * N)) (k : skey) : bool :=
  match r with Some r => is_range r (hashf k) | None => false end.

Definition sync_inst_ok (hashf : skey -> N) (r : option (N * N)) (k : skey) (i : inst) : Prop :=
  i_grpc i = true \/ (i_cluster i <> 0 /\ in_range hashf r k = false).

Lemma sync_not_enabled : forall hashf a k i0 tg s,
  sync_inst_ok hashf (a_range a) k i0 -> is_enable_timeout (upd_new s (upd_in hashf a k i0) tg) = false.
Proof.
  intros hashf a k i0 tg s Ok. set (i2 := upd_in hashf a k i0).
  assert (O2 : i_grpc i2 = true \/ i_cluster i2 <> 0).
  { subst i2. unfold upd_in. fold (in_range hashf (a_range a) k). cbn [set_lm i_grpc].
    destruct Ok as [G|[C R]].
    - rewrite G. rewrite andb_false_r. cbn. auto.
    - rewrite R. cbn. auto. }
  pose proof (upd_new_origin s i2 tg) as Ho. cbn zeta in Ho.
  assert (On : i_grpc (upd_new s i2 tg) = true \/ i_cluster (upd_new s i2 tg) <> 0).
  { destruct (iget (i_key i2) (s_insts s)) as [old|].
    - destruct (i_ephemeral i2 && negb (i_grpc i2) && i_grpc old) eqn:B.
      + apply andb_true_iff in B. destruct B as [_ B]. destruct Ho as (_ & G & _). left. congruence.
      + destruct Ho as (_ & G & C). destruct O2; [left | right]; congruence.
    - destruct Ho as (_ & G & C). destruct O2; [left | right]; congruence. }
  unfold is_enable_timeout, is_from_cluster. destruct On as [G|C].
  - rewrite G. cbn. rewrite andb_false_r. reflexivity.
  - apply N.eqb_neq in C. rewrite C. cbn. rewrite andb_false_r. reflexivity.
Qed.

Lemma armed_update_instance : forall c hashf a k i0 tg fs,
  (fs = false \/ sync_inst_ok hashf (a_range a) k i0 \/ (tg = None /\ i_ephemeral i0 = false)) ->
  armed_all a -> armed_all (fst (update_instance c hashf a k i0 tg fs)).
Proof.
  intros c hashf a k i0 tg fs Hc A.
  pose proof (create_empty_service_has c a k) as Has.
  destruct (sget k (a_svcs (create_empty_service c a k))) as [s|] eqn:E; [|congruence].
  destruct (update_instance_parts c hashf a k i0 tg fs s E) as (Ea & _). cbn zeta in Ea.
  pose proof (armed_create c a k A) as A1.
  eapply armed_all_sset; [exact A1 | | exact Ea].
  eapply armed_rel_armed; [apply (A1 k s E) | apply armed_rel_update].
  destruct Hc as [->|[Ok|[-> He]]]; auto; right.
  - apply sync_not_enabled; auto.
  - assert (X : i_ephemeral (upd_new s (upd_in hashf a k i0) None) = false).
    { assert (E2 : i_ephemeral (upd_in hashf a k i0) = false) by (unfold upd_in; destruct (_ && _); cbn; auto).
      unfold upd_new. destruct (iget _ _).
      - rewrite E2. cbn. exact E2.
      - destruct (mget _ _); cbn; auto. }
    unfold is_enable_timeout. rewrite X. reflexivity.
Qed.

Definition sync_ok (hashf : skey -> N) (a : actor) (o : op) : Prop :=
  match o with
  | OpUpdate k i _ true => sync_inst_ok hashf (a_range a) k i
  | OpBatch l => Forall (fun e => sync_inst_ok hashf (a_range a) (fst e) (snd e)) l
  | OpSnapshot _ insts => Forall (fun e => sync_inst_ok hashf (a_range a) (fst e) (snd e)) insts
  | _ => True
  end.

Lemma update_instance_range : forall c hashf a k i tg fs, a_range (fst (update_instance c hashf a k i tg fs)) = a_range a.
Proof.
  intros. pose proof (create_empty_service_has c a k) as Has.
  destruct (sget k (a_svcs (create_empty_service c a k))) as [s|] eqn:E; [|congruence].
  destruct (update_instance_parts c hashf a k i tg fs s E) as (_ & _ & _ & R & _). exact R.
Qed.

Lemma armed_batch : forall c hashf l a,
  Forall (fun e => sync_inst_ok hashf (a_range a) (fst e) (snd e)) l -> armed_all a -> armed_all (batch_update c hashf a l).
Proof.
  unfold batch_update. induction l as [|e l IH]; intros a F A; cbn [fold_left]; auto.
  inversion F; subst. apply IH.
  - rewrite update_instance_range. auto.
  - apply armed_update_instance; auto.
Qed.

Lemma update_service_range : forall c a k thr, a_range (update_service c a k thr) = a_range a.
Proof. intros. unfold update_service. destruct (sget k (a_svcs a)); [destruct thr|]; reflexivity. Qed.

Theorem armed_step : forall c hashf a o,
  op_wf o -> sync_ok hashf a o -> Inv a -> armed_all a -> armed_all (fst (step c hashf a o)).
Proof.
  intros c hashf a o W Ok H A. destruct o; cbn [step fst sync_ok op_wf] in *.
  - apply armed_update_instance; auto. destruct from_sync; auto.
  - apply armed_batch; auto.
  - apply armed_remove_instance; auto.
  - apply fold_left_inv; auto. intros acc e Hacc. apply armed_remove_instance; auto.
  - apply armed_remove_client; auto.
  - apply fold_left_inv; auto. intros acc e Hacc. apply armed_remove_client; auto.
  - eapply armed_all_ext; [|exact A]. reflexivity.
  - eapply armed_all_map with (f := fun _ s => fst (fst (tc_svc c (a_now a) s))); [exact A | | reflexivity].
    intros k s _ As. apply armed_time_check; auto.
  - unfold clear_empty_service. destruct (ts_timeout (a_now a) (a_empty a)) as [keys rest].
    apply fold_left_inv; [|eapply armed_all_ext; [|exact A]; reflexivity].
    intros acc k Hacc k' s'. unfold clear_one_empty_service. destruct (sget k (a_svcs acc)) as [s|]; [|apply Hacc].
    destruct (_ && _); [|apply Hacc]. cbn [a_svcs]. unfold sdelete, sget. rewrite aget_adel.
    destruct (skey_eqd k' k); [discriminate | apply Hacc].
  - unfold clear_timeout_instance_metadata. destruct (ts_timeout (a_now a) (a_metaset a)) as [keys rest].
    apply fold_left_inv; [|eapply armed_all_ext; [|exact A]; reflexivity].
    intros acc [k ik] Hacc. unfold clear_one_meta. destruct (sget k (a_svcs acc)) as [s|] eqn:E; auto.
    destruct (iget ik (s_insts s)); auto.
    eapply armed_all_sset; [exact Hacc | | reflexivity].
    eapply armed_rel_armed; [apply (Hacc k s E) | apply armed_rel_same; reflexivity].
  - unfold remove_empty_service. destruct (sget k (a_svcs a)) as [s|]; auto. destruct (s_size s <=? 0)%Z; auto. cbn [fst].
    intros k' s'. unfold clear_one_empty_service. destruct (sget k (a_svcs a)) as [s0|]; [|apply A].
    destruct (_ && _); [|apply A]. cbn [a_svcs]. unfold sdelete, sget. rewrite aget_adel.
    destruct (skey_eqd k' k); [discriminate | apply A].
  - apply armed_update_service; auto.
  - eapply armed_all_map with (f := fun k s => if is_range (idx, len) (hashf k) then svc_refresh s else s); [exact A | | reflexivity].
    intros k s E As. destruct (is_range _ _); auto.
    eapply armed_rel_armed; [exact As | apply armed_rel_refresh]. apply (proj2 (proj1 H) k s E).
  - unfold update_perpetual_health. apply fold_left_inv; auto. intros acc k Hacc.
    destruct (sget k (a_svcs acc)) as [s|] eqn:E; auto.
    eapply armed_all_sset; [exact Hacc | | reflexivity].
    eapply armed_rel_armed; [apply (Hacc k s E)|]. destruct ok; [apply armed_rel_healthy_valid | apply armed_rel_healthy_invalid].
  - destruct (negb (i_ephemeral i)) eqn:B; cbn [fst]; auto. apply armed_update_instance; auto.
    right; right. split; auto. cbn. apply negb_true_iff in B. auto.
  - apply armed_remove_instance; auto.
  - unfold diff_grpc_distro_client_data. destruct (diff_scan a data) as [rm nw]. cbn [fst].
    apply fold_left_inv; auto. intros acc fk Hacc. apply armed_remove_instance; auto.
  - set (a1 := fold_left (fun acc e => update_service c acc (fst e) (snd e)) svcs a).
    assert (A1 : armed_all a1 /\ a_range a1 = a_range a /\ Inv a1).
    { subst a1. clear Ok. revert a H A. induction svcs as [|e l IH]; intros a H A; cbn [fold_left]; auto.
      destruct (IH (update_service c a (fst e) (snd e))) as (X & Y & Z).
      - apply update_service_inv; auto.
      - apply armed_update_service; auto.
      - split; auto. split; auto. rewrite Y. apply update_service_range. }
    destruct A1 as (A1 & R1 & H1).
    assert (A2 : armed_all (batch_update c hashf a1 insts)) by (apply armed_batch; auto; rewrite R1; auto).
    assert (H2 : Inv (batch_update c hashf a1 insts)) by (apply batch_update_inv; auto).
    destruct (a_range (batch_update c hashf a1 insts)) as [r|]; auto.
    eapply armed_all_map with (f := fun k s => if is_range r (hashf k) then svc_refresh s else s); [exact A2 | | reflexivity].
    intros k s E As. destruct (is_range _ _); auto.
    eapply armed_rel_armed; [exact As | apply armed_rel_refresh]. apply (proj2 (proj1 H2) k s E).
  - exact A.
  - destruct (get_service_info a k healthy_only). exact A.
  - exact A.
  - exact A.
  - destruct (get_service_info_page a ns). exact A.
  - exact A.
  - exact A.
  - eapply armed_all_map with (f := fun k s => if kvis k (BudgetProofs.visited c n order a) then fst (fst (tc_svc c (a_now a) s)) else s);
      [exact A | | reflexivity].
    intros k s _ As. destruct (kvis _ _); auto. apply armed_time_check; auto.
Qed.

(** histories in which every cluster-synced update satisfies [sync_ok] in the state it meets *)
Fixpoint sync_ok_trace (c : cfg) (hashf : skey -> N) (a : actor) (ops : list op) : Prop :=
  match ops with
  | [] => True
  | o :: r => sync_ok hashf a o /\ sync_ok_trace c hashf (fst (step c hashf a o)) r
  end.

Theorem armed_reachable : forall c hashf ops t0,
  Forall op_wf ops -> sync_ok_trace c hashf (actor_init t0) ops ->
  armed_all (run_all c hashf (actor_init t0) ops).
Proof.
  intros c hashf ops t0 W. unfold run_all.
  assert (G : forall a, Inv a -> armed_all a -> sync_ok_trace c hashf a ops ->
                        armed_all (fold_left (fun acc o => fst (step c hashf acc o)) ops a)).
  { induction W as [|o ops Ho W IH]; intros a Ha Aa S; cbn [fold_left]; auto.
    destruct S as [S1 S2]. apply IH; auto.
    - apply Inv_step; auto.
    - apply armed_step; auto. }
  apply G; [apply Inv_init|].
  intros k s E. discriminate.
Qed.

Lemma armed_entry : forall a k ik i,
  armed_all a -> stored a k ik = Some i -> is_enable_timeout i = true -> i_healthy i = true ->
  In (i_lm i, ik) (hset_of a k).
Proof.
  intros a k ik i A St En He. unfold stored, hset_of in *. destruct (sget k (a_svcs a)) as [s|] eqn:E; [|discriminate].
  apply (A k s E ik i); auto.
Qed.

(** the hypotheses are satisfiable: a state with a healthy HTTP instance, a gRPC one and a
    persistent one in which the invariant holds and the clock will act *)
Example armed_nontrivial :
  let c := mkCfg 300 600 1000 2000 in
  let ops := [OpUpdate (1,1,1) (mkInst 0 1 true true true 0 0 false 0 0) (Some (mkTag true true true true false)) false;
              OpUpdate (1,1,1) (mkInst 1 1 true true true 0 0 true 0 1) None false;
              OpUpdate (1,1,1) (mkInst 2 1 true true false 0 0 false 0 0) None false; OpTick 100] in
  let a := run_all c (fun _ => 0) (actor_init 1000000) ops in
  hset_of a (1,1,1) = [(1000000, 0)] /\
  option_map is_enable_timeout (stored a (1,1,1) 0) = Some true /\
  option_map is_enable_timeout (stored a (1,1,1) 1) = Some false /\
  option_map is_enable_timeout (stored a (1,1,1) 2) = Some false.
Proof. vm_compute. repeat split; reflexivity. Qed.
