(** Models of the code BEFORE the two repairs, with the refuted statements and their concrete
    witnesses (replayed on the real code by the checks: with the repairs in place the witnesses
    must behave as the repaired model says; if a defect returns, the correspondence breaks and the
    oracle finds these inputs again). *)
From RN Require Import Base.Res Base.AMap Naming.Service Naming.Filter Naming.Actor Naming.Script.
Local Open Scope N_scope.

(** [remove_client_instance] before "fix: RemoveClient must not remove persistent instances" *)
Fixpoint remove_keys_old (c : cfg) (a : actor) (cl : N) (keys : list fkey) : actor :=
  match keys with
  | [] => a
  | (k, ik) :: ks => remove_keys_old c (fst (fst (remove_instance c a k ik (Some cl)))) cl ks
  end.

Definition remove_client_instance_old (c : cfg) (a : actor) (cl : N) : actor :=
  match cget cl (a_clients a) with
  | Some keys => remove_keys_old c (with_clients a (cdel cl (a_clients a))) cl keys
  | None => a
  end.

Definition cfg0 := mkCfg 300 600 1000 2000.
Definition persistent_over_grpc : list op :=
  [OpUpdate (1,1,1) (mkInst 0 1 true true false 0 0 true 0 1) (Some (mkTag false true false false false)) false;
   OpUpdate (1,1,1) (mkInst 1 1 true true true 0 0 true 0 1) (Some (mkTag false true false false false)) false].

(** the old code removed a persistent instance when the connection that registered it closed *)
Lemma disconnect_removes_persistent_refuted :
  exists a k ik i, a = run_all cfg0 (fun _ => 0) (actor_init 1000000) persistent_over_grpc /\
                   stored a k ik = Some i /\ i_ephemeral i = false /\
                   stored (remove_client_instance_old cfg0 a 1) k ik = None.
Proof.
  exists (run_all cfg0 (fun _ => 0) (actor_init 1000000) persistent_over_grpc), (1,1,1), 0.
  eexists. split; [reflexivity|]. vm_compute. repeat split; reflexivity.
Qed.

(** the repaired code keeps it (and still removes the ephemeral one) *)
Lemma disconnect_keeps_persistent_witness :
  let a := run_all cfg0 (fun _ => 0) (actor_init 1000000) persistent_over_grpc in
  option_map i_ephemeral (stored (remove_client_instance cfg0 a 1) (1,1,1) 0) = Some false /\
  stored (remove_client_instance cfg0 a 1) (1,1,1) 1 = None.
Proof. vm_compute. split; reflexivity. Qed.

(** [do_refresh_process_range] before "fix: instances taken over become locally owned" *)
Definition svc_refresh_old (s : service) : service :=
  mkSvc (s_insts s) (s_size s) (s_hsize s) (s_perp s) (s_meta s)
        (s_hset s ++ map (fun i => (i_lm i, i_key i)) (refresh_taken s)) (s_uset s) (s_thr s) (s_last_empty s).

Definition refresh_process_range_old (hashf : skey -> N) (a : actor) (r : N * N) : actor :=
  mkActor (map (fun e => (fst e, if is_range r (hashf (fst e)) then svc_refresh_old (snd e) else snd e)) (a_svcs a))
          (a_clients a) (a_index a) (a_empty a) (a_metaset a) (Some r) (a_now a).

Definition synced_from_node_2 : list op :=
  [OpUpdate (1,1,1) (mkInst 0 1 true true true 0 0 false 2 0) None false].

Definition silence : list op := [OpTick 400; OpTimeCheck; OpTick 400; OpTimeCheck; OpTick 800; OpTimeCheck].

(** the old take-over re-armed the time-out set but left [from_cluster] set, so [time_check]
    skipped the instance forever: after 1.6 s of silence (time-outs 300/600 ms) it is still there
    and healthy *)
Lemma refresh_rearms_refuted :
  exists a, a = refresh_process_range_old (fun _ => 0) (run_all cfg0 (fun _ => 0) (actor_init 1000000) synced_from_node_2) (0, 1) /\
            option_map i_healthy (stored (run_all cfg0 (fun _ => 0) a silence) (1,1,1) 0) = Some true.
Proof. eexists. split; [reflexivity|]. vm_compute. reflexivity. Qed.

(** with the repair the same history expires it *)
Lemma refresh_rearms_witness :
  let a := refresh_process_range (fun _ => 0) (run_all cfg0 (fun _ => 0) (actor_init 1000000) synced_from_node_2) (0, 1) in
  stored (run_all cfg0 (fun _ => 0) a silence) (1,1,1) 0 = None.
Proof. vm_compute. reflexivity. Qed.

(** KNOWN FINDING (not repaired, key C13:sync-into-own-range-unarmed): an instance that arrives by
    a cluster-sync path ([from_sync = true]: UpdateFromSync, UpdateBatch, ReceiveSnapshot) for a
    service in this node's own range is stored as locally owned ([from_cluster] is cleared) but is
    not put into the healthy time-out set, so it never expires unless a heartbeat arrives *)
Definition snapshot_into_own_range : list op :=
  [OpRange 0 1; OpSnapshot [((1,1,1), None)] [((1,1,1), mkInst 0 1 true true true 0 0 false 2 0)]].

Lemma sync_into_own_range_unarmed_refuted :
  exists ops, ops = snapshot_into_own_range ++ silence /\
              option_map (fun i => (is_enable_timeout i, i_healthy i))
                         (stored (run_all cfg0 (fun _ => 0) (actor_init 1000000) ops) (1,1,1) 0) = Some (true, true).
Proof. eexists. split; [reflexivity|]. vm_compute. reflexivity. Qed.
