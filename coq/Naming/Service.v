(** Model of [src/naming/service.rs] (struct [Service]) and the [Instance] flags of
    [src/naming/model.rs]: literal transcription, including the incrementally maintained
    counters.  Definitions only.

    Abstractions: an instance short key (ip, port) is one [N]; client ids are [N] with 0 = "" ;
    metadata maps are [N] with 0 = empty; weights are [N] (f32 values that are small integers);
    times are [N] milliseconds (the i64/u64 casts are lossless for now >= the time-outs);
    [meta_manager_addr] is [None] (no InstanceMetaManager actor is wired in the harness). *)
From RN Require Import Base.Res Base.AMap.
Local Open Scope N_scope.

Definition ikey := N.
Definition ikey_eqd := N.eq_dec.

Record inst := mkInst {
  i_key : ikey;
  i_weight : N;
  i_enabled : bool;
  i_healthy : bool;
  i_ephemeral : bool;
  i_meta : N;
  i_lm : N;            (* last_modified_millis *)
  i_grpc : bool;       (* from_grpc *)
  i_cluster : N;       (* from_cluster, 0 = this node *)
  i_client : N         (* client_id, 0 = "" *)
}.

Definition set_weight (i : inst) (w : N) : inst :=
  mkInst (i_key i) w (i_enabled i) (i_healthy i) (i_ephemeral i) (i_meta i) (i_lm i) (i_grpc i) (i_cluster i) (i_client i).
Definition set_enabled (i : inst) (b : bool) : inst :=
  mkInst (i_key i) (i_weight i) b (i_healthy i) (i_ephemeral i) (i_meta i) (i_lm i) (i_grpc i) (i_cluster i) (i_client i).
Definition set_healthy (i : inst) (b : bool) : inst :=
  mkInst (i_key i) (i_weight i) (i_enabled i) b (i_ephemeral i) (i_meta i) (i_lm i) (i_grpc i) (i_cluster i) (i_client i).
Definition set_ephemeral (i : inst) (b : bool) : inst :=
  mkInst (i_key i) (i_weight i) (i_enabled i) (i_healthy i) b (i_meta i) (i_lm i) (i_grpc i) (i_cluster i) (i_client i).
Definition set_meta (i : inst) (m : N) : inst :=
  mkInst (i_key i) (i_weight i) (i_enabled i) (i_healthy i) (i_ephemeral i) m (i_lm i) (i_grpc i) (i_cluster i) (i_client i).
Definition set_lm (i : inst) (t : N) : inst :=
  mkInst (i_key i) (i_weight i) (i_enabled i) (i_healthy i) (i_ephemeral i) (i_meta i) t (i_grpc i) (i_cluster i) (i_client i).
Definition set_origin (i : inst) (g : bool) (cluster client : N) : inst :=
  mkInst (i_key i) (i_weight i) (i_enabled i) (i_healthy i) (i_ephemeral i) (i_meta i) (i_lm i) g cluster client.

(** model.rs:43-50 *)
Definition is_from_cluster (i : inst) : bool := negb (i_cluster i =? 0).
Definition is_enable_timeout (i : inst) : bool :=
  i_ephemeral i && negb (i_grpc i) && negb (is_from_cluster i).

Record tag := mkTag {
  t_weight : bool; t_metadata : bool; t_enabled : bool; t_ephemeral : bool; t_from_update : bool }.
Definition tag_is_none (t : tag) : bool :=
  negb (t_weight t) && negb (t_metadata t) && negb (t_enabled t) && negb (t_ephemeral t).

Inductive utype := UNone | UNew | URemove | UUpdateTime | UUpdateValue.
Inductive ptype := PNone | PNew | PUpdate | PRemove.

Record service := mkSvc {
  s_insts : list (ikey * inst);        (* instances *)
  s_size : Z;                          (* instance_size : i64 *)
  s_hsize : Z;                         (* healthy_instance_size : i64 *)
  s_perp : list ikey;                  (* perpetual_host_set *)
  s_meta : list (ikey * N);            (* instance_metadata_map (console-set priority metadata) *)
  s_hset : list (N * ikey);            (* healthy_timeout_set *)
  s_uset : list (N * ikey);            (* unhealthy_timeout_set *)
  s_thr : N * N;                       (* protect_threshold as a rational num/den *)
  s_last_empty : N                     (* last_empty_times *)
}.

Definition svc_empty : service := mkSvc [] 0%Z 0%Z [] [] [] [] (0, 4) 0.

Definition svc_with_insts (s : service) insts size hsize perp meta hset : service :=
  mkSvc insts size hsize perp meta hset (s_uset s) (s_thr s) (s_last_empty s).

Definition iget := @aget ikey inst ikey_eqd.
Definition iset := @aset ikey inst ikey_eqd.
Definition idel := @adel ikey inst ikey_eqd.
Definition mget := @aget ikey N ikey_eqd.
Definition mset := @aset ikey N ikey_eqd.
Definition mdel := @adel ikey N ikey_eqd.
Definition kmem := @smem ikey ikey_eqd.
Definition kadd := @sadd ikey ikey_eqd.
Definition kdel := @sdel ikey ikey_eqd.

(** the part of [Service::update_instance] that merges the incoming record with the stored one
    under the update tag (service.rs:126-172); returns the merged instance, the priority
    metadata map, the update type and [perpetual_changed] *)
Definition merge_tag (s : service) (old i1 : inst) (tg : option tag) : inst * list (ikey * N) * utype * bool :=
  let key := i_key i1 in
  match tg with
  | None => (i1, s_meta s, UUpdateValue, false)
  | Some t =>
      if negb (tag_is_none t) then
        let ia := if negb (t_enabled t) then set_enabled i1 (i_enabled old) else i1 in
        let pc1 := if negb (t_enabled t) then false else negb (Bool.eqb (i_enabled old) (i_enabled i1)) in
        let ib := if negb (t_ephemeral t) then set_ephemeral ia (i_ephemeral old) else ia in
        let ic := if negb (t_weight t) then set_weight ib (i_weight old) else ib in
        let pc2 := if negb (t_weight t) then pc1 else pc1 || negb (i_weight old =? i_weight ib) in
        if negb (t_metadata t) then (set_meta ic (i_meta old), s_meta s, UUpdateValue, pc2)
        else if t_from_update t then (ic, mset key (i_meta ic) (s_meta s), UUpdateValue, true)
        else match mget key (s_meta s) with
             | Some pm => (set_meta ic pm, s_meta s, UUpdateValue, pc2)
             | None => (ic, s_meta s, UUpdateValue, pc2)
             end
      else
        (set_meta (set_weight (set_ephemeral (set_enabled i1 (i_enabled old)) (i_ephemeral old)) (i_weight old)) (i_meta old),
         s_meta s, UUpdateTime, false)
  end.

(** [Service::update_instance] (service.rs:75-233); the caller has already stamped
    [last_modified_millis] *)
Definition svc_update (s : service) (i0 : inst) (tg : option tag) (from_sync : bool)
  : service * utype * option N * ptype :=
  let key := i_key i0 in
  match iget key (s_insts s) with
  | Some old =>
      let i1 := if i_ephemeral i0 && negb (i_grpc i0) && i_grpc old
                then set_origin i0 (i_grpc old) (i_cluster old) (i_client old) else i0 in
      let replace_old := if negb (i_client old =? 0) && negb (i_client i1 =? i_client old)
                         then Some (i_client old) else None in
      let hsize := if negb (i_healthy old) && i_healthy i1 then (s_hsize s + 1)%Z
                   else if i_healthy old && negb (i_healthy i1) then (s_hsize s - 1)%Z
                   else s_hsize s in
      let '(i2, meta, rtype, pchanged) := merge_tag s old i1 tg in
      let mark_add := negb (i_ephemeral i2) && i_ephemeral old in
      let mark_remove := i_ephemeral i2 && negb (i_ephemeral old) in
      let hset := if is_enable_timeout i2 && negb from_sync then ts_add (i_lm i2) key (s_hset s) else s_hset s in
      let p0 := if negb (i_ephemeral i2) && pchanged then PUpdate else PNone in
      let perp := if mark_add then kadd key (s_perp s) else if mark_remove then kdel key (s_perp s) else s_perp s in
      let p1 := if mark_add then PNew else if mark_remove then PRemove else p0 in
      (svc_with_insts s (iset key i2 (s_insts s)) (s_size s) hsize perp meta hset, rtype, replace_old, p1)
  | None =>
      let i2 := match mget key (s_meta s) with Some pm => set_meta i0 pm | None => i0 end in
      let mark_add := negb (i_ephemeral i2) in
      let hsize := if i_healthy i2 then (s_hsize s + 1)%Z else s_hsize s in
      let hset := if is_enable_timeout i2 && negb from_sync then ts_add (i_lm i2) key (s_hset s) else s_hset s in
      let perp := if mark_add then kadd key (s_perp s) else s_perp s in
      let p1 := if mark_add then PNew else PNone in
      (svc_with_insts s (iset key i2 (s_insts s)) (s_size s + 1)%Z hsize perp (s_meta s) hset, UNew, None, p1)
  end.

(** [Service::remove_instance] (service.rs:313-351); [now] is [now_millis()] *)
Definition svc_remove (now : N) (s : service) (k : ikey) (cl : option N) : service * option inst :=
  let refused :=
    match cl, iget k (s_insts s) with
    | Some c, Some old => i_ephemeral old && negb (c =? 0) && negb (i_client old =? c)
    | _, _ => false
    end in
  if refused then (s, None) else
  match iget k (s_insts s) with
  | Some old =>
      let perp := if negb (i_ephemeral old) then kdel k (s_perp s) else s_perp s in
      let size := (s_size s - 1)%Z in
      let le := if (size =? 0)%Z then now else s_last_empty s in
      let hsize := if i_healthy old then (s_hsize s - 1)%Z else s_hsize s in
      (mkSvc (idel k (s_insts s)) size hsize perp (s_meta s) (s_hset s) (s_uset s) (s_thr s) le, Some old)
  | None => (s, None)
  end.

(** [Service::update_instance_healthy_invalid] (service.rs:353-367) *)
Definition svc_healthy_invalid (s : service) (k : ikey) : service :=
  match iget k (s_insts s) with
  | Some i =>
      if i_healthy i then
        mkSvc (iset k (set_healthy i false) (s_insts s)) (s_size s) (s_hsize s - 1)%Z (s_perp s) (s_meta s)
              (s_hset s) (ts_add (i_lm i) k (s_uset s)) (s_thr s) (s_last_empty s)
      else s
  | None => s
  end.

(** [Service::update_perpetual_instance_healthy_valid] (service.rs:369-384) *)
Definition svc_perpetual_healthy_valid (s : service) (k : ikey) : service :=
  match iget k (s_insts s) with
  | Some i =>
      if negb (i_healthy i) && negb (i_ephemeral i) then
        mkSvc (iset k (set_healthy i true) (s_insts s)) (s_size s) (s_hsize s + 1)%Z (s_perp s) (s_meta s)
              (s_hset s) (s_uset s) (s_thr s) (s_last_empty s)
      else s
  | None => s
  end.

(** [Service::time_check] (service.rs:279-311) *)
Definition tc_skip (s : service) (k : ikey) (limit : N) : bool :=
  match iget k (s_insts s) with
  | Some i => negb (is_enable_timeout i) || (limit <? i_lm i)
  | None => false
  end.

Fixpoint tc_remove_loop (now offline : N) (s : service) (keys : list ikey) (acc : list ikey) : service * list ikey :=
  match keys with
  | [] => (s, acc)
  | k :: ks =>
      if tc_skip s k offline then tc_remove_loop now offline s ks acc
      else tc_remove_loop now offline (fst (svc_remove now s k None)) ks (acc ++ [k])
  end.

Fixpoint tc_update_loop (healthy : N) (s : service) (keys : list ikey) (acc : list ikey) : service * list ikey :=
  match keys with
  | [] => (s, acc)
  | k :: ks =>
      if tc_skip s k healthy then tc_update_loop healthy s ks acc
      else tc_update_loop healthy (svc_healthy_invalid s k) ks (acc ++ [k])
  end.

Definition svc_time_check (now : N) (s : service) (healthy_time offline_time : N)
  : service * list ikey * list ikey :=
  let '(ukeys, uset) := ts_timeout offline_time (s_uset s) in
  let s1 := mkSvc (s_insts s) (s_size s) (s_hsize s) (s_perp s) (s_meta s) (s_hset s) uset (s_thr s) (s_last_empty s) in
  let '(s2, rlist) := tc_remove_loop now offline_time s1 ukeys [] in
  let '(hkeys, hset) := ts_timeout healthy_time (s_hset s2) in
  let s3 := mkSvc (s_insts s2) (s_size s2) (s_hsize s2) (s_perp s2) (s_meta s2) hset (s_uset s2) (s_thr s2) (s_last_empty s2) in
  let '(s4, ulist) := tc_update_loop healthy_time s3 hkeys [] in
  (s4, rlist, ulist).

(** [Service::do_refresh_process_range] (service.rs:256-288, after the repair "instances taken
    over become locally owned"): the taken-over instances are collected first, then each one is
    re-armed and stored again with [from_cluster = 0] *)
Definition refresh_taken (s : service) : list inst :=
  filter (fun i => negb (i_grpc i) && is_from_cluster i) (avals (s_insts s)).

Definition refresh_one (s : service) (i : inst) : service :=
  let local := set_origin i (i_grpc i) 0 (i_client i) in
  mkSvc (iset (i_key local) local (s_insts s)) (s_size s) (s_hsize s) (s_perp s) (s_meta s)
        (ts_add (i_lm i) (i_key i) (s_hset s))
        (if negb (i_healthy local) then ts_add (i_lm local) (i_key local) (s_uset s) else s_uset s)
        (s_thr s) (s_last_empty s).

Definition svc_refresh (s : service) : service := fold_left refresh_one (refresh_taken s) s.

(** [Service::get_all_instances] (service.rs:390-401) *)
Definition svc_all_instances (s : service) (only_healthy only_enable : bool) : list inst :=
  filter (fun x => (i_enabled x || negb only_enable) && (i_healthy x || negb only_healthy)) (avals (s_insts s)).
