(** HTTP (ephemeral) instances in the cluster — extension of the model of Naming/Sync.v (C15),
    on top of the distro ownership model of Naming/Distro.v (C14):

      src/naming/cluster/route.rs    NamingRoute::update_instance / delete_instance / do_route_instance
      src/naming/core.rs             update_instance (at_process_range: from_cluster := 0), remove_instance,
                                     do_notify -> ClusterInstanceDelayNotifyActor, time_check (owner only)
      src/naming/cluster/mod.rs      SyncBatchInstances (DeleteBatch then UpdateBatch), Snapshot

    An HTTP instance has an EMPTY client id and [from_grpc = false]; the write is handed to the node
    [route_addr] designates (C14: the one live node that considers itself the owner), which stores it with
    [from_cluster = 0], arms the heart-beat time-out and announces it through the delay actor; the entry
    node stores a copy attributed to the owner at once; every other node gets the copy with the next
    batch.  A removal carries the empty client id and is therefore never refused.
    All nodes are assumed to share the view [v] (that is the hypothesis of C14; what happens while views
    differ is runtime — see the known findings of C15). *)
From RN Require Import Naming.Distro Naming.DistroProofs Naming.Sync Naming.SyncProofs.
From Coq Require Import ZArith ZifyBool ZifyNat ZifyN.
Local Open Scope N_scope.

Definition no_client : N * N := (0, 0).
Definition hinst (val from : N) : sinst := mkInst val from no_client.

Section Http.
  Variable v : view.                (* the cluster view shared by the live nodes *)
  Variable hash : N -> N.           (* DefaultHasher of the service key of an instance key *)

  (** [update_instance]: a non-gRPC instance of a service in the node's own range is stored as locally
      owned ([from_cluster = 0], client id cleared) *)
  Definition store_at (n : N) (k : N) (i : sinst) : sinst :=
    if owns v n (hash k) then mkInst (si_val i) 0 no_client else i.

  (** effect on node [n] of `POST /nacos/v1/ns/instance` received by the live node [E] *)
  Definition http_write_at (n E k val : N) (r : sreg) : sreg :=
    match route_target v E (hash k) with
    | Some ow =>
        if n =? ow then aset k (store_at n k (hinst val 0)) r                 (* NamingCmd::Update on the owner *)
        else if n =? E then aset k (store_at n k (hinst val ow)) r            (* UpdateFromSync on the entry node *)
        else r
    | None => r
    end.

  (** effect on node [n] of `DELETE /nacos/v1/ns/instance` received by [E]: NamingCmd::Delete on the owner
      and on the entry node, with the (empty) client id of the request *)
  Definition http_delete_at (n E k : N) (r : sreg) : sreg :=
    match route_target v E (hash k) with
    | Some ow => if (n =? ow) || (n =? E) then fst (reg_remove r k (Some no_client)) else r
    | None => r
    end.

  (** what the owner's delay actor is told ([do_notify]; a removal only for a locally owned instance) *)
  Definition http_write_note (k val : N) : note := (k, (hinst val 0, true)).
  Definition http_delete_notes (ow k : N) (row : sreg) : list note := snd (reg_remove row k (Some no_client)).

  (** SyncBatchInstances from the owner [ow] applied on node [n]: DeleteBatch, then UpdateBatch through
      [update_instance] *)
  Definition http_batch_at (n ow : N) (m : smsg) (r : sreg) : sreg :=
    match m with
    | MBatch upd rem =>
        fold_left (fun r p => aset (fst p) (store_at n (fst p) (snd p)) r) (reset_all ow upd)
                  (fst (reg_delete_batch r rem))
    | _ => r
    end.

  (** one complete step: the write, the owner's 500 ms flush, the delivery to every other node *)
  Definition flush_of (ns : list note) : option smsg := fst (delay_flush (delay_notify_all [] ns)).

  Definition after_flush (n ow : N) (ns : list note) (r : sreg) : sreg :=
    if n =? ow then r else match flush_of ns with Some m => http_batch_at n ow m r | None => r end.

  (** time-out applies on the owner only: [is_enable_timeout] = ephemeral && !from_grpc && from_cluster == 0 *)
  Definition timeout_enabled (i : sinst) : bool := si_from i =? 0.
End Http.

(** * proofs *)

Lemma flush_single : forall nt, flush_of [nt] =
  Some (MBatch (if snd (snd nt) then [(fst nt, fst (snd nt))] else [])
               (if snd (snd nt) then [] else [(fst nt, fst (snd nt))])).
Proof.
  intros [k [i b]]. unfold flush_of, delay_notify_all, delay_notify, delay_flush. cbn [fold_left filter fst snd map].
  destruct b; reflexivity.
Qed.

(** update then remove of one key inside one window: only the removal is sent; remove then update:
    only the update (instances of [batch_last_op_wins]) *)
Lemma flush_update_then_remove : forall k i o,
  flush_of [(k, (i, true)); (k, (o, false))] = Some (MBatch [] [(k, o)]).
Proof.
  intros k i o. unfold flush_of, delay_notify_all, delay_notify, delay_flush.
  cbn [fold_left filter fst snd map negb]. rewrite N.eqb_refl. cbn [negb filter map fst snd]. reflexivity.
Qed.

Lemma flush_remove_then_update : forall k i o,
  flush_of [(k, (o, false)); (k, (i, true))] = Some (MBatch [(k, i)] []).
Proof.
  intros k i o. unfold flush_of, delay_notify_all, delay_notify, delay_flush.
  cbn [fold_left filter fst snd map negb]. rewrite N.eqb_refl. cbn [negb filter map fst snd]. reflexivity.
Qed.

Section HttpProofs.
  Variable v : view.
  Variable hash : N -> N.
  Hypothesis ND : NoDup (ids v).

  (** C14: every live node routes to the one live node that considers itself the owner *)
  Lemma routed_owner : forall E k, live v E ->
    exists ow, route_target v E (hash k) = Some ow /\ live v ow /\ owns v ow (hash k) = true /\
              (forall n, live v n -> n <> ow -> owns v n (hash k) = false).
  Proof.
    intros E k LE.
    destruct (one_owner_and_route_agrees v (hash k) ND (ex_intro _ E LE)) as [ow [[Low Oow] [U R]]].
    exists ow. split; [apply R; exact LE|]. split; [exact Low|]. split; [exact Oow|].
    intros n Ln Hne. destruct (owns v n (hash k)) eqn:E1; [|reflexivity]. exfalso. apply Hne. apply U; assumption.
  Qed.

  (** [http_register_converges]: an HTTP registration handed to ANY live node, once the owner's batch is
      delivered, is held by EVERY live node with the registered payload: as the locally owned, time-out
      supervised instance on the owner and as a copy attributed to the owner everywhere else *)
  Theorem http_register_converges : forall E k val n (r : sreg),
    live v E -> live v n ->
    exists ow, route_target v E (hash k) = Some ow /\ live v ow /\
      let r' := after_flush v hash n ow [http_write_note k val] (http_write_at v hash n E k val r) in
      aget k r' = Some (hinst val (if n =? ow then 0 else ow)) /\
      (timeout_enabled (hinst val (if n =? ow then 0 else ow)) = true <-> n = ow \/ ow = 0).
  Proof.
    intros E k val n r LE Ln. destruct (routed_owner E k LE) as [ow [HR [Low [Oow Now]]]].
    exists ow. split; [exact HR|]. split; [exact Low|]. cbn zeta.
    unfold after_flush, http_write_at. rewrite HR, flush_single. cbn [http_write_note fst snd].
    destruct (n =? ow) eqn:Enow.
    - apply N.eqb_eq in Enow. subst n. split.
      + rewrite aget_aset, N.eqb_refl. unfold store_at. rewrite Oow. reflexivity.
      + unfold timeout_enabled, hinst. cbn [si_from]. split; [auto|reflexivity].
    - apply N.eqb_neq in Enow. assert (Hown : owns v n (hash k) = false) by (apply Now; assumption).
      split.
      + unfold http_batch_at. cbn [reg_delete_batch fst reset_all map fold_left snd].
        rewrite aget_aset, N.eqb_refl. unfold store_at. rewrite Hown. unfold reset_from, hinst. cbn [si_from N.eqb si_val si_client].
        reflexivity.
      + unfold timeout_enabled, hinst. cbn [si_from]. rewrite N.eqb_eq. split; [intros H; right; exact H|].
        intros [H|H]; [contradiction|exact H].
  Qed.

  (** the registries of all live nodes agree on the key (owner node, payload): the [gview] of Sync.v *)
  Corollary http_register_all_agree : forall E k val n1 n2 (r1 r2 : sreg),
    live v E -> live v n1 -> live v n2 -> (forall n, live v n -> n <> 0) ->
    forall ow, route_target v E (hash k) = Some ow ->
      gview (mkNode n1 (after_flush v hash n1 ow [http_write_note k val] (http_write_at v hash n1 E k val r1)) []) k =
      gview (mkNode n2 (after_flush v hash n2 ow [http_write_note k val] (http_write_at v hash n2 E k val r2)) []) k.
  Proof.
    intros E k val n1 n2 r1 r2 LE L1 L2 NZ ow HR.
    destruct (http_register_converges E k val n1 r1 LE L1) as [ow1 [H1 [Low1 [G1 _]]]].
    destruct (http_register_converges E k val n2 r2 LE L2) as [ow2 [H2 [_ [G2 _]]]].
    rewrite HR in H1, H2. inversion H1; inversion H2; subst ow1 ow2.
    unfold gview. cbn [sn_reg sn_id]. rewrite G1, G2. unfold owner_at, hinst. cbn [si_from si_client si_val].
    assert (How : ow <> 0) by (apply NZ; exact Low1).
    destruct (n1 =? ow) eqn:E1; destruct (n2 =? ow) eqn:E2; cbn [N.eqb];
      try (apply N.eqb_eq in E1); try (apply N.eqb_eq in E2); subst;
      try rewrite N.eqb_refl; apply N.eqb_neq in How; try rewrite How; reflexivity.
  Qed.

  (** [http_deregister_converges]: after a deregistration handed to any live node and the delivery of the
      owner's batch, Now live node holds the instance — whatever each node held before, provided the owner
      held it as its own HTTP instance (empty client id, from_cluster = 0) and the others hold HTTP copies *)
  Theorem http_deregister_converges : forall E k n (rn row : sreg) val,
    live v E -> live v n ->
    forall ow, route_target v E (hash k) = Some ow ->
      aget k row = Some (hinst val 0) ->
      (forall i, aget k rn = Some i -> si_client i = no_client) ->
      (n = ow -> rn = row) ->
      aget k (after_flush v hash n ow (http_delete_notes ow k row) (http_delete_at v hash n E k rn)) = None.
  Proof.
    intros E k n rn row val LE Ln ow HR Gow Hcl Heq.
    assert (Notes : http_delete_notes ow k row = [(k, (hinst val 0, false))]).
    { unfold http_delete_notes, reg_remove. rewrite Gow. unfold refused, hinst. cbn [si_client si_from].
      rewrite cid_eqb_refl. reflexivity. }
    unfold after_flush, http_delete_at. rewrite HR, Notes, flush_single. cbn [fst snd].
    assert (Rm : forall r, (forall i, aget k r = Some i -> si_client i = no_client) ->
                           aget k (fst (reg_remove r k (Some no_client))) = None).
    { intros r H. rewrite aget_reg_remove, N.eqb_refl. destruct (aget k r) as [o|] eqn:G; [|reflexivity].
      unfold refused. rewrite (H o eq_refl), cid_eqb_refl. reflexivity. }
    destruct (n =? ow) eqn:Enow; cbn [orb].
    - apply Rm. exact Hcl.
    - unfold http_batch_at. cbn [reset_all map fold_left].
      rewrite aget_reg_delete_batch. cbn [existsb fst snd].
      destruct (n =? E).
      + rewrite (Rm rn Hcl). reflexivity.
      + destruct (aget k rn) as [o|] eqn:G; [|reflexivity].
        rewrite N.eqb_refl, (Hcl o eq_refl). unfold hinst. cbn [si_client andb orb]. rewrite cid_eqb_refl. reflexivity.
  Qed.

  (** interplay with the batching theorem: registration and deregistration of one key inside ONE 500 ms
      window of the owner's delay actor — the other nodes are sent the removal only and end without the
      instance (whatever copy they held) *)
  Theorem http_register_then_deregister_in_one_window : forall k val n ow (rn : sreg),
    n <> ow -> (forall i, aget k rn = Some i -> si_client i = no_client) ->
    aget k (after_flush v hash n ow [http_write_note k val; (k, (hinst val 0, false))] rn) = None.
  Proof.
    intros k val n ow rn Hne Hcl. unfold after_flush. apply N.eqb_neq in Hne. rewrite Hne.
    unfold http_write_note. rewrite flush_update_then_remove. unfold http_batch_at. cbn [reset_all map fold_left].
    rewrite aget_reg_delete_batch. cbn [existsb fst snd]. destruct (aget k rn) as [o|] eqn:G; [|reflexivity].
    rewrite N.eqb_refl, (Hcl o eq_refl). unfold hinst. cbn [si_client andb orb]. rewrite cid_eqb_refl. reflexivity.
  Qed.

  (** ... and deregistration followed by a new registration inside one window: only the update is sent,
      every other node ends with the new payload *)
  Theorem http_deregister_then_register_in_one_window : forall k val old n ow (rn : sreg),
    n <> ow -> owns v n (hash k) = false ->
    aget k (after_flush v hash n ow [(k, (hinst old 0, false)); http_write_note k val] rn) = Some (hinst val ow).
  Proof.
    intros k val old n ow rn Hne Hown. unfold after_flush. apply N.eqb_neq in Hne. rewrite Hne.
    unfold http_write_note. rewrite flush_remove_then_update. unfold http_batch_at.
    cbn [reg_delete_batch fst reset_all map fold_left snd]. rewrite aget_aset, N.eqb_refl.
    unfold store_at. rewrite Hown. unfold reset_from, hinst. cbn [si_from N.eqb si_val si_client]. reflexivity.
  Qed.
End HttpProofs.

(** * the state transfers are unconditional: refutations matching the known findings of C15
      (observed on three real processes: http-sync-stale-state:snapshot / :ownership) *)

(** a Snapshot (or a 15 s beat batch: an update batch) built BEFORE a deregistration and applied AFTER it
    restores the instance on the receiver: there is no version and no tombstone *)
Theorem stale_snapshot_restores_deregistered :
  exists (R : snode) (k ow : N) (is : list (N * sinst)),
    aget k (sn_reg R) = None /\                                   (* the deregistration has converged on R *)
    aget k (sn_reg (fst (fst (recv R ow (MSnapshot is))))) <> None /\
    aget k (sn_reg (fst (fst (recv R ow (MBatch is []))))) <> None.
Proof.
  exists (mkNode 2 [] []), 7, 1, [(7, hinst 5 0)]. split; [reflexivity|]. split; vm_compute; discriminate.
Qed.

(** ... and overwrites a newer acknowledged payload with the older one *)
Theorem stale_snapshot_overwrites_update :
  exists (R : snode) (k ow : N) (is : list (N * sinst)),
    aget k (sn_reg R) = Some (hinst 7 1) /\
    aget k (sn_reg (fst (fst (recv R ow (MSnapshot is))))) = Some (hinst 8 1).
Proof.
  exists (mkNode 2 [(4, hinst 7 1)] []), 4, 1, [(4, hinst 8 0)]. split; reflexivity.
Qed.

(** non-vacuity: the view {1 down, 2, 3} of C14, a hash owned by node 3, entry node 2 *)
Example http_example :
  let v := [(1, false); (2, true); (3, true)] in
  let hash := fun k : N => k in
  NoDup (ids v) /\ live v 2 /\ live v 3 /\ route_target v 2 (hash 11) = Some 3 /\
  map (fun n => aget 11 (after_flush v hash n 3 [http_write_note 11 6] (http_write_at v hash n 2 11 6 [])))
      [2; 3] = [Some (hinst 6 3); Some (hinst 6 0)] /\
  map (fun n => aget 11 (after_flush v hash n 3 (http_delete_notes 3 11 [(11, hinst 6 0)])
                                     (http_delete_at v hash n 2 11 [(11, hinst 6 (if n =? 3 then 0 else 3))])))
      [2; 3] = [None; None].
Proof.
  cbn zeta. split; [apply ascending_NoDup; reflexivity|]. split; [apply liveb_live; reflexivity|].
  split; [apply liveb_live; reflexivity|]. vm_compute. repeat split; reflexivity.
Qed.
